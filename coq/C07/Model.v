(* C07 — model of candidate selection for voluntary disruption:
     pkg/controllers/state/statenode.go      ValidateNodeDisruptable, ValidatePodsDisruptable, Labels/Annotations,
                                             Registered/Initialized/Deleted/MarkedForDeletion/Nominate/Nominated
     pkg/controllers/state/cluster.go        MarkForDeletion / UnmarkForDeletion / NominateNodeForPod (per-node memory)
     pkg/controllers/disruption/types.go     NewCandidate, IsEmpty, OwnedByStaticNodePool
     pkg/controllers/disruption/helpers.go   GetCandidates, BuildNodePoolMap
     pkg/controllers/disruption/{consolidation,emptiness,drift,staticdrift}.go   ShouldDisrupt, Class
     pkg/utils/pod/scheduling.go             IsActive, IsReschedulable, IsEvictable, IsDisruptable, IsDoNotDisruptActive
     pkg/utils/pdb/pdb.go                    CanEvictPods / isEvictable (zeroDisruptions)
     pkg/utils/disruption/disruption.go      EvictionCost, IsUnderConsolidateAfter
     pkg/controllers/nodeclaim/disruption/consolidation.go   Consolidation.Reconcile
   Executable definitions only. Time and durations are Z nanoseconds. Label / annotation keys are the
   short symbols the harness substitutes for the real constants (v1.NodePoolLabelKey -> "np", ...).
   The boolean oracle of the property ([eligible_b], [holds_b]) is at the end; it is written against the
   property text, not against the step-by-step code, and is proved equivalent to the Prop spec in Proofs.v. *)
From Coq Require Export ZArith String List Bool Lia.
Export ListNotations.
Open Scope string_scope.
Open Scope Z_scope.

(* ------------------------------------------------------------------ maps *)
Definition smap := list (string * string).

Fixpoint lookup (k : string) (m : smap) : option string :=
  match m with
  | [] => None
  | (k', v) :: r => if String.eqb k k' then Some v else lookup k r
  end.
Definition get (k : string) (m : smap) : string := match lookup k m with Some v => v | None => "" end.   (* m[k] *)
Definition has (k : string) (m : smap) : bool := match lookup k m with Some _ => true | None => false end. (* _, ok := m[k] *)

Definition K_POOL := "np".        (* v1.NodePoolLabelKey *)
Definition K_IT := "it".          (* corev1.LabelInstanceTypeStable *)
Definition K_CT := "ct".          (* v1.CapacityTypeLabelKey *)
Definition K_ZONE := "zone".      (* corev1.LabelTopologyZone *)
Definition K_REG := "reg".        (* v1.NodeRegisteredLabelKey *)
Definition K_INIT := "init".      (* v1.NodeInitializedLabelKey *)
Definition K_DND := "dnd".        (* v1.DoNotDisruptAnnotationKey *)
Definition K_DISRUPTED := "disrupted". (* v1.DisruptedTaintKey *)

(* ------------------------------------------------------------------ API objects *)
Inductive cstatus := CTrue | CFalse | CUnknown.
Definition cond_true (c : option cstatus) : bool := match c with Some CTrue => true | _ => false end. (* Get(t).IsTrue() *)

Record claim := mkClaim {
  c_labels : smap; c_annos : smap;
  c_deleting : bool;                    (* !DeletionTimestamp.IsZero() *)
  c_terminating : option cstatus;       (* InstanceTerminating *)
  c_consolidatable : option cstatus;    (* Consolidatable *)
  c_drifted : option cstatus;           (* Drifted *)
  c_tgp : bool }.                       (* Spec.TerminationGracePeriod != nil *)

Record knode := mkNode { k_labels : smap; k_annos : smap; k_deleting : bool }.

Record tol := mkTol { t_key : string; t_op : string; t_value : string; t_effect : string }.

(* value of the pod's do-not-disrupt annotation: "true", something time.ParseDuration accepts
   (nanoseconds, any sign), or anything else *)
Inductive dndval := DTrue | DDur (d : Z) | DBad.

Record pod := mkPod {
  p_ns : string; p_name : string; p_labels : smap;
  p_phase : string; p_terminating : bool;
  p_owners : list (string * string);    (* (apiVersion, kind) *)
  p_tols : list tol;
  p_dnd : option dndval;
  p_start : option Z;                   (* Status.StartTime *)
  p_conds : list (string * string);     (* (type, status) *)
  p_delcost : option Z;                 (* controller.kubernetes.io/pod-deletion-cost, when it parses *)
  p_prio : option Z }.                  (* Spec.Priority *)

Record pdb := mkPdb {
  b_ns : string; b_name : string;
  b_sel : option (smap * list (string * string * list string));
                                        (* Spec.Selector: None = nil (selects nothing); Some (matchLabels, matchExpressions
                                           as (key, operator, values)); both empty = {} selects every pod of the namespace *)
  b_allowed : Z;                        (* Status.DisruptionsAllowed *)
  b_always : bool }.                    (* UnhealthyPodEvictionPolicy = AlwaysAllow *)

Record pool := mkPool {
  pl_name : string;
  pl_managed : bool;                    (* nodepoolutils.IsManaged *)
  pl_its : option (list string);        (* cloudProvider.GetInstanceTypes: None = error *)
  pl_static : bool;                     (* Spec.Replicas != nil *)
  pl_after : option Z;                  (* Spec.Disruption.ConsolidateAfter.Duration *)
  pl_policy : string;
  pl_tgp : option Z }.                  (* Spec.Template.Spec.TerminationGracePeriod: part of the input, read by nothing in
                                           candidate selection (only the NodeClaim's own TGP counts, see new_candidate) *)

(* one entry of cluster.nodes *)
Record snode := mkSNode {
  s_id : string;                        (* providerID *)
  s_claim : option claim; s_node : option knode;
  s_pods : list pod;                    (* pods bound to Node.Name, in List order *)
  s_queued : bool;                      (* queue.HasAny(providerID) *)
  s_buffer : Z }.                       (* cluster.BufferPodCount(providerID) *)

(* in-memory state of one entry of cluster.nodes: the protection memory and which of the two API objects the
   entry currently holds (an entry holding neither does not exist) *)
Record mem := mkMem {
  m_marked : bool; m_until : option Z;   (* markedForDeletion, nominatedUntil (None = zero time) *)
  m_claim : bool; m_node : bool }.       (* NodeClaim != nil, Node != nil *)

Inductive op :=
| OMark (id : string) | OUnmark (id : string) | ONominate (id : string)
| OTick (dt : Z)
| ODelNode (id : string)                 (* cluster.DeleteNode *)
| ODelClaim (id : string)                (* cluster.DeleteNodeClaim *)
| ORefresh (id : string) (c k : bool).   (* UpdateNodeClaim (if c) + UpdateNode (if k) with the node's objects *)

Inductive fault := FNone | FPods | FPdbs | FPools.    (* which List call fails; FPdbs also: pdb.NewLimits fails on an unparsable selector *)

Record world := mkWorld {
  w_t0 : Z; w_bm : Z;                   (* clock at start; options.BatchMaxDuration *)
  w_fault : fault;
  w_pools : list pool; w_pdbs : list pdb; w_nodes : list snode;
  w_ops : list op }.

Inductive method := Emptiness | StaticDrift | Drift | MultiNode | SingleNode.
Definition methods := [Emptiness; StaticDrift; Drift; MultiNode; SingleNode].   (* disruption.NewMethods order *)
Definition eventual (m : method) : bool := match m with StaticDrift | Drift => true | _ => false end. (* Class() *)
Definition is_consolidation (m : method) : bool := match m with Emptiness | MultiNode | SingleNode => true | _ => false end.

(* ------------------------------------------------------------------ in-memory state under operations *)
Record dyn := mkDyn { d_now : Z; d_mem : list (string * mem) }.

Definition mem0 := mkMem false None false false.       (* no entry *)
Definition is_set {A} (o : option A) : bool := match o with Some _ => true | None => false end.
Definition mem_init (n : snode) : mem := mkMem false None (is_set (s_claim n)) (is_set (s_node n)).
Definition alive (m : mem) : bool := m_claim m || m_node m.
Fixpoint mem_of (ms : list (string * mem)) (id : string) : mem :=
  match ms with
  | [] => mem0
  | (i, m) :: r => if String.eqb id i then m else mem_of r id
  end.
Definition upd (id : string) (f : mem -> mem) (ms : list (string * mem)) : list (string * mem) :=
  map (fun im => if String.eqb id (fst im) then (fst im, f (snd im)) else im) ms.

Definition sec := 1000000000.
Definition nom_window (bm : Z) : Z := Z.max (2 * bm) (10 * sec).      (* nominationWindow *)

(* `if n, ok := c.nodes[id]; ok { ... }` *)
Definition f_mark (m : mem) : mem := if alive m then mkMem true (m_until m) (m_claim m) (m_node m) else m.
Definition f_unmark (m : mem) : mem := if alive m then mkMem false (m_until m) (m_claim m) (m_node m) else m.
Definition f_nominate (until : Z) (m : mem) : mem :=
  if alive m then mkMem (m_marked m) (Some until) (m_claim m) (m_node m) else m.
(* cleanupNode: the entry goes away with its last object, otherwise only the Node pointer is dropped *)
Definition f_delnode (m : mem) : mem :=
  if m_node m then (if m_claim m then mkMem (m_marked m) (m_until m) true false else mem0) else m.
(* cleanupNodeClaim *)
Definition f_delclaim (m : mem) : mem :=
  if m_claim m then (if m_node m then mkMem (m_marked m) (m_until m) false true else mem0) else m.
(* newStateFromNodeClaim / newStateFromNode carry markedForDeletion and nominatedUntil over *)
Definition f_refresh (c k : bool) (m : mem) : mem := mkMem (m_marked m) (m_until m) (m_claim m || c) (m_node m || k).

Definition step (bm : Z) (d : dyn) (o : op) : dyn :=
  match o with
  | OMark id => mkDyn (d_now d) (upd id f_mark (d_mem d))
  | OUnmark id => mkDyn (d_now d) (upd id f_unmark (d_mem d))
  | ONominate id => mkDyn (d_now d) (upd id (f_nominate (d_now d + nom_window bm)) (d_mem d))
  | OTick dt => mkDyn (d_now d + dt) (d_mem d)
  | ODelNode id => mkDyn (d_now d) (upd id f_delnode (d_mem d))
  | ODelClaim id => mkDyn (d_now d) (upd id f_delclaim (d_mem d))
  | ORefresh id c k => mkDyn (d_now d) (upd id (f_refresh c k) (d_mem d))
  end.

Definition init_dyn (w : world) : dyn := mkDyn (w_t0 w) (map (fun n => (s_id n, mem_init n)) (w_nodes w)).
Definition final (w : world) : dyn := fold_left (step (w_bm w)) (w_ops w) (init_dyn w).
(* the StateNode as cluster state holds it after the history *)
Definition eff (n : snode) (m : mem) : snode :=
  mkSNode (s_id n) (if m_claim m then s_claim n else None) (if m_node m then s_node n else None)
          (s_pods n) (s_queued n) (s_buffer n).
Definition final_nodes (w : world) : list snode :=
  map (fun n => eff n (mem_of (d_mem (final w)) (s_id n))) (w_nodes w).
Definition nominated (now : Z) (m : mem) : bool := match m_until m with Some u => now <? u | None => false end.

(* ------------------------------------------------------------------ StateNode accessors *)
Definition registered (n : snode) : bool :=
  match s_claim n with
  | Some _ => match s_node n with Some k => String.eqb (get K_REG (k_labels k)) "true" | None => false end
  | None => true
  end.
Definition initialized (n : snode) : bool :=
  match s_claim n with
  | Some _ => match s_node n with Some k => String.eqb (get K_INIT (k_labels k)) "true" | None => false end
  | None => true
  end.
Definition pick {A} (n : snode) (fc : claim -> A) (fk : knode -> A) (dflt : A) : A :=
  match s_node n, s_claim n with
  | None, Some c => fc c
  | None, None => dflt
  | Some k, None => fk k
  | Some k, Some c => if registered n then fk k else fc c
  end.
Definition labels (n : snode) : smap := pick n c_labels k_labels [].
Definition annos (n : snode) : smap := pick n c_annos k_annos [].
Definition deleted (n : snode) : bool :=
  match s_claim n with
  | Some c => c_deleting c || cond_true (c_terminating c)
  | None => match s_node n with Some k => k_deleting k | None => false end
  end.

Inductive nerr := NOk | NQueued | NUnmanaged | NNoNode | NUninit | NDeleting | NNominated | NDnd | NNoPoolLabel.

(* ValidateNodeDisruptable *)
Definition validate_node_only (now : Z) (m : mem) (n : snode) : nerr :=
  match s_claim n with None => NUnmanaged | Some _ =>
  match s_node n with None => NNoNode | Some _ =>
  if negb (initialized n) then NUninit else
  if m_marked m || deleted n then NDeleting else
  if nominated now m then NNominated else
  if String.eqb (get K_DND (annos n)) "true" then NDnd else
  if negb (has K_POOL (labels n)) then NNoPoolLabel else NOk
  end end.
(* queue.HasAny followed by ValidateNodeDisruptable (the head of NewCandidate) *)
Definition validate_node (now : Z) (m : mem) (n : snode) : nerr :=
  if s_queued n then NQueued else validate_node_only now m n.

(* ------------------------------------------------------------------ pods *)
Definition is_terminal (p : pod) : bool := String.eqb (p_phase p) "Failed" || String.eqb (p_phase p) "Succeeded".
Definition is_active (p : pod) : bool := negb (is_terminal p) && negb (p_terminating p).
Definition owned_by (api kind : string) (p : pod) : bool :=
  existsb (fun o => String.eqb (fst o) api && String.eqb (snd o) kind) (p_owners p).
Definition owned_by_ds := owned_by "apps/v1" "DaemonSet".
Definition owned_by_sts := owned_by "apps/v1" "StatefulSet".
Definition owned_by_node := owned_by "v1" "Node".
Definition is_reschedulable (p : pod) : bool :=
  (is_active p || (owned_by_sts p && p_terminating p)) && negb (owned_by_ds p) && negb (owned_by_node p).

(* Toleration.ToleratesTaint against {Key: disrupted, Value: "", Effect: NoSchedule}; Lt/Gt need a decimal taint value *)
Definition tolerates_taint (t : tol) : bool :=
  if negb (String.eqb (t_effect t) "") && negb (String.eqb (t_effect t) "NoSchedule") then false else
  if negb (String.eqb (t_key t) "") && negb (String.eqb (t_key t) K_DISRUPTED) then false else
  if String.eqb (t_op t) "" || String.eqb (t_op t) "Equal" then String.eqb (t_value t) ""
  else String.eqb (t_op t) "Exists".
Definition tolerates (p : pod) : bool := existsb tolerates_taint (p_tols p).

(* IsDoNotDisruptActive *)
Definition dnd_active (now : Z) (p : pod) : bool :=
  match p_dnd p with
  | None => false
  | Some DTrue => true
  | Some DBad => false
  | Some (DDur d) =>
      if d <=? 0 then false else
      match p_start p with None => true | Some s => now - s <? d end
  end.
Definition is_disruptable (now : Z) (p : pod) : bool := negb (is_active p) || negb (dnd_active now p).
Definition is_evictable (now : Z) (p : pod) : bool :=
  is_active p && negb (tolerates p) && negb (owned_by_node p) && negb (dnd_active now p).

(* labels.Requirement.Matches, for the selector LabelSelectorAsSelector builds *)
Definition req_matches (ls : smap) (r : string * string * list string) : bool :=
  let '(k, op, vs) := r in
  match lookup k ls with
  | Some v =>
      if String.eqb op "In" then existsb (String.eqb v) vs
      else if String.eqb op "NotIn" then negb (existsb (String.eqb v) vs)
      else String.eqb op "Exists"                      (* DoesNotExist: false *)
  | None => String.eqb op "NotIn" || String.eqb op "DoesNotExist"
  end.
Definition sel_matches (sel : option (smap * list (string * string * list string))) (ls : smap) : bool :=
  match sel with
  | None => false
  | Some (kvs, reqs) =>
      forallb (fun kv => match lookup (fst kv) ls with Some v => String.eqb v (snd kv) | None => false end) kvs
      && forallb (req_matches ls) reqs
  end.
Definition pdb_matches (p : pod) (b : pdb) : bool := String.eqb (b_ns b) (p_ns p) && sel_matches (b_sel b) (p_labels p).
Definition ready_false (p : pod) : bool :=
  existsb (fun c => String.eqb (fst c) "Ready" && String.eqb (snd c) "False") (p_conds p).

(* Limits.isEvictable(pod, zeroDisruptions): true = evictable *)
Definition pod_evict_ok (now : Z) (pdbs : list pdb) (p : pod) : bool :=
  if negb (is_evictable now p) then true else
  match filter (pdb_matches p) pdbs with
  | [] => true
  | [b] => if b_always b && ready_false p then true else negb (b_allowed b =? 0)
  | _ => false
  end.

Inductive pres := POk | PBlocked | PErr.    (* nil / PodBlockEvictionError / any other error *)

Definition pods_of (n : snode) : list pod := match s_node n with Some _ => s_pods n | None => [] end.

(* ValidatePodsDisruptable *)
Definition validate_pods (f : fault) (now : Z) (pdbs : list pdb) (n : snode) : pres :=
  match s_node n, f with
  | Some _, FPods => PErr
  | _, _ =>
    if existsb (fun p => negb (is_disruptable now p)) (pods_of n) then PBlocked
    else if existsb (fun p => negb (pod_evict_ok now pdbs p)) (pods_of n) then PBlocked
    else POk
  end.

(* EvictionCost in units of 2^-27 (exact for integer deletion costs and priorities in the int32 range) *)
Definition unit27 := 134217728.
Definition clampZ (lo hi x : Z) : Z := Z.max lo (Z.min hi x).
Definition evict_cost (p : pod) : Z :=
  clampZ (- 10 * unit27) (10 * unit27)
    (unit27 + match p_delcost p with Some c => c | None => 0 end + 4 * match p_prio p with Some q => q | None => 0 end).
(* RescheduleDisruptionCost - PerNodeBaseDisruptionCost *)
Definition resched_cost (ps : list pod) : Z := fold_right (fun p acc => Z.max 0 (evict_cost p) + acc) 0 ps.

(* ------------------------------------------------------------------ candidates *)
Record cand := mkCand {
  cd_node : snode; cd_claim : claim; cd_pool : pool; cd_has_it : bool; cd_resched : list pod }.

Definition find_pool (name : string) (pools : list pool) : option pool :=
  find (fun pl => String.eqb (pl_name pl) name && pl_managed pl) pools.
Definition pool_its (pl : pool) : option (list string) :=
  match pl_its pl with Some (x :: r) => Some (x :: r) | _ => None end.   (* no map entry on error or empty list *)

(* NewCandidate *)
Definition new_candidate (w : world) (d : dyn) (ev : bool) (n : snode) : option cand :=
  match validate_node (d_now d) (mem_of (d_mem d) (s_id n)) n with
  | NOk =>
    match s_claim n, find_pool (get K_POOL (labels n)) (w_pools w) with
    | Some c, Some pl =>
      match pool_its pl with
      | None => None
      | Some its =>
        let mk := Some (mkCand n c pl (existsb (String.eqb (get K_IT (labels n))) its)
                               (filter is_reschedulable (pods_of n))) in
        match validate_pods (w_fault w) (d_now d) (w_pdbs w) n with
        | POk => mk
        | PBlocked => if c_tgp c && ev then mk else None
        | PErr => None
        end
      end
    | _, _ => None
    end
  | _ => None
  end.

Definition is_empty (c : cand) : bool := resched_cost (cd_resched c) <=? 0.           (* Candidate.IsEmpty *)

(* consolidation.ShouldDisrupt *)
Definition should_consolidate (c : cand) : bool :=
  if pl_static (cd_pool c) then false else
  if negb (cd_has_it c) then false else
  if negb (has K_CT (labels (cd_node c))) then false else
  if negb (has K_ZONE (labels (cd_node c))) then false else
  if negb (is_set (pl_after (cd_pool c))) then false else
  if is_empty c then false else
  if String.eqb (pl_policy (cd_pool c)) "WhenEmpty" then false else
  cond_true (c_consolidatable (cd_claim c)).

Definition should_disrupt (m : method) (c : cand) : bool :=
  match m with
  | Emptiness =>
      if pl_static (cd_pool c) then false else
      if negb (is_set (pl_after (cd_pool c))) then false else
      if 0 <? s_buffer (cd_node c) then false else
      is_empty c && cond_true (c_consolidatable (cd_claim c))
  | StaticDrift => pl_static (cd_pool c) && cond_true (c_drifted (cd_claim c))
  | Drift => negb (pl_static (cd_pool c)) && cond_true (c_drifted (cd_claim c))
  | MultiNode | SingleNode => should_consolidate c
  end.

Definition is_candidate (w : world) (d : dyn) (m : method) (n : snode) : bool :=
  match new_candidate w d (eventual m) n with Some c => should_disrupt m c | None => false end.

(* GetCandidates: None = the call returns an error *)
Definition get_candidates (w : world) (m : method) : option (list string) :=
  match w_fault w with
  | FPools | FPdbs => None
  | _ => Some (map s_id (filter (is_candidate w (final w) m) (final_nodes w)))
  end.

(* ------------------------------------------------------------------ Consolidatable condition maintenance *)
Record cinput := mkCI {
  ci_now : Z;
  ci_after : option Z;                  (* nodePool ConsolidateAfter *)
  ci_init : option cstatus; ci_init_ltt : Z;   (* Initialized condition and its LastTransitionTime *)
  ci_last_pod : option Z;               (* Status.LastPodEventTime, None = zero *)
  ci_cond : option cstatus }.           (* Consolidatable before the reconcile *)

Definition time_to_check (i : cinput) : Z := match ci_last_pod i with Some t => t | None => ci_init_ltt i end.

(* disruptionutils.IsUnderConsolidateAfter *)
Definition under_consolidate_after (i : cinput) : bool :=
  match ci_after i with
  | None => false
  | Some a =>
      if a =? 0 then false else
      if negb (cond_true (ci_init i)) then false else
      ci_now i - time_to_check i <? a
  end.

(* Consolidation.Reconcile: resulting Consolidatable condition, RequeueAfter (0 = none) *)
Definition reconcile_consolidatable (i : cinput) : option cstatus * Z :=
  match ci_after i with
  | None => (None, 0)
  | Some a =>
      if negb (cond_true (ci_init i)) then (None, 0) else
      if under_consolidate_after i then (None, time_to_check i + a - ci_now i)
      else (Some CTrue, 0)
  end.

(* ------------------------------------------------------------------ the property's oracle
   Written from the property text. A candidate for method m must satisfy [eligible_b]. *)
Definition o_deleting (m : mem) (n : snode) : bool :=
  m_marked m
  || match s_claim n with Some c => c_deleting c || cond_true (c_terminating c) | None => false end
  || match s_node n with Some k => match s_claim n with None => k_deleting k | Some _ => false end | None => false end.

(* the do-not-disrupt annotation of the pod is in force *)
Definition o_dnd_in_force (now : Z) (p : pod) : bool :=
  is_active p &&
  match p_dnd p with
  | Some DTrue => true
  | Some (DDur d) => (0 <? d) && match p_start p with Some s => now <? s + d | None => true end
  | _ => false
  end.

(* Karpenter would call the eviction API for the pod and a PDB refuses it *)
Definition o_pdb_blocks (now : Z) (pdbs : list pdb) (p : pod) : bool :=
  is_active p && negb (tolerates p) && negb (owned_by_node p) && negb (o_dnd_in_force now p) &&
  let ms := filter (pdb_matches p) pdbs in
  (1 <? Z.of_nat (length ms)) ||
  existsb (fun b => (b_allowed b <=? 0) && negb (b_always b && ready_false p)) ms.

Definition o_pod_blocked (now : Z) (pdbs : list pdb) (n : snode) : bool :=
  existsb (fun p => o_dnd_in_force now p || o_pdb_blocks now pdbs p) (pods_of n).

(* "empty" as the code base defines it (designs/balanced-consolidation.md): no reschedulable pod
   contributes positive disruption cost *)
Definition o_empty (n : snode) : bool :=
  forallb (fun p => negb (is_reschedulable p) || (evict_cost p <=? 0)) (pods_of n).
(* the literal reading: no reschedulable pod at all *)
Definition o_literally_empty (n : snode) : bool := forallb (fun p => negb (is_reschedulable p)) (pods_of n).

Definition o_pool (w : world) (n : snode) : option pool :=
  find (fun pl => String.eqb (pl_name pl) (get K_POOL (labels n)) && pl_managed pl) (w_pools w).

(* what the property asks of the pool and the NodeClaim conditions, per method *)
Definition method_req_b (m : method) (pl : pool) (c : claim) (n : snode) : bool :=
  match m with
  | Drift => negb (pl_static pl) && cond_true (c_drifted c)
  | StaticDrift => pl_static pl && cond_true (c_drifted c)
  | Emptiness =>
      negb (pl_static pl) && is_set (pl_after pl) && cond_true (c_consolidatable c)
      && o_empty n && (s_buffer n <=? 0)
  | MultiNode | SingleNode =>
      negb (pl_static pl) && is_set (pl_after pl) && cond_true (c_consolidatable c)
      && negb (o_empty n) && negb (String.eqb (pl_policy pl) "WhenEmpty")
  end.

Definition eligible_b (w : world) (d : dyn) (m : method) (n : snode) : bool :=
  let me := mem_of (d_mem d) (s_id n) in
  match s_claim n, s_node n with
  | Some c, Some k =>
      String.eqb (get K_INIT (k_labels k)) "true"                       (* initialized *)
      && negb (o_deleting me n)                                         (* not deleting / marked *)
      && negb (nominated (d_now d) me)                                  (* not recently nominated *)
      && negb (String.eqb (get K_DND (annos n)) "true")                 (* not annotated do-not-disrupt *)
      && negb (s_queued n)                                              (* not already being disrupted *)
      && (negb (o_pod_blocked (d_now d) (w_pdbs w) n) || (eventual m && c_tgp c))
      && match o_pool w n with
         | None => false
         | Some pl => method_req_b m pl c n
         end
  | _, _ => false
  end.

(* what the code requires beyond the property (needed only for the exact characterisation) *)
Definition extra_b (w : world) (m : method) (n : snode) : bool :=
  has K_POOL (labels n)
  && match w_fault w with FPods => false | _ => true end
  && match o_pool w n with
     | None => false
     | Some pl =>
         match pool_its pl with
         | None => false
         | Some its =>
             match m with
             | MultiNode | SingleNode =>
                 existsb (String.eqb (get K_IT (labels n))) its && has K_CT (labels n) && has K_ZONE (labels n)
             | _ => true
             end
         end
     end.

(* every observed candidate id of every method names an eligible node *)
Definition holds_m (w : world) (m : method) (ids : list string) : bool :=
  forallb (fun id => existsb (fun n => String.eqb (s_id n) id && eligible_b w (final w) m n) (final_nodes w)) ids.

(* oracle for the condition controller: True exactly when consolidateAfter is set, the claim is
   initialized and consolidateAfter has elapsed since the last pod event (or initialization) *)
Definition consolidatable_spec_b (i : cinput) : bool :=
  match ci_after i with
  | None => false
  | Some a => cond_true (ci_init i) && ((a =? 0) || (a <=? ci_now i - time_to_check i))
  end.
