(* C11 — NodePoolState in the closing round, and the one pod-delivery shape that needs the round. *)
From KV Require Import C11.Model C11.Proofs C11.Check C11.Proofs2.

Ltac seq3 :=
  repeat match goal with
  | H : (?a =s ?b) = true |- _ => apply String.eqb_eq in H; first [subst a | subst b | idtac]
  | H : (?a =s ?b) = false |- _ => apply String.eqb_neq in H
  end.

(* ================= a pod re-written under the same name on the same node ================= *)
Definition set_pod (a : api) (p : podobj) : api := mkApi (a_nodes a) (a_claims a) (aset (p_key p) p (a_pods a)).

Lemma pod_on_set_pod a p m key :
  pod_on (set_pod a p) m key = if key =s p_key p then (if on_node m p then Some p else None) else pod_on a m key.
Proof. unfold pod_on, set_pod; cbn [a_pods]. rewrite aget_aset. destruct (key =s p_key p); reflexivity. Qed.

(* what [stale_rewrite] tests, on the entry the pod is delivered to *)
Definition clean_rewrite (s : snode) (p : podobj) : Prop :=
  (p_ds p = false -> aget (p_key p) (sn_dsr s) = None) /\
  (p_ds p = true -> aget (p_key p) (sn_costs s) = None) /\
  (forall e, aget (p_key p) (sn_pods s) = Some e -> forall v, In v (e_vols e) -> In v (p_vols p)).

(* If the entry of node m is exact for the API before the write, the delivery of the re-written pod makes
   it exact for the API after the write - unless the cached entry of that pod is a daemonset entry the pod no
   longer justifies, a disruption cost a daemonset pod must not have, or lists a volume the pod dropped. *)
Lemma rewritten_pod_settled_l a m s p : keyed p_key (a_pods a) ->
  rebuilt a m s -> on_node m p = true -> clean_rewrite s p ->
  rebuilt (set_pod a p) m (update_for_pod s p).
Proof.
  intros Hk (R1 & R2 & R3 & R4) Hon (C1 & C2 & C3).
  assert (Hk' : keyed p_key (a_pods (set_pod a p))) by (apply keyed_aset, Hk).
  split; [|split; [|split]]; cbn [update_for_pod sn_pods sn_dsr sn_costs sn_vun].
  - intros key. rewrite pod_on_set_pod, aget_aset. destruct (key =s p_key p); [rewrite Hon; reflexivity|apply R1].
  - intros key. rewrite pod_on_set_pod. destruct (p_ds p) eqn:Ed.
    + rewrite aget_aset. destruct (key =s p_key p); [rewrite Hon, Ed; reflexivity|apply R2].
    + destruct (key =s p_key p) eqn:E; seq3; [rewrite Hon, Ed; apply C1; reflexivity|apply R2].
  - intros key. rewrite pod_on_set_pod. destruct (p_ds p) eqn:Ed.
    + destruct (key =s p_key p) eqn:E; seq3; [rewrite Hon, Ed; apply C2; reflexivity|apply R3].
    + destruct (0 <? p_cost p) eqn:Ec.
      * rewrite aget_aset. destruct (key =s p_key p); [rewrite Hon, Ed, Ec; reflexivity|apply R3].
      * rewrite aget_adel. destruct (key =s p_key p); [rewrite Hon, Ed, Ec; reflexivity|apply R3].
  - intros v. rewrite mem_app, R4. apply bool_eq_iff. rewrite orb_true_iff, !spec_vol_iff by assumption. split.
    + intros [(k & q & Eq & Hv)|Hv].
      * destruct (string_dec k (p_key p)) as [->|Hne].
        -- exists (p_key p), p. rewrite pod_on_set_pod, seqb_refl, Hon. split; [reflexivity|].
           apply (C3 (pent_of q)); [rewrite R1, Eq; reflexivity|exact Hv].
        -- exists k, q. rewrite pod_on_set_pod. apply String.eqb_neq in Hne. rewrite Hne. auto.
      * exists (p_key p), p. rewrite pod_on_set_pod, seqb_refl, Hon. split; [reflexivity|apply mem_true_iff, Hv].
    + intros (k & q & Eq & Hv). rewrite pod_on_set_pod in Eq. destruct (k =s p_key p) eqn:E.
      * rewrite Hon in Eq. injection Eq as <-. right. apply mem_true_iff, Hv.
      * left. exists k, q. auto.
Qed.

(* and each of the three conditions is needed: without it the delivered entry is NOT exact *)
Lemma rewritten_pod_needs_clean_l :
  exists a m s p, keyed p_key (a_pods a) /\ rebuilt a m s /\ on_node m p = true /\
                  ~ rebuilt (set_pod a p) m (update_for_pod s p).
Proof.
  set (p0 := mkPod "default/p0" "n0" false true (100, 64) (0, 0) 134217728 [] ["drv1|default/pvc-a"]).
  set (p1 := mkPod "default/p0" "n0" false false (100, 64) (0, 0) 134217728 [] []).
  set (a := mkApi [] [] [("default/p0", p0)]).
  exists a, "n0", (update_for_pod (mkSN None None [] [] [] [] false) p0), p1.
  split; [split; [repeat constructor; simpl; tauto|intros k v [[= <- <-]|[]]; reflexivity]|].
  split.
  - apply (populated_rebuilt a "n0" (mkSN None None [] [] [] [] false)); try reflexivity.
    split; [repeat constructor; simpl; tauto|intros k v [[= <- <-]|[]]; reflexivity].
  - split; [reflexivity|]. intros (_ & R2 & _). specialize (R2 "default/p0"). vm_compute in R2. discriminate.
Qed.

(* ================= NodePoolState: set operations ================= *)
Lemma mem_cons x y l : mem x (y :: l) = (x =s y) || mem x l.
Proof. reflexivity. Qed.

Lemma mem_sins x k l : mem x (sins k l) = (x =s k) || mem x l.
Proof.
  unfold sins. destruct (mem k l) eqn:E; [|reflexivity].
  destruct (x =s k) eqn:E2; [|reflexivity]. seq3. rewrite E. reflexivity.
Qed.

Lemma mem_sdel x k l : mem x (sdel k l) = negb (x =s k) && mem x l.
Proof.
  unfold sdel. induction l as [|y l IH]; [cbn; rewrite andb_false_r; reflexivity|].
  cbn [filter]. destruct (k =s y) eqn:E; cbn [negb].
  - seq3. rewrite IH, mem_cons. destruct (x =s y); reflexivity.
  - rewrite !mem_cons, IH. destruct (x =s y) eqn:E2; [|reflexivity]. seq3.
    rewrite (seqb_sym y k). apply String.eqb_neq in E. rewrite E. reflexivity.
Qed.

Lemma NoDup_sdel k l : NoDup l -> NoDup (sdel k l).
Proof. intros H. unfold sdel. apply NoDup_filter, H. Qed.

Lemma NoDup_sins k l : NoDup l -> NoDup (sins k l).
Proof.
  intros H. unfold sins. destruct (mem k l) eqn:E; [exact H|]. constructor; [|exact H].
  intros Hin. apply mem_true_iff in Hin. congruence.
Qed.

Lemma ps_get_aset np np' v sets mp :
  ps_get np' (mkNPS (aset np v sets) mp) = if np' =s np then v else ps_get np' (mkNPS sets mp).
Proof. unfold ps_get; cbn [ps_sets]. rewrite aget_aset. destruct (np' =s np); reflexivity. Qed.

Lemma ps_get_mark_active np k st np' :
  ps_get np' (mark_active np k st) =
  if np' =s np then (sins k (fst (ps_get np st)), sdel k (snd (ps_get np st))) else ps_get np' st.
Proof.
  unfold mark_active. destruct (ps_get np st) as [a d] eqn:E. rewrite ps_get_aset. cbn [fst snd].
  destruct st; reflexivity.
Qed.

Lemma ps_get_mark_deleting np k st np' :
  ps_get np' (mark_deleting np k st) =
  if np' =s np then (sdel k (fst (ps_get np st)), sins k (snd (ps_get np st))) else ps_get np' st.
Proof.
  unfold mark_deleting. destruct (ps_get np st) as [a d] eqn:E. rewrite ps_get_aset. cbn [fst snd].
  destruct st; reflexivity.
Qed.

Lemma ps_map_mark_active np k st : ps_map (mark_active np k st) = ps_map st.
Proof. unfold mark_active. destruct (ps_get np st). reflexivity. Qed.
Lemma ps_map_mark_deleting np k st : ps_map (mark_deleting np k st) = ps_map st.
Proof. unfold mark_deleting. destruct (ps_get np st). reflexivity. Qed.

(* NodePoolState.UpdateNodeClaim, for a labelled and named claim *)
Lemma nps_update_spec cl b st : c_pool cl <> "" -> c_name cl <> "" ->
  ps_map (nps_update cl b st) = aset (c_name cl) (c_pool cl) (ps_map st) /\
  forall np', ps_get np' (nps_update cl b st) =
    if np' =s c_pool cl
    then (if b then (sdel (c_name cl) (fst (ps_get (c_pool cl) st)), sins (c_name cl) (snd (ps_get (c_pool cl) st)))
          else (sins (c_name cl) (fst (ps_get (c_pool cl) st)), sdel (c_name cl) (snd (ps_get (c_pool cl) st))))
    else ps_get np' st.
Proof.
  intros Hp Hn. unfold nps_update. apply String.eqb_neq in Hp. apply String.eqb_neq in Hn. rewrite Hp, Hn.
  set (st1 := mkNPS _ _).
  assert (G : forall np, ps_get np st1 = ps_get np st).
  { intros np. unfold st1, ps_get; cbn [ps_sets]. destruct (aget (c_pool cl) (ps_sets st)) eqn:E; [reflexivity|].
    rewrite aget_aset. destruct (np =s c_pool cl) eqn:E2; [|reflexivity]. seq3. rewrite E. reflexivity. }
  destruct b.
  - rewrite ps_map_mark_deleting. split; [reflexivity|]. intros np'. rewrite ps_get_mark_deleting, !G. reflexivity.
  - rewrite ps_map_mark_active. split; [reflexivity|]. intros np'. rewrite ps_get_mark_active, !G. reflexivity.
Qed.

Lemma nps_update_unlabelled cl b st : c_pool cl = "" -> nps_update cl b st = st.
Proof. intros E. unfold nps_update. rewrite E. reflexivity. Qed.

(* NodePoolState.Cleanup *)
Lemma nps_cleanup_spec k st :
  ps_map (nps_cleanup k st) = adel k (ps_map st) /\
  forall np', ps_get np' (nps_cleanup k st) =
    if np' =s sget k (ps_map st)
    then (sdel k (fst (ps_get (sget k (ps_map st)) st)), sdel k (snd (ps_get (sget k (ps_map st)) st)))
    else ps_get np' st.
Proof.
  split; [reflexivity|]. intros np'. unfold nps_cleanup. set (np := sget k (ps_map st)).
  unfold ps_get at 2 3. destruct (aget np (ps_sets st)) as [[a d]|] eqn:E; cbn [fst snd].
  - destruct (sdel k a) as [|x a'] eqn:Ea; destruct (sdel k d) as [|y d'] eqn:Ed;
      try (rewrite ps_get_aset; destruct (np' =s np); [reflexivity|destruct st; reflexivity]).
    unfold ps_get; cbn [ps_sets]. rewrite aget_adel. destruct (np' =s np); reflexivity.
  - destruct (np' =s np) eqn:E2; [|destruct st; reflexivity]. seq3. unfold ps_get; cbn [ps_sets]. rewrite E. reflexivity.
Qed.

(* ================= frame facts of the cache operations ================= *)
Ltac c_simpl3 := cbn [nodes binds n2p c2p npr panicked with_nodes with_binds with_n2p with_c2p with_npr upr_c panic].

Lemma c2p_cleanup_node a m c : CohI a c -> c2p (cleanup_node m c) = c2p c.
Proof.
  intros H. destruct (aget m (n2p c)) as [X|] eqn:E; [|rewrite cleanup_node_none; auto].
  destruct (cleanup_node_some a c m X H E) as (s' & nd' & _ & _ & _ & ->). destruct (sn_claim s'); reflexivity.
Qed.

Lemma c2p_update_node a nd c : CohI a c -> c2p (update_node a nd c) = c2p c.
Proof.
  intros H. destruct (trackable nd) eqn:Ht; [|unfold update_node, update_node_gen; rewrite Ht; reflexivity].
  destruct (un_c2_facts a nd c H) as (H2 & _ & _). rewrite update_node_eq by (assumption || apply H2). c_simpl3.
  pose proof (same_ids_populate (n_name nd) (a_pods a) (un_n0 nd c) c) as S1. fold (un_c1 a nd c) in S1.
  assert (H1 : CohI a (un_c1 a nd c)) by (eapply CohI_same_ids; eauto).
  destruct S1 as (_ & _ & S1 & _).
  unfold un_c2. destruct (aget (n_name nd) (n2p (un_c1 a nd c))) as [id|] eqn:En1; [|exact S1].
  destruct (id =s epid nd); [exact S1|]. rewrite (c2p_cleanup_node a) by exact H1. exact S1.
Qed.

Lemma c2p_cleanup_claim a k c : CohI a c -> c2p (cleanup_claim k c) = adel k (c2p c).
Proof.
  intros H. destruct (sget k (c2p c) =s "") eqn:E0.
  { seq3. rewrite cleanup_claim_unlaunched, (ci_np _ _ H) by assumption. reflexivity. }
  assert (exists X', aget k (c2p c) = Some X' /\ X' <> "") as (X' & E & Hx).
  { unfold sget in E0. destruct (aget k (c2p c)) as [X'|]; [|discriminate]. exists X'. seq3. auto. }
  destruct (cleanup_claim_some a c k X' H E Hx) as (s' & cl & _ & _ & _ & ->). destruct (sn_node s'); reflexivity.
Qed.

Lemma c2p_update_claim a cl c k' : CohI a c ->
  aget k' (c2p (update_claim cl c)) = if k' =s c_name cl then Some (c_pid cl) else aget k' (c2p c).
Proof.
  intros H. destruct (c_pid cl =s "") eqn:Ep; seq3.
  { rewrite update_claim_unlaunched by (assumption || apply H). c_simpl3. rewrite aget_aset, Ep. reflexivity. }
  destruct (uc_c1_facts a cl c H Ep) as (H1 & _ & _).
  rewrite update_claim_eq by (assumption || apply H1). c_simpl3. rewrite aget_aset.
  destruct (k' =s c_name cl) eqn:E; [reflexivity|]. seq3.
  unfold uc_c1. destruct (aget (c_name cl) (c2p c)); [|reflexivity].
  destruct (s =s c_pid cl); [reflexivity|]. rewrite (c2p_cleanup_claim a) by exact H. apply aget_adel_other, E.
Qed.

(* NodeClaim and mark of an entry *)
Definition ocm (Y : string) (c : cache) : option (option claimobj * bool) :=
  match aget Y (nodes c) with Some s => Some (sn_claim s, sn_marked s) | None => None end.

Lemma ocm_same_ids Y c c' : same_ids c c' -> ocm Y c' = ocm Y c.
Proof.
  intros (_ & _ & _ & O). specialize (O Y). unfold oid, ocm in *.
  destruct (aget Y (nodes c')) as [s'|], (aget Y (nodes c)) as [s|]; simpl in O; try discriminate; [|reflexivity].
  assert (Hi : ident s' = ident s) by congruence. apply ident_fields in Hi. destruct Hi as (_ & -> & ->). reflexivity.
Qed.

Lemma ocm_cleanup_node a Y c m cl b : CohI a c -> ocm Y c = Some (Some cl, b) -> ocm Y (cleanup_node m c) = Some (Some cl, b).
Proof.
  intros H Ho. destruct (aget m (n2p c)) as [X|] eqn:E; [|rewrite cleanup_node_none; assumption].
  destruct (cleanup_node_some a c m X H E) as (s & nd & F1 & F2 & F3 & ->).
  unfold ocm in *. destruct (sn_claim s) as [cl0|] eqn:EC; c_simpl3.
  - rewrite aget_aset. destruct (Y =s X) eqn:Ey; seq3; [|exact Ho]. rewrite F1 in Ho. simpl. congruence.
  - rewrite aget_adel. destruct (Y =s X) eqn:Ey; seq3; [|exact Ho]. rewrite F1 in Ho. congruence.
Qed.

Lemma ocm_update_node a Y c nd cl b : CohI a c -> ocm Y c = Some (Some cl, b) -> ocm Y (update_node a nd c) = Some (Some cl, b).
Proof.
  intros H Ho. destruct (trackable nd) eqn:Ht; [|unfold update_node, update_node_gen; rewrite Ht; exact Ho].
  destruct (un_c2_facts a nd c H) as (H2 & O2 & N2).
  rewrite update_node_eq by (assumption || apply H2).
  pose proof (same_ids_populate (n_name nd) (a_pods a) (un_n0 nd c) c) as S1. fold (un_c1 a nd c) in S1.
  assert (Ho2 : ocm Y (un_c2 a nd c) = Some (Some cl, b)).
  { unfold un_c2. destruct (aget (n_name nd) (n2p (un_c1 a nd c))); [|rewrite (ocm_same_ids _ _ _ S1); exact Ho].
    destruct (s =s epid nd); [rewrite (ocm_same_ids _ _ _ S1); exact Ho|].
    eapply ocm_cleanup_node; [eapply CohI_same_ids; eauto|]. rewrite (ocm_same_ids _ _ _ S1). exact Ho. }
  unfold ocm. c_simpl3. rewrite aget_aset. destruct (Y =s epid nd) eqn:Ey; seq3; [|exact Ho2].
  destruct (pop_ident (n_name nd) (a_pods a) (un_n0 nd c)) as (_ & I2 & I3). unfold un_n1. rewrite I2, I3.
  unfold un_n0, un_old. cbn [sn_claim sn_marked]. unfold ocm in Ho. destruct (aget (epid nd) (nodes c)); [exact Ho|discriminate].
Qed.

(* claim operations on another name leave the entry of a launched claim alone *)
Lemma cleanup_claim_entry_other a c k k' Y : CohI a c -> k' <> k -> aget k (c2p c) = Some Y -> Y <> "" ->
  aget Y (nodes (cleanup_claim k' c)) = aget Y (nodes c).
Proof.
  intros H Hne Ek Hy. destruct (sget k' (c2p c) =s "") eqn:E0.
  { seq3. rewrite cleanup_claim_unlaunched, (ci_np _ _ H) by assumption. reflexivity. }
  assert (exists X', aget k' (c2p c) = Some X' /\ X' <> "") as (X' & E & Hx).
  { unfold sget in E0. destruct (aget k' (c2p c)) as [X'|]; [|discriminate]. exists X'. seq3. auto. }
  destruct (cleanup_claim_some a c k' X' H E Hx) as (s' & cl' & F1 & F2 & F3 & ->).
  assert (Hxy : X' <> Y) by (intros ->; apply Hne; eapply ci_c2p_inj; eauto).
  destruct (sn_node s'); c_simpl3; [apply aget_aset_other|apply aget_adel_other]; congruence.
Qed.

Lemma update_claim_entry_other a c cl' k Y : api_ok a -> CohI a c -> aget (c_name cl') (a_claims a) = Some cl' ->
  c_name cl' <> k -> aget k (c2p c) = Some Y -> Y <> "" -> Y <> c_pid cl' ->
  aget Y (nodes (update_claim cl' c)) = aget Y (nodes c).
Proof.
  intros Hok H Ea Hne Ek Hy Hyp. destruct (c_pid cl' =s "") eqn:Ep; seq3.
  { rewrite update_claim_unlaunched by (assumption || apply H). reflexivity. }
  destruct (uc_c1_facts a cl' c H Ep) as (H1 & _ & _).
  rewrite update_claim_eq by (assumption || apply H1). c_simpl3. rewrite aget_aset_other by assumption.
  unfold uc_c1. destruct (aget (c_name cl') (c2p c)); [|reflexivity].
  destruct (s =s c_pid cl'); [reflexivity|]. eapply cleanup_claim_entry_other; eauto.
Qed.

Lemma sn_mfd_claim s cl : sn_claim s = Some cl -> sn_mfd s = sn_marked s || c_gone cl.
Proof. intros E. unfold sn_mfd, sn_deleted. rewrite E. reflexivity. Qed.

(* ================= NodePoolState in the closing round ================= *)
Definition claims_named (a : api) : Prop := forall k cl, aget k (a_claims a) = Some cl -> k <> "".

Record NInv (a : api) (c : cache) (st : npstate) : Prop := {
  ni_nodup : forall np, NoDup (fst (ps_get np st)) /\ NoDup (snd (ps_get np st));
  ni_member : forall np k, np <> "" -> mem k (fst (ps_get np st)) = true \/ mem k (snd (ps_get np st)) = true ->
                aget k (ps_map st) = Some np;
  ni_mapped : forall k np, aget k (ps_map st) = Some np -> np <> "" /\ aget k (c2p c) <> None;
  ni_label : forall k np cl, aget k (ps_map st) = Some np -> aget k (a_claims a) = Some cl -> c_pool cl = np
}.

(* the step of the pair (cache, NodePoolState) within a round *)
Definition step2 (a : api) (s : cache * npstate) (o : op) : cache * npstate :=
  (cache_step a (fst s) o, nps_step a (fst s) (cache_step a (fst s) o) o (snd s)).

Lemma nps_step_claim_some a c k cl st : CohI a c -> CohI a (update_claim cl c) -> aget k (a_claims a) = Some cl ->
  nps_step a c (update_claim cl c) (DeliverClaim k) st =
  nps_update cl (match aget (c_pid cl) (nodes (update_claim cl c)) with Some s => sn_mfd s | None => false end)
    (if c_pid cl =s "" then st else
     match aget k (c2p c) with Some id => if id =s c_pid cl then st else nps_cleanup k st | None => st end).
Proof. intros H H' E. unfold nps_step. rewrite (ci_np _ _ H), E, (ci_np _ _ H'). reflexivity. Qed.

Lemma nps_step_claim_none a c k st : CohI a c -> CohI a (cleanup_claim k c) -> aget k (a_claims a) = None ->
  nps_step a c (cleanup_claim k c) (DeliverClaim k) st = nps_cleanup k st.
Proof. intros H H' E. unfold nps_step. rewrite (ci_np _ _ H), E, (ci_np _ _ H'). reflexivity. Qed.

Lemma cache_step_claim a c k : CohI a c ->
  cache_step a c (DeliverClaim k) = match aget k (a_claims a) with Some cl => update_claim cl c | None => cleanup_claim k c end.
Proof. intros H. unfold cache_step, cache_step_gen. rewrite (ci_np _ _ H). reflexivity. Qed.

(* removing a claim name from NodePoolState *)
Lemma NInv_cleanup a c c' k st : NInv a c st -> (forall k', k' <> k -> aget k' (c2p c') = aget k' (c2p c)) ->
  NInv a c' (nps_cleanup k st) /\ aget k (ps_map (nps_cleanup k st)) = None /\
  (forall np, np <> "" -> mem k (fst (ps_get np (nps_cleanup k st))) = false /\ mem k (snd (ps_get np (nps_cleanup k st))) = false) /\
  (forall np k', k' <> k -> mem k' (fst (ps_get np (nps_cleanup k st))) = mem k' (fst (ps_get np st)) /\
                           mem k' (snd (ps_get np (nps_cleanup k st))) = mem k' (snd (ps_get np st))).
Proof.
  intros H Hc. destruct (nps_cleanup_spec k st) as [M G].
  assert (Other : forall np k', k' <> k -> mem k' (fst (ps_get np (nps_cleanup k st))) = mem k' (fst (ps_get np st)) /\
                                         mem k' (snd (ps_get np (nps_cleanup k st))) = mem k' (snd (ps_get np st))).
  { intros np k' Hne. rewrite G. destruct (np =s sget k (ps_map st)) eqn:E; [|auto]. seq3. cbn [fst snd].
    rewrite !mem_sdel. apply String.eqb_neq in Hne. rewrite Hne. auto. }
  assert (This : forall np, np <> "" -> mem k (fst (ps_get np (nps_cleanup k st))) = false /\ mem k (snd (ps_get np (nps_cleanup k st))) = false).
  { intros np Hnp. rewrite G. destruct (np =s sget k (ps_map st)) eqn:E.
    - cbn [fst snd]. rewrite !mem_sdel, seqb_refl. auto.
    - seq3. split.
      + destruct (mem k (fst (ps_get np st))) eqn:Em; [|reflexivity]. exfalso. apply E.
        unfold sget. rewrite (ni_member _ _ _ H np k Hnp (or_introl Em)). reflexivity.
      + destruct (mem k (snd (ps_get np st))) eqn:Em; [|reflexivity]. exfalso. apply E.
        unfold sget. rewrite (ni_member _ _ _ H np k Hnp (or_intror Em)). reflexivity. }
  split; [|split; [rewrite M; apply aget_adel_same|split; assumption]].
  constructor.
  - intros np. rewrite G. destruct (np =s sget k (ps_map st)); cbn [fst snd]; [|apply (ni_nodup _ _ _ H)].
    destruct (ni_nodup _ _ _ H (sget k (ps_map st))). split; apply NoDup_sdel; assumption.
  - intros np k' Hnp Hm. rewrite M. destruct (string_dec k' k) as [->|Hne].
    + destruct (This np Hnp) as [T1 T2]. rewrite T1, T2 in Hm. destruct Hm; discriminate.
    + rewrite aget_adel_other by assumption. destruct (Other np k' Hne) as [O1 O2]. rewrite O1, O2 in Hm.
      apply (ni_member _ _ _ H); assumption.
  - intros k' np. rewrite M, aget_adel. destruct (k' =s k) eqn:E; [discriminate|]. seq3. intros F.
    destruct (ni_mapped _ _ _ H _ _ F) as [N1 N2]. split; [exact N1|]. rewrite Hc by assumption. exact N2.
  - intros k' np cl. rewrite M, aget_adel. destruct (k' =s k); [discriminate|]. apply (ni_label _ _ _ H).
Qed.

(* entering / refreshing a labelled claim *)
Lemma NInv_update a c c' cl b st : NInv a c st -> c_pool cl <> "" -> c_name cl <> "" ->
  aget (c_name cl) (a_claims a) = Some cl ->
  (forall np, aget (c_name cl) (ps_map st) = Some np -> np = c_pool cl) ->
  aget (c_name cl) (c2p c') <> None -> (forall k', k' <> c_name cl -> aget k' (c2p c') = aget k' (c2p c)) ->
  NInv a c' (nps_update cl b st).
Proof.
  intros H Hp Hn Ea Hlab Hk Hc. destruct (nps_update_spec cl b st Hp Hn) as [M G].
  set (k := c_name cl) in *. set (pool := c_pool cl) in *.
  constructor.
  - intros np. rewrite G. destruct (np =s pool); [|apply (ni_nodup _ _ _ H)].
    destruct (ni_nodup _ _ _ H pool). destruct b; cbn [fst snd]; split;
      first [apply NoDup_sdel; assumption | apply NoDup_sins; assumption].
  - intros np k' Hnp Hm. rewrite M, aget_aset. destruct (k' =s k) eqn:Ek; seq3.
    + (* k itself: it is a member of its own pool's sets only *)
      rewrite G in Hm. destruct (np =s pool) eqn:E; seq3; [reflexivity|].
      f_equal. symmetry. apply Hlab. apply (ni_member _ _ _ H np k Hnp Hm).
    + rewrite G in Hm. destruct (np =s pool) eqn:E; seq3; [|apply (ni_member _ _ _ H); assumption].
      apply (ni_member _ _ _ H); [assumption|].
      apply String.eqb_neq in Ek. destruct b; cbn [fst snd] in Hm; rewrite mem_sins, mem_sdel, Ek in Hm; simpl in Hm; exact Hm.
  - intros k' np. rewrite M, aget_aset. destruct (k' =s k) eqn:Ek; seq3.
    + intros [= <-]. auto.
    + intros F. destruct (ni_mapped _ _ _ H _ _ F) as [N1 N2]. split; [exact N1|]. rewrite Hc by assumption. exact N2.
  - intros k' np cl'. rewrite M, aget_aset. destruct (k' =s k) eqn:Ek; seq3.
    + intros [= <-] F. fold k in Ea. assert (cl' = cl) by congruence. subst cl'. reflexivity.
    + apply (ni_label _ _ _ H).
Qed.

Lemma NInv_same a c c' st : NInv a c st -> c2p c' = c2p c -> NInv a c' st.
Proof. intros H E. constructor; try apply H. intros k np F. rewrite E. apply (ni_mapped _ _ _ H _ _ F). Qed.

Lemma NInv_step a c st o : api_ok a -> claims_named a -> CohI a c -> is_deliver o -> NInv a c st ->
  NInv a (fst (step2 a (c, st) o)) (snd (step2 a (c, st) o)).
Proof.
  intros Hok Hcn H Ho Hn. unfold step2; cbn [fst snd].
  pose proof (CohI_deliver a c o Hok Ho H) as H'.
  destruct o; try contradiction.
  - (* node *)
    assert (E : c2p (cache_step a c (DeliverNode name)) = c2p c).
    { unfold cache_step, cache_step_gen. rewrite (ci_np _ _ H). unfold deliver_node_gen. cbn [current v_keep_aggs].
      fold cleanup_node. fold update_node. destruct (aget name (a_nodes a)); [apply (c2p_update_node a)|apply (c2p_cleanup_node a)]; exact H. }
    unfold nps_step. rewrite (ci_np _ _ H). apply (NInv_same a c); assumption.
  - (* claim *)
    rewrite cache_step_claim in * by exact H. destruct (aget name (a_claims a)) as [cl|] eqn:Ea.
    + pose proof (claim_named a _ _ Hok Ea) as Hname. pose proof (Hcn _ _ Ea) as Hne.
      rewrite (nps_step_claim_some a c name cl st H H' Ea).
      destruct (c_pool cl =s "") eqn:Ep; seq3.
      * (* unlabelled: NodePoolState.UpdateNodeClaim returns at once; such a name is never mapped *)
        rewrite nps_update_unlabelled by assumption.
        assert (Unm : aget name (ps_map st) = None).
        { destruct (aget name (ps_map st)) as [np|] eqn:F; [|reflexivity]. exfalso.
          pose proof (ni_label _ _ _ Hn _ _ _ F Ea). destruct (ni_mapped _ _ _ Hn _ _ F). congruence. }
        assert (Cl : nps_cleanup name st = mkNPS (ps_sets (nps_cleanup name st)) (adel name (ps_map st))) by reflexivity.
        assert (K : forall k', k' <> name -> aget k' (c2p (update_claim cl c)) = aget k' (c2p c)).
        { intros k' Hk'. rewrite (c2p_update_claim a) by exact H. rewrite Hname. apply String.eqb_neq in Hk'. rewrite Hk'. reflexivity. }
        assert (Keep : NInv a (update_claim cl c) st).
        { constructor; try apply Hn. intros k' np F. destruct (ni_mapped _ _ _ Hn _ _ F) as [N1 N2]. split; [exact N1|].
          destruct (string_dec k' name) as [->|Hk']; [congruence|]. rewrite K by assumption. exact N2. }
        destruct (c_pid cl =s ""); [exact Keep|]. destruct (aget name (c2p c)) as [id|]; [|exact Keep].
        destruct (id =s c_pid cl); [exact Keep|].
        (* Cleanup of an unmapped name changes nothing observable *)
        destruct (NInv_cleanup a c (update_claim cl c) name st Hn K) as (R & _). exact R.
      * assert (K : forall k', k' <> c_name cl -> aget k' (c2p (update_claim cl c)) = aget k' (c2p c)).
        { intros k' Hk'. rewrite (c2p_update_claim a) by exact H. apply String.eqb_neq in Hk'. rewrite Hk'. reflexivity. }
        assert (Kn : aget (c_name cl) (c2p (update_claim cl c)) <> None).
        { rewrite (c2p_update_claim a) by exact H. rewrite seqb_refl. discriminate. }
        rewrite <- Hname in Ea, Hne.
        assert (Base : forall st0, NInv a c st0 \/ True -> True) by auto.
        set (st1 := if c_pid cl =s "" then st else
                    match aget name (c2p c) with Some id => if id =s c_pid cl then st else nps_cleanup name st | None => st end).
        assert (H1 : NInv a c st1 /\ (forall np, aget (c_name cl) (ps_map st1) = Some np -> np = c_pool cl)).
        { assert (B0 : NInv a c st /\ (forall np, aget (c_name cl) (ps_map st) = Some np -> np = c_pool cl)).
          { split; [exact Hn|]. intros np F. symmetry. eapply (ni_label _ _ _ Hn); eauto. }
          unfold st1. destruct (c_pid cl =s ""); [exact B0|]. destruct (aget name (c2p c)); [|exact B0].
          destruct (s =s c_pid cl); [exact B0|].
          destruct (NInv_cleanup a c c name st Hn (fun _ _ => eq_refl)) as (R & M0 & _).
          split; [exact R|]. rewrite Hname. rewrite M0. discriminate. }
        destruct H1 as [H1 L1]. eapply NInv_update; eauto.
    + rewrite (nps_step_claim_none a c name st H H' Ea).
      assert (K : forall k', k' <> name -> aget k' (c2p (cleanup_claim name c)) = aget k' (c2p c)).
      { intros k' Hk'. rewrite (c2p_cleanup_claim a) by exact H. apply aget_adel_other, Hk'. }
      destruct (NInv_cleanup a c (cleanup_claim name c) name st Hn K) as (R & _). exact R.
  - (* pod *)
    assert (E : c2p (cache_step a c (DeliverPod key)) = c2p c).
    { unfold cache_step, cache_step_gen. rewrite (ci_np _ _ H). unfold deliver_pod_gen. cbn [current v_pending_noop]. fold update_pod.
      destruct (aget key (a_pods a)); [destruct (same_ids_update_pod p c) as (_ & _ & -> & _)|destruct (same_ids_completion key c) as (_ & _ & -> & _)]; reflexivity. }
    unfold nps_step. rewrite (ci_np _ _ H). apply (NInv_same a c); assumption.
Qed.

(* ---- settled membership of one claim name ---- *)
Definition SM (a : api) (c : cache) (st : npstate) (k : string) : Prop :=
  match aget k (a_claims a) with
  | Some cl =>
      c_pool cl <> "" ->
      aget k (ps_map st) = Some (c_pool cl) /\
      exists D, mem k (fst (ps_get (c_pool cl) st)) = negb D /\ mem k (snd (ps_get (c_pool cl) st)) = D /\
                (if c_pid cl =s "" then D = false
                 else exists b, ocm (c_pid cl) c = Some (Some cl, b) /\ D = b || c_gone cl)
  | None => aget k (ps_map st) = None
  end.

Lemma SM_deliver_claim a c st k : api_ok a -> claims_named a -> CohI a c -> NInv a c st ->
  SM a (fst (step2 a (c, st) (DeliverClaim k))) (snd (step2 a (c, st) (DeliverClaim k))) k.
Proof.
  intros Hok Hcn H Hn. unfold step2; cbn [fst snd].
  pose proof (CohI_deliver a c (DeliverClaim k) Hok I H) as H'.
  rewrite cache_step_claim in * by exact H. unfold SM. destruct (aget k (a_claims a)) as [cl|] eqn:Ea.
  - intros Hp. pose proof (claim_named a _ _ Hok Ea) as Hname. pose proof (Hcn _ _ Ea) as Hne.
    rewrite (nps_step_claim_some a c k cl st H H' Ea). rewrite <- Hname in Hne.
    match goal with |- context [nps_update cl ?b ?s1] => destruct (nps_update_spec cl b s1 Hp Hne) as [M G]; set (D := b) in * end.
    rewrite M, G, Hname, aget_aset_same, seqb_refl. split; [reflexivity|].
    exists D. rewrite <- Hname. destruct D eqn:ED; cbn [fst snd negb]; rewrite mem_sins, mem_sdel, seqb_refl; cbn [negb andb orb].
    + split; [reflexivity|split; [reflexivity|]]. destruct (c_pid cl =s "") eqn:Epid; seq3.
      * exfalso. unfold D in ED. rewrite Epid in ED. destruct (aget "" (nodes (update_claim cl c))) as [s|] eqn:F; [|discriminate].
        apply (ci_keys _ _ H' _ _ F). reflexivity.
      * destruct (update_claim_entry cl c Epid (ci_np _ _ H')) as (s & F1 & F2 & _ & F4 & _).
        unfold D in ED. rewrite F1 in ED. exists (sn_marked s). unfold ocm. rewrite F1, F2. split; [reflexivity|].
        rewrite <- (sn_mfd_claim s cl F2). symmetry. exact ED.
    + split; [reflexivity|split; [reflexivity|]]. destruct (c_pid cl =s "") eqn:Epid; seq3; [reflexivity|].
      destruct (update_claim_entry cl c Epid (ci_np _ _ H')) as (s & F1 & F2 & _ & F4 & _).
      unfold D in ED. rewrite F1 in ED. exists (sn_marked s). unfold ocm. rewrite F1, F2. split; [reflexivity|].
      rewrite <- (sn_mfd_claim s cl F2). symmetry. exact ED.
  - rewrite (nps_step_claim_none a c k st H H' Ea). destruct (nps_cleanup_spec k st) as [M _]. rewrite M. apply aget_adel_same.
Qed.

Lemma SM_preserved a c st k o : api_ok a -> claims_named a -> CohI a c -> NInv a c st -> SC a c k -> is_deliver o ->
  SM a c st k -> SM a (fst (step2 a (c, st) o)) (snd (step2 a (c, st) o)) k.
Proof.
  intros Hok Hcn H Hn Hsc Ho Hs.
  destruct o; try contradiction.
  - (* node: NodePoolState untouched; NodeClaim and mark of the entry kept *)
    unfold step2; cbn [fst snd]. unfold nps_step. rewrite (ci_np _ _ H).
    unfold SM in *. destruct (aget k (a_claims a)) as [cl|]; [|exact Hs].
    intros Hp. destruct (Hs Hp) as (M & D & D1 & D2 & D3). split; [exact M|]. exists D. split; [exact D1|split; [exact D2|]].
    destruct (c_pid cl =s ""); [exact D3|]. destruct D3 as (b & Ob & Eb). exists b. split; [|exact Eb].
    unfold cache_step, cache_step_gen. rewrite (ci_np _ _ H). unfold deliver_node_gen. cbn [current v_keep_aggs].
    fold cleanup_node. fold update_node.
    destruct (aget name (a_nodes a)); [eapply ocm_update_node|eapply ocm_cleanup_node]; eauto.
  - (* claim *)
    destruct (string_dec name k) as [->|Hne]; [apply SM_deliver_claim; assumption|].
    unfold step2; cbn [fst snd].
    pose proof (CohI_deliver a c (DeliverClaim name) Hok I H) as H'.
    rewrite cache_step_claim in * by exact H.
    (* membership and mapping of k are not touched by an operation on another name *)
    assert (Frame : forall st', 
              (aget k (ps_map st') = aget k (ps_map st)) ->
              (forall np, mem k (fst (ps_get np st')) = mem k (fst (ps_get np st)) /\ mem k (snd (ps_get np st')) = mem k (snd (ps_get np st))) ->
              forall c', (forall cl, aget k (a_claims a) = Some cl -> c_pid cl <> "" -> aget (c_pid cl) (nodes c') = aget (c_pid cl) (nodes c)) ->
              SM a c' st' k).
    { intros st' Fm Fg c' Fe. unfold SM in *. destruct (aget k (a_claims a)) as [cl|] eqn:Ea; [|congruence].
      intros Hp. destruct (Hs Hp) as (M & D & D1 & D2 & D3). rewrite Fm. split; [exact M|]. exists D.
      destruct (Fg (c_pool cl)) as [-> ->]. split; [exact D1|split; [exact D2|]].
      destruct (c_pid cl =s "") eqn:Epid; [exact D3|]. seq3. destruct D3 as (b & Ob & Eb). exists b. split; [|exact Eb].
      unfold ocm in *. rewrite (Fe cl eq_refl Epid). exact Ob. }
    assert (Cl : aget k (ps_map (nps_cleanup name st)) = aget k (ps_map st) /\
                 forall np, mem k (fst (ps_get np (nps_cleanup name st))) = mem k (fst (ps_get np st)) /\
                            mem k (snd (ps_get np (nps_cleanup name st))) = mem k (snd (ps_get np st))).
    { destruct (NInv_cleanup a c c name st Hn (fun _ _ => eq_refl)) as (_ & _ & _ & O).
      split; [|intros np; apply O; congruence]. destruct (nps_cleanup_spec name st) as [M _]. rewrite M. apply aget_adel_other. congruence. }
    (* the entry of k's claim, if launched *)
    assert (Ent : forall cl, aget k (a_claims a) = Some cl -> c_pid cl <> "" -> aget k (c2p c) = Some (c_pid cl)).
    { intros cl Ea _. unfold SC in Hsc. rewrite Ea in Hsc. apply Hsc. }
    destruct (aget name (a_claims a)) as [cl'|] eqn:Ea'.
    + pose proof (claim_named a _ _ Hok Ea') as Hname'. pose proof (Hcn _ _ Ea') as Hne'.
      rewrite (nps_step_claim_some a c name cl' st H H' Ea').
      set (st1 := if c_pid cl' =s "" then st else
                  match aget name (c2p c) with Some id => if id =s c_pid cl' then st else nps_cleanup name st | None => st end).
      assert (F1 : aget k (ps_map st1) = aget k (ps_map st) /\
                   forall np, mem k (fst (ps_get np st1)) = mem k (fst (ps_get np st)) /\ mem k (snd (ps_get np st1)) = mem k (snd (ps_get np st))).
      { unfold st1. destruct (c_pid cl' =s ""); [auto|]. destruct (aget name (c2p c)); [|auto]. destruct (s =s c_pid cl'); [auto|exact Cl]. }
      destruct F1 as [F1 F2].
      apply Frame.
      * destruct (c_pool cl' =s "") eqn:Ep; seq3; [rewrite nps_update_unlabelled by assumption; exact F1|].
        rewrite <- Hname' in Hne'. match goal with |- context [nps_update cl' ?b st1] => destruct (nps_update_spec cl' b st1 Ep Hne') as [M _] end.
        rewrite M, aget_aset_other by congruence. exact F1.
      * intros np. destruct (c_pool cl' =s "") eqn:Ep; seq3; [rewrite nps_update_unlabelled by assumption; apply F2|].
        rewrite <- Hname' in Hne'. match goal with |- context [nps_update cl' ?b st1] => destruct (nps_update_spec cl' b st1 Ep Hne') as [_ G] end.
        rewrite G. destruct (np =s c_pool cl') eqn:E; [|apply F2]. seq3.
        assert (Hk : (k =s c_name cl') = false) by (apply String.eqb_neq; congruence).
        destruct (F2 (c_pool cl')) as [<- <-].
        match goal with |- context [if ?b then _ else _] => destruct b end; cbn [fst snd]; rewrite mem_sins, mem_sdel, Hk; auto.
      * intros cl Ea Hpid.
        apply (update_claim_entry_other a c cl' k (c_pid cl));
          [exact Hok|exact H|rewrite Hname'; exact Ea'|congruence|apply Ent; assumption|exact Hpid|].
        intros Heq. apply Hne. destruct Hok as [_ (_ & U & _)]. symmetry. eapply (U k name cl cl'); eauto.
    + rewrite (nps_step_claim_none a c name st H H' Ea'). destruct Cl as [C1 C2]. apply Frame; [exact C1|exact C2|].
      intros cl Ea Hpid. eapply cleanup_claim_entry_other; eauto.
  - (* pod *)
    unfold step2; cbn [fst snd]. unfold nps_step. rewrite (ci_np _ _ H).
    assert (S : same_ids c (cache_step a c (DeliverPod key))).
    { unfold cache_step, cache_step_gen. rewrite (ci_np _ _ H). unfold deliver_pod_gen. cbn [current v_pending_noop]. fold update_pod.
      destruct (aget key (a_pods a)); [apply same_ids_update_pod|apply same_ids_completion]. }
    unfold SM in *. destruct (aget k (a_claims a)) as [cl|]; [|exact Hs].
    intros Hp. destruct (Hs Hp) as (M & D & D1 & D2 & D3). split; [exact M|]. exists D. split; [exact D1|split; [exact D2|]].
    destruct (c_pid cl =s ""); [exact D3|]. destruct D3 as (b & Ob & Eb). exists b. split; [|exact Eb].
    rewrite (ocm_same_ids _ _ _ S). exact Ob.
Qed.

(* ---- the round on the pair (cache, NodePoolState) ---- *)
Definition run_round2 (a : api) (s : cache * npstate) (r : list op) : cache * npstate := fold_left (step2 a) r s.

Lemma run_round2_fst a r : forall s, fst (run_round2 a s r) = run_round a (fst s) r.
Proof. induction r as [|o r IH]; intros s; [reflexivity|]. simpl. rewrite IH. reflexivity. Qed.

Definition R2 (a : api) (s : cache * npstate) : Prop := RInv a (fst s) /\ NInv a (fst s) (snd s).

Lemma R2_step a s o : api_ok a -> claims_named a -> is_deliver o -> R2 a s -> R2 a (step2 a s o).
Proof.
  destruct s as [c st]. intros Hok Hcn Ho [Hi Hn]. cbn [fst snd] in *. split.
  - apply RInv_step; assumption.
  - apply (NInv_step a c st o); try assumption. apply Hi.
Qed.

Lemma round2_keeps a (T : cache * npstate -> Prop) :
  (forall s o, R2 a s -> is_deliver o -> T s -> T (step2 a s o)) -> api_ok a -> claims_named a ->
  forall r s, Forall is_deliver r -> R2 a s -> T s -> T (run_round2 a s r).
Proof.
  intros Hp Hok Hcn. induction r as [|o r IH]; intros s Hr Hi Ht; [exact Ht|].
  inversion Hr; subst. change (T (run_round2 a (step2 a s o) r)).
  apply IH; [assumption|apply R2_step; assumption|apply Hp; assumption].
Qed.

Lemma round2_reaches a (T : cache * npstate -> Prop) (o0 : op) :
  (forall s o, R2 a s -> is_deliver o -> T s -> T (step2 a s o)) ->
  (forall s, R2 a s -> T (step2 a s o0)) -> api_ok a -> claims_named a ->
  forall r s, Forall is_deliver r -> R2 a s -> In o0 r -> T (run_round2 a s r).
Proof.
  intros Hp He Hok Hcn. induction r as [|o r IH]; intros s Hr Hi Hin; [destruct Hin|].
  inversion Hr; subst. change (T (run_round2 a (step2 a s o) r)). destruct Hin as [->|Hin].
  - apply (round2_keeps a T Hp Hok Hcn); [assumption|apply R2_step; assumption|apply He; assumption].
  - apply IH; [assumption|apply R2_step; assumption|exact Hin].
Qed.

Lemma round2_settled_members a c st r : api_ok a -> claims_named a -> R2 a (c, st) -> Forall is_deliver r ->
  covers a c r ->
  let s' := run_round2 a (c, st) r in R2 a s' /\ forall k, SM a (fst s') (snd s') k.
Proof.
  intros Hok Hcn Hi Hr (_ & Cc & _). cbn zeta. split.
  - apply (round2_keeps a (R2 a)); try assumption. intros s o H2 Ho _. apply R2_step; assumption.
  - intros k.
    assert (Pres : forall s o, R2 a s -> is_deliver o -> SC a (fst s) k /\ SM a (fst s) (snd s) k ->
                    SC a (fst (step2 a s o)) k /\ SM a (fst (step2 a s o)) (snd (step2 a s o)) k).
    { intros [c0 st0] o [(H0 & _) N0] Ho [S1 S2]. cbn [fst snd] in *. split.
      - apply SC_preserved; assumption.
      - apply (SM_preserved a c0 st0 k o); assumption. }
    assert (Goal : SC a (fst (run_round2 a (c, st) r)) k /\ SM a (fst (run_round2 a (c, st) r)) (snd (run_round2 a (c, st) r)) k); [|apply Goal].
    destruct (Cc k) as [Hin|[E1 E2]].
    + apply (round2_reaches a (fun s => SC a (fst s) k /\ SM a (fst s) (snd s) k) (DeliverClaim k)); try assumption.
      intros [c0 st0] [(H0 & _) N0]. cbn [fst snd] in *. split.
      * unfold step2; cbn [fst]. rewrite cache_step_deliver_claim by apply H0. apply SC_deliver_claim; assumption.
      * apply (SM_deliver_claim a c0 st0 k); assumption.
    + apply (round2_keeps a (fun s => SC a (fst s) k /\ SM a (fst s) (snd s) k)); try assumption.
      cbn [fst snd]. destruct Hi as [_ N0]. cbn [fst snd] in N0. split.
      * unfold SC. rewrite E1. exact E2.
      * unfold SM. rewrite E1. destruct (aget k (ps_map st)) as [np|] eqn:F; [|reflexivity].
        destruct (ni_mapped _ _ _ N0 _ _ F). congruence.
Qed.

Lemma settled_nps_match a c st : api_ok a -> Settled a c -> NInv a c st -> (forall k, SM a c st k) ->
  nps_match a (view_of c) st.
Proof.
  intros Hok S Hn Hsm pool Hpool. destruct (ni_nodup _ _ _ Hn pool) as [D1 D2]. split; [exact D1|split; [exact D2|]].
  intros k. unfold spec_member.
  assert (NotMember : aget k (ps_map st) <> Some pool ->
            mem k (fst (ps_get pool st)) = false /\ mem k (snd (ps_get pool st)) = false).
  { intros Hm. split.
    - destruct (mem k (fst (ps_get pool st))) eqn:E; [|reflexivity]. exfalso. apply Hm. apply (ni_member _ _ _ Hn); auto.
    - destruct (mem k (snd (ps_get pool st))) eqn:E; [|reflexivity]. exfalso. apply Hm. apply (ni_member _ _ _ Hn); auto. }
  pose proof (Hsm k) as Hk. unfold SM in Hk. destruct (aget k (a_claims a)) as [cl|] eqn:Ea.
  - destruct (c_pool cl =s pool) eqn:Ep; seq3.
    + apply String.eqb_neq in Hpool. rewrite Hpool. cbn [negb andb]. apply String.eqb_neq in Hpool.
      destruct (Hk Hpool) as (M & D & M1 & M2 & M3). rewrite M1, M2.
      assert (ED : D = (if c_pid cl =s "" then false else sn_mfd (spec_sn a (vmarked (view_of c) (c_pid cl)) (c_pid cl)))).
      { destruct (c_pid cl =s "") eqn:Epid; [exact M3|]. seq3. destruct M3 as (b & Ob & ->).
        unfold ocm in Ob. destruct (aget (c_pid cl) (nodes c)) as [s|] eqn:Es; [|discriminate].
        injection Ob as Oc Om. destruct (settled_identity a c _ s Hok S Es) as [_ In2].
        unfold sn_mfd, sn_deleted, spec_sn; cbn [sn_claim sn_marked]. rewrite In2, Oc.
        unfold vmarked, view_of; cbn [vw_nodes]. rewrite aget_map, Es. cbn [option_map vnode_of v_marked]. rewrite Om. reflexivity. }
      rewrite <- ED. destruct D; auto.
    + cbn [andb]. apply NotMember. intros F. apply Ep. eapply (ni_label _ _ _ Hn); eauto.
  - apply NotMember. congruence.
Qed.

(* C11, NodePoolState part: after the closing round the Active / Deleting sets of every NodePool are what
   the recomputation yields (and duplicate-free, so GetNodeCount is their size). *)
Lemma closing_round_nodepool_sets_l a c st r :
  api_ok a -> claims_named a -> RInv a c -> NInv a c st -> Forall is_deliver r -> covers a c r ->
  nps_match a (view_of (fst (run_round2 a (c, st) r))) (snd (run_round2 a (c, st) r)).
Proof.
  intros Hok Hcn Hi Hn Hr Hc.
  destruct (round2_settled_members a c st r Hok Hcn (conj Hi Hn) Hr Hc) as [[_ N'] Hsm]. cbn [fst snd] in *.
  apply settled_nps_match; try assumption.
  rewrite run_round2_fst. cbn [fst]. apply round_settled; assumption.
Qed.

(* ================= the NodePoolState oracle reflects nps_match ================= *)
Lemma nodup_b_iff l : nodup_b l = true <-> NoDup l.
Proof.
  induction l as [|x l IH]; simpl; [split; [constructor|reflexivity]|].
  rewrite andb_true_iff, negb_true_iff, IH. split.
  - intros [H1 H2]. constructor; [|exact H2]. intros Hin. apply mem_true_iff in Hin. congruence.
  - intros H. inversion H; subst. split; [|assumption]. apply mem_false_notin. assumption.
Qed.

Lemma spec_member_pool a w pool k b : spec_member a w pool k = Some b -> In pool (api_pools a) /\ In k (keys (a_claims a)).
Proof.
  unfold spec_member. destruct (aget k (a_claims a)) as [cl|] eqn:E; [|discriminate].
  destruct (c_pool cl =s pool) eqn:Ep; [|discriminate]. seq3. intros _. split.
  - unfold api_pools. apply in_or_app. right. apply (in_map (fun kv => c_pool (snd kv)) _ (k, cl)). apply aget_in, E.
  - eapply in_keys, aget_in, E.
Qed.

Lemma nps_match_b_iff a w st : nps_match_b a w st = true <-> nps_match a w st.
Proof.
  unfold nps_match_b, nps_match.
  apply (forallb_univ _ _ (fun pool => pool <> "" ->
     NoDup (fst (ps_get pool st)) /\ NoDup (snd (ps_get pool st)) /\
     forall k, mem k (fst (ps_get pool st)) = match spec_member a w pool k with Some false => true | _ => false end /\
               mem k (snd (ps_get pool st)) = match spec_member a w pool k with Some true => true | _ => false end)).
  - intros pool. rewrite orb_true_iff, String.eqb_eq, !andb_true_iff, !nodup_b_iff.
    rewrite (forallb_univ _ _ (fun k =>
       mem k (fst (ps_get pool st)) = match spec_member a w pool k with Some false => true | _ => false end /\
       mem k (snd (ps_get pool st)) = match spec_member a w pool k with Some true => true | _ => false end)).
    + destruct (string_dec pool "") as [->|Hne]; [split; [intros _ H; congruence|auto]|].
      split; [intros [H|H]; [congruence|intros _; tauto]|intros H; right; specialize (H Hne); tauto].
    + intros k. rewrite andb_true_iff, !bool_eqb_eq. tauto.
    + intros k Hn. apply in_app_not in Hn. destruct Hn as [H1 Hn]. apply in_app_not in Hn. destruct Hn as [H2 H3].
      rewrite !mem_false_notin by assumption.
      destruct (spec_member a w pool k) as [b|] eqn:E; [|auto]. exfalso. apply H3. eapply spec_member_pool; eauto.
  - intros pool Hn _. apply in_app_not in Hn. destruct Hn as [H1 H2].
    unfold ps_get. rewrite notin_keys_none by exact H1. cbn [fst snd]. split; [constructor|split; [constructor|]].
    intros k. destruct (spec_member a w pool k) as [b|] eqn:E; [|auto]. exfalso. apply H2. eapply spec_member_pool; eauto.
Qed.

Lemma demo_nps_ok :
  nps_match_b (fst (fst (run3 (demo_ops ++ demo_round))))
              (view_of (snd (fst (run3 (demo_ops ++ demo_round))))) (snd (run3 (demo_ops ++ demo_round))) = true /\
  ps_get "pa" (snd (run3 (demo_ops ++ [Mark ["nope"; "x0"; "gone"]]))) = ([], ["c0"]) /\
  ps_get "pa" (snd (run3 (demo_ops ++ demo_round))) = (["c0"], []).
Proof. vm_compute. repeat split; reflexivity. Qed.

(* ================= MarkForDeletion / UnmarkForDeletion reach every tracked id of the list ================= *)
Lemma set_mark_entry b c i Y :
  match aget Y (nodes c) with
  | Some s => exists s', aget Y (nodes (set_mark b c i)) = Some s' /\
                         sn_marked s' = (if Y =s i then b else sn_marked s)
  | None => aget Y (nodes (set_mark b c i)) = None
  end.
Proof.
  unfold set_mark. destruct (aget i (nodes c)) as [si|] eqn:Ei.
  - c_simpl3. rewrite aget_aset. destruct (Y =s i) eqn:E; seq3.
    + rewrite Ei. eexists. split; [reflexivity|reflexivity].
    + destruct (aget Y (nodes c)) as [s|]; [exists s; auto|reflexivity].
  - destruct (aget Y (nodes c)) as [s|] eqn:Ey; [|reflexivity]. exists s. split; [reflexivity|].
    destruct (Y =s i) eqn:E; [|reflexivity]. seq3. congruence.
Qed.

Lemma marks_reach_every_tracked_id_l : forall (b : bool) (ids : list string) (c : cache) (Y : string),
  In Y ids -> aget Y (nodes c) <> None ->
  exists s, aget Y (nodes (fold_left (set_mark b) ids c)) = Some s /\ sn_marked s = b.
Proof.
  intros b ids.
  assert (Keep : forall ids c Y s, aget Y (nodes c) = Some s -> sn_marked s = b ->
            exists s', aget Y (nodes (fold_left (set_mark b) ids c)) = Some s' /\ sn_marked s' = b).
  { induction ids0 as [|i ids0 IH]; intros c Y s E M; [exists s; auto|]. simpl.
    pose proof (set_mark_entry b c i Y) as G. rewrite E in G. destruct G as (s' & E' & M').
    apply (IH _ _ s' E'). rewrite M'. destruct (Y =s i); [reflexivity|exact M]. }
  induction ids as [|i ids IH]; intros c Y Hin Hp; [destruct Hin|]. simpl.
  destruct (aget Y (nodes c)) as [s|] eqn:E; [|congruence].
  pose proof (set_mark_entry b c i Y) as G. rewrite E in G. destruct G as (s' & E' & M').
  destruct Hin as [->|Hin].
  - apply (Keep ids _ Y s' E'). rewrite M', seqb_refl. reflexivity.
  - apply IH; [exact Hin|congruence].
Qed.
