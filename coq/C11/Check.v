(* C11 — correspondence check and oracle, evaluated by vm_compute on the histories the Go harness
   ran against the real state.Cluster (through the real informer controllers).
   corr:*    the model's cache differs from the implementation's cache at an observation point
   oracle:*  the implementation's cache after the closing round differs from the recomputation
             from the API objects (fresh_eq, evaluated by its boolean reflection fresh_eqb). *)
From KV Require Import C11.Model.

Definition opt_eqb {A} (e : A -> A -> bool) (x y : option A) : bool :=
  match x, y with Some a, Some b => e a b | None, None => true | _, _ => false end.

Definition zz_eqb (a b : Z * Z) : bool := (fst a =? fst b) && (snd a =? snd b).
Definition res_eqb (a b : res) : bool :=
  let '(a1, a2, a3) := a in let '(b1, b2, b3) := b in (a1 =? b1) && (a2 =? b2) && (a3 =? b3).

Fixpoint strs_eqb (a b : list string) : bool :=
  match a, b with
  | [], [] => true
  | x :: a', y :: b' => (x =s y) && strs_eqb a' b'
  | _, _ => false
  end.

Definition pent_eqb (a b : pent) : bool :=
  zz_eqb (e_req a) (e_req b) && zz_eqb (e_lim a) (e_lim b) && strs_eqb (e_ports a) (e_ports b) &&
  strs_eqb (e_vols a) (e_vols b).

Definition dsr_eqb (a b : (Z * Z) * (Z * Z)) : bool := zz_eqb (fst a) (fst b) && zz_eqb (snd a) (snd b).

Definition has {A} (k : string) (m : amap A) : bool := match aget k m with Some _ => true | None => false end.

(* equality of two association lists as maps *)
Definition amap_eqb {A} (e : A -> A -> bool) (m1 m2 : amap A) : bool :=
  forallb (fun kv => opt_eqb e (Some (snd kv)) (aget (fst kv) m2)) m1 &&
  forallb (fun kv => has (fst kv) m1) m2.

Definition set_eqb (a b : list string) : bool :=
  forallb (fun v => mem v b) a && forallb (fun v => mem v a) b.

Definition vnode_eqb (a b : vnode) : bool :=
  (v_node a =s v_node b) && (v_claim a =s v_claim b) &&
  amap_eqb pent_eqb (v_pods a) (v_pods b) && amap_eqb dsr_eqb (v_dsr a) (v_dsr b) &&
  amap_eqb Z.eqb (v_costs a) (v_costs b) && set_eqb (v_vun a) (v_vun b) &&
  Bool.eqb (v_marked a) (v_marked b) &&
  ((v_node a =s "") && (v_claim a =s "") ||           (* accessors are undefined on an empty StateNode *)
   Bool.eqb (v_mfd a) (v_mfd b) && (v_pool a =s v_pool b) && zz_eqb (v_cap a) (v_cap b)).

Definition view_eqb_parts (a b : view) : list (string * bool) :=
  [ ("nodes", amap_eqb vnode_eqb (vw_nodes a) (vw_nodes b));
    ("bindings", amap_eqb String.eqb (vw_binds a) (vw_binds b));
    ("nodeNameToProviderID", amap_eqb String.eqb (vw_n2p a) (vw_n2p b));
    ("nodeClaimNameToProviderID", amap_eqb String.eqb (vw_c2p a) (vw_c2p b));
    ("nodePoolResources", amap_eqb res_eqb (vw_npr a) (vw_npr b)) ].

(* ---- the summing accessors: PodRequests(), DaemonSetRequests(), DisruptionCost() ---- *)
Record acc := mkAcc { ac_req : Z * Z * Z; ac_ds : Z * Z * Z; ac_cost : Z }.   (* cpu, memory, pods *)

Definition sum_req (m : amap pent) : Z * Z * Z :=
  fold_right (fun kv s => let '(c, mm, n) := s in (c + fst (e_req (snd kv)), mm + snd (e_req (snd kv)), n + 1)) (0, 0, 0) m.
Definition sum_ds (m : amap ((Z * Z) * (Z * Z))) : Z * Z * Z :=
  fold_right (fun kv s => let '(c, mm, n) := s in (c + fst (fst (snd kv)), mm + snd (fst (snd kv)), n + 1)) (0, 0, 0) m.
Definition sum_cost (m : amap Z) : Z := fold_right (fun kv s => s + snd kv) 134217728 m.    (* 1.0 * 2^27 *)

Definition acc_of (s : vnode) : acc := mkAcc (sum_req (v_pods s)) (sum_ds (v_dsr s)) (sum_cost (v_costs s)).
Definition acc_eqb (a b : acc) : bool :=
  res_eqb (ac_req a) (ac_req b) && res_eqb (ac_ds a) (ac_ds b) && (ac_cost a =? ac_cost b).

(* ---- fresh_eqb: the oracle ---- *)
Definition keys {A} (m : amap A) : list string := map fst m.

Definition node_matches_b (a : api) (pid : string) (ks vs : list string) (s : vnode) : bool :=
  let f := spec_sn a (v_marked s) pid in
  (v_node s =s match sn_node f with Some n => n_name n | None => "" end) &&
  (v_claim s =s match sn_claim f with Some c => c_name c | None => "" end) &&
  forallb (fun key => opt_eqb pent_eqb (aget key (v_pods s)) (spec_pent a pid key)) (keys (v_pods s) ++ ks) &&
  forallb (fun key => opt_eqb dsr_eqb (aget key (v_dsr s)) (spec_dsr a pid key)) (keys (v_dsr s) ++ ks) &&
  forallb (fun key => opt_eqb Z.eqb (aget key (v_costs s)) (spec_cost a pid key)) (keys (v_costs s) ++ ks) &&
  forallb (fun v => Bool.eqb (mem v (v_vun s)) (spec_vol a pid v)) (v_vun s ++ vs) &&
  Bool.eqb (v_mfd s) (sn_mfd f) && (v_pool s =s sn_pool f) && zz_eqb (v_cap s) (sn_cap f).

Definition api_vols (a : api) : list string := flat_map (fun kp => p_vols (snd kp)) (a_pods a).
Definition api_pools (a : api) : list string :=
  map (fun kv => n_pool (snd kv)) (a_nodes a) ++ map (fun kv => c_pool (snd kv)) (a_claims a).

Definition nodes_match_b (a : api) (w : view) : bool :=
  forallb (fun pid => match aget pid (vw_nodes w) with
                      | Some s => spec_has a pid && node_matches_b a pid (keys (a_pods a)) (api_vols a) s
                      | None => negb (spec_has a pid)
                      end) (keys (vw_nodes w) ++ api_pids a).

Definition maps_match_b (a : api) (w : view) : bool :=
  forallb (fun k => opt_eqb String.eqb (aget k (vw_n2p w)) (spec_n2p a k)) (keys (vw_n2p w) ++ keys (a_nodes a)) &&
  forallb (fun k => opt_eqb String.eqb (aget k (vw_c2p w)) (spec_c2p a k)) (keys (vw_c2p w) ++ keys (a_claims a)).

Definition binds_match_b (a : api) (w : view) : bool :=
  forallb (fun k => opt_eqb String.eqb (veff_bind w k) (spec_bind a k)) (keys (vw_binds w) ++ keys (a_pods a)).

Definition pools_match_b (a : api) (w : view) : bool :=
  forallb (fun pool => (pool =s "") || res_eqb (rget pool (vw_npr w)) (spec_total a w pool))
    (keys (vw_npr w) ++ api_pools a).

Definition fresh_eqb_parts (a : api) (w : view) : list (string * bool) :=
  [ ("nodes", nodes_match_b a w); ("name-maps", maps_match_b a w); ("bindings", binds_match_b a w);
    ("nodepool-resources", pools_match_b a w) ].

Definition fresh_eqb (a : api) (w : view) : bool := forallb snd (fresh_eqb_parts a w).

(* ---- boolean versions of the theorem's hypotheses (proved sound in C11/Proofs2.v) ---- *)
Definition uniq_pids_b (a : api) : bool :=
  forallb (fun kv1 => forallb (fun kv2 =>
      negb (trackable (snd kv1) && trackable (snd kv2) && (epid (snd kv1) =s epid (snd kv2))) || (fst kv1 =s fst kv2))
    (a_nodes a)) (a_nodes a) &&
  forallb (fun kv1 => forallb (fun kv2 =>
      (c_pid (snd kv1) =s "") || negb (c_pid (snd kv1) =s c_pid (snd kv2)) || (fst kv1 =s fst kv2))
    (a_claims a)) (a_claims a) &&
  forallb (fun kv => negb (fst kv =s "")) (a_nodes a).

Definition op_ok_b (a : api) (c : cache) (o : op) : bool :=
  match o with
  | SetNode nd =>
      uniq_pids_b (api_step a o) &&
      (negb (trackable nd) || forallb (fun kv => negb (snd kv =s epid nd) || (fst kv =s n_name nd)) (n2p c)) &&
      (negb (has (n_name nd) (n2p c)) || trackable nd)
  | SetClaim cl =>
      uniq_pids_b (api_step a o) &&
      ((c_pid cl =s "") || forallb (fun kv => negb (snd kv =s c_pid cl) || (fst kv =s c_name cl)) (c2p c)) &&
      (match aget (c_name cl) (c2p c) with Some X => (X =s "") || negb (c_pid cl =s "") | None => true end)
  | _ => true
  end.

Fixpoint hist_ok_from_b (s : api * cache) (ops : list op) : bool :=
  match ops with
  | [] => true
  | o :: t => op_ok_b (fst s) (snd s) o && hist_ok_from_b (step s o) t
  end.
Definition hist_ok_b (ops : list op) : bool := hist_ok_from_b (api0, cache0) ops.

Definition pods_settled_b (a : api) : bool :=
  forallb (fun kp => p_term (snd kp) || (p_node (snd kp) =s "") ||
                     match spec_n2p a (p_node (snd kp)) with Some _ => true | None => false end) (a_pods a).

Definition is_deliver_b (o : op) : bool :=
  match o with DeliverNode _ | DeliverClaim _ | DeliverPod _ => true | _ => false end.

Definition delivers_node (m : string) (o : op) : bool := match o with DeliverNode m' => m' =s m | _ => false end.
Definition delivers_claim (k : string) (o : op) : bool := match o with DeliverClaim k' => k' =s k | _ => false end.
Definition delivers_pod (k : string) (o : op) : bool := match o with DeliverPod k' => k' =s k | _ => false end.

Definition covers_b (a : api) (c : cache) (r : list op) : bool :=
  forallb (fun m => existsb (delivers_node m) r) (keys (a_nodes a) ++ keys (n2p c)) &&
  forallb (fun k => existsb (delivers_claim k) r) (keys (a_claims a) ++ keys (c2p c)) &&
  forallb (fun k => existsb (delivers_pod k) r) (keys (binds c)).

(* ---- NodePoolState: correspondence and oracle ---- *)
Definition sets_eqb (x y : list string * list string) : bool := set_eqb (fst x) (fst y) && set_eqb (snd x) (snd y).
Definition nps_eqb_parts (o m : npstate) : list (string * bool) :=
  [ ("nodepoolstate-sets", amap_eqb sets_eqb (ps_sets o) (ps_sets m));
    ("nodepoolstate-claim-map", amap_eqb String.eqb (ps_map o) (ps_map m)) ].

Fixpoint nodup_b (l : list string) : bool :=
  match l with [] => true | x :: t => negb (mem x t) && nodup_b t end.

Definition nps_match_b (a : api) (w : view) (st : npstate) : bool :=
  forallb (fun pool => (pool =s "") ||
     (nodup_b (fst (ps_get pool st)) && nodup_b (snd (ps_get pool st)) &&
      forallb (fun k =>
         Bool.eqb (mem k (fst (ps_get pool st))) (match spec_member a w pool k with Some false => true | _ => false end) &&
         Bool.eqb (mem k (snd (ps_get pool st))) (match spec_member a w pool k with Some true => true | _ => false end))
        (fst (ps_get pool st) ++ snd (ps_get pool st) ++ keys (a_claims a))))
    (keys (ps_sets st) ++ api_pools a).

(* ---- the weaker quiescence notion: every key delivered at least once after its last change ---- *)
Definition okey (o : op) : option (string * bool) :=     (* tagged key; true = API write, false = delivery *)
  match o with
  | SetNode n => Some ("N/" ++ n_name n, true) | DelNode k => Some ("N/" ++ k, true)
  | SetClaim cl => Some ("C/" ++ c_name cl, true) | DelClaim k => Some ("C/" ++ k, true)
  | SetPod p => Some ("P/" ++ p_key p, true) | DelPod k => Some ("P/" ++ k, true)
  | DeliverNode k => Some ("N/" ++ k, false) | DeliverClaim k => Some ("C/" ++ k, false)
  | DeliverPod k => Some ("P/" ++ k, false)
  | _ => None
  end.
Definition dirty_step (d : list string) (o : op) : list string :=
  match okey o with Some (k, true) => sins k d | Some (k, false) => sdel k d | None => d end.

(* the one shape a pod delivery does not settle by itself: the pod was re-written under the same name on the
   same node and the entry the cache holds for it is a daemonset entry while the pod no longer is one, or
   carries a disruption cost while the pod now is a daemonset pod, or lists a volume the pod no longer has
   (updateForPod only adds to daemonSetRequests / podDisruptionCosts / volumes for such a pod) *)
Definition stale_rewrite (a : api) (c : cache) (o : op) : bool :=
  match o with
  | DeliverPod key =>
      match aget key (a_pods a) with
      | Some p =>
          if p_term p || (p_node p =s "") then false else
          match aget (sget (p_node p) (n2p c)) (nodes c) with
          | Some s => match aget key (sn_pods s) with
                      | Some e => (negb (p_ds p) && has key (sn_dsr s)) || (p_ds p && has key (sn_costs s)) ||
                                  negb (forallb (fun v => mem v (p_vols p)) (e_vols e))
                      | None => false
                      end
          | None => false
          end
      | None => false
      end
  | _ => false
  end.

(* ---- cases ---- *)
Inductive item :=
| IOp (o : op)
| IClose (r : list op)                               (* the closing round *)
| IObs (kind : nat) (belief : bool) (w : view) (accs : amap acc) (n : npstate)
    (* the implementation's cache and NodePoolState at this point.  kind 0: mid-history; 1: every key has been
       delivered after its last change; 2: after the closing round.  [belief]: the harness (Go, on the real
       cache) finds the premises of the respective theorem true *)
| IPanic.                                            (* the implementation panicked in the previous op *)

Definition case := list item.

Definition failing (pre : string) (parts : list (string * bool)) : list string :=
  map (fun p => pre ++ fst p) (filter (fun p => negb (snd p)) parts).

Definition accs_of (w : view) : amap acc := map (fun kv => (fst kv, acc_of (snd kv))) (vw_nodes w).

Record cstate := mkCS {
  cs_ok : bool;            (* hist_ok_b of the ops so far *)
  cs_hyp : bool;           (* the premises of quiescent_equals_fresh_decidable held when the closing round started *)
  cs_dirty : list string;  (* keys written since their last delivery *)
  cs_nostale : bool }.     (* no pod delivery of the shape [stale_rewrite] so far *)

(* the nodepool label of a NodeClaim name NodePoolState still maps does not change *)
Definition label_ok_b (st : npstate) (o : op) : bool :=
  match o with
  | SetClaim cl => match aget (c_name cl) (ps_map st) with Some np => np =s c_pool cl | None => true end
  | _ => true
  end.

Definition cs_op (s : api * cache * npstate) (k : cstate) (o : op) : cstate :=
  let '(a, c, st) := s in
  mkCS (cs_ok k && op_ok_b a c o && label_ok_b st o) (cs_hyp k) (dirty_step (cs_dirty k) o)
       (cs_nostale k && negb (stale_rewrite (api_step a o) c o)).

Fixpoint check_items (s : api * cache * npstate) (k : cstate) (its : list item) : list string :=
  let '(a, c, st) := s in
  match its with
  | [] => []
  | IOp o :: t => check_items (step3 s o) (cs_op s k o) t
  | IClose r :: t =>
      let hyp := cs_ok k && pods_settled_b a && forallb is_deliver_b r && covers_b a c r in
      check_items (fold_left step3 r s) (mkCS (cs_ok k) hyp (cs_dirty k) (cs_nostale k)) t
  | IPanic :: t => if panicked c then [] else ["corr:panic"]
  | IObs kind belief w accs n :: t =>
      let m := view_of c in
      let weak := cs_ok k && cs_nostale k && pods_settled_b a &&
                  match cs_dirty k with [] => true | _ => false end in
      let applies := match kind with 1%nat => weak | 2%nat => cs_hyp k | _ => false end in
      (if panicked c then ["corr:model-panic"] else []) ++
      failing "corr:" (view_eqb_parts w m) ++
      failing "corr:accessors-" [("sums", amap_eqb acc_eqb accs (accs_of m))] ++
      failing "corr:" (nps_eqb_parts n st) ++
      (if Bool.eqb belief applies then [] else ["corr:premises-evaluated-differently"]) ++
      (if applies then failing (if Nat.eqb kind 1 then "oracle:once-delivered:" else "oracle:")
                         (fresh_eqb_parts a w ++ [("nodepoolstate", nps_match_b a w n)]) else []) ++
      check_items s k t
  end.

Definition check_case (c : case) : list string :=
  nodup string_dec (check_items (api0, cache0, nps0) (mkCS true false [] true) c).

Definition check_all (cs : list (Z * case)) : list (Z * string) :=
  flat_map (fun ic => map (fun t => (fst ic, t)) (check_case (snd ic))) cs.
