(* C11 — proofs about the model of the cluster-state cache. *)
From KV Require Import C11.Model.

(* ================= association lists as maps ================= *)
Lemma seqb_refl (a : string) : (a =s a) = true.
Proof. apply String.eqb_refl. Qed.

Lemma seqb_sym (a b : string) : (a =s b) = (b =s a).
Proof. apply String.eqb_sym. Qed.

Ltac seq :=
  repeat match goal with
  | H : (?a =s ?b) = true |- _ => apply String.eqb_eq in H; subst
  | H : (?a =s ?b) = false |- _ => apply String.eqb_neq in H
  end.

Lemma aget_adel {A} (k k' : string) (m : amap A) :
  aget k' (adel k m) = if k' =s k then None else aget k' m.
Proof.
  induction m as [|[k0 v] m IH]; simpl.
  - destruct (k' =s k); reflexivity.
  - destruct (k =s k0) eqn:E; simpl.
    + seq. rewrite IH. destruct (k' =s k0); reflexivity.
    + rewrite IH. destruct (k' =s k0) eqn:E2; [|reflexivity].
      seq. destruct (k0 =s k) eqn:E3; [|reflexivity]. seq. congruence.
Qed.

Lemma aget_aset {A} (k k' : string) (v : A) (m : amap A) :
  aget k' (aset k v m) = if k' =s k then Some v else aget k' m.
Proof.
  unfold aset; simpl. destruct (k' =s k) eqn:E; [reflexivity|].
  rewrite aget_adel, E. reflexivity.
Qed.

Lemma aget_aset_same {A} (k : string) (v : A) m : aget k (aset k v m) = Some v.
Proof. rewrite aget_aset, seqb_refl. reflexivity. Qed.

Lemma aget_aset_other {A} (k k' : string) (v : A) m : k' <> k -> aget k' (aset k v m) = aget k' m.
Proof. intros H. rewrite aget_aset. apply String.eqb_neq in H. rewrite H. reflexivity. Qed.

Lemma aget_adel_same {A} (k : string) (m : amap A) : aget k (adel k m) = None.
Proof. rewrite aget_adel, seqb_refl. reflexivity. Qed.

Lemma aget_adel_other {A} (k k' : string) (m : amap A) : k' <> k -> aget k' (adel k m) = aget k' m.
Proof. intros H. rewrite aget_adel. apply String.eqb_neq in H. rewrite H. reflexivity. Qed.

Lemma sget_aset (k k' v : string) m : sget k' (aset k v m) = if k' =s k then v else sget k' m.
Proof. unfold sget. rewrite aget_aset. destruct (k' =s k); reflexivity. Qed.

Lemma sget_adel (k k' : string) m : sget k' (adel k m) = if k' =s k then "" else sget k' m.
Proof. unfold sget. rewrite aget_adel. destruct (k' =s k); reflexivity. Qed.

(* keys are unique in every map built from [] by aset / adel *)
Definition nodupk {A} (m : amap A) : Prop := NoDup (map fst m).

Lemma in_keys_adel {A} (k k' : string) (m : amap A) : In k' (map fst (adel k m)) -> In k' (map fst m) /\ k' <> k.
Proof.
  induction m as [|[k0 v] m IH]; simpl; [tauto|].
  destruct (k =s k0) eqn:E; simpl; intros H.
  - destruct (IH H); tauto.
  - destruct H as [->|H]; [seq; split; [tauto|congruence]|]. destruct (IH H); tauto.
Qed.

Lemma nodupk_adel {A} (k : string) (m : amap A) : nodupk m -> nodupk (adel k m).
Proof.
  unfold nodupk. induction m as [|[k0 v] m IH]; simpl; intros H; [constructor|].
  inversion H; subst. destruct (k =s k0); simpl; [auto|].
  constructor; [|auto]. intros Hin. apply in_keys_adel in Hin. tauto.
Qed.

Lemma nodupk_aset {A} (k : string) (v : A) (m : amap A) : nodupk m -> nodupk (aset k v m).
Proof.
  intros H. unfold nodupk, aset; simpl. constructor.
  - intros Hin. apply in_keys_adel in Hin. tauto.
  - apply nodupk_adel, H.
Qed.

Lemma aget_none_notin {A} (k : string) (m : amap A) : aget k m = None <-> ~ In k (map fst m).
Proof.
  induction m as [|[k0 v] m IH]; simpl; [tauto|].
  destruct (k =s k0) eqn:E; seq.
  - split; [discriminate|tauto].
  - rewrite IH. split; [intros H [H1|H1]; [congruence|tauto]|tauto].
Qed.

Lemma aget_in {A} (k : string) (v : A) (m : amap A) : aget k m = Some v -> In (k, v) m.
Proof.
  induction m as [|[k0 v0] m IH]; simpl; [discriminate|].
  destruct (k =s k0) eqn:E; seq; [intros [= ->]; auto|auto].
Qed.

Lemma in_aget {A} (k : string) (v : A) (m : amap A) : nodupk m -> In (k, v) m -> aget k m = Some v.
Proof.
  unfold nodupk. induction m as [|[k0 v0] m IH]; simpl; [tauto|].
  intros H [[= -> ->]|Hin]; [rewrite seqb_refl; reflexivity|].
  inversion H; subst. destruct (k =s k0) eqn:E; seq; [|auto].
  exfalso. apply H2. change k0 with (fst (k0, v)). apply in_map, Hin.
Qed.
