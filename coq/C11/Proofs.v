(* C11 — proofs about the model of the cluster-state cache. *)
From KV Require Import C11.Model.

(* ================= association lists as maps ================= *)
Lemma seqb_refl (a : string) : (a =s a) = true.
Proof. apply String.eqb_refl. Qed.

Lemma seqb_sym (a b : string) : (a =s b) = (b =s a).
Proof. apply String.eqb_sym. Qed.

Ltac seq :=
  repeat match goal with
  | H : (?a =s ?b) = true |- _ => apply String.eqb_eq in H; first [subst a | subst b | idtac]
  | H : (?a =s ?b) = false |- _ => apply String.eqb_neq in H
  end.

Lemma aget_adel {A} (k k' : string) (m : amap A) :
  aget k' (adel k m) = if k' =s k then None else aget k' m.
Proof.
  induction m as [|[k0 v] m IH]; simpl.
  - destruct (k' =s k); reflexivity.
  - destruct (k =s k0) eqn:E; simpl.
    + seq. rewrite IH. destruct (k' =s k0); reflexivity.
    + rewrite IH. destruct (k' =s k0) eqn:E2; [|reflexivity].
      seq. destruct (k0 =s k) eqn:E3; [|reflexivity]. seq. congruence.
Qed.

Lemma aget_aset {A} (k k' : string) (v : A) (m : amap A) :
  aget k' (aset k v m) = if k' =s k then Some v else aget k' m.
Proof.
  unfold aset; simpl. destruct (k' =s k) eqn:E; [reflexivity|].
  rewrite aget_adel, E. reflexivity.
Qed.

Lemma aget_aset_same {A} (k : string) (v : A) m : aget k (aset k v m) = Some v.
Proof. rewrite aget_aset, seqb_refl. reflexivity. Qed.

Lemma aget_aset_other {A} (k k' : string) (v : A) m : k' <> k -> aget k' (aset k v m) = aget k' m.
Proof. intros H. rewrite aget_aset. apply String.eqb_neq in H. rewrite H. reflexivity. Qed.

Lemma aget_adel_same {A} (k : string) (m : amap A) : aget k (adel k m) = None.
Proof. rewrite aget_adel, seqb_refl. reflexivity. Qed.

Lemma aget_adel_other {A} (k k' : string) (m : amap A) : k' <> k -> aget k' (adel k m) = aget k' m.
Proof. intros H. rewrite aget_adel. apply String.eqb_neq in H. rewrite H. reflexivity. Qed.

Lemma sget_aset (k k' v : string) m : sget k' (aset k v m) = if k' =s k then v else sget k' m.
Proof. unfold sget. rewrite aget_aset. destruct (k' =s k); reflexivity. Qed.

Lemma sget_adel (k k' : string) m : sget k' (adel k m) = if k' =s k then "" else sget k' m.
Proof. unfold sget. rewrite aget_adel. destruct (k' =s k); reflexivity. Qed.

(* keys are unique in every map built from [] by aset / adel *)
Definition nodupk {A} (m : amap A) : Prop := NoDup (map fst m).

Lemma in_keys_adel {A} (k k' : string) (m : amap A) : In k' (map fst (adel k m)) -> In k' (map fst m) /\ k' <> k.
Proof.
  induction m as [|[k0 v] m IH]; simpl; [tauto|].
  destruct (k =s k0) eqn:E; simpl; intros H.
  - destruct (IH H); tauto.
  - destruct H as [->|H]; [seq; split; [tauto|congruence]|]. destruct (IH H); tauto.
Qed.

Lemma nodupk_adel {A} (k : string) (m : amap A) : nodupk m -> nodupk (adel k m).
Proof.
  unfold nodupk. induction m as [|[k0 v] m IH]; simpl; intros H; [constructor|].
  inversion H; subst. destruct (k =s k0); simpl; [auto|].
  constructor; [|auto]. intros Hin. apply in_keys_adel in Hin. tauto.
Qed.

Lemma nodupk_aset {A} (k : string) (v : A) (m : amap A) : nodupk m -> nodupk (aset k v m).
Proof.
  intros H. unfold nodupk, aset; simpl. constructor.
  - intros Hin. apply in_keys_adel in Hin. tauto.
  - apply nodupk_adel, H.
Qed.

Lemma aget_none_notin {A} (k : string) (m : amap A) : aget k m = None <-> ~ In k (map fst m).
Proof.
  induction m as [|[k0 v] m IH]; simpl; [tauto|].
  destruct (k =s k0) eqn:E; seq.
  - split; [discriminate|tauto].
  - rewrite IH. split; [intros H [H1|H1]; [congruence|tauto]|tauto].
Qed.

Lemma aget_in {A} (k : string) (v : A) (m : amap A) : aget k m = Some v -> In (k, v) m.
Proof.
  induction m as [|[k0 v0] m IH]; simpl; [discriminate|].
  destruct (k =s k0) eqn:E; seq; [intros [= ->]; auto|auto].
Qed.

Lemma in_aget {A} (k : string) (v : A) (m : amap A) : nodupk m -> In (k, v) m -> aget k m = Some v.
Proof.
  unfold nodupk. induction m as [|[k0 v0] m IH]; simpl; [tauto|].
  intros H [[= -> ->]|Hin]; [rewrite seqb_refl; reflexivity|].
  inversion H; subst. destruct (k =s k0) eqn:E; seq; [|auto].
  exfalso. apply H2. change k0 with (fst (k0, v)). apply in_map, Hin.
Qed.

Arguments aset {A} k v m : simpl never.
Arguments adel {A} k m : simpl never.

Ltac sn_simpl := cbn [update_for_pod cleanup_for_pod sn_pods sn_dsr sn_costs sn_vun sn_node sn_claim sn_marked fst snd].

(* ================= well-formed API stores ================= *)
Definition keyed {A} (key : A -> string) (m : amap A) : Prop :=
  nodupk m /\ forall k v, In (k, v) m -> key v = k.

Definition api_wf (a : api) : Prop :=
  keyed n_name (a_nodes a) /\ keyed c_name (a_claims a) /\ keyed p_key (a_pods a).

Lemma in_adel {A} (k k' : string) (v : A) m : In (k', v) (adel k m) -> In (k', v) m.
Proof. unfold adel. rewrite filter_In. tauto. Qed.

Lemma keyed_aset {A} (key : A -> string) v m : keyed key m -> keyed key (aset (key v) v m).
Proof.
  intros [H1 H2]. split; [apply nodupk_aset, H1|].
  intros k v' [[= <- <-]|Hin]; [reflexivity|]. apply H2. eapply in_adel, Hin.
Qed.

Lemma keyed_adel {A} (key : A -> string) k m : keyed key m -> keyed key (adel k m).
Proof.
  intros [H1 H2]. split; [apply nodupk_adel, H1|]. intros k' v Hin. apply H2. eapply in_adel, Hin.
Qed.

Lemma keyed_nil {A} (key : A -> string) : keyed key [].
Proof. split; [constructor|intros k v []]. Qed.

Lemma api_wf_step a o : api_wf a -> api_wf (api_step a o).
Proof.
  intros (Hn & Hc & Hp). destruct o; simpl; unfold api_wf; simpl; try (split; [|split]; assumption).
  - split; [apply keyed_aset, Hn|split; assumption].
  - split; [apply keyed_adel, Hn|split; assumption].
  - split; [assumption|split; [apply keyed_aset, Hc|assumption]].
  - split; [assumption|split; [apply keyed_adel, Hc|assumption]].
  - split; [assumption|split; [assumption|apply keyed_aset, Hp]].
  - split; [assumption|split; [assumption|apply keyed_adel, Hp]].
Qed.

Lemma api_wf_0 : api_wf api0.
Proof. split; [|split]; apply keyed_nil. Qed.

(* ================= populateResourceRequests ================= *)
Definition on_node (name : string) (p : podobj) : bool := (p_node p =s name) && negb (p_term p).

Definition pop_sn (name : string) (s : snode) (kp : string * podobj) : snode :=
  if on_node name (snd kp) then update_for_pod s (snd kp) else s.

Lemma fst_populate name l s c :
  fst (fold_left (populate_step name) l (s, c)) = fold_left (pop_sn name) l s.
Proof.
  revert s c. induction l as [|kp l IH]; intros s c; simpl; [reflexivity|].
  unfold populate_step at 2, pop_sn at 2, on_node. simpl.
  destruct ((p_node (snd kp) =s name) && negb (p_term (snd kp))); apply IH.
Qed.

Definition lookup_on (name key : string) (l : amap podobj) : option podobj :=
  match aget key l with Some p => if on_node name p then Some p else None | None => None end.

Lemma lookup_on_cons name key k p l :
  lookup_on name key ((k, p) :: l) =
  if key =s k then (if on_node name p then Some p else None) else lookup_on name key l.
Proof. unfold lookup_on; simpl. destruct (key =s k); reflexivity. Qed.

Lemma keyed_cons_inv {A} (key : A -> string) k v (l : amap A) :
  keyed key ((k, v) :: l) -> key v = k /\ aget k l = None /\ keyed key l.
Proof.
  intros [H1 H2]. inversion H1; subst. repeat split.
  - apply H2. left; reflexivity.
  - apply aget_none_notin. assumption.
  - assumption.
  - intros k' v' Hin. apply H2. right; assumption.
Qed.

Lemma lookup_on_none name key l : aget key l = None -> lookup_on name key l = None.
Proof. unfold lookup_on. intros ->. reflexivity. Qed.

Lemma pop_pods name l : keyed p_key l -> forall s key,
  aget key (sn_pods (fold_left (pop_sn name) l s)) =
  match lookup_on name key l with Some p => Some (pent_of p) | None => aget key (sn_pods s) end.
Proof.
  induction l as [|[k p] l IH]; intros Hk s key; simpl; [reflexivity|].
  destruct (keyed_cons_inv _ _ _ _ Hk) as (Hkey & Hnone & Hk').
  rewrite (IH Hk'), lookup_on_cons. unfold pop_sn; sn_simpl.
  destruct (key =s k) eqn:E; seq.
  - rewrite (lookup_on_none _ _ _ Hnone).
    destruct (on_node name p); sn_simpl; [rewrite Hkey, aget_aset_same|]; reflexivity.
  - destruct (lookup_on name key l); [reflexivity|].
    destruct (on_node name p); sn_simpl; [rewrite Hkey, aget_aset_other by assumption|]; reflexivity.
Qed.

Lemma pop_dsr name l : keyed p_key l -> forall s key,
  aget key (sn_dsr (fold_left (pop_sn name) l s)) =
  match lookup_on name key l with
  | Some p => if p_ds p then Some (p_req p, p_lim p) else aget key (sn_dsr s)
  | None => aget key (sn_dsr s)
  end.
Proof.
  induction l as [|[k p] l IH]; intros Hk s key; simpl; [reflexivity|].
  destruct (keyed_cons_inv _ _ _ _ Hk) as (Hkey & Hnone & Hk').
  rewrite (IH Hk'), lookup_on_cons. unfold pop_sn; sn_simpl.
  destruct (key =s k) eqn:E; seq.
  - rewrite (lookup_on_none _ _ _ Hnone).
    destruct (on_node name p); sn_simpl; [|reflexivity].
    destruct (p_ds p); [rewrite Hkey, aget_aset_same|]; reflexivity.
  - assert (Hs : aget key (sn_dsr (if on_node name p then update_for_pod s p else s)) = aget key (sn_dsr s)).
    { destruct (on_node name p); sn_simpl; [|reflexivity].
      destruct (p_ds p); [rewrite Hkey, aget_aset_other by assumption|]; reflexivity. }
    rewrite Hs. reflexivity.
Qed.

Lemma pop_costs name l : keyed p_key l -> forall s key,
  aget key (sn_costs (fold_left (pop_sn name) l s)) =
  match lookup_on name key l with
  | Some p => if p_ds p then aget key (sn_costs s) else if 0 <? p_cost p then Some (p_cost p) else None
  | None => aget key (sn_costs s)
  end.
Proof.
  induction l as [|[k p] l IH]; intros Hk s key; simpl; [reflexivity|].
  destruct (keyed_cons_inv _ _ _ _ Hk) as (Hkey & Hnone & Hk').
  rewrite (IH Hk'), lookup_on_cons. unfold pop_sn; sn_simpl.
  destruct (key =s k) eqn:E; seq.
  - rewrite (lookup_on_none _ _ _ Hnone).
    destruct (on_node name p); sn_simpl; [|reflexivity].
    destruct (p_ds p); [reflexivity|].
    destruct (0 <? p_cost p); [rewrite Hkey, aget_aset_same|rewrite Hkey, aget_adel_same]; reflexivity.
  - assert (Hs : aget key (sn_costs (if on_node name p then update_for_pod s p else s)) = aget key (sn_costs s)).
    { destruct (on_node name p); sn_simpl; [|reflexivity].
      destruct (p_ds p); [reflexivity|].
      destruct (0 <? p_cost p); [rewrite Hkey, aget_aset_other by assumption|rewrite Hkey, aget_adel_other by assumption]; reflexivity. }
    rewrite Hs. reflexivity.
Qed.

Lemma mem_app v l1 l2 : mem v (l1 ++ l2) = mem v l1 || mem v l2.
Proof. unfold mem. apply existsb_app. Qed.

Lemma pop_vun name l s v :
  mem v (sn_vun (fold_left (pop_sn name) l s)) =
  mem v (sn_vun s) || existsb (fun kp => on_node name (snd kp) && mem v (p_vols (snd kp))) l.
Proof.
  revert s. induction l as [|[k p] l IH]; intros s; simpl; [rewrite orb_false_r; reflexivity|].
  rewrite IH. unfold pop_sn; simpl. destruct (on_node name p); simpl.
  - rewrite mem_app, orb_assoc. reflexivity.
  - reflexivity.
Qed.

Lemma pop_ident name l s :
  sn_node (fold_left (pop_sn name) l s) = sn_node s /\
  sn_claim (fold_left (pop_sn name) l s) = sn_claim s /\
  sn_marked (fold_left (pop_sn name) l s) = sn_marked s.
Proof.
  revert s. induction l as [|kp l IH]; intros s; simpl; [auto|].
  destruct (IH (pop_sn name s kp)) as (H1 & H2 & H3). rewrite H1, H2, H3.
  unfold pop_sn. destruct (on_node name (snd kp)); simpl; auto.
Qed.

(* ================= nodePoolResources = sum over the cached nodes ================= *)
Ltac res_crush :=
  repeat match goal with
  | r : res |- _ => destruct r as [[? ?] ?]
  end; unfold radd, rsub, z3 in *; simpl in *; try reflexivity; try (apply f_equal2; [apply f_equal2|]; lia).

Lemma radd_z3_l r : radd z3 r = r. Proof. res_crush. Qed.
Lemma radd_z3_r r : radd r z3 = r. Proof. res_crush. Qed.
Lemma rsub_z3 r : rsub r z3 = r. Proof. res_crush. Qed.

Lemma rzero_true r : rzero r = true -> r = z3.
Proof.
  destruct r as [[a b] c]; simpl. rewrite !andb_true_iff, !Z.eqb_eq. intros [[-> ->] ->]. reflexivity.
Qed.

Lemma rget_aset k k' v m : rget k' (aset k v m) = if k' =s k then v else rget k' m.
Proof. unfold rget. rewrite aget_aset. destruct (k' =s k); reflexivity. Qed.

Lemma rget_gc k k' m : rget k' (gc_pool k m) = rget k' m.
Proof.
  unfold gc_pool. destruct (aget k m) as [v|] eqn:E; [|reflexivity].
  destruct (rzero v) eqn:Z; [|reflexivity].
  unfold rget. rewrite aget_adel. destruct (k' =s k) eqn:E2; [|reflexivity].
  seq. rewrite E. symmetry. apply rzero_true, Z.
Qed.

Definition ocontrib (pool : string) (o : option snode) : res :=
  match o with Some s => contrib pool s | None => z3 end.

Lemma upr_spec old new m pool : pool <> "" ->
  rget pool (upr old new m) = radd (rsub (rget pool m) (ocontrib pool old)) (ocontrib pool new).
Proof.
  intros Hp. unfold upr.
  assert (Ho : forall o, let '(p, r) := pool_res o in ocontrib pool o = if p =s pool then r else z3).
  { intros [s|]; cbn [pool_res ocontrib]; [|destruct ("" =s pool); reflexivity].
    unfold contrib. destruct (has_identity s); cbn [andb]; [reflexivity|].
    destruct ("" =s pool); reflexivity. }
  pose proof (Ho old) as H1. pose proof (Ho new) as H2.
  destruct (pool_res old) as [op ores]. destruct (pool_res new) as [np nres].
  rewrite H1, H2. clear H1 H2 Ho.
  rewrite !rget_gc.
  set (m1 := if negb (np =s "") && match aget np m with None => true | Some _ => false end then aset np z3 m else m).
  assert (E1 : rget pool m1 = rget pool m).
  { unfold m1. destruct (negb (np =s "") && _) eqn:C; [|reflexivity].
    rewrite rget_aset. destruct (pool =s np) eqn:E; [|reflexivity]. seq.
    apply andb_true_iff in C. destruct C as [_ C]. unfold rget.
    destruct (aget np m); [discriminate|reflexivity]. }
  set (m2 := if negb (op =s "") && negb (rzero ores) then aset op (rsub (rget op m1) ores) m1 else m1).
  assert (E2 : rget pool m2 = rsub (rget pool m) (if op =s pool then ores else z3)).
  { unfold m2. destruct (negb (op =s "") && negb (rzero ores)) eqn:C.
    - rewrite rget_aset. rewrite (seqb_sym op pool). destruct (pool =s op) eqn:E; seq.
      + rewrite E1. reflexivity.
      + rewrite E1, rsub_z3. reflexivity.
    - rewrite E1. destruct (op =s pool) eqn:E; [|rewrite rsub_z3; reflexivity]. seq.
      apply andb_false_iff in C. destruct C as [C|C].
      + apply negb_false_iff in C. seq. congruence.
      + apply negb_false_iff, rzero_true in C. rewrite C, rsub_z3. reflexivity. }
  destruct (negb (np =s "") && negb (rzero nres)) eqn:C.
  - rewrite rget_aset. rewrite (seqb_sym np pool). destruct (pool =s np) eqn:E; seq.
    + rewrite E2. reflexivity.
    + rewrite E2, radd_z3_r. reflexivity.
  - rewrite E2. destruct (np =s pool) eqn:E; [|rewrite radd_z3_r; reflexivity]. seq.
    apply andb_false_iff in C. destruct C as [C|C].
    + apply negb_false_iff in C. seq. congruence.
    + apply negb_false_iff, rzero_true in C. rewrite C, radd_z3_r. reflexivity.
Qed.

Lemma pool_total_adel pool X (m : amap snode) : nodupk m ->
  pool_total pool (adel X m) = rsub (pool_total pool m) (ocontrib pool (aget X m)).
Proof.
  unfold nodupk. induction m as [|[k s] m IH]; intros H; [reflexivity|].
  inversion H; subst. cbn [pool_total fold_right aget snd]. unfold adel; cbn [filter fst].
  destruct (X =s k) eqn:E; cbn [negb].
  - seq. fold (adel k m). rewrite IH by assumption.
    assert (aget k m = None) as -> by (apply aget_none_notin; assumption).
    cbn [ocontrib]. fold (pool_total pool m). match goal with |- ?g => idtac g end. res_crush.
  - cbn [fold_right snd]. fold (adel X m). fold (pool_total pool (adel X m)). rewrite IH by assumption.
    fold (pool_total pool m). generalize (ocontrib pool (aget X m)) (contrib pool s) (pool_total pool m).
    intros. res_crush.
Qed.

Lemma pool_total_aset pool X s (m : amap snode) : nodupk m ->
  pool_total pool (aset X s m) = radd (rsub (pool_total pool m) (ocontrib pool (aget X m))) (contrib pool s).
Proof.
  intros H. unfold aset. cbn [pool_total fold_right snd]. fold (pool_total pool (adel X m)).
  rewrite pool_total_adel by assumption.
  generalize (ocontrib pool (aget X m)) (contrib pool s) (pool_total pool m). intros. res_crush.
Qed.

Definition Npr (c : cache) : Prop :=
  nodupk (nodes c) /\ forall pool, pool <> "" -> rget pool (npr c) = pool_total pool (nodes c).

(* identity of a StateNode: what its pool contribution depends on *)
Definition ident (s : snode) := (sn_node s, sn_claim s, sn_marked s).

Lemma contrib_ident pool s s' : ident s = ident s' -> contrib pool s = contrib pool s'.
Proof.
  unfold ident. intros [= H1 H2 H3]. unfold contrib, has_identity, sn_pool, sn_res, sn_mfd, sn_deleted, sn_cap, sn_initialized.
  rewrite H1, H2, H3. reflexivity.
Qed.

(* replacing an entry by one of the same identity *)
Lemma Npr_same_ident c X s s' : Npr c -> aget X (nodes c) = Some s -> ident s = ident s' ->
  Npr (with_nodes c (aset X s' (nodes c))).
Proof.
  intros [Hn Hp] Hs Hi. split; simpl; [apply nodupk_aset, Hn|].
  intros pool Hpool. rewrite pool_total_aset, Hs by assumption. cbn [ocontrib].
  rewrite (contrib_ident pool s s' Hi), (Hp pool Hpool).
  generalize (contrib pool s') (pool_total pool (nodes c)). intros. res_crush.
Qed.

(* replacing / inserting / removing an entry together with the matching updateNodePoolResources call *)
Lemma Npr_upr_set c X old s' : Npr c ->
  (forall pool, ocontrib pool old = ocontrib pool (aget X (nodes c))) ->
  Npr (with_nodes (upr_c old (Some s') c) (aset X s' (nodes c))).
Proof.
  intros [Hn Hp] Ho. split; simpl; [apply nodupk_aset, Hn|].
  intros pool Hpool. rewrite upr_spec, pool_total_aset, (Hp pool Hpool), Ho by assumption. reflexivity.
Qed.

Lemma Npr_upr_del c X old : Npr c ->
  (forall pool, ocontrib pool old = ocontrib pool (aget X (nodes c))) ->
  Npr (with_nodes (upr_c old None c) (adel X (nodes c))).
Proof.
  intros [Hn Hp] Ho. split; simpl; [apply nodupk_adel, Hn|].
  intros pool Hpool. rewrite upr_spec, pool_total_adel, (Hp pool Hpool), Ho by assumption.
  cbn [ocontrib]. apply radd_z3_r.
Qed.
