(* C11 — proofs about the model of the cluster-state cache. *)
From KV Require Import C11.Model.

(* ================= association lists as maps ================= *)
Lemma seqb_refl (a : string) : (a =s a) = true.
Proof. apply String.eqb_refl. Qed.

Lemma seqb_sym (a b : string) : (a =s b) = (b =s a).
Proof. apply String.eqb_sym. Qed.

Ltac seq :=
  repeat match goal with
  | H : (?a =s ?b) = true |- _ => apply String.eqb_eq in H; first [subst a | subst b | idtac]
  | H : (?a =s ?b) = false |- _ => apply String.eqb_neq in H
  end.

Lemma aget_adel {A} (k k' : string) (m : amap A) :
  aget k' (adel k m) = if k' =s k then None else aget k' m.
Proof.
  induction m as [|[k0 v] m IH]; simpl.
  - destruct (k' =s k); reflexivity.
  - destruct (k =s k0) eqn:E; simpl.
    + seq. rewrite IH. destruct (k' =s k0); reflexivity.
    + rewrite IH. destruct (k' =s k0) eqn:E2; [|reflexivity].
      seq. destruct (k0 =s k) eqn:E3; [|reflexivity]. seq. congruence.
Qed.

Lemma aget_aset {A} (k k' : string) (v : A) (m : amap A) :
  aget k' (aset k v m) = if k' =s k then Some v else aget k' m.
Proof.
  unfold aset; simpl. destruct (k' =s k) eqn:E; [reflexivity|].
  rewrite aget_adel, E. reflexivity.
Qed.

Lemma aget_aset_same {A} (k : string) (v : A) m : aget k (aset k v m) = Some v.
Proof. rewrite aget_aset, seqb_refl. reflexivity. Qed.

Lemma aget_aset_other {A} (k k' : string) (v : A) m : k' <> k -> aget k' (aset k v m) = aget k' m.
Proof. intros H. rewrite aget_aset. apply String.eqb_neq in H. rewrite H. reflexivity. Qed.

Lemma aget_adel_same {A} (k : string) (m : amap A) : aget k (adel k m) = None.
Proof. rewrite aget_adel, seqb_refl. reflexivity. Qed.

Lemma aget_adel_other {A} (k k' : string) (m : amap A) : k' <> k -> aget k' (adel k m) = aget k' m.
Proof. intros H. rewrite aget_adel. apply String.eqb_neq in H. rewrite H. reflexivity. Qed.

Lemma sget_aset (k k' v : string) m : sget k' (aset k v m) = if k' =s k then v else sget k' m.
Proof. unfold sget. rewrite aget_aset. destruct (k' =s k); reflexivity. Qed.

Lemma sget_adel (k k' : string) m : sget k' (adel k m) = if k' =s k then "" else sget k' m.
Proof. unfold sget. rewrite aget_adel. destruct (k' =s k); reflexivity. Qed.

(* keys are unique in every map built from [] by aset / adel *)
Definition nodupk {A} (m : amap A) : Prop := NoDup (map fst m).

Lemma in_keys_adel {A} (k k' : string) (m : amap A) : In k' (map fst (adel k m)) -> In k' (map fst m) /\ k' <> k.
Proof.
  induction m as [|[k0 v] m IH]; simpl; [tauto|].
  destruct (k =s k0) eqn:E; simpl; intros H.
  - destruct (IH H); tauto.
  - destruct H as [->|H]; [seq; split; [tauto|congruence]|]. destruct (IH H); tauto.
Qed.

Lemma nodupk_adel {A} (k : string) (m : amap A) : nodupk m -> nodupk (adel k m).
Proof.
  unfold nodupk. induction m as [|[k0 v] m IH]; simpl; intros H; [constructor|].
  inversion H; subst. destruct (k =s k0); simpl; [auto|].
  constructor; [|auto]. intros Hin. apply in_keys_adel in Hin. tauto.
Qed.

Lemma nodupk_aset {A} (k : string) (v : A) (m : amap A) : nodupk m -> nodupk (aset k v m).
Proof.
  intros H. unfold nodupk, aset; simpl. constructor.
  - intros Hin. apply in_keys_adel in Hin. tauto.
  - apply nodupk_adel, H.
Qed.

Lemma aget_none_notin {A} (k : string) (m : amap A) : aget k m = None <-> ~ In k (map fst m).
Proof.
  induction m as [|[k0 v] m IH]; simpl; [tauto|].
  destruct (k =s k0) eqn:E; seq.
  - split; [discriminate|tauto].
  - rewrite IH. split; [intros H [H1|H1]; [congruence|tauto]|tauto].
Qed.

Lemma aget_in {A} (k : string) (v : A) (m : amap A) : aget k m = Some v -> In (k, v) m.
Proof.
  induction m as [|[k0 v0] m IH]; simpl; [discriminate|].
  destruct (k =s k0) eqn:E; seq; [intros [= ->]; auto|auto].
Qed.

Lemma in_aget {A} (k : string) (v : A) (m : amap A) : nodupk m -> In (k, v) m -> aget k m = Some v.
Proof.
  unfold nodupk. induction m as [|[k0 v0] m IH]; simpl; [tauto|].
  intros H [[= -> ->]|Hin]; [rewrite seqb_refl; reflexivity|].
  inversion H; subst. destruct (k =s k0) eqn:E; seq; [|auto].
  exfalso. apply H2. change k0 with (fst (k0, v)). apply in_map, Hin.
Qed.

Arguments aset {A} k v m : simpl never.
Arguments adel {A} k m : simpl never.

Ltac c_simpl := cbn [nodes binds n2p c2p npr panicked with_nodes with_binds with_n2p with_c2p with_npr upr_c panic].
Ltac sn_simpl := cbn [update_for_pod cleanup_for_pod sn_pods sn_dsr sn_costs sn_vun sn_node sn_claim sn_marked fst snd].

(* ================= well-formed API stores ================= *)
Definition keyed {A} (key : A -> string) (m : amap A) : Prop :=
  nodupk m /\ forall k v, In (k, v) m -> key v = k.

Definition api_wf (a : api) : Prop :=
  keyed n_name (a_nodes a) /\ keyed c_name (a_claims a) /\ keyed p_key (a_pods a).

Lemma in_adel {A} (k k' : string) (v : A) m : In (k', v) (adel k m) -> In (k', v) m.
Proof. unfold adel. rewrite filter_In. tauto. Qed.

Lemma keyed_aset {A} (key : A -> string) v m : keyed key m -> keyed key (aset (key v) v m).
Proof.
  intros [H1 H2]. split; [apply nodupk_aset, H1|].
  intros k v' [[= <- <-]|Hin]; [reflexivity|]. apply H2. eapply in_adel, Hin.
Qed.

Lemma keyed_adel {A} (key : A -> string) k m : keyed key m -> keyed key (adel k m).
Proof.
  intros [H1 H2]. split; [apply nodupk_adel, H1|]. intros k' v Hin. apply H2. eapply in_adel, Hin.
Qed.

Lemma keyed_nil {A} (key : A -> string) : keyed key [].
Proof. split; [constructor|intros k v []]. Qed.

Lemma api_wf_step a o : api_wf a -> api_wf (api_step a o).
Proof.
  intros (Hn & Hc & Hp). destruct o; simpl; unfold api_wf; simpl; try (split; [|split]; assumption).
  - split; [apply keyed_aset, Hn|split; assumption].
  - split; [apply keyed_adel, Hn|split; assumption].
  - split; [assumption|split; [apply keyed_aset, Hc|assumption]].
  - split; [assumption|split; [apply keyed_adel, Hc|assumption]].
  - split; [assumption|split; [assumption|apply keyed_aset, Hp]].
  - split; [assumption|split; [assumption|apply keyed_adel, Hp]].
Qed.

Lemma api_wf_0 : api_wf api0.
Proof. split; [|split]; apply keyed_nil. Qed.

(* ================= populateResourceRequests ================= *)
Definition on_node (name : string) (p : podobj) : bool := (p_node p =s name) && negb (p_term p).

Definition pop_sn (name : string) (s : snode) (kp : string * podobj) : snode :=
  if on_node name (snd kp) then update_for_pod s (snd kp) else s.

Lemma fst_populate name l s c :
  fst (fold_left (populate_step name) l (s, c)) = fold_left (pop_sn name) l s.
Proof.
  revert s c. induction l as [|kp l IH]; intros s c; simpl; [reflexivity|].
  unfold populate_step at 2, pop_sn at 2, on_node. simpl.
  destruct ((p_node (snd kp) =s name) && negb (p_term (snd kp))); apply IH.
Qed.

Definition lookup_on (name key : string) (l : amap podobj) : option podobj :=
  match aget key l with Some p => if on_node name p then Some p else None | None => None end.

Lemma lookup_on_cons name key k p l :
  lookup_on name key ((k, p) :: l) =
  if key =s k then (if on_node name p then Some p else None) else lookup_on name key l.
Proof. unfold lookup_on; simpl. destruct (key =s k); reflexivity. Qed.

Lemma keyed_cons_inv {A} (key : A -> string) k v (l : amap A) :
  keyed key ((k, v) :: l) -> key v = k /\ aget k l = None /\ keyed key l.
Proof.
  intros [H1 H2]. inversion H1; subst. repeat split.
  - apply H2. left; reflexivity.
  - apply aget_none_notin. assumption.
  - assumption.
  - intros k' v' Hin. apply H2. right; assumption.
Qed.

Lemma lookup_on_none name key l : aget key l = None -> lookup_on name key l = None.
Proof. unfold lookup_on. intros ->. reflexivity. Qed.

Lemma pop_pods name l : keyed p_key l -> forall s key,
  aget key (sn_pods (fold_left (pop_sn name) l s)) =
  match lookup_on name key l with Some p => Some (pent_of p) | None => aget key (sn_pods s) end.
Proof.
  induction l as [|[k p] l IH]; intros Hk s key; simpl; [reflexivity|].
  destruct (keyed_cons_inv _ _ _ _ Hk) as (Hkey & Hnone & Hk').
  rewrite (IH Hk'), lookup_on_cons. unfold pop_sn; sn_simpl.
  destruct (key =s k) eqn:E; seq.
  - rewrite (lookup_on_none _ _ _ Hnone).
    destruct (on_node name p); sn_simpl; [rewrite Hkey, aget_aset_same|]; reflexivity.
  - destruct (lookup_on name key l); [reflexivity|].
    destruct (on_node name p); sn_simpl; [rewrite Hkey, aget_aset_other by assumption|]; reflexivity.
Qed.

Lemma pop_dsr name l : keyed p_key l -> forall s key,
  aget key (sn_dsr (fold_left (pop_sn name) l s)) =
  match lookup_on name key l with
  | Some p => if p_ds p then Some (p_req p, p_lim p) else aget key (sn_dsr s)
  | None => aget key (sn_dsr s)
  end.
Proof.
  induction l as [|[k p] l IH]; intros Hk s key; simpl; [reflexivity|].
  destruct (keyed_cons_inv _ _ _ _ Hk) as (Hkey & Hnone & Hk').
  rewrite (IH Hk'), lookup_on_cons. unfold pop_sn; sn_simpl.
  destruct (key =s k) eqn:E; seq.
  - rewrite (lookup_on_none _ _ _ Hnone).
    destruct (on_node name p); sn_simpl; [|reflexivity].
    destruct (p_ds p); [rewrite Hkey, aget_aset_same|]; reflexivity.
  - assert (Hs : aget key (sn_dsr (if on_node name p then update_for_pod s p else s)) = aget key (sn_dsr s)).
    { destruct (on_node name p); sn_simpl; [|reflexivity].
      destruct (p_ds p); [rewrite Hkey, aget_aset_other by assumption|]; reflexivity. }
    rewrite Hs. reflexivity.
Qed.

Lemma pop_costs name l : keyed p_key l -> forall s key,
  aget key (sn_costs (fold_left (pop_sn name) l s)) =
  match lookup_on name key l with
  | Some p => if p_ds p then aget key (sn_costs s) else if 0 <? p_cost p then Some (p_cost p) else None
  | None => aget key (sn_costs s)
  end.
Proof.
  induction l as [|[k p] l IH]; intros Hk s key; simpl; [reflexivity|].
  destruct (keyed_cons_inv _ _ _ _ Hk) as (Hkey & Hnone & Hk').
  rewrite (IH Hk'), lookup_on_cons. unfold pop_sn; sn_simpl.
  destruct (key =s k) eqn:E; seq.
  - rewrite (lookup_on_none _ _ _ Hnone).
    destruct (on_node name p); sn_simpl; [|reflexivity].
    destruct (p_ds p); [reflexivity|].
    destruct (0 <? p_cost p); [rewrite Hkey, aget_aset_same|rewrite Hkey, aget_adel_same]; reflexivity.
  - assert (Hs : aget key (sn_costs (if on_node name p then update_for_pod s p else s)) = aget key (sn_costs s)).
    { destruct (on_node name p); sn_simpl; [|reflexivity].
      destruct (p_ds p); [reflexivity|].
      destruct (0 <? p_cost p); [rewrite Hkey, aget_aset_other by assumption|rewrite Hkey, aget_adel_other by assumption]; reflexivity. }
    rewrite Hs. reflexivity.
Qed.

Lemma mem_app v l1 l2 : mem v (l1 ++ l2) = mem v l1 || mem v l2.
Proof. unfold mem. apply existsb_app. Qed.

Lemma pop_vun name l s v :
  mem v (sn_vun (fold_left (pop_sn name) l s)) =
  mem v (sn_vun s) || existsb (fun kp => on_node name (snd kp) && mem v (p_vols (snd kp))) l.
Proof.
  revert s. induction l as [|[k p] l IH]; intros s; simpl; [rewrite orb_false_r; reflexivity|].
  rewrite IH. unfold pop_sn; simpl. destruct (on_node name p); simpl.
  - rewrite mem_app, orb_assoc. reflexivity.
  - reflexivity.
Qed.

Lemma pop_ident name l s :
  sn_node (fold_left (pop_sn name) l s) = sn_node s /\
  sn_claim (fold_left (pop_sn name) l s) = sn_claim s /\
  sn_marked (fold_left (pop_sn name) l s) = sn_marked s.
Proof.
  revert s. induction l as [|kp l IH]; intros s; simpl; [auto|].
  destruct (IH (pop_sn name s kp)) as (H1 & H2 & H3). rewrite H1, H2, H3.
  unfold pop_sn. destruct (on_node name (snd kp)); simpl; auto.
Qed.

(* ================= nodePoolResources = sum over the cached nodes ================= *)
Ltac res_crush :=
  repeat match goal with
  | r : res |- _ => destruct r as [[? ?] ?]
  end; unfold radd, rsub, z3 in *; simpl in *; try reflexivity; try (apply f_equal2; [apply f_equal2|]; lia).

Lemma radd_z3_l r : radd z3 r = r. Proof. res_crush. Qed.
Lemma radd_z3_r r : radd r z3 = r. Proof. res_crush. Qed.
Lemma rsub_z3 r : rsub r z3 = r. Proof. res_crush. Qed.

Lemma rzero_true r : rzero r = true -> r = z3.
Proof.
  destruct r as [[a b] c]; simpl. rewrite !andb_true_iff, !Z.eqb_eq. intros [[-> ->] ->]. reflexivity.
Qed.

Lemma rget_aset k k' v m : rget k' (aset k v m) = if k' =s k then v else rget k' m.
Proof. unfold rget. rewrite aget_aset. destruct (k' =s k); reflexivity. Qed.

Lemma rget_gc k k' m : rget k' (gc_pool k m) = rget k' m.
Proof.
  unfold gc_pool. destruct (aget k m) as [v|] eqn:E; [|reflexivity].
  destruct (rzero v) eqn:Z; [|reflexivity].
  unfold rget. rewrite aget_adel. destruct (k' =s k) eqn:E2; [|reflexivity].
  seq. rewrite E. symmetry. apply rzero_true, Z.
Qed.

Definition ocontrib (pool : string) (o : option snode) : res :=
  match o with Some s => contrib pool s | None => z3 end.

Lemma upr_spec old new m pool : pool <> "" ->
  rget pool (upr old new m) = radd (rsub (rget pool m) (ocontrib pool old)) (ocontrib pool new).
Proof.
  intros Hp. unfold upr.
  assert (Ho : forall o, let '(p, r) := pool_res o in ocontrib pool o = if p =s pool then r else z3).
  { intros [s|]; cbn [pool_res ocontrib]; [|destruct ("" =s pool); reflexivity].
    unfold contrib. destruct (has_identity s); cbn [andb]; [reflexivity|].
    destruct ("" =s pool); reflexivity. }
  pose proof (Ho old) as H1. pose proof (Ho new) as H2.
  destruct (pool_res old) as [op ores]. destruct (pool_res new) as [np nres].
  rewrite H1, H2. clear H1 H2 Ho.
  rewrite !rget_gc.
  set (m1 := if negb (np =s "") && match aget np m with None => true | Some _ => false end then aset np z3 m else m).
  assert (E1 : rget pool m1 = rget pool m).
  { unfold m1. destruct (negb (np =s "") && _) eqn:C; [|reflexivity].
    rewrite rget_aset. destruct (pool =s np) eqn:E; [|reflexivity]. seq.
    apply andb_true_iff in C. destruct C as [_ C]. unfold rget.
    destruct (aget np m); [discriminate|reflexivity]. }
  set (m2 := if negb (op =s "") && negb (rzero ores) then aset op (rsub (rget op m1) ores) m1 else m1).
  assert (E2 : rget pool m2 = rsub (rget pool m) (if op =s pool then ores else z3)).
  { unfold m2. destruct (negb (op =s "") && negb (rzero ores)) eqn:C.
    - rewrite rget_aset. rewrite (seqb_sym op pool). destruct (pool =s op) eqn:E; seq.
      + rewrite E1. reflexivity.
      + rewrite E1, rsub_z3. reflexivity.
    - rewrite E1. destruct (op =s pool) eqn:E; [|rewrite rsub_z3; reflexivity]. seq.
      apply andb_false_iff in C. destruct C as [C|C].
      + apply negb_false_iff in C. seq. congruence.
      + apply negb_false_iff, rzero_true in C. rewrite C, rsub_z3. reflexivity. }
  destruct (negb (np =s "") && negb (rzero nres)) eqn:C.
  - rewrite rget_aset. rewrite (seqb_sym np pool). destruct (pool =s np) eqn:E; seq.
    + rewrite E2. reflexivity.
    + rewrite E2, radd_z3_r. reflexivity.
  - rewrite E2. destruct (np =s pool) eqn:E; [|rewrite radd_z3_r; reflexivity]. seq.
    apply andb_false_iff in C. destruct C as [C|C].
    + apply negb_false_iff in C. seq. congruence.
    + apply negb_false_iff, rzero_true in C. rewrite C, radd_z3_r. reflexivity.
Qed.

Lemma adel_cons {A} X k (v : A) m : adel X ((k, v) :: m) = if X =s k then adel X m else (k, v) :: adel X m.
Proof. unfold adel. simpl. destruct (X =s k); reflexivity. Qed.

Lemma pool_total_cons pool k s m : pool_total pool ((k, s) :: m) = radd (contrib pool s) (pool_total pool m).
Proof. reflexivity. Qed.

Lemma pool_total_adel pool X (m : amap snode) : nodupk m ->
  pool_total pool (adel X m) = rsub (pool_total pool m) (ocontrib pool (aget X m)).
Proof.
  unfold nodupk. induction m as [|[k s] m IH]; intros H; [reflexivity|].
  inversion H; subst. rewrite adel_cons, pool_total_cons. cbn [aget].
  destruct (X =s k) eqn:E.
  - seq. rewrite IH by assumption.
    assert (aget k m = None) as -> by (apply aget_none_notin; assumption).
    cbn [ocontrib]. generalize (contrib pool s) (pool_total pool m). intros. res_crush.
  - rewrite pool_total_cons, IH by assumption.
    generalize (ocontrib pool (aget X m)) (contrib pool s) (pool_total pool m). intros. res_crush.
Qed.

Lemma pool_total_aset pool X s (m : amap snode) : nodupk m ->
  pool_total pool (aset X s m) = radd (rsub (pool_total pool m) (ocontrib pool (aget X m))) (contrib pool s).
Proof.
  intros H. unfold aset. rewrite pool_total_cons, pool_total_adel by assumption.
  generalize (ocontrib pool (aget X m)) (contrib pool s) (pool_total pool m). intros. res_crush.
Qed.

Definition Npr (c : cache) : Prop :=
  nodupk (nodes c) /\ forall pool, pool <> "" -> rget pool (npr c) = pool_total pool (nodes c).

(* identity of a StateNode: what its pool contribution depends on *)
Definition ident (s : snode) := (sn_node s, sn_claim s, sn_marked s).

Lemma contrib_ident pool s s' : ident s = ident s' -> contrib pool s = contrib pool s'.
Proof.
  unfold ident. intros [= H1 H2 H3]. unfold contrib, has_identity, sn_pool, sn_res, sn_mfd, sn_deleted, sn_cap, sn_initialized.
  rewrite H1, H2, H3. reflexivity.
Qed.

(* replacing an entry by one of the same identity *)
Lemma Npr_same_ident c X s s' : Npr c -> aget X (nodes c) = Some s -> ident s = ident s' ->
  Npr (with_nodes c (aset X s' (nodes c))).
Proof.
  intros [Hn Hp] Hs Hi. split; c_simpl; [apply nodupk_aset, Hn|].
  intros pool Hpool. rewrite pool_total_aset, Hs by assumption. cbn [ocontrib].
  rewrite (contrib_ident pool s s' Hi), (Hp pool Hpool).
  generalize (contrib pool s') (pool_total pool (nodes c)). intros. res_crush.
Qed.

(* replacing / inserting / removing an entry together with the matching updateNodePoolResources call *)
Lemma Npr_upr_set c X old s' : Npr c ->
  (forall pool, ocontrib pool old = ocontrib pool (aget X (nodes c))) ->
  Npr (with_nodes (upr_c old (Some s') c) (aset X s' (nodes c))).
Proof.
  intros [Hn Hp] Ho. split; c_simpl; [apply nodupk_aset, Hn|].
  intros pool Hpool. rewrite upr_spec, pool_total_aset, (Hp pool Hpool), Ho by assumption. reflexivity.
Qed.

Lemma Npr_upr_del c X old : Npr c ->
  (forall pool, ocontrib pool old = ocontrib pool (aget X (nodes c))) ->
  Npr (with_nodes (upr_c old None c) (adel X (nodes c))).
Proof.
  intros [Hn Hp] Ho. split; c_simpl; [apply nodupk_adel, Hn|].
  intros pool Hpool. rewrite upr_spec, pool_total_adel, (Hp pool Hpool), Ho by assumption.
  cbn [ocontrib]. apply radd_z3_r.
Qed.

Definition oid (X : string) (c : cache) := option_map ident (aget X (nodes c)).

Lemma ocontrib_oid pool o1 o2 : option_map ident o1 = option_map ident o2 -> ocontrib pool o1 = ocontrib pool o2.
Proof.
  destruct o1 as [s1|], o2 as [s2|]; simpl; try discriminate; [|reflexivity].
  intros H. apply contrib_ident. congruence.
Qed.

Lemma contrib_new_node pool : contrib pool new_node = z3.
Proof. reflexivity. Qed.

Lemma oid_set_same X Y c s s' : aget Y (nodes c) = Some s -> ident s = ident s' ->
  oid X (with_nodes c (aset Y s' (nodes c))) = oid X c.
Proof.
  intros Hs Hi. unfold oid. c_simpl. rewrite aget_aset. destruct (X =s Y) eqn:E; [|reflexivity].
  seq. rewrite Hs. simpl. congruence.
Qed.

Lemma Npr_binds c m : Npr (with_binds c m) <-> Npr c. Proof. reflexivity. Qed.
Lemma Npr_n2p c m : Npr (with_n2p c m) <-> Npr c. Proof. reflexivity. Qed.
Lemma Npr_c2p c m : Npr (with_c2p c m) <-> Npr c. Proof. reflexivity. Qed.
Lemma Npr_panic c : Npr (panic c) <-> Npr c. Proof. reflexivity. Qed.

Lemma Npr_cob p c : Npr c -> Npr (cleanup_old_bindings p c).
Proof.
  intros H. unfold cleanup_old_bindings. destruct (aget (p_key p) (binds c)); [|exact H].
  destruct (s =s p_node p); [exact H|].
  destruct (aget (sget s (n2p c)) (nodes c)) eqn:E; [|exact H].
  apply Npr_binds. eapply Npr_same_ident; eauto.
Qed.

Lemma oid_cob X p c : oid X (cleanup_old_bindings p c) = oid X c.
Proof.
  unfold cleanup_old_bindings. destruct (aget (p_key p) (binds c)); [|reflexivity].
  destruct (s =s p_node p); [reflexivity|].
  destruct (aget (sget s (n2p c)) (nodes c)) eqn:E; [|reflexivity].
  change (oid X (with_nodes c (aset (sget s (n2p c)) (cleanup_for_pod (p_key p) s0) (nodes c))) = oid X c).
  eapply oid_set_same; eauto.
Qed.

Lemma Npr_completion k c : Npr c -> Npr (pod_completion k c).
Proof.
  intros H. unfold pod_completion. destruct (aget k (binds c)); [|exact H].
  destruct (aget (sget s (n2p c)) (nodes c)) eqn:E; [|exact H].
  change (Npr (with_binds (with_nodes c (aset (sget s (n2p c)) (cleanup_for_pod k s0) (nodes c))) (adel k (binds c)))).
  apply Npr_binds. eapply Npr_same_ident; eauto.
Qed.

Lemma Npr_update_pod pn p c : Npr c -> Npr (update_pod_gen pn p c).
Proof.
  intros H. unfold update_pod_gen. destruct (p_term p); [apply Npr_completion, H|].
  destruct (p_node p =s ""); [destruct pn; [exact H|apply Npr_completion, H]|].
  destruct (aget (sget (p_node p) (n2p c)) (nodes c)) eqn:E; [|exact H].
  unfold bind_pod. apply Npr_binds, Npr_cob. eapply Npr_same_ident; eauto.
Qed.

Lemma Npr_cleanup_node k name c : Npr c -> Npr (cleanup_node_gen k name c).
Proof.
  intros H. unfold cleanup_node_gen. destruct (sget name (n2p c) =s ""); [exact H|].
  destruct (aget (sget name (n2p c)) (nodes c)) as [s|] eqn:E; [|exact H].
  apply Npr_n2p. destruct (sn_claim s).
  - apply Npr_upr_set; [exact H|]. intros pool. rewrite E. reflexivity.
  - apply Npr_upr_del; [exact H|]. intros pool. rewrite E. reflexivity.
Qed.

Lemma Npr_cleanup_claim name c : Npr c -> Npr (cleanup_claim name c).
Proof.
  intros H. unfold cleanup_claim.
  set (c1 := if sget name (c2p c) =s "" then c else _).
  assert (H1 : Npr c1).
  { unfold c1. destruct (sget name (c2p c) =s ""); [exact H|].
    destruct (aget (sget name (c2p c)) (nodes c)) as [s|] eqn:E; [|exact H].
    destruct (sn_node s).
    - apply Npr_upr_set; [exact H|]. intros pool. rewrite E. reflexivity.
    - apply Npr_upr_del; [exact H|]. intros pool. rewrite E. reflexivity. }
  destruct (panicked c1); [exact H1|]. apply Npr_c2p, H1.
Qed.

Lemma oid_cleanup_node k X name c : X <> sget name (n2p c) -> oid X (cleanup_node_gen k name c) = oid X c.
Proof.
  intros Hx. unfold cleanup_node_gen. destruct (sget name (n2p c) =s ""); [reflexivity|].
  destruct (aget (sget name (n2p c)) (nodes c)) as [s|] eqn:E; [|reflexivity].
  unfold oid. destruct (sn_claim s); c_simpl.
  - rewrite aget_aset_other by assumption. reflexivity.
  - rewrite aget_adel_other by assumption. reflexivity.
Qed.

Lemma oid_cleanup_claim X name c : X <> sget name (c2p c) -> oid X (cleanup_claim name c) = oid X c.
Proof.
  intros Hx. unfold cleanup_claim.
  set (c1 := if sget name (c2p c) =s "" then c else _).
  assert (H1 : oid X c1 = oid X c).
  { unfold c1. destruct (sget name (c2p c) =s ""); [reflexivity|].
    destruct (aget (sget name (c2p c)) (nodes c)) as [s|] eqn:E; [|reflexivity].
    unfold oid. destruct (sn_node s); c_simpl.
    - rewrite aget_aset_other by assumption. reflexivity.
    - rewrite aget_adel_other by assumption. reflexivity. }
  destruct (panicked c1); exact H1.
Qed.

Lemma Npr_set_mark b c id : Npr c -> Npr (set_mark b c id).
Proof.
  intros H. unfold set_mark. destruct (aget id (nodes c)) as [s|] eqn:E; [|exact H].
  apply Npr_upr_set; [exact H|]. intros pool. rewrite E. reflexivity.
Qed.

Lemma Npr_marks b ids c : Npr c -> Npr (fold_left (set_mark b) ids c).
Proof. revert c. induction ids as [|i ids IH]; intros c H; simpl; [exact H|]. apply IH, Npr_set_mark, H. Qed.

Lemma populate_snd name l s c :
  Npr c -> Npr (snd (fold_left (populate_step name) l (s, c))) /\
  forall X, oid X (snd (fold_left (populate_step name) l (s, c))) = oid X c.
Proof.
  revert s c. induction l as [|kp l IH]; intros s c H; simpl; [auto|].
  unfold populate_step at 2 4. cbn [fst snd].
  destruct ((p_node (snd kp) =s name) && negb (p_term (snd kp))).
  - destruct (IH (update_for_pod s (snd kp)) (bind_pod (snd kp) (cleanup_old_bindings (snd kp) c))) as [H1 H2].
    { unfold bind_pod. apply Npr_binds, Npr_cob, H. }
    split; [exact H1|]. intros X. rewrite H2. unfold bind_pod.
    change (oid X (cleanup_old_bindings (snd kp) c) = oid X c). apply oid_cob.
  - apply IH, H.
Qed.

Lemma Npr_update_node k a n c : Npr c -> Npr (update_node_gen k a n c).
Proof.
  intros H. unfold update_node_gen. destruct (negb (trackable n)); [exact H|].
  set (pid := epid n).
  set (old := match aget pid (nodes c) with Some s => s | None => new_node end).
  destruct (fold_left (populate_step (n_name n)) (a_pods a)
              (mkSN (Some n) (sn_claim old) [] [] [] [] (sn_marked old), c)) as [n1 c1] eqn:EF.
  pose proof (populate_snd (n_name n) (a_pods a) (mkSN (Some n) (sn_claim old) [] [] [] [] (sn_marked old)) c H) as [P1 P2].
  rewrite EF in P1, P2. cbn [snd] in P1, P2.
  set (c2 := match aget (n_name n) (n2p c1) with
             | Some id => if id =s pid then c1 else cleanup_node_gen k (n_name n) c1
             | None => c1 end).
  assert (H2 : Npr c2 /\ oid pid c2 = oid pid c).
  { unfold c2. destruct (aget (n_name n) (n2p c1)) as [id|] eqn:E; [|split; [exact P1|apply P2]].
    destruct (id =s pid) eqn:E2; [split; [exact P1|apply P2]|].
    split; [apply Npr_cleanup_node, P1|]. rewrite oid_cleanup_node; [apply P2|].
    unfold sget. rewrite E. seq. congruence. }
  destruct H2 as [H2 H3]. destruct (panicked c2); [exact H2|].
  apply Npr_n2p. apply (Npr_upr_set c2 pid (Some old) n1); [exact H2|].
  intros pool. unfold oid in H3.
  transitivity (ocontrib pool (aget pid (nodes c))); [|apply ocontrib_oid; symmetry; exact H3].
  unfold old. destruct (aget pid (nodes c)); reflexivity.
Qed.

Lemma Npr_update_claim cc cl c : Npr c -> Npr (update_claim_gen cc cl c).
Proof.
  intros H. unfold update_claim_gen.
  set (c1 := if c_pid cl =s "" then c else _).
  assert (H1 : Npr c1).
  { unfold c1. destruct (c_pid cl =s "") eqn:Ep; [exact H|].
    set (old := match aget (c_pid cl) (nodes c) with Some s => s | None => new_node end).
    set (c' := match aget (c_name cl) (c2p c) with
               | Some id => if id =s c_pid cl then c else cleanup_claim (c_name cl) c
               | None => c end).
    assert (H2 : Npr c' /\ oid (c_pid cl) c' = oid (c_pid cl) c).
    { unfold c'. destruct (aget (c_name cl) (c2p c)) as [id|] eqn:E; [|auto].
      destruct (id =s c_pid cl) eqn:E2; [auto|].
      split; [apply Npr_cleanup_claim, H|]. apply oid_cleanup_claim. unfold sget. rewrite E. seq. congruence. }
    destruct H2 as [H2 H3]. destruct (panicked c'); [exact H2|].
    apply (Npr_upr_set c' (c_pid cl) (Some old)); [exact H2|]. intros pool. unfold oid in H3.
    transitivity (ocontrib pool (aget (c_pid cl) (nodes c))); [|apply ocontrib_oid; symmetry; exact H3].
    unfold old. destruct (aget (c_pid cl) (nodes c)); reflexivity. }
  destruct (panicked c1); [exact H1|]. apply Npr_c2p, H1.
Qed.

Lemma Npr_step v a c o : Npr c -> Npr (cache_step_gen v a c o).
Proof.
  intros H. unfold cache_step_gen. destruct (panicked c); [exact H|].
  destruct o; try exact H.
  - unfold deliver_node_gen. destruct (aget name (a_nodes a)); [apply Npr_update_node, H|apply Npr_cleanup_node, H].
  - unfold deliver_claim_gen. destruct (aget name (a_claims a)); [apply Npr_update_claim, H|apply Npr_cleanup_claim, H].
  - unfold deliver_pod_gen. destruct (aget key (a_pods a)); [apply Npr_update_pod, H|apply Npr_completion, H].
  - apply Npr_marks, H.
  - apply Npr_marks, H.
Qed.

Lemma Npr_0 : Npr cache0.
Proof. split; [constructor|]. intros pool _. reflexivity. Qed.

Lemma Npr_run_from v ops s : Npr (snd s) -> Npr (snd (fold_left (step_gen v) ops s)).
Proof.
  revert s. induction ops as [|o ops IH]; intros s H; simpl; [exact H|].
  apply IH. unfold step_gen. cbn [snd]. apply Npr_step, H.
Qed.

(* for every history: each pool's cached total is the sum over the cached StateNodes *)
Lemma npr_invariant_l : forall (ops : list op) (pool : string), pool <> "" ->
  rget pool (npr (snd (run ops))) = pool_total pool (nodes (snd (run ops))).
Proof. intros ops. apply (Npr_run_from current ops (api0, cache0) Npr_0). Qed.

(* ================= a Node delivery rebuilds the node's aggregates from the API pod list ================= *)
Definition rebuilt (a : api) (name : string) (s : snode) : Prop :=
  (forall key, aget key (sn_pods s) = option_map pent_of (pod_on a name key)) /\
  (forall key, aget key (sn_dsr s) =
     match pod_on a name key with Some p => if p_ds p then Some (p_req p, p_lim p) else None | None => None end) /\
  (forall key, aget key (sn_costs s) =
     match pod_on a name key with
     | Some p => if negb (p_ds p) && (0 <? p_cost p) then Some (p_cost p) else None
     | None => None end) /\
  (forall v, mem v (sn_vun s) =
     existsb (fun kp => match pod_on a name (fst kp) with Some p => mem v (p_vols p) | None => false end) (a_pods a)).

Lemma pod_on_lookup a name key : pod_on a name key = lookup_on name key (a_pods a).
Proof. reflexivity. Qed.

Lemma existsb_ext_in {A} (f g : A -> bool) l : (forall x, In x l -> f x = g x) -> existsb f l = existsb g l.
Proof.
  induction l as [|x l IH]; intros H; simpl; [reflexivity|].
  rewrite H by (left; reflexivity). rewrite IH; [reflexivity|]. intros y Hy. apply H. right; exact Hy.
Qed.

Lemma populated_rebuilt a name n0 :
  keyed p_key (a_pods a) -> sn_pods n0 = [] -> sn_dsr n0 = [] -> sn_costs n0 = [] -> sn_vun n0 = [] ->
  rebuilt a name (fold_left (pop_sn name) (a_pods a) n0).
Proof.
  intros Hk E1 E2 E3 E4. repeat split.
  - intros key. rewrite pop_pods, E1, pod_on_lookup by assumption.
    destruct (lookup_on name key (a_pods a)); reflexivity.
  - intros key. rewrite pop_dsr, E2, pod_on_lookup by assumption.
    destruct (lookup_on name key (a_pods a)) as [p|]; [|reflexivity]. destruct (p_ds p); reflexivity.
  - intros key. rewrite pop_costs, E3, pod_on_lookup by assumption.
    destruct (lookup_on name key (a_pods a)) as [p|]; [|reflexivity]. destruct (p_ds p); reflexivity.
  - intros v. rewrite pop_vun, E4. cbn [mem existsb orb]. apply existsb_ext_in.
    intros [k p] Hin. cbn [fst snd]. unfold pod_on.
    rewrite (in_aget k p (a_pods a) (proj1 Hk) Hin).
    fold (on_node name p). destruct (on_node name p); reflexivity.
Qed.

Lemma update_node_entry a n c : api_wf a -> trackable n = true -> panicked (update_node a n c) = false ->
  exists s, aget (epid n) (nodes (update_node a n c)) = Some s /\
            sn_node s = Some n /\
            sn_claim s = match aget (epid n) (nodes c) with Some o => sn_claim o | None => None end /\
            sn_marked s = match aget (epid n) (nodes c) with Some o => sn_marked o | None => false end /\
            rebuilt a (n_name n) s /\
            aget (n_name n) (n2p (update_node a n c)) = Some (epid n).
Proof.
  intros (_ & _ & Hk) Ht. unfold update_node, update_node_gen. rewrite Ht. cbn [negb].
  set (old := match aget (epid n) (nodes c) with Some s => s | None => new_node end).
  set (n0 := mkSN (Some n) (sn_claim old) [] [] [] [] (sn_marked old)).
  pose proof (fst_populate (n_name n) (a_pods a) n0 c) as HF.
  destruct (fold_left (populate_step (n_name n)) (a_pods a) (n0, c)) as [n1 c1]. cbn [fst] in HF.
  set (c2 := match aget (n_name n) (n2p c1) with
             | Some id => if id =s epid n then c1 else cleanup_node_gen false (n_name n) c1
             | None => c1 end).
  destruct (panicked c2) eqn:P; [intros HH; cbv iota in HH; congruence|]. intros _.
  exists n1. c_simpl. rewrite !aget_aset_same.
  destruct (pop_ident (n_name n) (a_pods a) n0) as (I1 & I2 & I3).
  rewrite <- HF in I1, I2, I3. rewrite I1, I2, I3. subst n0 old. cbn [sn_node sn_claim sn_marked].
  repeat split.
  - destruct (aget (epid n) (nodes c)); reflexivity.
  - destruct (aget (epid n) (nodes c)); reflexivity.
  - rewrite HF. apply populated_rebuilt; auto.
  - rewrite HF. apply populated_rebuilt; auto.
  - rewrite HF. apply populated_rebuilt; auto.
  - rewrite HF. apply populated_rebuilt; auto.
Qed.

(* ================= a NodeClaim delivery carries the aggregates over ================= *)
Definition aggregates (s : snode) := (sn_pods s, sn_dsr s, sn_costs s, sn_vun s).

Lemma update_claim_entry cl c : c_pid cl <> "" -> panicked (update_claim cl c) = false ->
  exists s, aget (c_pid cl) (nodes (update_claim cl c)) = Some s /\
            sn_claim s = Some cl /\
            sn_node s = match aget (c_pid cl) (nodes c) with Some o => sn_node o | None => None end /\
            sn_marked s = match aget (c_pid cl) (nodes c) with Some o => sn_marked o | None => false end /\
            aggregates s = match aget (c_pid cl) (nodes c) with Some o => aggregates o | None => ([], [], [], []) end /\
            aget (c_name cl) (c2p (update_claim cl c)) = Some (c_pid cl).
Proof.
  intros Hp. unfold update_claim, update_claim_gen. apply String.eqb_neq in Hp. rewrite Hp.
  set (old := match aget (c_pid cl) (nodes c) with Some s => s | None => new_node end).
  set (c' := match aget (c_name cl) (c2p c) with
             | Some id => if id =s c_pid cl then c else cleanup_claim (c_name cl) c
             | None => c end).
  destruct (panicked c') eqn:P1; [intros HH; cbv iota in HH; rewrite P1 in HH; cbv iota in HH; congruence|].
  c_simpl. rewrite P1. intros _. c_simpl. rewrite !aget_aset_same.
  eexists. split; [reflexivity|]. unfold aggregates. subst old. cbn [sn_node sn_claim sn_marked sn_pods sn_dsr sn_costs sn_vun].
  repeat split; destruct (aget (c_pid cl) (nodes c)); reflexivity.
Qed.

(* ================= the closing round: coherence of the cache with a fixed API state ================= *)
Definition uniq_pids (a : api) : Prop :=
  (forall m1 m2 n1 n2, aget m1 (a_nodes a) = Some n1 -> aget m2 (a_nodes a) = Some n2 ->
     trackable n1 = true -> trackable n2 = true -> epid n1 = epid n2 -> m1 = m2) /\
  (forall k1 k2 c1 c2, aget k1 (a_claims a) = Some c1 -> aget k2 (a_claims a) = Some c2 ->
     c_pid c1 <> "" -> c_pid c1 = c_pid c2 -> k1 = k2) /\
  (forall m n, aget m (a_nodes a) = Some n -> m <> "").

Definition api_ok (a : api) : Prop := api_wf a /\ uniq_pids a.

Definition empty_agg (s : snode) : Prop := sn_pods s = [] /\ sn_dsr s = [] /\ sn_costs s = [] /\ sn_vun s = [].

(* identity layer: which Node / NodeClaim object sits under which provider id, and the two name maps *)
Record CohI (a : api) (c : cache) : Prop := {
  ci_np : panicked c = false;
  ci_n2p : forall m X, aget m (n2p c) = Some X ->
             X <> "" /\ exists s nd, aget X (nodes c) = Some s /\ sn_node s = Some nd /\ n_name nd = m;
  ci_nback : forall X s nd, aget X (nodes c) = Some s -> sn_node s = Some nd -> aget (n_name nd) (n2p c) = Some X;
  ci_c2p : forall k X, aget k (c2p c) = Some X -> X <> "" ->
             exists s cl, aget X (nodes c) = Some s /\ sn_claim s = Some cl /\ c_name cl = k;
  ci_cback : forall X s cl, aget X (nodes c) = Some s -> sn_claim s = Some cl -> aget (c_name cl) (c2p c) = Some X;
  ci_ident : forall X s, aget X (nodes c) = Some s -> has_identity s = true;
  ci_keys : forall X s, aget X (nodes c) = Some s -> X <> "";
  (* relative to the API: provider ids are not handed to another name, tracked names stay trackable,
     launched claims stay launched *)
  ci_own_n : forall m X nd m', aget m (n2p c) = Some X -> aget m' (a_nodes a) = Some nd ->
               trackable nd = true -> epid nd = X -> m' = m;
  ci_own_c : forall k X cl k', aget k (c2p c) = Some X -> X <> "" -> aget k' (a_claims a) = Some cl ->
               c_pid cl = X -> k' = k;
  ci_track : forall m X nd, aget m (n2p c) = Some X -> aget m (a_nodes a) = Some nd -> trackable nd = true;
  ci_launched : forall k X cl, aget k (c2p c) = Some X -> X <> "" -> aget k (a_claims a) = Some cl -> c_pid cl <> ""
}.

Lemma ci_n2p_inj a c m m' X : CohI a c -> aget m (n2p c) = Some X -> aget m' (n2p c) = Some X -> m = m'.
Proof.
  intros H H1 H2. destruct (ci_n2p _ _ H _ _ H1) as (_ & s & nd & E1 & E2 & E3).
  destruct (ci_n2p _ _ H _ _ H2) as (_ & s' & nd' & E1' & E2' & E3'). congruence.
Qed.

Lemma ci_c2p_inj a c k k' X : CohI a c -> X <> "" -> aget k (c2p c) = Some X -> aget k' (c2p c) = Some X -> k = k'.
Proof.
  intros H Hx H1 H2. destruct (ci_c2p _ _ H _ _ H1 Hx) as (s & cl & E1 & E2 & E3).
  destruct (ci_c2p _ _ H _ _ H2 Hx) as (s' & cl' & E1' & E2' & E3'). congruence.
Qed.

(* transformations that keep every entry's identity and the name maps keep CohI *)
Definition same_ids (c c' : cache) : Prop :=
  panicked c' = panicked c /\ n2p c' = n2p c /\ c2p c' = c2p c /\ forall X, oid X c' = oid X c.

Lemma same_ids_refl c : same_ids c c.
Proof. unfold same_ids. auto. Qed.

Lemma same_ids_trans c1 c2 c3 : same_ids c1 c2 -> same_ids c2 c3 -> same_ids c1 c3.
Proof.
  intros (A1 & A2 & A3 & A4) (B1 & B2 & B3 & B4).
  split; [congruence|split; [congruence|split; [congruence|]]]. intros X. rewrite B4. apply A4.
Qed.

Lemma oid_some X c c' s : oid X c' = oid X c -> aget X (nodes c') = Some s ->
  exists s0, aget X (nodes c) = Some s0 /\ ident s0 = ident s.
Proof.
  unfold oid. intros H E. rewrite E in H. destruct (aget X (nodes c)) as [s0|]; [|discriminate].
  exists s0. split; [reflexivity|]. simpl in H. congruence.
Qed.

Lemma ident_fields s s' : ident s = ident s' ->
  sn_node s = sn_node s' /\ sn_claim s = sn_claim s' /\ sn_marked s = sn_marked s'.
Proof. unfold ident. intros [= -> -> ->]. auto. Qed.

Lemma has_identity_ident s s' : ident s = ident s' -> has_identity s = has_identity s'.
Proof. intros H. destruct (ident_fields _ _ H) as (H1 & H2 & _). unfold has_identity. rewrite H1, H2. reflexivity. Qed.

Lemma CohI_same_ids a c c' : same_ids c c' -> CohI a c -> CohI a c'.
Proof.
  intros (P & N & C & O) H.
  assert (Sym : forall X, oid X c = oid X c') by (intros; symmetry; apply O).
  constructor.
  - rewrite P. apply H.
  - intros m X E. rewrite N in E. destruct (ci_n2p _ _ H _ _ E) as (Hx & s & nd & E1 & E2 & E3).
    split; [exact Hx|]. destruct (oid_some X c' c s (Sym X) E1) as (s' & E1' & Hi).
    destruct (ident_fields _ _ Hi) as (F1 & _). exists s', nd. repeat split; congruence.
  - intros X s nd E1 E2. destruct (oid_some X c c' s (O X) E1) as (s0 & E0 & Hi).
    destruct (ident_fields _ _ Hi) as (F1 & _). rewrite N. eapply (ci_nback _ _ H); eauto. congruence.
  - intros k X E Hx. rewrite C in E. destruct (ci_c2p _ _ H _ _ E Hx) as (s & cl & E1 & E2 & E3).
    destruct (oid_some X c' c s (Sym X) E1) as (s' & E1' & Hi).
    destruct (ident_fields _ _ Hi) as (_ & F2 & _). exists s', cl. repeat split; congruence.
  - intros X s cl E1 E2. destruct (oid_some X c c' s (O X) E1) as (s0 & E0 & Hi).
    destruct (ident_fields _ _ Hi) as (_ & F2 & _). rewrite C. eapply (ci_cback _ _ H); eauto. congruence.
  - intros X s E1. destruct (oid_some X c c' s (O X) E1) as (s0 & E0 & Hi).
    rewrite <- (has_identity_ident _ _ Hi). eapply (ci_ident _ _ H); eauto.
  - intros X s E1. destruct (oid_some X c c' s (O X) E1) as (s0 & E0 & Hi). eapply (ci_keys _ _ H); eauto.
  - intros m X nd m' E. rewrite N in E. eapply (ci_own_n _ _ H); eauto.
  - intros k X cl k' E. rewrite C in E. eapply (ci_own_c _ _ H); eauto.
  - intros m X nd E. rewrite N in E. eapply (ci_track _ _ H); eauto.
  - intros k X cl E. rewrite C in E. eapply (ci_launched _ _ H); eauto.
Qed.

Lemma same_ids_cob p c : same_ids c (cleanup_old_bindings p c).
Proof.
  split; [|split; [|split; [|intros X; apply oid_cob]]];
  unfold cleanup_old_bindings; destruct (aget (p_key p) (binds c)); try reflexivity;
  destruct (s =s p_node p); try reflexivity; destruct (aget (sget s (n2p c)) (nodes c)); reflexivity.
Qed.

Lemma same_ids_binds c m : same_ids c (with_binds c m).
Proof. unfold same_ids. auto. Qed.

Lemma same_ids_set c Y s s' : aget Y (nodes c) = Some s -> ident s = ident s' ->
  same_ids c (with_nodes c (aset Y s' (nodes c))).
Proof.
  intros E Hi. split; [|split; [|split]]; try reflexivity. intros X. eapply oid_set_same; eauto.
Qed.

Lemma same_ids_completion k c : same_ids c (pod_completion k c).
Proof.
  unfold pod_completion. destruct (aget k (binds c)); [|apply same_ids_refl].
  destruct (aget (sget s (n2p c)) (nodes c)) eqn:E; [|apply same_ids_binds].
  eapply same_ids_trans; [|apply (same_ids_set c _ s0 (cleanup_for_pod k s0) E); reflexivity].
  apply same_ids_refl.
Qed.

Lemma same_ids_update_pod p c : same_ids c (update_pod p c).
Proof.
  unfold update_pod, update_pod_gen. destruct (p_term p); [apply same_ids_completion|].
  destruct (p_node p =s ""); [apply same_ids_completion|].
  destruct (aget (sget (p_node p) (n2p c)) (nodes c)) eqn:E; [|apply same_ids_refl].
  eapply same_ids_trans; [apply (same_ids_set c _ s (update_for_pod s p) E); reflexivity|].
  eapply same_ids_trans; [apply same_ids_cob|]. apply same_ids_binds.
Qed.

Lemma same_ids_populate name l s c : same_ids c (snd (fold_left (populate_step name) l (s, c))).
Proof.
  revert s c. induction l as [|kp l IH]; intros s c; simpl; [apply same_ids_refl|].
  unfold populate_step at 2. cbn [fst snd].
  destruct ((p_node (snd kp) =s name) && negb (p_term (snd kp))); [|apply IH].
  eapply same_ids_trans; [|apply IH].
  eapply same_ids_trans; [apply same_ids_cob|]. apply same_ids_binds.
Qed.

(* ---- cleanupNode ---- *)
Lemma cleanup_node_none name c : aget name (n2p c) = None -> cleanup_node name c = c.
Proof. intros E. unfold cleanup_node, cleanup_node_gen, sget. rewrite E. reflexivity. Qed.

Definition drop_node (s : snode) : snode := mkSN None (sn_claim s) [] [] [] [] (sn_marked s).
Definition drop_claim (s : snode) : snode :=
  mkSN (sn_node s) None (sn_pods s) (sn_dsr s) (sn_costs s) (sn_vun s) (sn_marked s).

Lemma cleanup_node_some a c name X : CohI a c -> aget name (n2p c) = Some X ->
  exists s nd, aget X (nodes c) = Some s /\ sn_node s = Some nd /\ n_name nd = name /\
    cleanup_node name c =
    with_n2p (match sn_claim s with
              | None => with_nodes (upr_c (Some s) None c) (adel X (nodes c))
              | Some _ => with_nodes (upr_c (Some s) (Some (drop_node s)) c) (aset X (drop_node s) (nodes c))
              end) (adel name (n2p c)).
Proof.
  intros H E. destruct (ci_n2p _ _ H _ _ E) as (Hx & s & nd & E1 & E2 & E3).
  exists s, nd. repeat split; try assumption.
  unfold cleanup_node, cleanup_node_gen, sget. rewrite E. apply String.eqb_neq in Hx. rewrite Hx, E1.
  destruct (sn_claim s) eqn:EC; [unfold drop_node; rewrite EC|]; reflexivity.
Qed.

Lemma CohI_cleanup_node a c name : CohI a c -> CohI a (cleanup_node name c).
Proof.
  intros H. destruct (aget name (n2p c)) as [X|] eqn:E; [|rewrite cleanup_node_none; assumption].
  destruct (cleanup_node_some a c name X H E) as (s & nd & E1 & E2 & E3 & ->).
  assert (Other : forall m' X', m' <> name -> aget m' (n2p c) = Some X' -> X' <> X).
  { intros m' X' Hm E' ->. apply Hm. eapply ci_n2p_inj; eauto. }
  destruct (sn_claim s) as [cl|] eqn:EC.
  - (* the NodeClaim keeps the entry *)
    constructor; c_simpl.
    + apply H.
    + intros m' X'. rewrite aget_adel. destruct (m' =s name) eqn:Em; [discriminate|]. seq. intros E'.
      destruct (ci_n2p _ _ H _ _ E') as (Hx' & s' & nd' & F1 & F2 & F3). split; [exact Hx'|].
      exists s', nd'. rewrite aget_aset_other by (eapply Other; eauto). auto.
    + intros X' s' nd'. rewrite aget_aset. destruct (X' =s X) eqn:Ex; seq.
      * intros [= <-]. discriminate.
      * intros F1 F2. rewrite aget_adel_other; [eapply (ci_nback _ _ H); eauto|].
        intros Hn. pose proof (ci_nback _ _ H _ _ _ F1 F2) as Hb. rewrite Hn in Hb. congruence.
    + intros k X' F Hx'. destruct (ci_c2p _ _ H _ _ F Hx') as (s' & cl' & F1 & F2 & F3).
      rewrite aget_aset. destruct (X' =s X) eqn:Ex; seq.
      * exists (drop_node s), cl'. repeat split; [|exact F3]. simpl. congruence.
      * exists s', cl'. auto.
    + intros X' s' cl'. rewrite aget_aset. destruct (X' =s X) eqn:Ex; seq.
      * intros [= <-]. simpl. intros F. eapply (ci_cback _ _ H); eauto.
      * eapply (ci_cback _ _ H).
    + intros X' s'. rewrite aget_aset. destruct (X' =s X) eqn:Ex; seq.
      * intros [= <-]. unfold has_identity. simpl. rewrite EC. reflexivity.
      * eapply (ci_ident _ _ H).
    + intros X' s'. rewrite aget_aset. destruct (X' =s X) eqn:Ex; seq.
      * intros _. eapply (ci_keys _ _ H); eauto.
      * eapply (ci_keys _ _ H).
    + intros m' X' nd' m''. rewrite aget_adel. destruct (m' =s name); [discriminate|]. eapply (ci_own_n _ _ H).
    + eapply (ci_own_c _ _ H).
    + intros m' X' nd'. rewrite aget_adel. destruct (m' =s name); [discriminate|]. eapply (ci_track _ _ H).
    + eapply (ci_launched _ _ H).
  - (* the entry goes away *)
    constructor; c_simpl.
    + apply H.
    + intros m' X'. rewrite aget_adel. destruct (m' =s name) eqn:Em; [discriminate|]. seq. intros E'.
      destruct (ci_n2p _ _ H _ _ E') as (Hx' & s' & nd' & F1 & F2 & F3). split; [exact Hx'|].
      exists s', nd'. rewrite aget_adel_other by (eapply Other; eauto). auto.
    + intros X' s' nd'. rewrite aget_adel. destruct (X' =s X) eqn:Ex; seq; [discriminate|].
      intros F1 F2. rewrite aget_adel_other; [eapply (ci_nback _ _ H); eauto|].
      intros Hn. pose proof (ci_nback _ _ H _ _ _ F1 F2) as Hb. rewrite Hn in Hb. congruence.
    + intros k X' F Hx'. destruct (ci_c2p _ _ H _ _ F Hx') as (s' & cl' & F1 & F2 & F3).
      exists s', cl'. rewrite aget_adel_other; [auto|]. intros ->. congruence.
    + intros X' s' cl'. rewrite aget_adel. destruct (X' =s X); [discriminate|]. eapply (ci_cback _ _ H).
    + intros X' s'. rewrite aget_adel. destruct (X' =s X); [discriminate|]. eapply (ci_ident _ _ H).
    + intros X' s'. rewrite aget_adel. destruct (X' =s X); [discriminate|]. eapply (ci_keys _ _ H).
    + intros m' X' nd' m''. rewrite aget_adel. destruct (m' =s name); [discriminate|]. eapply (ci_own_n _ _ H).
    + eapply (ci_own_c _ _ H).
    + intros m' X' nd'. rewrite aget_adel. destruct (m' =s name); [discriminate|]. eapply (ci_track _ _ H).
    + eapply (ci_launched _ _ H).
Qed.

(* ---- cleanupNodeClaim ---- *)
Lemma cleanup_claim_unlaunched name c : sget name (c2p c) = "" ->
  cleanup_claim name c = if panicked c then c else with_c2p c (adel name (c2p c)).
Proof. intros E. unfold cleanup_claim. rewrite E. reflexivity. Qed.

Lemma cleanup_claim_some a c name X : CohI a c -> aget name (c2p c) = Some X -> X <> "" ->
  exists s cl, aget X (nodes c) = Some s /\ sn_claim s = Some cl /\ c_name cl = name /\
    cleanup_claim name c =
    with_c2p (match sn_node s with
              | None => with_nodes (upr_c (Some s) None c) (adel X (nodes c))
              | Some _ => with_nodes (upr_c (Some s) (Some (drop_claim s)) c) (aset X (drop_claim s) (nodes c))
              end) (adel name (c2p c)).
Proof.
  intros H E Hx. destruct (ci_c2p _ _ H _ _ E Hx) as (s & cl & E1 & E2 & E3).
  exists s, cl. repeat split; try assumption.
  unfold cleanup_claim, sget. rewrite E. apply String.eqb_neq in Hx. rewrite Hx, E1.
  pose proof (ci_np _ _ H) as P.
  destruct (sn_node s) eqn:EN; c_simpl; rewrite P; [unfold drop_claim; rewrite EN|]; reflexivity.
Qed.

Lemma CohI_cleanup_claim a c name : CohI a c -> CohI a (cleanup_claim name c).
Proof.
  intros H.
  destruct (sget name (c2p c) =s "") eqn:E0.
  { seq. rewrite cleanup_claim_unlaunched, (ci_np _ _ H) by assumption.
    assert (NotName : forall X s cl, aget X (nodes c) = Some s -> sn_claim s = Some cl -> c_name cl <> name).
    { intros X s cl F1 F2 Hn. pose proof (ci_cback _ _ H _ _ _ F1 F2) as Hb. rewrite Hn in Hb.
      unfold sget in E0. rewrite Hb in E0. eapply (ci_keys _ _ H); eauto. }
    constructor; c_simpl; try apply H.
    - intros k X. rewrite aget_adel. destruct (k =s name); [discriminate|]. eapply (ci_c2p _ _ H).
    - intros X s cl F1 F2. rewrite aget_adel_other by (eapply NotName; eauto). eapply (ci_cback _ _ H); eauto.
    - intros k X cl k'. rewrite aget_adel. destruct (k =s name); [discriminate|]. eapply (ci_own_c _ _ H).
    - intros k X cl. rewrite aget_adel. destruct (k =s name); [discriminate|]. eapply (ci_launched _ _ H). }
  assert (exists X, aget name (c2p c) = Some X /\ X <> "") as (X & E & Hx).
  { unfold sget in E0. destruct (aget name (c2p c)) as [X|]; [|discriminate]. exists X. seq. auto. }
  destruct (cleanup_claim_some a c name X H E Hx) as (s & cl & E1 & E2 & E3 & ->).
  assert (Other : forall k' X', k' <> name -> aget k' (c2p c) = Some X' -> X' <> X).
  { intros k' X' Hm E' ->. apply Hm. eapply ci_c2p_inj; eauto. }
  destruct (sn_node s) as [nd|] eqn:EN.
  - constructor; c_simpl.
    + apply H.
    + intros m X' F. destruct (ci_n2p _ _ H _ _ F) as (Hx' & s' & nd' & F1 & F2 & F3). split; [exact Hx'|].
      rewrite aget_aset. destruct (X' =s X) eqn:Ex; seq.
      * exists (drop_claim s), nd'. repeat split; [|exact F3]. simpl. congruence.
      * exists s', nd'. auto.
    + intros X' s' nd'. rewrite aget_aset. destruct (X' =s X) eqn:Ex; seq.
      * intros [= <-]. simpl. intros F. eapply (ci_nback _ _ H); eauto.
      * eapply (ci_nback _ _ H).
    + intros k X'. rewrite aget_adel. destruct (k =s name) eqn:Ek; [discriminate|]. seq. intros F Hx'.
      destruct (ci_c2p _ _ H _ _ F Hx') as (s' & cl' & F1 & F2 & F3).
      exists s', cl'. rewrite aget_aset_other by (eapply Other; eauto). auto.
    + intros X' s' cl'. rewrite aget_aset. destruct (X' =s X) eqn:Ex; seq.
      * intros [= <-]. discriminate.
      * intros F1 F2. rewrite aget_adel_other; [eapply (ci_cback _ _ H); eauto|].
        intros Hn. pose proof (ci_cback _ _ H _ _ _ F1 F2) as Hb. rewrite Hn in Hb. congruence.
    + intros X' s'. rewrite aget_aset. destruct (X' =s X) eqn:Ex; seq.
      * intros [= <-]. unfold has_identity. simpl. rewrite EN. reflexivity.
      * eapply (ci_ident _ _ H).
    + intros X' s'. rewrite aget_aset. destruct (X' =s X) eqn:Ex; seq.
      * intros _. eapply (ci_keys _ _ H); eauto.
      * eapply (ci_keys _ _ H).
    + eapply (ci_own_n _ _ H).
    + intros k X' cl' k'. rewrite aget_adel. destruct (k =s name); [discriminate|]. eapply (ci_own_c _ _ H).
    + eapply (ci_track _ _ H).
    + intros k X' cl'. rewrite aget_adel. destruct (k =s name); [discriminate|]. eapply (ci_launched _ _ H).
  - constructor; c_simpl.
    + apply H.
    + intros m X' F. destruct (ci_n2p _ _ H _ _ F) as (Hx' & s' & nd' & F1 & F2 & F3). split; [exact Hx'|].
      exists s', nd'. rewrite aget_adel_other; [auto|]. intros ->. congruence.
    + intros X' s' nd'. rewrite aget_adel. destruct (X' =s X); [discriminate|]. eapply (ci_nback _ _ H).
    + intros k X'. rewrite aget_adel. destruct (k =s name) eqn:Ek; [discriminate|]. seq. intros F Hx'.
      destruct (ci_c2p _ _ H _ _ F Hx') as (s' & cl' & F1 & F2 & F3).
      exists s', cl'. rewrite aget_adel_other by (eapply Other; eauto). auto.
    + intros X' s' cl'. rewrite aget_adel. destruct (X' =s X) eqn:Ex; seq; [discriminate|].
      intros F1 F2. rewrite aget_adel_other; [eapply (ci_cback _ _ H); eauto|].
      intros Hn. pose proof (ci_cback _ _ H _ _ _ F1 F2) as Hb. rewrite Hn in Hb. congruence.
    + intros X' s'. rewrite aget_adel. destruct (X' =s X); [discriminate|]. eapply (ci_ident _ _ H).
    + intros X' s'. rewrite aget_adel. destruct (X' =s X); [discriminate|]. eapply (ci_keys _ _ H).
    + eapply (ci_own_n _ _ H).
    + intros k X' cl' k'. rewrite aget_adel. destruct (k =s name); [discriminate|]. eapply (ci_own_c _ _ H).
    + eapply (ci_track _ _ H).
    + intros k X' cl'. rewrite aget_adel. destruct (k =s name); [discriminate|]. eapply (ci_launched _ _ H).
Qed.

(* ---- installing a Node / NodeClaim object under its provider id ---- *)
Lemma epid_nonempty a m nd : api_ok a -> aget m (a_nodes a) = Some nd -> epid nd <> "" /\ n_name nd = m.
Proof.
  intros [(Hn & _ & _) (_ & _ & Hne)] E.
  assert (n_name nd = m) as Hm by (apply (proj2 Hn); apply aget_in; exact E).
  split; [|exact Hm]. unfold epid. destruct (n_pid nd =s "") eqn:Ep; seq; [|assumption].
  rewrite Hm. eapply Hne; eauto.
Qed.

Lemma CohI_install_node a c nd n1 o1 o2 :
  api_ok a -> aget (n_name nd) (a_nodes a) = Some nd -> trackable nd = true -> CohI a c ->
  (aget (n_name nd) (n2p c) = None \/ aget (n_name nd) (n2p c) = Some (epid nd)) ->
  sn_node n1 = Some nd ->
  sn_claim n1 = match aget (epid nd) (nodes c) with Some o => sn_claim o | None => None end ->
  CohI a (with_n2p (with_nodes (upr_c o1 o2 c) (aset (epid nd) n1 (nodes c))) (aset (n_name nd) (epid nd) (n2p c))).
Proof.
  intros Hok Ea Ht H Hn2p En Ec.
  destruct (epid_nonempty a _ nd Hok Ea) as [Hpid _].
  set (pid := epid nd) in *. set (name := n_name nd) in *.
  (* no other name is cached under pid *)
  assert (Own : forall m', aget m' (n2p c) = Some pid -> m' = name).
  { intros m' F. symmetry. eapply (ci_own_n _ _ H m' pid nd name); eauto. }
  constructor; c_simpl.
  - apply H.
  - intros m X. rewrite aget_aset. destruct (m =s name) eqn:Em; seq.
    + intros [= <-]. split; [exact Hpid|]. exists n1, nd. rewrite aget_aset_same. auto.
    + intros F. destruct (ci_n2p _ _ H _ _ F) as (Hx & s & nd' & F1 & F2 & F3). split; [exact Hx|].
      exists s, nd'. rewrite aget_aset_other; [auto|]. intros ->. apply Em. apply Own. exact F.
  - intros X s nd'. rewrite aget_aset. destruct (X =s pid) eqn:Ex; seq.
    + intros [= <-]. rewrite En. intros [= <-]. apply aget_aset_same.
    + intros F1 F2. pose proof (ci_nback _ _ H _ _ _ F1 F2) as Hb.
      rewrite aget_aset_other; [exact Hb|]. intros Hn. fold name in Hn.
      rewrite Hn in Hb. destruct Hn2p as [Q|Q]; rewrite Q in Hb; congruence.
  - intros k X F Hx. destruct (ci_c2p _ _ H _ _ F Hx) as (s & cl & F1 & F2 & F3).
    rewrite aget_aset. destruct (X =s pid) eqn:Ex; seq.
    + exists n1, cl. rewrite Ec, F1. auto.
    + exists s, cl. auto.
  - intros X s cl. rewrite aget_aset. destruct (X =s pid) eqn:Ex; seq.
    + intros [= <-]. rewrite Ec. destruct (aget pid (nodes c)) as [o|] eqn:Eo; [|discriminate].
      intros F. eapply (ci_cback _ _ H); eauto.
    + eapply (ci_cback _ _ H).
  - intros X s. rewrite aget_aset. destruct (X =s pid) eqn:Ex; seq.
    + intros [= <-]. unfold has_identity. rewrite En. reflexivity.
    + eapply (ci_ident _ _ H).
  - intros X s. rewrite aget_aset. destruct (X =s pid) eqn:Ex; seq.
    + intros _. exact Hpid.
    + eapply (ci_keys _ _ H).
  - intros m X nd' m'. rewrite aget_aset. destruct (m =s name) eqn:Em; seq.
    + intros [= <-] F1 F2 F3. destruct Hok as [_ (U & _ & _)]. eapply (U m' name nd' nd); eauto.
    + eapply (ci_own_n _ _ H).
  - eapply (ci_own_c _ _ H).
  - intros m X nd'. rewrite aget_aset. destruct (m =s name) eqn:Em; seq.
    + intros _ F. fold name in Ea. congruence.
    + eapply (ci_track _ _ H).
  - eapply (ci_launched _ _ H).
Qed.

Lemma claim_named a k cl : api_ok a -> aget k (a_claims a) = Some cl -> c_name cl = k.
Proof. intros [(_ & Hc & _) _] E. apply (proj2 Hc). apply aget_in. exact E. Qed.

Lemma CohI_install_claim a c cl n o1 o2 :
  api_ok a -> aget (c_name cl) (a_claims a) = Some cl -> c_pid cl <> "" -> CohI a c ->
  (aget (c_name cl) (c2p c) = None \/ aget (c_name cl) (c2p c) = Some (c_pid cl)) ->
  sn_claim n = Some cl ->
  sn_node n = match aget (c_pid cl) (nodes c) with Some o => sn_node o | None => None end ->
  CohI a (with_c2p (with_nodes (upr_c o1 o2 c) (aset (c_pid cl) n (nodes c))) (aset (c_name cl) (c_pid cl) (c2p c))).
Proof.
  intros Hok Ea Hpid H Hc2p Ec En.
  set (pid := c_pid cl) in *. set (name := c_name cl) in *.
  assert (Own : forall k', aget k' (c2p c) = Some pid -> k' = name).
  { intros k' F. symmetry. eapply (ci_own_c _ _ H k' pid cl name); eauto. }
  constructor; c_simpl.
  - apply H.
  - intros m X F. destruct (ci_n2p _ _ H _ _ F) as (Hx & s & nd & F1 & F2 & F3). split; [exact Hx|].
    rewrite aget_aset. destruct (X =s pid) eqn:Ex; seq.
    + exists n, nd. rewrite En, F1. auto.
    + exists s, nd. auto.
  - intros X s nd. rewrite aget_aset. destruct (X =s pid) eqn:Ex; seq.
    + intros [= <-]. rewrite En. destruct (aget pid (nodes c)) as [o|] eqn:Eo; [|discriminate].
      intros F. eapply (ci_nback _ _ H); eauto.
    + eapply (ci_nback _ _ H).
  - intros k X. rewrite aget_aset. destruct (k =s name) eqn:Ek; seq.
    + intros [= <-] _. exists n, cl. rewrite aget_aset_same. auto.
    + intros F Hx. destruct (ci_c2p _ _ H _ _ F Hx) as (s & cl' & F1 & F2 & F3).
      exists s, cl'. rewrite aget_aset_other; [auto|]. intros ->. apply Ek. apply Own. exact F.
  - intros X s cl'. rewrite aget_aset. destruct (X =s pid) eqn:Ex; seq.
    + intros [= <-]. rewrite Ec. intros [= <-]. apply aget_aset_same.
    + intros F1 F2. pose proof (ci_cback _ _ H _ _ _ F1 F2) as Hb.
      rewrite aget_aset_other; [exact Hb|]. intros Hn. fold name in Hn.
      rewrite Hn in Hb. destruct Hc2p as [Q|Q]; rewrite Q in Hb; congruence.
  - intros X s. rewrite aget_aset. destruct (X =s pid) eqn:Ex; seq.
    + intros [= <-]. unfold has_identity. rewrite Ec. destruct (sn_node n); reflexivity.
    + eapply (ci_ident _ _ H).
  - intros X s. rewrite aget_aset. destruct (X =s pid) eqn:Ex; seq.
    + intros _. exact Hpid.
    + eapply (ci_keys _ _ H).
  - eapply (ci_own_n _ _ H).
  - intros k X cl' k'. rewrite aget_aset. destruct (k =s name) eqn:Ek; seq.
    + intros [= <-] _ F1 F2. destruct Hok as [_ (_ & U & _)]. eapply (U k' name cl' cl); eauto; congruence.
    + eapply (ci_own_c _ _ H).
  - eapply (ci_track _ _ H).
  - intros k X cl'. rewrite aget_aset. destruct (k =s name) eqn:Ek; seq.
    + intros [= <-] _ F. fold name in Ea. assert (cl' = cl) by congruence. subst cl'. exact Hpid.
    + eapply (ci_launched _ _ H).
Qed.

(* ---- UpdateNode / UpdateNodeClaim in stages ---- *)
Definition un_old (nd : nodeobj) (c : cache) : snode :=
  match aget (epid nd) (nodes c) with Some s => s | None => new_node end.
Definition un_n0 nd c := mkSN (Some nd) (sn_claim (un_old nd c)) [] [] [] [] (sn_marked (un_old nd c)).
Definition un_c1 a nd c := snd (fold_left (populate_step (n_name nd)) (a_pods a) (un_n0 nd c, c)).
Definition un_n1 a nd c := fold_left (pop_sn (n_name nd)) (a_pods a) (un_n0 nd c).
Definition un_c2 a nd c :=
  match aget (n_name nd) (n2p (un_c1 a nd c)) with
  | Some id => if id =s epid nd then un_c1 a nd c else cleanup_node (n_name nd) (un_c1 a nd c)
  | None => un_c1 a nd c
  end.

Lemma update_node_eq a nd c : trackable nd = true -> panicked (un_c2 a nd c) = false ->
  update_node a nd c =
  with_n2p (with_nodes (upr_c (Some (un_old nd c)) (Some (un_n1 a nd c)) (un_c2 a nd c))
                       (aset (epid nd) (un_n1 a nd c) (nodes (un_c2 a nd c))))
           (aset (n_name nd) (epid nd) (n2p (un_c2 a nd c))).
Proof.
  intros Ht. unfold update_node, update_node_gen, un_c2, un_c1, un_n1. rewrite Ht. cbn [negb].
  change (cleanup_node_gen false) with cleanup_node.
  fold (un_old nd c). fold (un_n0 nd c).
  rewrite <- (fst_populate (n_name nd) (a_pods a) (un_n0 nd c) c).
  destruct (fold_left (populate_step (n_name nd)) (a_pods a) (un_n0 nd c, c)) as [n1 c1]. cbn [fst snd].
  intros P. rewrite P. reflexivity.
Qed.

Lemma un_c2_facts a nd c : CohI a c ->
  CohI a (un_c2 a nd c) /\ oid (epid nd) (un_c2 a nd c) = oid (epid nd) c /\
  (aget (n_name nd) (n2p (un_c2 a nd c)) = None \/ aget (n_name nd) (n2p (un_c2 a nd c)) = Some (epid nd)).
Proof.
  intros H.
  pose proof (same_ids_populate (n_name nd) (a_pods a) (un_n0 nd c) c) as S. fold (un_c1 a nd c) in S.
  pose proof (CohI_same_ids a _ _ S H) as H1. destruct S as (_ & SN & _ & SO).
  unfold un_c2. destruct (aget (n_name nd) (n2p (un_c1 a nd c))) as [id|] eqn:E.
  - destruct (id =s epid nd) eqn:Ei; seq.
    + split; [exact H1|split; [apply SO|right; exact E]].
    + split; [apply CohI_cleanup_node, H1|]. split.
      * unfold cleanup_node. rewrite oid_cleanup_node; [apply SO|]. unfold sget. rewrite E. congruence.
      * left. destruct (cleanup_node_some a _ _ _ H1 E) as (s & nd' & _ & _ & _ & ->). c_simpl. apply aget_adel_same.
  - split; [exact H1|split; [apply SO|left; exact E]].
Qed.

Lemma CohI_update_node a nd c : api_ok a -> aget (n_name nd) (a_nodes a) = Some nd -> CohI a c ->
  CohI a (update_node a nd c).
Proof.
  intros Hok Ea H. destruct (trackable nd) eqn:Ht; [|unfold update_node, update_node_gen; rewrite Ht; exact H].
  destruct (un_c2_facts a nd c H) as (H2 & O2 & N2).
  rewrite update_node_eq by (assumption || apply H2).
  apply CohI_install_node; try assumption.
  - apply (pop_ident (n_name nd) (a_pods a) (un_n0 nd c)).
  - destruct (pop_ident (n_name nd) (a_pods a) (un_n0 nd c)) as (_ & I2 & _). unfold un_n1. rewrite I2.
    unfold un_n0, un_old; cbn [sn_claim]. unfold oid in O2.
    destruct (aget (epid nd) (nodes (un_c2 a nd c))) as [o|], (aget (epid nd) (nodes c)) as [o'|];
      simpl in O2; try discriminate; [|reflexivity].
    assert (O3 : ident o = ident o') by congruence. apply ident_fields in O3. symmetry. apply O3.
Qed.

Definition uc_old (cl : claimobj) (c : cache) : snode :=
  match aget (c_pid cl) (nodes c) with Some s => s | None => new_node end.
Definition uc_n cl c :=
  mkSN (sn_node (uc_old cl c)) (Some cl) (sn_pods (uc_old cl c)) (sn_dsr (uc_old cl c)) (sn_costs (uc_old cl c))
       (sn_vun (uc_old cl c)) (sn_marked (uc_old cl c)).
Definition uc_c1 cl c :=
  match aget (c_name cl) (c2p c) with
  | Some id => if id =s c_pid cl then c else cleanup_claim (c_name cl) c
  | None => c
  end.

Lemma update_claim_eq cl c : c_pid cl <> "" -> panicked (uc_c1 cl c) = false ->
  update_claim cl c =
  with_c2p (with_nodes (upr_c (Some (uc_old cl c)) (Some (uc_n cl c)) (uc_c1 cl c))
                       (aset (c_pid cl) (uc_n cl c) (nodes (uc_c1 cl c))))
           (aset (c_name cl) (c_pid cl) (c2p (uc_c1 cl c))).
Proof.
  intros Hp P. unfold update_claim, update_claim_gen. apply String.eqb_neq in Hp. rewrite Hp.
  fold (uc_old cl c). fold (uc_c1 cl c). rewrite P. c_simpl. rewrite P. reflexivity.
Qed.

Lemma update_claim_unlaunched cl c : c_pid cl = "" -> panicked c = false ->
  update_claim cl c = with_c2p c (aset (c_name cl) "" (c2p c)).
Proof. intros E P. unfold update_claim, update_claim_gen. rewrite E. simpl. rewrite P. reflexivity. Qed.

Lemma uc_c1_facts a cl c : CohI a c -> c_pid cl <> "" ->
  CohI a (uc_c1 cl c) /\ oid (c_pid cl) (uc_c1 cl c) = oid (c_pid cl) c /\
  (aget (c_name cl) (c2p (uc_c1 cl c)) = None \/ aget (c_name cl) (c2p (uc_c1 cl c)) = Some (c_pid cl)).
Proof.
  intros H Hp. unfold uc_c1. destruct (aget (c_name cl) (c2p c)) as [id|] eqn:E.
  - destruct (id =s c_pid cl) eqn:Ei; seq.
    + split; [exact H|split; [reflexivity|right; exact E]].
    + split; [apply CohI_cleanup_claim, H|]. split.
      * apply oid_cleanup_claim. unfold sget. rewrite E. congruence.
      * left. destruct (id =s "") eqn:E0; seq.
        -- rewrite cleanup_claim_unlaunched, (ci_np _ _ H) by (unfold sget; rewrite E; reflexivity).
           c_simpl. apply aget_adel_same.
        -- destruct (cleanup_claim_some a _ _ _ H E E0) as (s & cl' & _ & _ & _ & ->). c_simpl. apply aget_adel_same.
  - split; [exact H|split; [reflexivity|left; exact E]].
Qed.

Lemma CohI_update_claim a cl c : api_ok a -> aget (c_name cl) (a_claims a) = Some cl -> CohI a c ->
  CohI a (update_claim cl c).
Proof.
  intros Hok Ea H. destruct (c_pid cl =s "") eqn:Ep; seq.
  - (* not launched: only the name map changes *)
    rewrite update_claim_unlaunched by (assumption || apply H).
    assert (NotName : forall X s cl', aget X (nodes c) = Some s -> sn_claim s = Some cl' -> c_name cl' <> c_name cl).
    { intros X s cl' F1 F2 Hn. pose proof (ci_cback _ _ H _ _ _ F1 F2) as Hb. rewrite Hn in Hb.
      pose proof (ci_keys _ _ H _ _ F1) as Hx. pose proof (ci_launched _ _ H _ _ _ Hb Hx Ea). congruence. }
    constructor; c_simpl; try apply H.
    + intros k X. rewrite aget_aset. destruct (k =s c_name cl); [intros [= <-] Hx; congruence|]. eapply (ci_c2p _ _ H).
    + intros X s cl' F1 F2. rewrite aget_aset_other by (eapply NotName; eauto). eapply (ci_cback _ _ H); eauto.
    + intros k X cl' k'. rewrite aget_aset. destruct (k =s c_name cl); [intros [= <-] Hx; congruence|]. eapply (ci_own_c _ _ H).
    + intros k X cl'. rewrite aget_aset. destruct (k =s c_name cl); [intros [= <-] Hx; congruence|]. eapply (ci_launched _ _ H).
  - destruct (uc_c1_facts a cl c H Ep) as (H1 & O1 & N1).
    rewrite update_claim_eq by (assumption || apply H1).
    apply CohI_install_claim; try assumption; [reflexivity|].
    unfold uc_n, uc_old; cbn [sn_node]. unfold oid in O1.
    destruct (aget (c_pid cl) (nodes (uc_c1 cl c))) as [o|], (aget (c_pid cl) (nodes c)) as [o'|];
      simpl in O1; try discriminate; [|reflexivity].
    assert (O3 : ident o = ident o') by congruence. apply ident_fields in O3. symmetry. apply O3.
Qed.

(* every delivery of the closing round keeps the identity layer coherent *)
Lemma CohI_deliver a c o : api_ok a ->
  match o with DeliverNode _ | DeliverClaim _ | DeliverPod _ => True | _ => False end ->
  CohI a c -> CohI a (cache_step a c o).
Proof.
  intros Hok Ho H. unfold cache_step, cache_step_gen. rewrite (ci_np _ _ H).
  destruct o; try contradiction.
  - unfold deliver_node_gen. cbn [current v_keep_aggs]. fold cleanup_node. fold update_node.
    destruct (aget name (a_nodes a)) as [nd|] eqn:E; [|apply CohI_cleanup_node, H].
    destruct (epid_nonempty a _ _ Hok E) as [_ Hn]. apply CohI_update_node; try assumption. rewrite Hn. exact E.
  - unfold deliver_claim_gen. cbn [current v_drop_costs negb]. fold update_claim.
    destruct (aget name (a_claims a)) as [cl|] eqn:E; [|apply CohI_cleanup_claim, H].
    pose proof (claim_named a _ _ Hok E) as Hn. apply CohI_update_claim; try assumption. rewrite Hn. exact E.
  - unfold deliver_pod_gen. cbn [current v_pending_noop]. fold update_pod. destruct (aget key (a_pods a)).
    + eapply CohI_same_ids; [apply same_ids_update_pod|exact H].
    + eapply CohI_same_ids; [apply same_ids_completion|exact H].
Qed.

(* ================= aggregate layer ================= *)
Lemma nodupk_pop name l s : nodupk (sn_pods s) -> nodupk (sn_pods (fold_left (pop_sn name) l s)).
Proof.
  revert s. induction l as [|kp l IH]; intros s H; simpl; [exact H|]. apply IH.
  unfold pop_sn. destruct (on_node name (snd kp)); [|exact H]. sn_simpl. apply nodupk_aset, H.
Qed.

Lemma mem_true_iff v l : mem v l = true <-> In v l.
Proof.
  unfold mem. rewrite existsb_exists. split.
  - intros (x & Hx & E). apply String.eqb_eq in E. subst. exact Hx.
  - intros H. exists v. split; [exact H|apply String.eqb_refl].
Qed.

Lemma bool_eq_iff (b1 b2 : bool) : (b1 = true <-> b2 = true) -> b1 = b2.
Proof. destruct b1, b2; intuition congruence. Qed.

Lemma mem_vols_of v (m : amap pent) : nodupk m ->
  (mem v (vols_of m) = true <-> exists k e, aget k m = Some e /\ In v (e_vols e)).
Proof.
  intros Hn. rewrite mem_true_iff. unfold vols_of. rewrite in_flat_map. split.
  - intros ([k e] & Hin & Hv). exists k, e. split; [apply in_aget; assumption|exact Hv].
  - intros (k & e & Hg & Hv). exists (k, e). split; [apply aget_in; exact Hg|exact Hv].
Qed.

(* the union of the volumes of the pods bound to [name], as the specification states it *)
Lemma spec_vol_iff a name v : keyed p_key (a_pods a) ->
  (existsb (fun kp => match pod_on a name (fst kp) with Some p => mem v (p_vols p) | None => false end) (a_pods a) = true
   <-> exists k p, pod_on a name k = Some p /\ In v (p_vols p)).
Proof.
  intros Hk. rewrite existsb_exists. split.
  - intros ([k p0] & Hin & E). cbn [fst] in E. destruct (pod_on a name k) as [p|] eqn:Ep; [|discriminate].
    exists k, p. split; [exact Ep|apply mem_true_iff, E].
  - intros (k & p & Ep & Hv). unfold pod_on in Ep. destruct (aget k (a_pods a)) as [p'|] eqn:Eg; [|discriminate].
    exists (k, p'). split; [apply aget_in, Eg|]. cbn [fst]. unfold pod_on. rewrite Eg.
    destruct ((p_node p' =s name) && negb (p_term p')); [|discriminate]. injection Ep as <-. apply mem_true_iff, Hv.
Qed.

Lemma rebuilt_vun_exact a name s : keyed p_key (a_pods a) -> nodupk (sn_pods s) ->
  (forall key, aget key (sn_pods s) = option_map pent_of (pod_on a name key)) ->
  forall v, mem v (vols_of (sn_pods s)) =
            existsb (fun kp => match pod_on a name (fst kp) with Some p => mem v (p_vols p) | None => false end) (a_pods a).
Proof.
  intros Hk Hn Hp v. apply bool_eq_iff. rewrite mem_vols_of, spec_vol_iff by assumption. split.
  - intros (k & e & Hg & Hv). rewrite Hp in Hg. destruct (pod_on a name k) as [p|] eqn:Ep; [|discriminate].
    injection Hg as <-. exists k, p. auto.
  - intros (k & p & Ep & Hv). exists k, (pent_of p). rewrite Hp, Ep. auto.
Qed.

Lemma rebuilt_cleanup a name k s : keyed p_key (a_pods a) -> nodupk (sn_pods s) ->
  rebuilt a name s -> pod_on a name k = None -> rebuilt a name (cleanup_for_pod k s).
Proof.
  intros Hk Hn (R1 & R2 & R3 & R4) Hnone.
  assert (P1 : forall key, aget key (adel k (sn_pods s)) = option_map pent_of (pod_on a name key)).
  { intros key. rewrite aget_adel. destruct (key =s k) eqn:E; seq; [rewrite Hnone; reflexivity|apply R1]. }
  split; [exact P1|split; [|split]]; sn_simpl.
  - intros key. rewrite aget_adel. destruct (key =s k) eqn:E; seq; [rewrite Hnone; reflexivity|apply R2].
  - intros key. rewrite aget_adel. destruct (key =s k) eqn:E; seq; [rewrite Hnone; reflexivity|apply R3].
  - apply (rebuilt_vun_exact a name (cleanup_for_pod k s) Hk); sn_simpl; [apply nodupk_adel, Hn|exact P1].
Qed.

Lemma rebuilt_update a name s p : keyed p_key (a_pods a) ->
  rebuilt a name s -> pod_on a name (p_key p) = Some p -> rebuilt a name (update_for_pod s p).
Proof.
  intros Hk (R1 & R2 & R3 & R4) Hon. split; [|split; [|split]]; sn_simpl.
  - intros key. rewrite aget_aset. destruct (key =s p_key p) eqn:E; seq; [rewrite Hon; reflexivity|apply R1].
  - intros key. pose proof (R2 key) as Q. destruct (p_ds p) eqn:Ed; [|exact Q].
    rewrite aget_aset. destruct (key =s p_key p) eqn:E; seq; [rewrite Hon, Ed; reflexivity|exact Q].
  - intros key. pose proof (R3 key) as Q. destruct (p_ds p) eqn:Ed; [exact Q|].
    destruct (0 <? p_cost p) eqn:Ec.
    + rewrite aget_aset. destruct (key =s p_key p) eqn:E; seq; [rewrite Hon, Ed, Ec; reflexivity|exact Q].
    + rewrite aget_adel. destruct (key =s p_key p) eqn:E; seq; [rewrite Hon, Ed, Ec; reflexivity|exact Q].
  - intros v. rewrite mem_app, R4. apply bool_eq_iff. rewrite orb_true_iff, !spec_vol_iff by assumption. split.
    + intros [H|H]; [exact H|]. exists (p_key p), p. split; [exact Hon|apply mem_true_iff, H].
    + intros H. left. exact H.
Qed.

Lemma nodupk_cleanup k s : nodupk (sn_pods s) -> nodupk (sn_pods (cleanup_for_pod k s)).
Proof. intros H. sn_simpl. apply nodupk_adel, H. Qed.
Lemma nodupk_update s p : nodupk (sn_pods s) -> nodupk (sn_pods (update_for_pod s p)).
Proof. intros H. sn_simpl. apply nodupk_aset, H. Qed.

(* ================= settled facts of the closing round ================= *)
Definition SNa (a : api) (m X : string) (c : cache) : Prop :=
  exists s nd, aget X (nodes c) = Some s /\ aget m (a_nodes a) = Some nd /\ sn_node s = Some nd /\
               rebuilt a m s /\ nodupk (sn_pods s) /\
               (forall key p, pod_on a m key = Some p -> aget key (binds c) = Some m).

Lemma pod_on_inv a m key p : pod_on a m key = Some p ->
  aget key (a_pods a) = Some p /\ p_node p = m /\ p_term p = false.
Proof.
  unfold pod_on. destruct (aget key (a_pods a)) as [p'|]; [|discriminate].
  destruct (p_node p' =s m) eqn:E1; [|discriminate]. destruct (p_term p') eqn:E2; [discriminate|].
  simpl. intros [= <-]. seq. auto.
Qed.

Lemma pod_on_other a m p : aget (p_key p) (a_pods a) = Some p -> p_node p <> m -> pod_on a m (p_key p) = None.
Proof.
  intros E Hn. unfold pod_on. rewrite E. apply String.eqb_neq in Hn. rewrite Hn. reflexivity.
Qed.

Lemma bind_clause a m p (b b' : amap string) :
  aget (p_key p) (a_pods a) = Some p ->
  (forall key p', pod_on a m key = Some p' -> aget key b = Some m) ->
  (forall key', key' <> p_key p -> aget key' b' = aget key' b) ->
  aget (p_key p) b' = Some (p_node p) ->
  forall key p', pod_on a m key = Some p' -> aget key b' = Some m.
Proof.
  intros Ep Hb Hother Hthis key p' Hon.
  destruct (string_dec key (p_key p)) as [->|Hne].
  - destruct (pod_on_inv _ _ _ _ Hon) as (E1 & E2 & _). rewrite Hthis. congruence.
  - rewrite Hother by assumption. eapply Hb; eauto.
Qed.

Lemma sget_some k (m : amap string) X : X <> "" -> sget k m = X -> aget k m = Some X.
Proof. unfold sget. destruct (aget k m); [congruence|]. intros H E. congruence. Qed.

Lemma SNa_cob_bind a m X c p : api_ok a -> CohI a c -> aget m (n2p c) = Some X -> SNa a m X c ->
  aget (p_key p) (a_pods a) = Some p ->
  SNa a m X (bind_pod p (cleanup_old_bindings p c)).
Proof.
  intros [(_ & _ & Hk) _] H En (s & nd & E1 & E2 & E3 & R & Nd & B) Ep.
  pose proof (proj1 (ci_n2p _ _ H _ _ En)) as Hx.
  assert (Same : SNa a m X (bind_pod p c)).
  { exists s, nd. do 5 (split; [assumption|]). unfold bind_pod; c_simpl.
    eapply (bind_clause a m p (binds c)); eauto.
    - intros key' Hne. apply aget_aset_other, Hne.
    - apply aget_aset_same. }
  unfold cleanup_old_bindings. destruct (aget (p_key p) (binds c)) as [old|] eqn:Eb; [|exact Same].
  destruct (old =s p_node p) eqn:Eo; [exact Same|]. seq.
  destruct (aget (sget old (n2p c)) (nodes c)) as [s0|] eqn:E0; [|exact Same].
  unfold bind_pod; c_simpl.
  assert (BC : forall key p', pod_on a m key = Some p' ->
               aget key (aset (p_key p) (p_node p) (adel (p_key p) (binds c))) = Some m).
  { eapply (bind_clause a m p (binds c)); eauto.
    - intros key' Hne. rewrite aget_aset_other, aget_adel_other by assumption. reflexivity.
    - apply aget_aset_same. }
  destruct (string_dec (sget old (n2p c)) X) as [Ex|Ex].
  - (* the old binding points at m itself: the pod left m *)
    assert (old = m) by (eapply ci_n2p_inj; eauto; apply sget_some; assumption). subst old.
    rewrite Ex in *. assert (s0 = s) by congruence. subst s0.
    exists (cleanup_for_pod (p_key p) s), nd. c_simpl. rewrite aget_aset_same.
    split; [reflexivity|]. split; [assumption|]. split; [assumption|]. split; [|split; [|exact BC]].
    + apply rebuilt_cleanup; try assumption. apply pod_on_other; [exact Ep|]. congruence.
    + apply nodupk_cleanup, Nd.
  - exists s, nd. c_simpl. rewrite aget_aset_other by congruence. do 5 (split; [assumption|]). exact BC.
Qed.

(* populateResourceRequests of another node keeps a settled node settled *)
Lemma populate_inv name l (Q : cache -> Prop) :
  (forall k p c, In (k, p) l -> on_node name p = true -> Q c -> Q (bind_pod p (cleanup_old_bindings p c))) ->
  forall s c, Q c -> Q (snd (fold_left (populate_step name) l (s, c))).
Proof.
  induction l as [|[k p] l IH]; intros Hstep s c Hq; simpl; [exact Hq|].
  unfold populate_step at 2. cbn [fst snd].
  assert (Hstep' : forall k0 p0 c0, In (k0, p0) l -> on_node name p0 = true -> Q c0 ->
                     Q (bind_pod p0 (cleanup_old_bindings p0 c0)))
    by (intros k0 p0 c0 Hin Hon Hq0; eapply Hstep; [right; exact Hin|exact Hon|exact Hq0]).
  fold (on_node name p). destruct (on_node name p) eqn:Eon.
  - apply IH; [exact Hstep'|]. eapply Hstep; [left; reflexivity|exact Eon|exact Hq].
  - apply IH; [exact Hstep'|exact Hq].
Qed.

Lemma SNa_populate a m X c name s0 : api_ok a -> CohI a c -> aget m (n2p c) = Some X -> SNa a m X c ->
  SNa a m X (snd (fold_left (populate_step name) (a_pods a) (s0, c))).
Proof.
  intros Hok H En Hs.
  apply (populate_inv name (a_pods a) (fun c' => CohI a c' /\ aget m (n2p c') = Some X /\ SNa a m X c')); [|auto].
  intros k p c' Hin _ (H' & En' & Hs').
  assert (Ep : aget (p_key p) (a_pods a) = Some p).
  { destruct Hok as [(_ & _ & Hk) _]. rewrite (proj2 Hk k p Hin). apply in_aget; [apply Hk|exact Hin]. }
  assert (S : same_ids c' (bind_pod p (cleanup_old_bindings p c'))).
  { eapply same_ids_trans; [apply same_ids_cob|apply same_ids_binds]. }
  split; [eapply CohI_same_ids; eauto|]. split.
  - destruct S as (_ & -> & _). exact En'.
  - apply SNa_cob_bind; assumption.
Qed.

Definition SN (a : api) (c : cache) (m : string) : Prop :=
  match spec_n2p a m with
  | Some X => aget m (n2p c) = Some X /\ SNa a m X c
  | None => aget m (n2p c) = None
  end.

Lemma rebuilt_agg a m s s' : aggregates s' = aggregates s -> rebuilt a m s -> rebuilt a m s'.
Proof. unfold aggregates, rebuilt. intros [= -> -> -> ->]. auto. Qed.

Lemma SNa_transfer a m X c c' : SNa a m X c -> binds c' = binds c ->
  (forall s, aget X (nodes c) = Some s ->
     exists s', aget X (nodes c') = Some s' /\ sn_node s' = sn_node s /\ aggregates s' = aggregates s) ->
  SNa a m X c'.
Proof.
  intros (s & nd & E1 & E2 & E3 & R & Nd & B) Hb Hs. destruct (Hs s E1) as (s' & F1 & F2 & F3).
  exists s', nd. split; [exact F1|]. split; [exact E2|]. split; [congruence|].
  split; [eapply rebuilt_agg; eauto|]. split.
  - unfold aggregates in F3. injection F3 as -> _ _ _. exact Nd.
  - rewrite Hb. exact B.
Qed.

Lemma SNa_same_entry a m X c c' : SNa a m X c -> binds c' = binds c -> aget X (nodes c') = aget X (nodes c) ->
  SNa a m X c'.
Proof.
  intros H Hb Hn. eapply SNa_transfer; eauto. intros s E. exists s. rewrite Hn. auto.
Qed.

(* ---- pod deliveries keep a settled node settled ---- *)
Lemma node_name_nonempty a m nd : api_ok a -> aget m (a_nodes a) = Some nd -> m <> "".
Proof. intros [_ (_ & _ & H)] E. eapply H; eauto. Qed.

Lemma SNa_completion a m X c key : api_ok a -> CohI a c -> aget m (n2p c) = Some X -> SNa a m X c ->
  pod_on a m key = None -> SNa a m X (pod_completion key c).
Proof.
  intros [(_ & _ & Hk) _] H En (s & nd & E1 & E2 & E3 & R & Nd & B) Hnone.
  pose proof (proj1 (ci_n2p _ _ H _ _ En)) as Hx.
  unfold pod_completion. destruct (aget key (binds c)) as [nn|] eqn:Eb; [|exists s, nd; auto 10].
  assert (BC : forall k p, pod_on a m k = Some p -> aget k (adel key (binds c)) = Some m).
  { intros k p Hon. rewrite aget_adel_other; [eapply B; eauto|]. intros ->. congruence. }
  destruct (aget (sget nn (n2p c)) (nodes c)) as [s0|] eqn:E0.
  - destruct (string_dec (sget nn (n2p c)) X) as [Ex|Ex].
    + rewrite Ex in *. assert (s0 = s) by congruence. subst s0.
      exists (cleanup_for_pod key s), nd. c_simpl. rewrite aget_aset_same.
      split; [reflexivity|]. split; [assumption|]. split; [assumption|]. split; [|split; [|exact BC]].
      * apply rebuilt_cleanup; assumption.
      * apply nodupk_cleanup, Nd.
    + exists s, nd. c_simpl. rewrite aget_aset_other by congruence. do 5 (split; [assumption|]). exact BC.
  - exists s, nd. c_simpl. do 5 (split; [assumption|]). exact BC.
Qed.

Lemma SNa_update_pod a m X c p : api_ok a -> CohI a c -> aget m (n2p c) = Some X -> SNa a m X c ->
  aget (p_key p) (a_pods a) = Some p -> SNa a m X (update_pod p c).
Proof.
  intros Hok H En Hs Ep. pose proof Hs as (s & nd & E1 & E2 & E3 & R & Nd & B).
  pose proof (proj1 (ci_n2p _ _ H _ _ En)) as Hx.
  assert (Hm : m <> "") by (eapply node_name_nonempty; eauto).
  unfold update_pod, update_pod_gen. destruct (p_term p) eqn:Et.
  { apply SNa_completion; try assumption. unfold pod_on. rewrite Ep, Et, andb_false_r. reflexivity. }
  destruct (p_node p =s "") eqn:E0; seq.
  { apply SNa_completion; try assumption. apply pod_on_other; [exact Ep|congruence]. }
  destruct (aget (sget (p_node p) (n2p c)) (nodes c)) as [s1|] eqn:E1'; [|exact Hs].
  set (c1 := with_nodes c (aset (sget (p_node p) (n2p c)) (update_for_pod s1 p) (nodes c))).
  assert (S1 : same_ids c c1) by (apply (same_ids_set c _ s1 (update_for_pod s1 p) E1'); reflexivity).
  apply SNa_cob_bind; try assumption.
  - eapply CohI_same_ids; eauto.
  - subst c1. destruct (string_dec (sget (p_node p) (n2p c)) X) as [Ex|Ex].
    + assert (p_node p = m) by (eapply ci_n2p_inj; eauto; apply sget_some; assumption).
      rewrite Ex in *. assert (s1 = s) by congruence. subst s1.
      exists (update_for_pod s p), nd. c_simpl. rewrite aget_aset_same.
      split; [reflexivity|]. split; [assumption|]. split; [assumption|]. split; [|split; [|exact B]].
      * destruct Hok as [(_ & _ & Hk) _]. apply rebuilt_update; try assumption.
        unfold pod_on. rewrite Ep, Et. apply String.eqb_eq in H0. rewrite H0. reflexivity.
      * apply nodupk_update, Nd.
    + apply (SNa_same_entry a m X c); [exact Hs|reflexivity|]. c_simpl. apply aget_aset_other. congruence.
Qed.

(* ---- node deliveries of other nodes ---- *)
Lemma SNa_cleanup_node a m X c m' : CohI a c -> aget m (n2p c) = Some X -> m' <> m -> SNa a m X c ->
  SNa a m X (cleanup_node m' c) /\ aget m (n2p (cleanup_node m' c)) = Some X.
Proof.
  intros H En Hne Hs. destruct (aget m' (n2p c)) as [X'|] eqn:E'; [|rewrite cleanup_node_none; auto].
  destruct (cleanup_node_some a c m' X' H E') as (s' & nd' & F1 & F2 & F3 & ->).
  assert (Hx : X' <> X) by (intros ->; apply Hne; eapply ci_n2p_inj; eauto).
  split.
  - apply (SNa_same_entry a m X c); [exact Hs| |].
    + destruct (sn_claim s'); reflexivity.
    + destruct (sn_claim s'); c_simpl; [apply aget_aset_other|apply aget_adel_other]; congruence.
  - c_simpl. destruct (sn_claim s'); c_simpl; rewrite aget_adel_other by congruence; exact En.
Qed.

Lemma un_c1_n2p a nd c : n2p (un_c1 a nd c) = n2p c.
Proof. pose proof (same_ids_populate (n_name nd) (a_pods a) (un_n0 nd c) c) as (_ & S & _). exact S. Qed.

Lemma SNa_update_node a m X c nd' : api_ok a -> CohI a c -> aget (n_name nd') (a_nodes a) = Some nd' ->
  spec_n2p a m = Some X -> aget m (n2p c) = Some X -> n_name nd' <> m -> SNa a m X c ->
  SNa a m X (update_node a nd' c) /\ aget m (n2p (update_node a nd' c)) = Some X.
Proof.
  intros Hok H Ea Hspec En Hne Hs.
  destruct (trackable nd') eqn:Ht; [|unfold update_node, update_node_gen; rewrite Ht; auto].
  destruct (un_c2_facts a nd' c H) as (H2 & O2 & N2).
  rewrite update_node_eq by (assumption || apply H2).
  pose proof (same_ids_populate (n_name nd') (a_pods a) (un_n0 nd' c) c) as S1. fold (un_c1 a nd' c) in S1.
  pose proof (CohI_same_ids a _ _ S1 H) as H1.
  assert (En1 : aget m (n2p (un_c1 a nd' c)) = Some X) by (rewrite un_c1_n2p; exact En).
  assert (Hs1 : SNa a m X (un_c1 a nd' c)) by (apply SNa_populate; assumption).
  assert (Hs2 : SNa a m X (un_c2 a nd' c) /\ aget m (n2p (un_c2 a nd' c)) = Some X).
  { unfold un_c2. destruct (aget (n_name nd') (n2p (un_c1 a nd' c))) as [id|]; [|auto].
    destruct (id =s epid nd'); [auto|]. apply SNa_cleanup_node; assumption. }
  destruct Hs2 as [Hs2 En2].
  (* the provider id of nd' is not X *)
  assert (Hx : epid nd' <> X).
  { unfold spec_n2p in Hspec. destruct (aget m (a_nodes a)) as [ndm|] eqn:Em; [|discriminate].
    destruct (trackable ndm) eqn:Htm; [|discriminate]. injection Hspec as Hspec.
    intros Heq. apply Hne. destruct Hok as [_ (U & _ & _)]. eapply (U _ _ nd' ndm); eauto. congruence. }
  split.
  - apply (SNa_same_entry a m X (un_c2 a nd' c)); [exact Hs2|reflexivity|]. c_simpl. apply aget_aset_other. congruence.
  - c_simpl. rewrite aget_aset_other by congruence. exact En2.
Qed.

(* ---- claim deliveries ---- *)
Lemma SNa_cleanup_claim a m X c k : CohI a c -> SNa a m X c -> SNa a m X (cleanup_claim k c).
Proof.
  intros H Hs. destruct (sget k (c2p c) =s "") eqn:E0.
  { seq. rewrite cleanup_claim_unlaunched, (ci_np _ _ H) by assumption.
    apply (SNa_same_entry a m X c); auto. }
  assert (exists X', aget k (c2p c) = Some X' /\ X' <> "") as (X' & E & Hx).
  { unfold sget in E0. destruct (aget k (c2p c)) as [X'|]; [|discriminate]. exists X'. seq. auto. }
  destruct (cleanup_claim_some a c k X' H E Hx) as (s' & cl & E1 & E2 & E3 & ->).
  destruct (string_dec X' X) as [->|Hne].
  - destruct Hs as (s & nd & F1 & F2 & F3 & R). assert (s' = s) by congruence. subst s'.
    rewrite F3. eapply (SNa_transfer a m X c); [exists s, nd; auto|reflexivity|].
    intros s0 F0. assert (s0 = s) by congruence. subst s0.
    exists (drop_claim s). c_simpl. rewrite aget_aset_same. auto.
  - apply (SNa_same_entry a m X c); [exact Hs| |].
    + destruct (sn_node s'); reflexivity.
    + destruct (sn_node s'); c_simpl; [apply aget_aset_other|apply aget_adel_other]; congruence.
Qed.

Lemma SNa_update_claim a m X c cl : CohI a c -> SNa a m X c -> SNa a m X (update_claim cl c).
Proof.
  intros H Hs. destruct (c_pid cl =s "") eqn:Ep; seq.
  { rewrite update_claim_unlaunched by (assumption || apply H). apply (SNa_same_entry a m X c); auto. }
  destruct (uc_c1_facts a cl c H Ep) as (H1 & O1 & N1).
  rewrite update_claim_eq by (assumption || apply H1).
  assert (Hs1 : SNa a m X (uc_c1 cl c)).
  { unfold uc_c1. destruct (aget (c_name cl) (c2p c)) as [id|]; [|exact Hs].
    destruct (id =s c_pid cl); [exact Hs|]. apply SNa_cleanup_claim; assumption. }
  destruct (string_dec (c_pid cl) X) as [Ex|Ex].
  - (* the claim joins the settled entry: node and aggregates are carried over *)
    destruct Hs as (s & nd & F1 & F2 & F3 & R & Nd & B).
    destruct Hs1 as (s1 & nd1 & G1 & G2 & G3 & R1 & Nd1 & B1).
    exists (uc_n cl c), nd. c_simpl. rewrite Ex, aget_aset_same.
    assert (Eo : uc_old cl c = s) by (unfold uc_old; rewrite Ex, F1; reflexivity).
    unfold uc_n. rewrite Eo. cbn [sn_node sn_pods].
    split; [reflexivity|]. split; [assumption|]. split; [assumption|]. split; [|split; [exact Nd|exact B1]].
    eapply rebuilt_agg; [|exact R]. reflexivity.
  - apply (SNa_same_entry a m X (uc_c1 cl c)); [exact Hs1|reflexivity|]. c_simpl. apply aget_aset_other. congruence.
Qed.

Lemma cleanup_claim_n2p a k c : CohI a c -> n2p (cleanup_claim k c) = n2p c.
Proof.
  intros H. destruct (sget k (c2p c) =s "") eqn:E0.
  { seq. rewrite cleanup_claim_unlaunched, (ci_np _ _ H) by assumption. reflexivity. }
  assert (exists X', aget k (c2p c) = Some X' /\ X' <> "") as (X' & E & Hx).
  { unfold sget in E0. destruct (aget k (c2p c)) as [X'|]; [|discriminate]. exists X'. seq. auto. }
  destruct (cleanup_claim_some a c k X' H E Hx) as (s' & cl & _ & _ & _ & ->).
  destruct (sn_node s'); reflexivity.
Qed.

Lemma same_claim_n2p a cl c : CohI a c -> n2p (update_claim cl c) = n2p c.
Proof.
  intros H. destruct (c_pid cl =s "") eqn:Ep; seq.
  { rewrite update_claim_unlaunched by (assumption || apply H). reflexivity. }
  destruct (uc_c1_facts a cl c H Ep) as (H1 & _ & _).
  rewrite update_claim_eq by (assumption || apply H1). c_simpl.
  unfold uc_c1. destruct (aget (c_name cl) (c2p c)); [|reflexivity].
  destruct (s =s c_pid cl); [reflexivity|]. apply (cleanup_claim_n2p a). exact H.
Qed.

(* ---- delivering the node itself ---- *)
Lemma binds_cob_other p c key : key <> p_key p ->
  aget key (binds (bind_pod p (cleanup_old_bindings p c))) = aget key (binds c).
Proof.
  intros Hne. unfold bind_pod; c_simpl. rewrite aget_aset_other by assumption.
  unfold cleanup_old_bindings. destruct (aget (p_key p) (binds c)); [|reflexivity].
  destruct (s =s p_node p); [reflexivity|]. destruct (aget (sget s (n2p c)) (nodes c)); [|reflexivity].
  c_simpl. apply aget_adel_other, Hne.
Qed.

Lemma populate_binds_other name l : (forall k p, In (k, p) l -> p_key p = k) -> forall s c key,
  ~ In key (map fst l) ->
  aget key (binds (snd (fold_left (populate_step name) l (s, c)))) = aget key (binds c).
Proof.
  induction l as [|[k p] l IH]; intros Hkey s c key Hnin; simpl; [reflexivity|].
  unfold populate_step at 2. cbn [fst snd]. simpl in Hnin.
  assert (Hkey' : forall k0 p0, In (k0, p0) l -> p_key p0 = k0) by (intros; apply Hkey; right; assumption).
  destruct ((p_node p =s name) && negb (p_term p)).
  - rewrite (IH Hkey') by tauto. apply binds_cob_other. rewrite (Hkey k p) by (left; reflexivity).
    intros ->. apply Hnin. left. reflexivity.
  - apply (IH Hkey'). tauto.
Qed.

Lemma populate_binds name l : keyed p_key l -> forall s c key p,
  lookup_on name key l = Some p ->
  aget key (binds (snd (fold_left (populate_step name) l (s, c)))) = Some name.
Proof.
  induction l as [|[k p0] l IH]; intros Hk s c key p Hl; [discriminate|].
  destruct (keyed_cons_inv _ _ _ _ Hk) as (Hkey & Hnone & Hk').
  rewrite lookup_on_cons in Hl. simpl. unfold populate_step at 2. cbn [fst snd].
  destruct (key =s k) eqn:E; seq.
  - fold (on_node name p0). destruct (on_node name p0) eqn:Eon; [|discriminate].
    rewrite populate_binds_other; [| apply Hk' | apply aget_none_notin, Hnone].
    unfold bind_pod; c_simpl. rewrite Hkey, aget_aset_same.
    unfold on_node in Eon. apply andb_true_iff in Eon. destruct Eon as [Eon _]. seq. congruence.
  - destruct ((p_node p0 =s name) && negb (p_term p0)); eapply IH; eauto.
Qed.

Lemma SN_deliver_node a c m : api_ok a -> CohI a c -> SN a (deliver_node a m c) m.
Proof.
  intros Hok H. unfold SN, spec_n2p, deliver_node, deliver_node_gen. cbn [current v_keep_aggs].
  fold cleanup_node. fold update_node.
  destruct (aget m (a_nodes a)) as [nd|] eqn:Ea.
  - destruct (epid_nonempty a _ _ Hok Ea) as [Hpid Hname].
    destruct (trackable nd) eqn:Ht.
    + (* rebuilt *)
      assert (Ea' : aget (n_name nd) (a_nodes a) = Some nd) by (rewrite Hname; exact Ea).
      destruct (un_c2_facts a nd c H) as (H2 & O2 & N2).
      rewrite update_node_eq by (assumption || apply H2). c_simpl. rewrite Hname, aget_aset_same.
      split; [reflexivity|]. exists (un_n1 a nd c), nd. c_simpl. rewrite aget_aset_same.
      destruct Hok as [(Hwn & Hwc & Hk) Hu].
      destruct (pop_ident (n_name nd) (a_pods a) (un_n0 nd c)) as (I1 & _ & _).
      split; [reflexivity|]. split; [exact Ea|]. split; [exact I1|]. split; [|split].
      * rewrite <- Hname. apply populated_rebuilt; auto.
      * apply nodupk_pop. constructor.
      * intros key p Hon.
        assert (B1 : aget key (binds (un_c1 a nd c)) = Some m).
        { rewrite <- Hname. unfold un_c1. eapply populate_binds; [exact Hk|]. rewrite <- pod_on_lookup, Hname. exact Hon. }
        unfold un_c2. destruct (aget (n_name nd) (n2p (un_c1 a nd c))) as [id|] eqn:En1; [|exact B1].
        destruct (id =s epid nd); [exact B1|].
        assert (H1 : CohI a (un_c1 a nd c)).
        { eapply CohI_same_ids; [|exact H]. apply same_ids_populate. }
        destruct (cleanup_node_some a _ _ _ H1 En1) as (s' & nd' & _ & _ & _ & ->).
        destruct (sn_claim s'); exact B1.
    + (* not trackable: ignored, and the cache never tracked it *)
      unfold update_node, update_node_gen. rewrite Ht. cbn [negb].
      destruct (aget m (n2p c)) as [X|] eqn:En; [|reflexivity].
      pose proof (ci_track _ _ H _ _ _ En Ea). congruence.
  - destruct (aget m (n2p c)) as [X|] eqn:En; [|rewrite cleanup_node_none; assumption].
    destruct (cleanup_node_some a c m X H En) as (s & nd & _ & _ & _ & ->). c_simpl. apply aget_adel_same.
Qed.

Definition is_deliver (o : op) : Prop :=
  match o with DeliverNode _ | DeliverClaim _ | DeliverPod _ => True | _ => False end.

Lemma SN_preserved a c m o : api_ok a -> CohI a c -> is_deliver o -> SN a c m -> SN a (cache_step a c o) m.
Proof.
  intros Hok H Ho Hs. unfold cache_step, cache_step_gen. rewrite (ci_np _ _ H).
  destruct o; try contradiction.
  - (* a node *)
    destruct (string_dec name m) as [->|Hne]; [apply SN_deliver_node; assumption|].
    unfold SN in *. unfold deliver_node_gen. cbn [current v_keep_aggs]. fold cleanup_node. fold update_node.
    destruct (spec_n2p a m) as [X|] eqn:Hspec.
    + destruct Hs as [En Hs]. destruct (aget name (a_nodes a)) as [nd'|] eqn:Ea.
      * destruct (epid_nonempty a _ _ Hok Ea) as [_ Hname].
        assert (aget m (n2p (update_node a nd' c)) = Some X /\ SNa a m X (update_node a nd' c)); [|tauto].
        apply and_comm. apply SNa_update_node; try assumption; rewrite Hname; assumption.
      * apply and_comm. apply SNa_cleanup_node; assumption.
    + destruct (aget name (a_nodes a)) as [nd'|] eqn:Ea.
      * destruct (epid_nonempty a _ _ Hok Ea) as [_ Hname].
        destruct (trackable nd') eqn:Ht; [|unfold update_node, update_node_gen; rewrite Ht; exact Hs].
        destruct (un_c2_facts a nd' c H) as (H2 & O2 & N2).
        rewrite update_node_eq by (assumption || apply H2). c_simpl.
        rewrite aget_aset_other by congruence.
        unfold un_c2. destruct (aget (n_name nd') (n2p (un_c1 a nd' c))) as [id|] eqn:En1; [|rewrite un_c1_n2p; exact Hs].
        destruct (id =s epid nd'); [rewrite un_c1_n2p; exact Hs|].
        assert (H1 : CohI a (un_c1 a nd' c)).
        { eapply CohI_same_ids; [|exact H]. apply same_ids_populate. }
        destruct (cleanup_node_some a _ _ _ H1 En1) as (s' & nd'' & _ & _ & _ & ->). c_simpl.
        rewrite aget_adel_other by congruence. rewrite un_c1_n2p. exact Hs.
      * destruct (aget name (n2p c)) as [X'|] eqn:En'; [|rewrite cleanup_node_none; assumption].
        destruct (cleanup_node_some a c name X' H En') as (s' & nd'' & _ & _ & _ & ->). c_simpl.
        rewrite aget_adel_other by congruence. exact Hs.
  - (* a claim: the node name map and the bindings are untouched *)
    unfold SN in *. unfold deliver_claim_gen. cbn [current v_drop_costs negb]. fold update_claim.
    assert (N : forall cl, n2p (update_claim cl c) = n2p c) by (intros cl; apply (same_claim_n2p a); exact H).
    assert (N' : n2p (cleanup_claim name c) = n2p c) by (apply (cleanup_claim_n2p a); exact H).
    destruct (spec_n2p a m) as [X|].
    + destruct Hs as [En Hs]. destruct (aget name (a_claims a)) as [cl|].
      * rewrite N. split; [exact En|apply SNa_update_claim; assumption].
      * rewrite N'. split; [exact En|apply SNa_cleanup_claim; assumption].
    + destruct (aget name (a_claims a)) as [cl|]; [rewrite N|rewrite N']; exact Hs.
  - (* a pod *)
    unfold SN in *. unfold deliver_pod_gen. cbn [current v_pending_noop]. fold update_pod.
    destruct (spec_n2p a m) as [X|].
    + destruct Hs as [En Hs]. destruct (aget key (a_pods a)) as [p|] eqn:Ep.
      * assert (Hkey : p_key p = key).
        { destruct Hok as [(_ & _ & Hk) _]. apply (proj2 Hk). apply aget_in, Ep. }
        destruct (same_ids_update_pod p c) as (_ & -> & _). split; [exact En|].
        apply SNa_update_pod; try assumption. rewrite Hkey. exact Ep.
      * destruct (same_ids_completion key c) as (_ & -> & _). split; [exact En|].
        apply SNa_completion; try assumption. unfold pod_on. rewrite Ep. reflexivity.
    + destruct (aget key (a_pods a)) as [p|].
      * destruct (same_ids_update_pod p c) as (_ & -> & _). exact Hs.
      * destruct (same_ids_completion key c) as (_ & -> & _). exact Hs.
Qed.

(* ================= settled NodeClaims ================= *)
Definition oclaim (Y : string) (c : cache) : option claimobj :=
  match aget Y (nodes c) with Some s => sn_claim s | None => None end.

Definition SC (a : api) (c : cache) (k : string) : Prop :=
  match aget k (a_claims a) with
  | Some cl => aget k (c2p c) = Some (c_pid cl) /\ (c_pid cl <> "" -> oclaim (c_pid cl) c = Some cl)
  | None => aget k (c2p c) = None
  end.

Lemma oclaim_same_ids Y c c' : same_ids c c' -> oclaim Y c' = oclaim Y c.
Proof.
  intros (_ & _ & _ & O). specialize (O Y). unfold oid, oclaim in *.
  destruct (aget Y (nodes c')) as [s'|], (aget Y (nodes c)) as [s|]; simpl in O; try discriminate; [|reflexivity].
  assert (Hi : ident s' = ident s) by congruence. apply ident_fields in Hi. apply Hi.
Qed.

Lemma oclaim_cleanup_node a Y c m cl : CohI a c -> oclaim Y c = Some cl -> oclaim Y (cleanup_node m c) = Some cl.
Proof.
  intros H Ho. destruct (aget m (n2p c)) as [X|] eqn:E; [|rewrite cleanup_node_none; assumption].
  destruct (cleanup_node_some a c m X H E) as (s & nd & F1 & F2 & F3 & ->).
  unfold oclaim in *. destruct (sn_claim s) as [cl0|] eqn:EC; c_simpl.
  - rewrite aget_aset. destruct (Y =s X) eqn:Ey; seq; [|exact Ho]. rewrite F1 in Ho. simpl. congruence.
  - rewrite aget_adel. destruct (Y =s X) eqn:Ey; seq; [|exact Ho]. rewrite F1 in Ho. congruence.
Qed.

Lemma oclaim_update_node a Y c nd cl : CohI a c -> oclaim Y c = Some cl -> oclaim Y (update_node a nd c) = Some cl.
Proof.
  intros H Ho. destruct (trackable nd) eqn:Ht; [|unfold update_node, update_node_gen; rewrite Ht; exact Ho].
  destruct (un_c2_facts a nd c H) as (H2 & O2 & N2).
  rewrite update_node_eq by (assumption || apply H2).
  pose proof (same_ids_populate (n_name nd) (a_pods a) (un_n0 nd c) c) as S1. fold (un_c1 a nd c) in S1.
  assert (Ho2 : oclaim Y (un_c2 a nd c) = Some cl).
  { unfold un_c2. destruct (aget (n_name nd) (n2p (un_c1 a nd c))); [|rewrite (oclaim_same_ids _ _ _ S1); exact Ho].
    destruct (s =s epid nd); [rewrite (oclaim_same_ids _ _ _ S1); exact Ho|].
    eapply oclaim_cleanup_node; [eapply CohI_same_ids; eauto|]. rewrite (oclaim_same_ids _ _ _ S1). exact Ho. }
  unfold oclaim. c_simpl. rewrite aget_aset. destruct (Y =s epid nd) eqn:Ey; seq; [|exact Ho2].
  destruct (pop_ident (n_name nd) (a_pods a) (un_n0 nd c)) as (_ & I2 & _). unfold un_n1. rewrite I2.
  unfold un_n0, un_old. cbn [sn_claim]. unfold oclaim in Ho. destruct (aget (epid nd) (nodes c)); [exact Ho|discriminate].
Qed.

Lemma cleanup_claim_other a c k k' Y cl : CohI a c -> k' <> k -> aget k (c2p c) = Some Y ->
  (Y <> "" -> oclaim Y c = Some cl) ->
  aget k (c2p (cleanup_claim k' c)) = Some Y /\ (Y <> "" -> oclaim Y (cleanup_claim k' c) = Some cl).
Proof.
  intros H Hne Ek Ho. destruct (sget k' (c2p c) =s "") eqn:E0.
  { seq. rewrite cleanup_claim_unlaunched, (ci_np _ _ H) by assumption. c_simpl.
    rewrite aget_adel_other by congruence. auto. }
  assert (exists X', aget k' (c2p c) = Some X' /\ X' <> "") as (X' & E & Hx).
  { unfold sget in E0. destruct (aget k' (c2p c)) as [X'|]; [|discriminate]. exists X'. seq. auto. }
  destruct (cleanup_claim_some a c k' X' H E Hx) as (s' & cl' & F1 & F2 & F3 & ->).
  assert (Hy : X' <> Y) by (intros ->; apply Hne; eapply ci_c2p_inj; eauto).
  split.
  - c_simpl. destruct (sn_node s'); c_simpl; rewrite aget_adel_other by congruence; exact Ek.
  - intros Hyn. specialize (Ho Hyn). unfold oclaim in *.
    destruct (sn_node s'); c_simpl; [rewrite aget_aset_other by congruence|rewrite aget_adel_other by congruence]; exact Ho.
Qed.

Lemma SC_deliver_claim a c k : api_ok a -> CohI a c -> SC a (deliver_claim a k c) k.
Proof.
  intros Hok H. unfold SC, deliver_claim, deliver_claim_gen. cbn [current v_drop_costs negb]. fold update_claim.
  destruct (aget k (a_claims a)) as [cl|] eqn:Ea.
  - pose proof (claim_named a _ _ Hok Ea) as Hn.
    destruct (c_pid cl =s "") eqn:Ep; seq.
    + rewrite update_claim_unlaunched by (assumption || apply H). c_simpl. rewrite Hn, Ep, aget_aset_same. split; [reflexivity|congruence].
    + destruct (uc_c1_facts a cl c H Ep) as (H1 & _ & _).
      rewrite update_claim_eq by (assumption || apply H1). c_simpl. rewrite Hn, aget_aset_same.
      split; [reflexivity|]. intros _. unfold oclaim; c_simpl. rewrite aget_aset_same. reflexivity.
  - destruct (sget k (c2p c) =s "") eqn:E0.
    { seq. rewrite cleanup_claim_unlaunched, (ci_np _ _ H) by assumption. c_simpl. apply aget_adel_same. }
    assert (exists X', aget k (c2p c) = Some X' /\ X' <> "") as (X' & E & Hx).
    { unfold sget in E0. destruct (aget k (c2p c)) as [X'|]; [|discriminate]. exists X'. seq. auto. }
    destruct (cleanup_claim_some a c k X' H E Hx) as (s' & cl' & _ & _ & _ & ->). c_simpl. apply aget_adel_same.
Qed.

Lemma SC_preserved a c k o : api_ok a -> CohI a c -> is_deliver o -> SC a c k -> SC a (cache_step a c o) k.
Proof.
  intros Hok H Ho Hs. unfold cache_step, cache_step_gen. rewrite (ci_np _ _ H).
  destruct o; try contradiction.
  - (* a node: claim name map untouched, claim fields kept *)
    unfold deliver_node_gen. cbn [current v_keep_aggs]. fold cleanup_node. fold update_node.
    assert (C1 : forall nd, c2p (update_node a nd c) = c2p c).
    { intros nd. destruct (trackable nd) eqn:Ht; [|unfold update_node, update_node_gen; rewrite Ht; reflexivity].
      destruct (un_c2_facts a nd c H) as (H2 & _ & _). rewrite update_node_eq by (assumption || apply H2). c_simpl.
      pose proof (same_ids_populate (n_name nd) (a_pods a) (un_n0 nd c) c) as S1. fold (un_c1 a nd c) in S1.
      assert (H1 : CohI a (un_c1 a nd c)) by (eapply CohI_same_ids; eauto).
      destruct S1 as (_ & _ & S1 & _).
      unfold un_c2. destruct (aget (n_name nd) (n2p (un_c1 a nd c))) as [id|] eqn:En1; [|exact S1].
      destruct (id =s epid nd); [exact S1|].
      destruct (cleanup_node_some a _ _ _ H1 En1) as (s' & nd' & _ & _ & _ & ->). destruct (sn_claim s'); exact S1. }
    assert (C2 : c2p (cleanup_node name c) = c2p c).
    { destruct (aget name (n2p c)) as [X|] eqn:E; [|rewrite cleanup_node_none; auto].
      destruct (cleanup_node_some a c name X H E) as (s' & nd' & _ & _ & _ & ->). destruct (sn_claim s'); reflexivity. }
    unfold SC in *. destruct (aget k (a_claims a)) as [cl|].
    + destruct Hs as [Ek Ho']. destruct (aget name (a_nodes a)) as [nd|].
      * rewrite C1. split; [exact Ek|]. intros Hp. eapply oclaim_update_node; eauto.
      * rewrite C2. split; [exact Ek|]. intros Hp. eapply oclaim_cleanup_node; eauto.
    + destruct (aget name (a_nodes a)) as [nd|]; [rewrite C1|rewrite C2]; exact Hs.
  - (* a claim *)
    destruct (string_dec name k) as [->|Hne]; [apply SC_deliver_claim; assumption|].
    unfold deliver_claim_gen. cbn [current v_drop_costs negb]. fold update_claim.
    unfold SC in *. destruct (aget k (a_claims a)) as [cl|] eqn:Eak.
    + destruct Hs as [Ek Ho'].
      destruct (aget name (a_claims a)) as [cl'|] eqn:Ea'; [|apply (cleanup_claim_other a); assumption].
      pose proof (claim_named a _ _ Hok Ea') as Hn'.
      destruct (c_pid cl' =s "") eqn:Ep; seq.
      * rewrite update_claim_unlaunched by (assumption || apply H). c_simpl.
        rewrite aget_aset_other by congruence. auto.
      * destruct (uc_c1_facts a cl' c H Ep) as (H1 & _ & _).
        rewrite update_claim_eq by (assumption || apply H1). c_simpl.
        assert (Q : aget k (c2p (uc_c1 cl' c)) = Some (c_pid cl) /\ (c_pid cl <> "" -> oclaim (c_pid cl) (uc_c1 cl' c) = Some cl)).
        { unfold uc_c1. destruct (aget (c_name cl') (c2p c)); [|auto].
          destruct (s =s c_pid cl'); [auto|]. apply (cleanup_claim_other a); try assumption. congruence. }
        destruct Q as [Q1 Q2]. rewrite aget_aset_other by congruence. split; [exact Q1|].
        intros Hp. unfold oclaim. c_simpl. rewrite aget_aset_other; [apply Q2, Hp|].
        intros Heq. apply Hne. destruct Hok as [_ (_ & U & _)]. symmetry in Heq.
        rewrite <- Hn'. eapply (U _ _ cl' cl); eauto. rewrite Hn'. exact Ea'.
    + destruct (aget name (a_claims a)) as [cl'|] eqn:Ea'.
      * pose proof (claim_named a _ _ Hok Ea') as Hn'.
        destruct (c_pid cl' =s "") eqn:Ep; seq.
        -- rewrite update_claim_unlaunched by (assumption || apply H). c_simpl. rewrite aget_aset_other by congruence. exact Hs.
        -- destruct (uc_c1_facts a cl' c H Ep) as (H1 & _ & _).
           rewrite update_claim_eq by (assumption || apply H1). c_simpl. rewrite aget_aset_other by congruence.
           unfold uc_c1. destruct (aget (c_name cl') (c2p c)) as [id|] eqn:Ec; [|exact Hs].
           destruct (id =s c_pid cl'); [exact Hs|]. rewrite Hn' in *.
           destruct (sget name (c2p c) =s "") eqn:E0.
           { seq. rewrite cleanup_claim_unlaunched, (ci_np _ _ H) by assumption. c_simpl. rewrite aget_adel_other by congruence. exact Hs. }
           assert (id <> "") by (unfold sget in E0; rewrite Ec in E0; seq; assumption).
           destruct (cleanup_claim_some a c name id H Ec) as (s' & cl'' & _ & _ & _ & ->); [assumption|].
           c_simpl. destruct (sn_node s'); c_simpl; rewrite aget_adel_other by congruence; exact Hs.
      * destruct (sget name (c2p c) =s "") eqn:E0.
        { seq. rewrite cleanup_claim_unlaunched, (ci_np _ _ H) by assumption. c_simpl. rewrite aget_adel_other by congruence. exact Hs. }
        assert (exists X', aget name (c2p c) = Some X' /\ X' <> "") as (X' & E & Hx).
        { unfold sget in E0. destruct (aget name (c2p c)) as [X'|]; [|discriminate]. exists X'. seq. auto. }
        destruct (cleanup_claim_some a c name X' H E Hx) as (s' & cl'' & _ & _ & _ & ->).
        c_simpl. destruct (sn_node s'); c_simpl; rewrite aget_adel_other by congruence; exact Hs.
  - (* a pod *)
    unfold deliver_pod_gen. cbn [current v_pending_noop]. fold update_pod.
    assert (S : same_ids c (match aget key (a_pods a) with Some p => update_pod p c | None => pod_completion key c end)).
    { destruct (aget key (a_pods a)); [apply same_ids_update_pod|apply same_ids_completion]. }
    unfold SC in *. pose proof (oclaim_same_ids) as OS. destruct S as (S0 & S1 & S2 & S3).
    destruct (aget k (a_claims a)) as [cl|].
    + destruct Hs as [Ek Ho']. rewrite S2. split; [exact Ek|]. intros Hp.
      rewrite (OS _ c); [apply Ho', Hp|]. repeat split; assumption.
    + rewrite S2. exact Hs.
Qed.

(* ================= pods that are gone, terminal or pending have no binding ================= *)
Definition unbound (a : api) (key : string) : bool :=
  match aget key (a_pods a) with Some p => p_term p || (p_node p =s "") | None => true end.

Definition SP (a : api) (c : cache) (key : string) : Prop := unbound a key = true -> aget key (binds c) = None.

Lemma completion_binds key c : aget key (binds (pod_completion key c)) = None.
Proof.
  unfold pod_completion. destruct (aget key (binds c)) eqn:E; [|exact E].
  destruct (aget (sget s (n2p c)) (nodes c)); c_simpl; apply aget_adel_same.
Qed.

Lemma completion_binds_other key key' c : key <> key' -> aget key (binds (pod_completion key' c)) = aget key (binds c).
Proof.
  intros Hne. unfold pod_completion. destruct (aget key' (binds c)) eqn:E; [|reflexivity].
  destruct (aget (sget s (n2p c)) (nodes c)); c_simpl; apply aget_adel_other, Hne.
Qed.

Lemma update_pod_binds_other key p c : key <> p_key p -> aget key (binds (update_pod p c)) = aget key (binds c).
Proof.
  intros Hne. unfold update_pod, update_pod_gen. destruct (p_term p); [apply completion_binds_other, Hne|].
  destruct (p_node p =s ""); [apply completion_binds_other, Hne|].
  destruct (aget (sget (p_node p) (n2p c)) (nodes c)); [|reflexivity].
  rewrite binds_cob_other by assumption. reflexivity.
Qed.

Lemma cleanup_node_binds a m c : CohI a c -> binds (cleanup_node m c) = binds c.
Proof.
  intros H. destruct (aget m (n2p c)) as [X|] eqn:E; [|rewrite cleanup_node_none; auto].
  destruct (cleanup_node_some a c m X H E) as (s' & nd' & _ & _ & _ & ->). destruct (sn_claim s'); reflexivity.
Qed.

Lemma cleanup_claim_binds a k c : CohI a c -> binds (cleanup_claim k c) = binds c.
Proof.
  intros H. destruct (sget k (c2p c) =s "") eqn:E0.
  { seq. rewrite cleanup_claim_unlaunched, (ci_np _ _ H) by assumption. reflexivity. }
  assert (exists X', aget k (c2p c) = Some X' /\ X' <> "") as (X' & E & Hx).
  { unfold sget in E0. destruct (aget k (c2p c)) as [X'|]; [|discriminate]. exists X'. seq. auto. }
  destruct (cleanup_claim_some a c k X' H E Hx) as (s' & cl & _ & _ & _ & ->). destruct (sn_node s'); reflexivity.
Qed.

Lemma update_claim_binds a cl c : CohI a c -> binds (update_claim cl c) = binds c.
Proof.
  intros H. destruct (c_pid cl =s "") eqn:Ep; seq.
  { rewrite update_claim_unlaunched by (assumption || apply H). reflexivity. }
  destruct (uc_c1_facts a cl c H Ep) as (H1 & _ & _).
  rewrite update_claim_eq by (assumption || apply H1). c_simpl.
  unfold uc_c1. destruct (aget (c_name cl) (c2p c)); [|reflexivity].
  destruct (s =s c_pid cl); [reflexivity|]. apply (cleanup_claim_binds a). exact H.
Qed.

Lemma update_node_binds a nd c : CohI a c -> trackable nd = true ->
  binds (update_node a nd c) = binds (un_c1 a nd c).
Proof.
  intros H Ht. destruct (un_c2_facts a nd c H) as (H2 & _ & _).
  rewrite update_node_eq by (assumption || apply H2). c_simpl.
  unfold un_c2. destruct (aget (n_name nd) (n2p (un_c1 a nd c))); [|reflexivity].
  destruct (s =s epid nd); [reflexivity|]. apply (cleanup_node_binds a).
  eapply CohI_same_ids; [|exact H]. apply same_ids_populate.
Qed.

Lemma SP_preserved a c key o : api_ok a -> CohI a c -> is_deliver o -> SP a c key -> SP a (cache_step a c o) key.
Proof.
  intros Hok H Ho Hs Hu. specialize (Hs Hu). unfold cache_step, cache_step_gen. rewrite (ci_np _ _ H).
  destruct o; try contradiction.
  - unfold deliver_node_gen. cbn [current v_keep_aggs]. fold cleanup_node. fold update_node.
    destruct (aget name (a_nodes a)) as [nd|] eqn:Ea; [|rewrite (cleanup_node_binds a); assumption].
    destruct (trackable nd) eqn:Ht; [|unfold update_node, update_node_gen; rewrite Ht; exact Hs].
    rewrite update_node_binds by assumption. unfold un_c1.
    apply (populate_inv (n_name nd) (a_pods a) (fun c' => aget key (binds c') = None)); [|exact Hs].
    intros k p c' Hin Hon Hq. destruct (string_dec key (p_key p)) as [->|Hne]; [|rewrite binds_cob_other; assumption].
    exfalso. pose proof Hok as Hok'. destruct Hok as [(_ & _ & Hk) _].
    assert (Ep : aget (p_key p) (a_pods a) = Some p).
    { rewrite (proj2 Hk k p Hin). apply in_aget; [apply Hk|exact Hin]. }
    unfold unbound in Hu. rewrite Ep in Hu. unfold on_node in Hon. apply andb_true_iff in Hon. destruct Hon as [Hn1 Hn2].
    apply negb_true_iff in Hn2. rewrite Hn2 in Hu. simpl in Hu. seq.
    destruct (epid_nonempty a _ _ Hok' Ea) as [_ Hname]. apply (node_name_nonempty a _ _ Hok' Ea). congruence.
  - unfold deliver_claim_gen. cbn [current v_drop_costs negb]. fold update_claim.
    destruct (aget name (a_claims a)); [rewrite (update_claim_binds a)|rewrite (cleanup_claim_binds a)]; assumption.
  - unfold deliver_pod_gen. cbn [current v_pending_noop]. fold update_pod.
    destruct (string_dec key key0) as [<-|Hne].
    + unfold unbound in Hu. destruct (aget key (a_pods a)) as [p|] eqn:Ep; [|apply completion_binds].
      assert (Hkey : p_key p = key).
      { destruct Hok as [(_ & _ & Hk) _]. apply (proj2 Hk). apply aget_in, Ep. }
      unfold update_pod, update_pod_gen. destruct (p_term p); [rewrite Hkey; apply completion_binds|].
      simpl in Hu. rewrite Hu, Hkey. apply completion_binds.
    + destruct (aget key0 (a_pods a)) as [p|] eqn:Ep; [|rewrite completion_binds_other; assumption].
      assert (Hkey : p_key p = key0).
      { destruct Hok as [(_ & _ & Hk) _]. apply (proj2 Hk). apply aget_in, Ep. }
      rewrite update_pod_binds_other; [assumption|congruence].
Qed.

Lemma SP_deliver_pod a c key : api_ok a -> CohI a c -> SP a (cache_step a c (DeliverPod key)) key.
Proof.
  intros Hok H Hu. unfold cache_step, cache_step_gen. rewrite (ci_np _ _ H).
  unfold deliver_pod_gen. cbn [current v_pending_noop]. fold update_pod.
  unfold unbound in Hu. destruct (aget key (a_pods a)) as [p|] eqn:Ep; [|apply completion_binds].
  assert (Hkey : p_key p = key).
  { destruct Hok as [(_ & _ & Hk) _]. apply (proj2 Hk). apply aget_in, Ep. }
  unfold update_pod, update_pod_gen. destruct (p_term p); [rewrite Hkey; apply completion_binds|].
  simpl in Hu. rewrite Hu, Hkey. apply completion_binds.
Qed.

(* ================= StateNodes without a Node carry no pod aggregates (after 7fed8b92b) ================= *)
Definition NE (c : cache) : Prop :=
  forall X s, aget X (nodes c) = Some s -> sn_node s = None -> empty_agg s.

Lemma empty_cleanup k s : empty_agg s -> empty_agg (cleanup_for_pod k s).
Proof. intros (E1 & E2 & E3 & E4). unfold empty_agg. sn_simpl. rewrite E1, E2, E3. repeat split. Qed.

Lemma NE_set c Y s' : NE c -> (sn_node s' = None -> empty_agg s') -> NE (with_nodes c (aset Y s' (nodes c))).
Proof.
  intros H Hs X s. c_simpl. rewrite aget_aset. destruct (X =s Y); [intros [= <-]; exact Hs|apply H].
Qed.

Lemma NE_del c Y : NE c -> NE (with_nodes c (adel Y (nodes c))).
Proof. intros H X s. c_simpl. rewrite aget_adel. destruct (X =s Y); [discriminate|apply H]. Qed.

Lemma NE_cob p c : NE c -> NE (cleanup_old_bindings p c).
Proof.
  intros H. unfold cleanup_old_bindings. destruct (aget (p_key p) (binds c)); [|exact H].
  destruct (s =s p_node p); [exact H|]. destruct (aget (sget s (n2p c)) (nodes c)) as [s0|] eqn:E; [|exact H].
  apply (NE_set c); [exact H|]. intros Hn. apply empty_cleanup. eapply H; eauto.
Qed.

Lemma NE_completion k c : NE c -> NE (pod_completion k c).
Proof.
  intros H. unfold pod_completion. destruct (aget k (binds c)); [|exact H].
  destruct (aget (sget s (n2p c)) (nodes c)) as [s0|] eqn:E; [|exact H].
  apply (NE_set c); [exact H|]. intros Hn. apply empty_cleanup. eapply H; eauto.
Qed.

Lemma NE_update_pod a p c : CohI a c -> NE c -> NE (update_pod p c).
Proof.
  intros Hc H. unfold update_pod, update_pod_gen. destruct (p_term p); [apply NE_completion, H|].
  destruct (p_node p =s ""); [apply NE_completion, H|].
  destruct (aget (sget (p_node p) (n2p c)) (nodes c)) as [s1|] eqn:E; [|exact H].
  unfold bind_pod. apply NE_cob. apply (NE_set c); [exact H|]. sn_simpl. intros Hn. exfalso.
  (* the entry a pod is added to is reached through the node name map, so it has a Node *)
  unfold sget in E. destruct (aget (p_node p) (n2p c)) as [id|] eqn:En.
  - destruct (ci_n2p _ _ Hc _ _ En) as (_ & s & nd & F1 & F2 & _). congruence.
  - eapply (ci_keys _ _ Hc); eauto.
Qed.

Lemma NE_cleanup_node a m c : CohI a c -> NE c -> NE (cleanup_node m c).
Proof.
  intros Hc H. destruct (aget m (n2p c)) as [X|] eqn:E; [|rewrite cleanup_node_none; assumption].
  destruct (cleanup_node_some a c m X Hc E) as (s & nd & _ & _ & _ & ->).
  destruct (sn_claim s).
  - apply (NE_set (upr_c (Some s) (Some (drop_node s)) c)); [exact H|]. intros _. repeat split.
  - apply (NE_del (upr_c (Some s) None c)). exact H.
Qed.

Lemma NE_cleanup_claim a k c : CohI a c -> NE c -> NE (cleanup_claim k c).
Proof.
  intros Hc H. destruct (sget k (c2p c) =s "") eqn:E0.
  { seq. rewrite cleanup_claim_unlaunched, (ci_np _ _ Hc) by assumption. exact H. }
  assert (exists X', aget k (c2p c) = Some X' /\ X' <> "") as (X' & E & Hx).
  { unfold sget in E0. destruct (aget k (c2p c)) as [X'|]; [|discriminate]. exists X'. seq. auto. }
  destruct (cleanup_claim_some a c k X' Hc E Hx) as (s & cl & _ & _ & _ & ->).
  destruct (sn_node s) eqn:En.
  - apply (NE_set (upr_c (Some s) (Some (drop_claim s)) c)); [exact H|]. simpl. congruence.
  - apply (NE_del (upr_c (Some s) None c)). exact H.
Qed.

Lemma NE_update_claim a cl c : CohI a c -> NE c -> NE (update_claim cl c).
Proof.
  intros Hc H. destruct (c_pid cl =s "") eqn:Ep; seq.
  { rewrite update_claim_unlaunched by (assumption || apply Hc). exact H. }
  destruct (uc_c1_facts a cl c Hc Ep) as (H1 & _ & _).
  rewrite update_claim_eq by (assumption || apply H1).
  assert (N1 : NE (uc_c1 cl c)).
  { unfold uc_c1. destruct (aget (c_name cl) (c2p c)); [|exact H].
    destruct (s =s c_pid cl); [exact H|]. apply (NE_cleanup_claim a); assumption. }
  apply (NE_set (upr_c (Some (uc_old cl c)) (Some (uc_n cl c)) (uc_c1 cl c))); [exact N1|].
  unfold uc_n, uc_old. cbn [sn_node]. destruct (aget (c_pid cl) (nodes c)) as [o|] eqn:Eo.
  - intros Hn. apply (H _ _ Eo Hn).
  - intros _. repeat split.
Qed.

Lemma NE_update_node a nd c : CohI a c -> NE c -> NE (update_node a nd c).
Proof.
  intros Hc H. destruct (trackable nd) eqn:Ht; [|unfold update_node, update_node_gen; rewrite Ht; exact H].
  destruct (un_c2_facts a nd c Hc) as (H2 & _ & _).
  rewrite update_node_eq by (assumption || apply H2).
  assert (N1 : CohI a (un_c1 a nd c) /\ NE (un_c1 a nd c)).
  { unfold un_c1. apply (populate_inv (n_name nd) (a_pods a) (fun c' => CohI a c' /\ NE c')); [|auto].
    intros k p c' _ _ (Hc' & Hn'). split.
    - eapply CohI_same_ids; [|exact Hc']. eapply same_ids_trans; [apply same_ids_cob|apply same_ids_binds].
    - unfold bind_pod. apply NE_cob, Hn'. }
  destruct N1 as [Hc1 N1].
  assert (N2 : NE (un_c2 a nd c)).
  { unfold un_c2. destruct (aget (n_name nd) (n2p (un_c1 a nd c))); [|exact N1].
    destruct (s =s epid nd); [exact N1|]. apply (NE_cleanup_node a); assumption. }
  apply (NE_set (upr_c (Some (un_old nd c)) (Some (un_n1 a nd c)) (un_c2 a nd c))); [exact N2|].
  destruct (pop_ident (n_name nd) (a_pods a) (un_n0 nd c)) as (I1 & _ & _). unfold un_n1. rewrite I1. discriminate.
Qed.

Lemma NE_deliver a c o : CohI a c -> is_deliver o -> NE c -> NE (cache_step a c o).
Proof.
  intros Hc Ho H. unfold cache_step, cache_step_gen. rewrite (ci_np _ _ Hc). destruct o; try contradiction.
  - unfold deliver_node_gen. cbn [current v_keep_aggs]. fold cleanup_node. fold update_node.
    destruct (aget name (a_nodes a)); [apply NE_update_node|apply (NE_cleanup_node a)]; assumption.
  - unfold deliver_claim_gen. cbn [current v_drop_costs negb]. fold update_claim.
    destruct (aget name (a_claims a)); [apply (NE_update_claim a)|apply (NE_cleanup_claim a)]; assumption.
  - unfold deliver_pod_gen. cbn [current v_pending_noop]. fold update_pod.
    destruct (aget key (a_pods a)); [apply (NE_update_pod a)|apply NE_completion]; assumption.
Qed.

(* ================= the specification's lookups ================= *)
Lemma find_node_some l X nd : find_node X l = Some nd -> exists k, In (k, nd) l /\ trackable nd = true /\ epid nd = X.
Proof.
  induction l as [|[k n] l IH]; simpl; [discriminate|].
  destruct (trackable n && (epid n =s X)) eqn:E.
  - intros [= <-]. apply andb_true_iff in E. destruct E as [E1 E2]. seq. exists k. auto.
  - intros H. destruct (IH H) as (k' & Hin & Ht). exists k'. split; [right; exact Hin|exact Ht].
Qed.

Lemma find_node_none l X : find_node X l = None -> forall k nd, In (k, nd) l -> trackable nd = true -> epid nd <> X.
Proof.
  induction l as [|[k n] l IH]; simpl; [intros _ k nd []|].
  destruct (trackable n && (epid n =s X)) eqn:E; [discriminate|].
  intros H k' nd [[= -> ->]|Hin] Ht.
  - rewrite Ht in E. simpl in E. seq. exact E.
  - eapply IH; eauto.
Qed.

Lemma node_at_intro a m nd : api_ok a -> aget m (a_nodes a) = Some nd -> trackable nd = true ->
  node_at a (epid nd) = Some nd.
Proof.
  intros [(Hn & _ & _) (U & _ & _)] E Ht. unfold node_at.
  destruct (find_node (epid nd) (a_nodes a)) as [nd'|] eqn:F.
  - destruct (find_node_some _ _ _ F) as (k & Hin & Ht' & He).
    assert (E' : aget k (a_nodes a) = Some nd') by (apply in_aget; [apply Hn|exact Hin]).
    assert (k = m) by (eapply U; eauto). subst k. congruence.
  - exfalso. eapply (find_node_none _ _ F m nd); auto. apply aget_in, E.
Qed.

Lemma node_at_elim a X nd : api_ok a -> node_at a X = Some nd ->
  aget (n_name nd) (a_nodes a) = Some nd /\ trackable nd = true /\ epid nd = X.
Proof.
  intros [(Hn & _ & _) _] F. destruct (find_node_some _ _ _ F) as (k & Hin & Ht & He).
  rewrite (proj2 Hn k nd Hin). split; [apply in_aget; [apply Hn|exact Hin]|auto].
Qed.

Lemma find_claim_some l X cl : find_claim X l = Some cl -> exists k, In (k, cl) l /\ c_pid cl = X.
Proof.
  induction l as [|[k c0] l IH]; simpl; [discriminate|].
  destruct (c_pid c0 =s X) eqn:E.
  - intros [= <-]. seq. exists k. auto.
  - intros H. destruct (IH H) as (k' & Hin & Hp). exists k'. split; [right; exact Hin|exact Hp].
Qed.

Lemma find_claim_none l X : find_claim X l = None -> forall k cl, In (k, cl) l -> c_pid cl <> X.
Proof.
  induction l as [|[k c0] l IH]; simpl; [intros _ k cl []|].
  destruct (c_pid c0 =s X) eqn:E; [discriminate|].
  intros H k' cl [[= -> ->]|Hin]; [seq; exact E|eapply IH; eauto].
Qed.

Lemma claim_at_intro a k cl : api_ok a -> aget k (a_claims a) = Some cl -> c_pid cl <> "" ->
  claim_at a (c_pid cl) = Some cl.
Proof.
  intros [(_ & Hc & _) (_ & U & _)] E Hp. unfold claim_at. apply String.eqb_neq in Hp. rewrite Hp.
  apply String.eqb_neq in Hp.
  destruct (find_claim (c_pid cl) (a_claims a)) as [cl'|] eqn:F.
  - destruct (find_claim_some _ _ _ F) as (k' & Hin & He).
    assert (E' : aget k' (a_claims a) = Some cl') by (apply in_aget; [apply Hc|exact Hin]).
    assert (k' = k) by (eapply (U k' k cl' cl); eauto; congruence). subst k'. congruence.
  - exfalso. eapply (find_claim_none _ _ F k cl); auto. apply aget_in, E.
Qed.

Lemma claim_at_elim a X cl : api_ok a -> claim_at a X = Some cl ->
  aget (c_name cl) (a_claims a) = Some cl /\ c_pid cl = X /\ X <> "".
Proof.
  intros [(_ & Hc & _) _]. unfold claim_at. destruct (X =s "") eqn:E; [discriminate|]. seq. intros F.
  destruct (find_claim_some _ _ _ F) as (k & Hin & He).
  rewrite (proj2 Hc k cl Hin). split; [apply in_aget; [apply Hc|exact Hin]|auto].
Qed.

(* ================= what a fully settled cache looks like ================= *)
Record Settled (a : api) (c : cache) : Prop := {
  st_coh : CohI a c;
  st_ne : NE c;
  st_npr : Npr c;
  st_n : forall m, SN a c m;
  st_c : forall k, SC a c k;
  st_p : forall key, SP a c key
}.

Lemma settled_node a c X s nd : api_ok a -> Settled a c -> aget X (nodes c) = Some s -> sn_node s = Some nd ->
  node_at a X = Some nd /\ rebuilt a (n_name nd) s.
Proof.
  intros Hok S Es En. pose proof (ci_nback _ _ (st_coh _ _ S) _ _ _ Es En) as Hb.
  pose proof (st_n _ _ S (n_name nd)) as Hs. unfold SN in Hs.
  destruct (spec_n2p a (n_name nd)) as [X'|] eqn:Hspec; [|congruence].
  destruct Hs as [En2 (s' & nd' & F1 & F2 & F3 & R & _)].
  assert (X' = X) by congruence. subst X'. assert (s' = s) by congruence. subst s'.
  assert (nd' = nd) by congruence. subst nd'.
  unfold spec_n2p in Hspec. rewrite F2 in Hspec. destruct (trackable nd) eqn:Ht; [|discriminate].
  injection Hspec as <-. split; [eapply node_at_intro; eauto|exact R].
Qed.

Lemma settled_node_at a c X nd : api_ok a -> Settled a c -> node_at a X = Some nd ->
  exists s, aget X (nodes c) = Some s /\ sn_node s = Some nd.
Proof.
  intros Hok S F. destruct (node_at_elim a X nd Hok F) as (E & Ht & He).
  pose proof (st_n _ _ S (n_name nd)) as Hs. unfold SN, spec_n2p in Hs. rewrite E, Ht, He in Hs.
  destruct Hs as [_ (s & nd' & F1 & F2 & F3 & _)]. exists s. split; [exact F1|congruence].
Qed.

Lemma settled_claim a c X s cl : api_ok a -> Settled a c -> aget X (nodes c) = Some s -> sn_claim s = Some cl ->
  claim_at a X = Some cl.
Proof.
  intros Hok S Es Ec. pose proof (ci_cback _ _ (st_coh _ _ S) _ _ _ Es Ec) as Hb.
  pose proof (ci_keys _ _ (st_coh _ _ S) _ _ Es) as Hx.
  pose proof (st_c _ _ S (c_name cl)) as Hs. unfold SC in Hs.
  destruct (aget (c_name cl) (a_claims a)) as [cl'|] eqn:Ea; [|congruence].
  destruct Hs as [Ek Ho]. assert (c_pid cl' = X) by congruence. subst X.
  specialize (Ho Hx). unfold oclaim in Ho. rewrite Es in Ho. assert (cl' = cl) by congruence. subst cl'.
  eapply claim_at_intro; eauto.
Qed.

Lemma settled_claim_at a c X cl : api_ok a -> Settled a c -> claim_at a X = Some cl ->
  exists s, aget X (nodes c) = Some s /\ sn_claim s = Some cl.
Proof.
  intros Hok S F. destruct (claim_at_elim a X cl Hok F) as (E & Hp & Hx).
  pose proof (st_c _ _ S (c_name cl)) as Hs. unfold SC in Hs. rewrite E in Hs. destruct Hs as [_ Ho].
  rewrite Hp in Ho. specialize (Ho Hx). unfold oclaim in Ho.
  destruct (aget X (nodes c)) as [s|]; [|discriminate]. exists s. auto.
Qed.

(* identity of an entry = identity the specification computes *)
Lemma settled_identity a c X s : api_ok a -> Settled a c -> aget X (nodes c) = Some s ->
  node_at a X = sn_node s /\ claim_at a X = sn_claim s.
Proof.
  intros Hok S Es. split.
  - destruct (sn_node s) as [nd|] eqn:En; [eapply settled_node; eauto|].
    destruct (node_at a X) as [nd|] eqn:F; [|reflexivity].
    destruct (settled_node_at a c X nd Hok S F) as (s' & E' & En'). congruence.
  - destruct (sn_claim s) as [cl|] eqn:Ec; [eapply settled_claim; eauto|].
    destruct (claim_at a X) as [cl|] eqn:F; [|reflexivity].
    destruct (settled_claim_at a c X cl Hok S F) as (s' & E' & Ec'). congruence.
Qed.

Lemma settled_has a c X : api_ok a -> Settled a c ->
  spec_has a X = match aget X (nodes c) with Some _ => true | None => false end.
Proof.
  intros Hok S. unfold spec_has. destruct (aget X (nodes c)) as [s|] eqn:Es.
  - destruct (settled_identity a c X s Hok S Es) as [-> ->].
    pose proof (ci_ident _ _ (st_coh _ _ S) _ _ Es) as Hi. unfold has_identity in Hi.
    destruct (sn_node s), (sn_claim s); try reflexivity. discriminate.
  - destruct (node_at a X) as [nd|] eqn:F.
    + destruct (settled_node_at a c X nd Hok S F) as (s' & E' & _). congruence.
    + destruct (claim_at a X) as [cl|] eqn:F2; [|reflexivity].
      destruct (settled_claim_at a c X cl Hok S F2) as (s' & E' & _). congruence.
Qed.

(* ================= a settled cache equals the recomputation ================= *)
Lemma aget_map {A B} (f : A -> B) k (m : amap A) :
  aget k (map (fun kv => (fst kv, f (snd kv))) m) = option_map f (aget k m).
Proof. induction m as [|[k0 v] m IH]; simpl; [reflexivity|]. destruct (k =s k0); [reflexivity|exact IH]. Qed.

Lemma empty_rebuilt_none s : empty_agg s ->
  (forall key, aget key (sn_pods s) = None) /\ (forall key, aget key (sn_dsr s) = None) /\
  (forall key, aget key (sn_costs s) = None) /\ (forall v, mem v (sn_vun s) = false).
Proof. intros (-> & -> & -> & ->). repeat split. Qed.

Lemma settled_nodes_match a c : api_ok a -> Settled a c -> nodes_match a (view_of c).
Proof.
  intros Hok S X. unfold view_of; cbn [vw_nodes]. rewrite aget_map.
  rewrite (settled_has a c X Hok S).
  destruct (aget X (nodes c)) as [s|] eqn:Es; cbn [option_map]; [|reflexivity].
  split; [reflexivity|].
  destruct (settled_identity a c X s Hok S Es) as [In1 In2].
  unfold node_matches, vnode_of, spec_sn; cbn [v_node v_claim v_pods v_dsr v_costs v_vun v_marked v_mfd v_pool v_cap sn_node sn_claim].
  rewrite In1, In2.
  split; [reflexivity|]. split; [reflexivity|].
  assert (Agg : (forall key, aget key (sn_pods s) = spec_pent a X key) /\
                (forall key, aget key (sn_dsr s) = spec_dsr a X key) /\
                (forall key, aget key (sn_costs s) = spec_cost a X key) /\
                (forall v, mem v (sn_vun s) = spec_vol a X v)).
  { unfold spec_pent, spec_dsr, spec_cost, spec_vol. rewrite In1.
    destruct (sn_node s) as [nd|] eqn:En.
    - destruct (settled_node a c X s nd Hok S Es En) as [_ (R1 & R2 & R3 & R4)]. auto.
    - apply empty_rebuilt_none. eapply (st_ne _ _ S); eauto. }
  destruct Agg as (A1 & A2 & A3 & A4).
  split; [exact A1|]. split; [exact A2|]. split; [exact A3|]. split; [exact A4|].
  unfold sn_mfd, sn_deleted, sn_pool, sn_cap, sn_initialized; cbn [sn_node sn_claim sn_marked]. auto.
Qed.

Lemma settled_maps_match a c : api_ok a -> Settled a c -> maps_match a (view_of c).
Proof.
  intros Hok S. split; intros name; unfold view_of; cbn [vw_n2p vw_c2p].
  - pose proof (st_n _ _ S name) as Hs. unfold SN in Hs. destruct (spec_n2p a name); [apply Hs|exact Hs].
  - pose proof (st_c _ _ S name) as Hs. unfold SC, spec_c2p in *. destruct (aget name (a_claims a)); [apply Hs|exact Hs].
Qed.

Definition pods_settled (a : api) : Prop :=
  forall key p, aget key (a_pods a) = Some p -> p_term p = false -> p_node p <> "" ->
    spec_n2p a (p_node p) <> None.

Lemma settled_binds_match a c : api_ok a -> pods_settled a -> Settled a c -> binds_match a (view_of c).
Proof.
  intros Hok Hps S key. unfold veff_bind, view_of; cbn [vw_binds vw_n2p vw_nodes].
  unfold spec_bind. destruct (aget key (a_pods a)) as [p|] eqn:Ep.
  - destruct (p_term p) eqn:Et; cbn [negb andb].
    { rewrite (st_p _ _ S key); [reflexivity|]. unfold unbound. rewrite Ep, Et. reflexivity. }
    destruct (p_node p =s "") eqn:E0; cbn [negb andb].
    { rewrite (st_p _ _ S key); [reflexivity|]. unfold unbound. rewrite Ep, Et, E0. reflexivity. }
    seq. pose proof (Hps key p Ep Et E0) as Hsp.
    destruct (spec_n2p a (p_node p)) as [X|] eqn:Hspec; [|congruence].
    pose proof (st_n _ _ S (p_node p)) as Hs. unfold SN in Hs. rewrite Hspec in Hs.
    destruct Hs as [En (s & nd & F1 & F2 & F3 & _ & _ & B)].
    rewrite (B key p).
    + unfold sget. rewrite En, aget_map, F1. cbn [option_map vnode_of v_node]. rewrite F3.
      destruct (epid_nonempty a _ _ Hok F2) as [_ Hname].
      pose proof (node_name_nonempty a _ _ Hok F2) as Hne. rewrite Hname.
      apply String.eqb_neq in Hne. rewrite Hne. reflexivity.
    + unfold pod_on. rewrite Ep, Et, seqb_refl. reflexivity.
  - rewrite (st_p _ _ S key); [reflexivity|]. unfold unbound. rewrite Ep. reflexivity.
Qed.

Lemma fold_adel_other pool X (m : amap snode) L : ~ In X L ->
  fold_right (fun X0 acc => radd (ocontrib pool (aget X0 m)) acc) z3 L =
  fold_right (fun X0 acc => radd (ocontrib pool (aget X0 (adel X m))) acc) z3 L.
Proof.
  induction L as [|Y L IHL]; intros Hnin; [reflexivity|]. cbn [fold_right].
  rewrite aget_adel_other by (intros ->; apply Hnin; left; reflexivity).
  rewrite IHL; [reflexivity|]. intros Hin. apply Hnin. right. exact Hin.
Qed.

Lemma sum_over_superset pool L : NoDup L -> forall m : amap snode, nodupk m ->
  (forall X, In X (map fst m) -> In X L) ->
  fold_right (fun X acc => radd (ocontrib pool (aget X m)) acc) z3 L = pool_total pool m.
Proof.
  induction 1 as [|X L Hnin Hnd IH]; intros m Hm Hsub.
  - destruct m as [|[k s] m]; [reflexivity|]. exfalso. apply (Hsub k). left. reflexivity.
  - cbn [fold_right].
    pose proof (fold_adel_other pool X m L Hnin) as E.
    rewrite E, (IH (adel X m)).
    + rewrite pool_total_adel by assumption. generalize (ocontrib pool (aget X m)) (pool_total pool m). intros. res_crush.
    + apply nodupk_adel, Hm.
    + intros Y Hy. apply in_keys_adel in Hy. destruct Hy as [Hy Hne].
      destruct (Hsub Y Hy) as [->|Hin]; [congruence|exact Hin].
Qed.

Lemma fold_right_ext_in_res (f g : string -> res -> res) (L : list string) :
  (forall X acc, In X L -> f X acc = g X acc) -> fold_right f z3 L = fold_right g z3 L.
Proof.
  induction L as [|X L IH]; intros H; [reflexivity|]. cbn [fold_right].
  rewrite IH by (intros; apply H; right; assumption). apply H. left. reflexivity.
Qed.

Lemma settled_pools_match a c : api_ok a -> Settled a c -> pools_match a (view_of c).
Proof.
  intros Hok S pool Hpool. unfold view_of at 1; cbn [vw_npr].
  rewrite (proj2 (st_npr _ _ S) pool Hpool).
  rewrite <- (sum_over_superset pool (api_pids a)).
  - unfold spec_total. apply fold_right_ext_in_res.
    intros X acc _. rewrite (settled_has a c X Hok S).
    destruct (aget X (nodes c)) as [s|] eqn:Es; cbn [ocontrib]; [|apply radd_z3_l].
    destruct (settled_identity a c X s Hok S Es) as [In1 In2].
    f_equal. apply contrib_ident. unfold ident, spec_sn; cbn [sn_node sn_claim sn_marked].
    rewrite In1, In2. unfold vmarked, view_of; cbn [vw_nodes]. rewrite aget_map, Es. reflexivity.
  - apply NoDup_nodup.
  - apply (st_npr _ _ S).
  - intros X Hin. apply nodup_In. apply in_or_app.
    destruct (aget X (nodes c)) as [s|] eqn:Es; [|apply aget_none_notin in Es; contradiction].
    destruct (settled_identity a c X s Hok S Es) as [In1 In2].
    pose proof (ci_ident _ _ (st_coh _ _ S) _ _ Es) as Hi. unfold has_identity in Hi.
    destruct (sn_node s) as [nd|] eqn:En.
    + left. destruct (node_at_elim a X nd Hok In1) as (E & _ & He). rewrite <- He.
      apply (in_map (fun kv => epid (snd kv)) _ (n_name nd, nd)). apply aget_in, E.
    + destruct (sn_claim s) as [cl|] eqn:Ec; [|discriminate]. right.
      destruct (claim_at_elim a X cl Hok In2) as (E & He & _). rewrite <- He.
      apply (in_map (fun kv => c_pid (snd kv)) _ (c_name cl, cl)). apply aget_in, E.
Qed.

(* ================= the closing round ================= *)
Definition RInv (a : api) (c : cache) : Prop := CohI a c /\ NE c /\ Npr c.

Lemma RInv_step a c o : api_ok a -> is_deliver o -> RInv a c -> RInv a (cache_step a c o).
Proof.
  intros Hok Ho (H1 & H2 & H3). split; [apply CohI_deliver; assumption|]. split.
  - apply NE_deliver; assumption.
  - apply Npr_step, H3.
Qed.

Definition run_round (a : api) (c : cache) (r : list op) : cache := fold_left (cache_step a) r c.

Lemma round_keeps a (T : cache -> Prop) :
  (forall c o, RInv a c -> is_deliver o -> T c -> T (cache_step a c o)) -> api_ok a ->
  forall r c, Forall is_deliver r -> RInv a c -> T c -> T (run_round a c r).
Proof.
  intros Hp Hok. induction r as [|o r IH]; intros c Hr Hi Ht; [exact Ht|].
  inversion Hr; subst. change (T (run_round a (cache_step a c o) r)).
  apply IH; [assumption|apply RInv_step; assumption|apply Hp; assumption].
Qed.

Lemma round_reaches a (T : cache -> Prop) (o0 : op) :
  (forall c o, RInv a c -> is_deliver o -> T c -> T (cache_step a c o)) ->
  (forall c, RInv a c -> T (cache_step a c o0)) -> api_ok a ->
  forall r c, Forall is_deliver r -> RInv a c -> In o0 r -> T (run_round a c r).
Proof.
  intros Hp He Hok. induction r as [|o r IH]; intros c Hr Hi Hin; [destruct Hin|].
  inversion Hr; subst. change (T (run_round a (cache_step a c o) r)). destruct Hin as [->|Hin].
  - apply (round_keeps a T Hp Hok); [assumption|apply RInv_step; assumption|apply He; assumption].
  - apply IH; [assumption|apply RInv_step; assumption|exact Hin].
Qed.

Lemma RInv_round a r c : api_ok a -> Forall is_deliver r -> RInv a c -> RInv a (run_round a c r).
Proof.
  intros Hok Hr Hi. apply (round_keeps a (RInv a)); try assumption.
  intros c0 o Hi0 Ho _. apply RInv_step; assumption.
Qed.

(* every key the API or the cache knows is delivered at least once *)
Definition covers (a : api) (c : cache) (r : list op) : Prop :=
  (forall m, In (DeliverNode m) r \/ (aget m (a_nodes a) = None /\ aget m (n2p c) = None)) /\
  (forall k, In (DeliverClaim k) r \/ (aget k (a_claims a) = None /\ aget k (c2p c) = None)) /\
  (forall key, In (DeliverPod key) r \/ aget key (binds c) = None).

Lemma cache_step_deliver_node a c m : panicked c = false -> cache_step a c (DeliverNode m) = deliver_node a m c.
Proof. intros P. unfold cache_step, cache_step_gen. rewrite P. reflexivity. Qed.
Lemma cache_step_deliver_claim a c k : panicked c = false -> cache_step a c (DeliverClaim k) = deliver_claim a k c.
Proof. intros P. unfold cache_step, cache_step_gen. rewrite P. reflexivity. Qed.

Lemma round_settled a c r : api_ok a -> RInv a c -> Forall is_deliver r -> covers a c r ->
  Settled a (run_round a c r).
Proof.
  intros Hok Hi Hr (Cn & Cc & Cp).
  destruct (RInv_round a r c Hok Hr Hi) as (R1 & R2 & R3).
  constructor; try assumption.
  - intros m. destruct (Cn m) as [Hin|[E1 E2]].
    + apply (round_reaches a (fun c' => SN a c' m) (DeliverNode m)); try assumption.
      * intros c0 o (H0 & _) Ho Hs. apply SN_preserved; assumption.
      * intros c0 (H0 & _). rewrite cache_step_deliver_node by apply H0. apply SN_deliver_node; assumption.
    + apply (round_keeps a (fun c' => SN a c' m)); try assumption.
      * intros c0 o (H0 & _) Ho Hs. apply SN_preserved; assumption.
      * unfold SN, spec_n2p. rewrite E1. exact E2.
  - intros k. destruct (Cc k) as [Hin|[E1 E2]].
    + apply (round_reaches a (fun c' => SC a c' k) (DeliverClaim k)); try assumption.
      * intros c0 o (H0 & _) Ho Hs. apply SC_preserved; assumption.
      * intros c0 (H0 & _). rewrite cache_step_deliver_claim by apply H0. apply SC_deliver_claim; assumption.
    + apply (round_keeps a (fun c' => SC a c' k)); try assumption.
      * intros c0 o (H0 & _) Ho Hs. apply SC_preserved; assumption.
      * unfold SC. rewrite E1. exact E2.
  - intros key. destruct (Cp key) as [Hin|E].
    + apply (round_reaches a (fun c' => SP a c' key) (DeliverPod key)); try assumption.
      * intros c0 o (H0 & _) Ho Hs. apply SP_preserved; assumption.
      * intros c0 (H0 & _). apply SP_deliver_pod; assumption.
    + apply (round_keeps a (fun c' => SP a c' key)); try assumption.
      * intros c0 o (H0 & _) Ho Hs. apply SP_preserved; assumption.
      * intros _. exact E.
Qed.

Lemma round_equals_fresh_l a c r : api_ok a -> pods_settled a -> RInv a c -> Forall is_deliver r -> covers a c r ->
  fresh_eq a (view_of (run_round a c r)).
Proof.
  intros Hok Hps Hi Hr Hc. pose proof (round_settled a c r Hok Hi Hr Hc) as S.
  split; [apply settled_nodes_match; assumption|].
  split; [apply settled_maps_match; assumption|].
  split; [apply settled_binds_match; assumption|apply settled_pools_match; assumption].
Qed.

Lemma api_wf_run ops : api_wf (fst (run ops)).
Proof.
  unfold run, run_from. assert (G : forall s, api_wf (fst s) -> api_wf (fst (fold_left step ops s))).
  { induction ops as [|o ops IH]; intros s H; [exact H|]. simpl. apply IH. unfold step, step_gen. cbn [fst].
    apply api_wf_step, H. }
  apply G. apply api_wf_0.
Qed.

Lemma api_step_deliver a o : is_deliver o -> api_step a o = a.
Proof. destruct o; simpl; try contradiction; reflexivity. Qed.

Lemma run_from_round a c r : Forall is_deliver r -> run_from (a, c) r = (a, run_round a c r).
Proof.
  revert c. induction r as [|o r IH]; intros c Hr; [reflexivity|]. inversion Hr; subst.
  unfold run_from in *. cbn [fold_left]. unfold step at 2, step_gen. cbn [fst snd].
  rewrite (api_step_deliver a o) by assumption. apply IH. assumption.
Qed.

Lemma run_app ops r : run (ops ++ r) = run_from (run ops) r.
Proof. unfold run, run_from. apply fold_left_app. Qed.

(* C11: after any history, once a closing round has delivered every key (in any order, with any
   duplicates), the cache equals the recomputation from the API objects. *)
Lemma quiescent_equals_fresh_l : forall (ops r : list op),
  let a := fst (run ops) in let c := snd (run ops) in
  uniq_pids a -> pods_settled a -> CohI a c -> NE c ->
  Forall is_deliver r -> covers a c r ->
  fresh_eq a (view_of (snd (run (ops ++ r)))).
Proof.
  intros ops r a c Hu Hps Hc Hn Hr Hcov.
  rewrite run_app. replace (run ops) with (a, c) by (unfold a, c; destruct (run ops); reflexivity).
  rewrite run_from_round by assumption. cbn [snd].
  apply round_equals_fresh_l; try assumption.
  - split; [apply api_wf_run|exact Hu].
  - split; [exact Hc|split; [exact Hn|]]. apply (Npr_run_from current ops (api0, cache0) Npr_0).
Qed.

(* ================= coherence is reachable: histories in which provider ids are not handed over ================= *)
Lemma CohI_change_api a a' c : CohI a c ->
  (forall m X nd m', aget m (n2p c) = Some X -> aget m' (a_nodes a') = Some nd -> trackable nd = true -> epid nd = X -> m' = m) ->
  (forall k X cl k', aget k (c2p c) = Some X -> X <> "" -> aget k' (a_claims a') = Some cl -> c_pid cl = X -> k' = k) ->
  (forall m X nd, aget m (n2p c) = Some X -> aget m (a_nodes a') = Some nd -> trackable nd = true) ->
  (forall k X cl, aget k (c2p c) = Some X -> X <> "" -> aget k (a_claims a') = Some cl -> c_pid cl <> "") ->
  CohI a' c.
Proof.
  intros H O1 O2 O3 O4. constructor; try apply H; assumption.
Qed.

Lemma CohI_set_mark a b c id : CohI a c -> CohI a (set_mark b c id).
Proof.
  intros H. unfold set_mark. destruct (aget id (nodes c)) as [s|] eqn:Es; [|exact H].
  set (s' := mkSN (sn_node s) (sn_claim s) (sn_pods s) (sn_dsr s) (sn_costs s) (sn_vun s) b).
  assert (G : forall X s0, aget X (aset id s' (nodes c)) = Some s0 ->
              exists s1, aget X (nodes c) = Some s1 /\ sn_node s0 = sn_node s1 /\ sn_claim s0 = sn_claim s1).
  { intros X s0. rewrite aget_aset. destruct (X =s id) eqn:E; seq.
    - intros [= <-]. exists s. auto.
    - intros F. exists s0. auto. }
  assert (G' : forall X s1, aget X (nodes c) = Some s1 ->
              exists s0, aget X (aset id s' (nodes c)) = Some s0 /\ sn_node s0 = sn_node s1 /\ sn_claim s0 = sn_claim s1).
  { intros X s1 F. rewrite aget_aset. destruct (X =s id) eqn:E; seq.
    - exists s'. assert (s1 = s) by congruence. subst. auto.
    - exists s1. auto. }
  constructor; c_simpl; try apply H.
  - intros m X F. destruct (ci_n2p _ _ H _ _ F) as (Hx & s1 & nd & F1 & F2 & F3). split; [exact Hx|].
    destruct (G' _ _ F1) as (s0 & E0 & N0 & _). exists s0, nd. repeat split; congruence.
  - intros X s0 nd F1 F2. destruct (G _ _ F1) as (s1 & E1 & N1 & _). eapply (ci_nback _ _ H); eauto. congruence.
  - intros k X F Hx. destruct (ci_c2p _ _ H _ _ F Hx) as (s1 & cl & F1 & F2 & F3).
    destruct (G' _ _ F1) as (s0 & E0 & _ & C0). exists s0, cl. repeat split; congruence.
  - intros X s0 cl F1 F2. destruct (G _ _ F1) as (s1 & E1 & _ & C1). eapply (ci_cback _ _ H); eauto. congruence.
  - intros X s0 F1. destruct (G _ _ F1) as (s1 & E1 & N1 & C1).
    pose proof (ci_ident _ _ H _ _ E1) as Hi. unfold has_identity in *. rewrite N1, C1. exact Hi.
  - intros X s0 F1. destruct (G _ _ F1) as (s1 & E1 & _). eapply (ci_keys _ _ H); eauto.
Qed.

Lemma NE_set_mark b c id : NE c -> NE (set_mark b c id).
Proof.
  intros H. unfold set_mark. destruct (aget id (nodes c)) as [s|] eqn:Es; [|exact H].
  apply (NE_set (upr_c _ _ c)); [exact H|]. cbn [sn_node]. intros Hn. apply (H _ _ Es Hn).
Qed.

Lemma marks_keep a b ids c : CohI a c /\ NE c -> CohI a (fold_left (set_mark b) ids c) /\ NE (fold_left (set_mark b) ids c).
Proof.
  revert c. induction ids as [|i ids IH]; intros c [H1 H2]; [auto|]. simpl. apply IH.
  split; [apply CohI_set_mark, H1|apply NE_set_mark, H2].
Qed.

(* what the environment must respect when it writes a Node / NodeClaim: provider ids stay unique, an id the
   cache associates with one name is not given to another, a tracked Node stays trackable and a launched
   NodeClaim stays launched *)
Definition op_ok (a : api) (c : cache) (o : op) : Prop :=
  match o with
  | SetNode nd =>
      uniq_pids (api_step a o) /\
      (trackable nd = true -> forall m, aget m (n2p c) = Some (epid nd) -> m = n_name nd) /\
      (aget (n_name nd) (n2p c) <> None -> trackable nd = true)
  | SetClaim cl =>
      uniq_pids (api_step a o) /\
      (c_pid cl <> "" -> forall k, aget k (c2p c) = Some (c_pid cl) -> k = c_name cl) /\
      (forall X, aget (c_name cl) (c2p c) = Some X -> X <> "" -> c_pid cl <> "")
  | _ => True
  end.

Fixpoint hist_ok_from (s : api * cache) (ops : list op) : Prop :=
  match ops with
  | [] => True
  | o :: t => op_ok (fst s) (snd s) o /\ hist_ok_from (step s o) t
  end.
Definition hist_ok (ops : list op) : Prop := hist_ok_from (api0, cache0) ops.

Definition HInv (s : api * cache) : Prop := api_ok (fst s) /\ CohI (fst s) (snd s) /\ NE (snd s).

Lemma uniq_pids_adel_nodes a k : uniq_pids a -> uniq_pids (mkApi (adel k (a_nodes a)) (a_claims a) (a_pods a)).
Proof.
  intros (U1 & U2 & U3). assert (G : forall m n, aget m (adel k (a_nodes a)) = Some n -> aget m (a_nodes a) = Some n).
  { intros m n. rewrite aget_adel. destruct (m =s k); [discriminate|auto]. }
  split; [|split]; cbn [a_nodes a_claims].
  - intros m1 m2 n1 n2 E1 E2. eapply U1; eauto.
  - exact U2.
  - intros m n E. eapply U3; eauto.
Qed.

Lemma uniq_pids_adel_claims a k : uniq_pids a -> uniq_pids (mkApi (a_nodes a) (adel k (a_claims a)) (a_pods a)).
Proof.
  intros (U1 & U2 & U3). assert (G : forall m n, aget m (adel k (a_claims a)) = Some n -> aget m (a_claims a) = Some n).
  { intros m n. rewrite aget_adel. destruct (m =s k); [discriminate|auto]. }
  split; [|split]; cbn [a_nodes a_claims]; [exact U1| |exact U3].
  intros k1 k2 c1 c2 E1 E2. eapply U2; eauto.
Qed.

Lemma HInv_step s o : HInv s -> op_ok (fst s) (snd s) o -> HInv (step s o).
Proof.
  destruct s as [a c]. intros ([Hwf Hu] & Hc & Hn) Hop. cbn [fst snd] in *.
  unfold HInv, step, step_gen. cbn [fst snd].
  assert (Hwf' : api_wf (api_step a o)) by (apply api_wf_step, Hwf).
  destruct o; cbn [op_ok] in Hop.
  - (* SetNode *)
    destruct Hop as (Hu' & Hown & Htr).
    unfold cache_step, cache_step_gen. rewrite (ci_np _ _ Hc).
    split; [split; assumption|]. split; [|exact Hn].
    apply (CohI_change_api a); [exact Hc| | | |]; cbn [api_step a_nodes a_claims].
    + intros m X nd m'. rewrite aget_aset. destruct (m' =s n_name n) eqn:E; seq.
      * intros F [= <-] Ht He. symmetry. apply Hown; [exact Ht|congruence].
      * eapply (ci_own_n _ _ Hc).
    + eapply (ci_own_c _ _ Hc).
    + intros m X nd. rewrite aget_aset. destruct (m =s n_name n) eqn:E; seq.
      * intros F [= <-]. apply Htr. congruence.
      * eapply (ci_track _ _ Hc).
    + eapply (ci_launched _ _ Hc).
  - (* DelNode *)
    unfold cache_step, cache_step_gen. rewrite (ci_np _ _ Hc).
    split; [split; [exact Hwf'|apply uniq_pids_adel_nodes, Hu]|]. split; [|exact Hn].
    apply (CohI_change_api a); [exact Hc| | | |]; cbn [api_step a_nodes a_claims].
    + intros m X nd m'. rewrite aget_adel. destruct (m' =s name); [discriminate|]. eapply (ci_own_n _ _ Hc).
    + eapply (ci_own_c _ _ Hc).
    + intros m X nd. rewrite aget_adel. destruct (m =s name); [discriminate|]. eapply (ci_track _ _ Hc).
    + eapply (ci_launched _ _ Hc).
  - (* SetClaim *)
    destruct Hop as (Hu' & Hown & Hl).
    unfold cache_step, cache_step_gen. rewrite (ci_np _ _ Hc).
    split; [split; assumption|]. split; [|exact Hn].
    apply (CohI_change_api a); [exact Hc| | | |]; cbn [api_step a_nodes a_claims].
    + eapply (ci_own_n _ _ Hc).
    + intros k X cl0 k'. rewrite aget_aset. destruct (k' =s c_name cl) eqn:E; seq.
      * intros F Hx [= <-] He. symmetry. apply Hown; congruence.
      * eapply (ci_own_c _ _ Hc).
    + eapply (ci_track _ _ Hc).
    + intros k X cl0. rewrite aget_aset. destruct (k =s c_name cl) eqn:E; seq.
      * intros F Hx [= <-]. eapply Hl; eauto.
      * eapply (ci_launched _ _ Hc).
  - (* DelClaim *)
    unfold cache_step, cache_step_gen. rewrite (ci_np _ _ Hc).
    split; [split; [exact Hwf'|apply uniq_pids_adel_claims, Hu]|]. split; [|exact Hn].
    apply (CohI_change_api a); [exact Hc| | | |]; cbn [api_step a_nodes a_claims].
    + eapply (ci_own_n _ _ Hc).
    + intros k X cl0 k'. rewrite aget_adel. destruct (k' =s name); [discriminate|]. eapply (ci_own_c _ _ Hc).
    + eapply (ci_track _ _ Hc).
    + intros k X cl0. rewrite aget_adel. destruct (k =s name); [discriminate|]. eapply (ci_launched _ _ Hc).
  - (* SetPod *)
    unfold cache_step, cache_step_gen. rewrite (ci_np _ _ Hc).
    split; [split; [exact Hwf'|exact Hu]|]. split; [|exact Hn].
    apply (CohI_change_api a); try exact Hc; cbn [api_step a_nodes a_claims]; apply Hc.
  - (* DelPod *)
    unfold cache_step, cache_step_gen. rewrite (ci_np _ _ Hc).
    split; [split; [exact Hwf'|exact Hu]|]. split; [|exact Hn].
    apply (CohI_change_api a); try exact Hc; cbn [api_step a_nodes a_claims]; apply Hc.
  - split; [split; assumption|]. split; [apply CohI_deliver; [split; assumption|exact I|exact Hc]|].
    apply NE_deliver; [exact Hc|exact I|exact Hn].
  - split; [split; assumption|]. split; [apply CohI_deliver; [split; assumption|exact I|exact Hc]|].
    apply NE_deliver; [exact Hc|exact I|exact Hn].
  - split; [split; assumption|]. split; [apply CohI_deliver; [split; assumption|exact I|exact Hc]|].
    apply NE_deliver; [exact Hc|exact I|exact Hn].
  - split; [split; assumption|]. unfold cache_step, cache_step_gen. rewrite (ci_np _ _ Hc). apply marks_keep. auto.
  - split; [split; assumption|]. unfold cache_step, cache_step_gen. rewrite (ci_np _ _ Hc). apply marks_keep. auto.
Qed.

Lemma HInv_0 : HInv (api0, cache0).
Proof.
  split; [split; [apply api_wf_0|]|split].
  - repeat split; intros; discriminate.
  - constructor; simpl; intros; discriminate || reflexivity.
  - intros X s F. discriminate.
Qed.

Lemma hist_ok_inv ops : forall s, HInv s -> hist_ok_from s ops -> HInv (fold_left step ops s).
Proof.
  induction ops as [|o ops IH]; intros s Hs Hh; [exact Hs|]. destruct Hh as [Ho Hh]. simpl.
  apply IH; [apply HInv_step; assumption|exact Hh].
Qed.

(* C11 for whole histories *)
Lemma quiescent_equals_fresh_hist_l : forall (ops r : list op),
  hist_ok ops -> pods_settled (fst (run ops)) -> Forall is_deliver r ->
  covers (fst (run ops)) (snd (run ops)) r ->
  fresh_eq (fst (run ops)) (view_of (snd (run (ops ++ r)))).
Proof.
  intros ops r Hh Hps Hr Hc.
  destruct (hist_ok_inv ops (api0, cache0) HInv_0 Hh) as ([_ Hu] & Hci & Hne).
  apply quiescent_equals_fresh_l; assumption.
Qed.
