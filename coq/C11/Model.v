(* C11 — model of pkg/controllers/state/cluster.go (UpdateNode / UpdateNodeClaim / UpdatePod /
   the Delete methods / MarkForDeletion / UnmarkForDeletion and the helpers newStateFromNode,
   newStateFromNodeClaim, cleanupNode, cleanupNodeClaim, updateNodePoolResources,
   populateResourceRequests, updateNodeUsageFromPod(Completion), cleanupOldBindings),
   pkg/controllers/state/statenode.go (updateForPod, cleanupForPod, Labels, Capacity, Initialized,
   MarkedForDeletion), pkg/scheduling/{hostportusage,volumeusage}.go (Add, DeletePod) and of the
   three informers in pkg/controllers/state/informer (Get, then the Update or the Delete method).
   Granularity: one op = one method call under Cluster.mu (the methods are mutually exclusive), so
   interleavings of reconcilers are exactly op sequences.  Executable definitions only. *)
From Coq Require Export List Bool ZArith String Lia.
Export ListNotations.
Open Scope string_scope.
Open Scope Z_scope.
Notation "a =s b" := (String.eqb a b) (at level 70).

(* ---- Go maps keyed by strings: association lists with map semantics ---- *)
Definition amap (A : Type) := list (string * A).

Fixpoint aget {A} (k : string) (m : amap A) : option A :=
  match m with
  | [] => None
  | (k', v) :: t => if String.eqb k k' then Some v else aget k t
  end.

Definition adel {A} (k : string) (m : amap A) : amap A :=
  filter (fun kv => negb (String.eqb k (fst kv))) m.

Definition aset {A} (k : string) (v : A) (m : amap A) : amap A := (k, v) :: adel k m.

Definition sget (k : string) (m : amap string) : string :=   (* Go: m[k] on a map[string]string *)
  match aget k m with Some v => v | None => "" end.

(* ---- API objects: exactly the fields the cache reads ---- *)
Record nodeobj := mkNode {
  n_name : string; n_pid : string;      (* spec.providerID, "" if unset *)
  n_pool : string;                      (* label karpenter.sh/nodepool, "" if absent *)
  n_itype : bool;                       (* has the instance-type label *)
  n_initp : bool;                       (* the initialized label is present with any non-empty value (what UpdateNode reads) *)
  n_init : bool; n_reg : bool;          (* initialized / registered label = "true" (what Initialized / Registered read) *)
  n_cpu : Z; n_mem : Z;                 (* status.capacity, 0 = absent *)
  n_del : bool }.                       (* deletionTimestamp set *)

Record claimobj := mkClaim {
  c_name : string; c_pid : string; c_pool : string; c_cpu : Z; c_mem : Z;
  c_del : bool;                         (* deletionTimestamp set (what UnmarkForDeletion reads) *)
  c_term : bool }.                      (* condition InstanceTerminating is True *)
Definition c_gone (c : claimobj) : bool := c_del c || c_term c.    (* what StateNode.Deleted reads *)

Record podobj := mkPod {
  p_key : string; p_node : string;      (* spec.nodeName *)
  p_term : bool;                        (* phase Succeeded/Failed *)
  p_ds : bool;                          (* owned by a DaemonSet *)
  p_req : Z * Z; p_lim : Z * Z;         (* resources.RequestsForPods / LimitsForPods: cpu, memory *)
  p_cost : Z;                           (* disruption.EvictionCost * 2^27 *)
  p_ports : list string;                (* scheduling.GetHostPorts *)
  p_vols : list string }.               (* scheduling.GetVolumes, "driver|pvc" *)

Record api := mkApi { a_nodes : amap nodeobj; a_claims : amap claimobj; a_pods : amap podobj }.
Definition api0 : api := mkApi [] [] [].

(* ---- the cache ---- *)
(* podRequests, podLimits, hostPortUsage.reserved and volumeUsage.podVolumes are always written and
   deleted together (updateForPod / cleanupForPod), so they are one map of entries. *)
Record pent := mkPent { e_req : Z * Z; e_lim : Z * Z; e_ports : list string; e_vols : list string }.

Record snode := mkSN {
  sn_node : option nodeobj; sn_claim : option claimobj;
  sn_pods : amap pent;
  sn_dsr : amap ((Z * Z) * (Z * Z));    (* daemonSetRequests / daemonSetLimits *)
  sn_costs : amap Z;                    (* podDisruptionCosts *)
  sn_vun : list string;                 (* volumeUsage.volumes (a set) *)
  sn_marked : bool }.                   (* markedForDeletion *)

Definition new_node : snode := mkSN None None [] [] [] [] false.    (* state.NewNode() *)

Definition res := (Z * Z * Z)%type.       (* cpu, memory, nodes *)
Definition z3 : res := (0, 0, 0).

Record cache := mkCache {
  nodes : amap snode;                   (* provider id -> StateNode *)
  binds : amap string;                  (* pod key -> node name *)
  n2p : amap string;                    (* node name -> provider id *)
  c2p : amap string;                    (* nodeclaim name -> provider id *)
  npr : amap res;                       (* nodepool -> resources *)
  panicked : bool }.                    (* a nil *StateNode was dereferenced *)

Definition cache0 : cache := mkCache [] [] [] [] [] false.

Definition with_nodes (c : cache) m := mkCache m (binds c) (n2p c) (c2p c) (npr c) (panicked c).
Definition with_binds (c : cache) m := mkCache (nodes c) m (n2p c) (c2p c) (npr c) (panicked c).
Definition with_n2p (c : cache) m := mkCache (nodes c) (binds c) m (c2p c) (npr c) (panicked c).
Definition with_c2p (c : cache) m := mkCache (nodes c) (binds c) (n2p c) m (npr c) (panicked c).
Definition with_npr (c : cache) m := mkCache (nodes c) (binds c) (n2p c) (c2p c) m (panicked c).
Definition panic (c : cache) := mkCache (nodes c) (binds c) (n2p c) (c2p c) (npr c) true.

(* ---- StateNode accessors ---- *)
Definition has_identity (s : snode) : bool :=
  match sn_node s, sn_claim s with None, None => false | _, _ => true end.

Definition sn_registered (s : snode) : bool :=
  match sn_claim s with
  | Some _ => match sn_node s with Some n => n_reg n | None => false end
  | None => true
  end.

Definition sn_initialized (s : snode) : bool :=
  match sn_claim s with
  | Some _ => match sn_node s with Some n => n_init n | None => false end
  | None => true
  end.

(* Labels()[NodePoolLabelKey] *)
Definition sn_pool (s : snode) : string :=
  match sn_node s, sn_claim s with
  | None, Some c => c_pool c
  | Some n, None => n_pool n
  | Some n, Some c => if n_reg n then n_pool n else c_pool c
  | None, None => ""
  end.

(* Capacity() without the constant nodes:1 *)
Definition sn_cap (s : snode) : Z * Z :=
  match sn_claim s with
  | Some c =>
      if sn_initialized s then match sn_node s with Some n => (n_cpu n, n_mem n) | None => (0, 0) end
      else match sn_node s with
           | Some n => (if n_cpu n =? 0 then c_cpu c else n_cpu n, if n_mem n =? 0 then c_mem c else n_mem n)
           | None => (c_cpu c, c_mem c)
           end
  | None => match sn_node s with Some n => (n_cpu n, n_mem n) | None => (0, 0) end
  end.

Definition sn_deleted (s : snode) : bool :=
  match sn_claim s with
  | Some c => c_gone c
  | None => match sn_node s with Some n => n_del n | None => false end
  end.

Definition sn_mfd (s : snode) : bool := sn_marked s || sn_deleted s.     (* MarkedForDeletion() *)

(* what updateNodePoolResources adds for / subtracts from the node's pool *)
Definition sn_res (s : snode) : res :=
  if sn_mfd s then z3 else let '(c, m) := sn_cap s in (c, m, 1).

(* ---- per-pod bookkeeping of a StateNode ---- *)
Definition pent_of (p : podobj) : pent := mkPent (p_req p) (p_lim p) (p_ports p) (p_vols p).

Definition update_for_pod (s : snode) (p : podobj) : snode :=
  mkSN (sn_node s) (sn_claim s)
    (aset (p_key p) (pent_of p) (sn_pods s))
    (if p_ds p then aset (p_key p) (p_req p, p_lim p) (sn_dsr s) else sn_dsr s)
    (if p_ds p then sn_costs s
     else if 0 <? p_cost p then aset (p_key p) (p_cost p) (sn_costs s) else adel (p_key p) (sn_costs s))
    (sn_vun s ++ p_vols p)                                       (* volumes.Union *)
    (sn_marked s).

Definition vols_of (m : amap pent) : list string := flat_map (fun kv => e_vols (snd kv)) m.

Definition cleanup_for_pod (k : string) (s : snode) : snode :=
  mkSN (sn_node s) (sn_claim s) (adel k (sn_pods s)) (adel k (sn_dsr s)) (adel k (sn_costs s))
    (vols_of (adel k (sn_pods s)))                               (* VolumeUsage.DeletePod recomputes *)
    (sn_marked s).

(* ---- updateNodePoolResources ---- *)
Definition rget (k : string) (m : amap res) : res := match aget k m with Some v => v | None => z3 end.
Definition radd (a b : res) : res := let '(a1, a2, a3) := a in let '(b1, b2, b3) := b in (a1 + b1, a2 + b2, a3 + b3).
Definition rsub (a b : res) : res := let '(a1, a2, a3) := a in let '(b1, b2, b3) := b in (a1 - b1, a2 - b2, a3 - b3).
Definition rzero (a : res) : bool := let '(a1, a2, a3) := a in (a1 =? 0) && (a2 =? 0) && (a3 =? 0).

Definition gc_pool (k : string) (m : amap res) : amap res :=
  match aget k m with Some v => if rzero v then adel k m else m | None => m end.

Definition pool_res (s : option snode) : string * res :=
  match s with
  | Some s => if has_identity s then (sn_pool s, sn_res s) else ("", z3)
  | None => ("", z3)
  end.

Definition upr (old new : option snode) (m : amap res) : amap res :=
  let '(op, ores) := pool_res old in
  let '(np, nres) := pool_res new in
  let m1 := if negb (np =s "") && match aget np m with None => true | Some _ => false end then aset np z3 m else m in
  let m2 := if negb (op =s "") && negb (rzero ores) then aset op (rsub (rget op m1) ores) m1 else m1 in
  let m3 := if negb (np =s "") && negb (rzero nres) then aset np (radd (rget np m2) nres) m2 else m2 in
  gc_pool np (gc_pool op m3).

Definition upr_c (old new : option snode) (c : cache) : cache := with_npr c (upr old new (npr c)).

(* ---- cleanupNode / cleanupNodeClaim ---- *)
(* [keep_aggs] = true is the code before commit 7fed8b92b *)
Definition cleanup_node_gen (keep_aggs : bool) (name : string) (c : cache) : cache :=
  let id := sget name (n2p c) in
  if id =s "" then c else
  match aget id (nodes c) with
  | None => panic c
  | Some s =>
      let c1 := match sn_claim s with
                | None => with_nodes (upr_c (Some s) None c) (adel id (nodes c))
                | Some _ =>
                    (* NewNode() keeping NodeClaim and the mark: the pods go away with the Node (7fed8b92b) *)
                    let s' := if keep_aggs
                              then mkSN None (sn_claim s) (sn_pods s) (sn_dsr s) (sn_costs s) (sn_vun s) (sn_marked s)
                              else mkSN None (sn_claim s) [] [] [] [] (sn_marked s) in
                    with_nodes (upr_c (Some s) (Some s') c) (aset id s' (nodes c))
                end in
      with_n2p c1 (adel name (n2p c1))
  end.
Definition cleanup_node := cleanup_node_gen false.

Definition cleanup_claim (name : string) (c : cache) : cache :=
  let id := sget name (c2p c) in
  let c1 :=
    if id =s "" then c else
    match aget id (nodes c) with
    | None => panic c
    | Some s =>
        match sn_node s with
        | None => with_nodes (upr_c (Some s) None c) (adel id (nodes c))
        | Some _ =>
            let s' := mkSN (sn_node s) None (sn_pods s) (sn_dsr s) (sn_costs s) (sn_vun s) (sn_marked s) in
            with_nodes (upr_c (Some s) (Some s') c) (aset id s' (nodes c))
        end
    end in
  if panicked c1 then c1 else with_c2p c1 (adel name (c2p c1)).

(* ---- pods ---- *)
Definition cleanup_old_bindings (p : podobj) (c : cache) : cache :=
  match aget (p_key p) (binds c) with
  | Some oldn =>
      if oldn =s p_node p then c else
      match aget (sget oldn (n2p c)) (nodes c) with
      | Some s => with_binds (with_nodes c (aset (sget oldn (n2p c)) (cleanup_for_pod (p_key p) s) (nodes c)))
                    (adel (p_key p) (binds c))
      | None => c
      end
  | None => c
  end.

Definition bind_pod (p : podobj) (c : cache) : cache := with_binds c (aset (p_key p) (p_node p) (binds c)).

(* updateNodeUsageFromPodCompletion *)
Definition pod_completion (k : string) (c : cache) : cache :=
  match aget k (binds c) with
  | None => c
  | Some nn =>
      let c1 := with_binds c (adel k (binds c)) in
      match aget (sget nn (n2p c)) (nodes c) with
      | Some s => with_nodes c1 (aset (sget nn (n2p c)) (cleanup_for_pod k s) (nodes c))
      | None => c1
      end
  end.

(* UpdatePod (the anti-affinity index is not modelled) *)
(* [pending_noop] = true is the code before commit eef19881a *)
Definition update_pod_gen (pending_noop : bool) (p : podobj) (c : cache) : cache :=
  if p_term p then pod_completion (p_key p) c else
  if p_node p =s "" then (if pending_noop then c else pod_completion (p_key p) c) else
  match aget (sget (p_node p) (n2p c)) (nodes c) with
  | None => c                                     (* NotFound: the reconciler requeues *)
  | Some s =>
      let c1 := with_nodes c (aset (sget (p_node p) (n2p c)) (update_for_pod s p) (nodes c)) in
      bind_pod p (cleanup_old_bindings p c1)
  end.
Definition update_pod := update_pod_gen false.

(* ---- UpdateNode ---- *)
Definition epid (n : nodeobj) : string := if n_pid n =s "" then n_name n else n_pid n.

Definition trackable (n : nodeobj) : bool :=
  let managed := negb (n_pool n =s "") in
  negb ((n_pid n =s "") && managed) && negb (managed && negb (n_itype n) && negb (n_initp n)).

(* populateResourceRequests: the pods listed by the spec.nodeName index *)
Definition populate_step (name : string) (acc : snode * cache) (kp : string * podobj) : snode * cache :=
  let p := snd kp in
  if (p_node p =s name) && negb (p_term p)
  then (update_for_pod (fst acc) p, bind_pod p (cleanup_old_bindings p (snd acc)))
  else acc.

Definition update_node_gen (keep_aggs : bool) (a : api) (n : nodeobj) (c : cache) : cache :=
  if negb (trackable n) then c else
  let pid := epid n in
  let old := match aget pid (nodes c) with Some s => s | None => new_node end in
  let n0 := mkSN (Some n) (sn_claim old) [] [] [] [] (sn_marked old) in
  let '(n1, c1) := fold_left (populate_step (n_name n)) (a_pods a) (n0, c) in
  let c2 := match aget (n_name n) (n2p c1) with
            | Some id => if id =s pid then c1 else cleanup_node_gen keep_aggs (n_name n) c1
            | None => c1
            end in
  if panicked c2 then c2 else
  let c3 := upr_c (Some old) (Some n1) c2 in
  with_n2p (with_nodes c3 (aset pid n1 (nodes c3))) (aset (n_name n) pid (n2p c3)).
Definition update_node := update_node_gen false.

(* ---- UpdateNodeClaim ([carry_costs] = false is the code before commit 4e75b4bc9) ---- *)
Definition update_claim_gen (carry_costs : bool) (cl : claimobj) (c : cache) : cache :=
  let c1 :=
    if c_pid cl =s "" then c else
    let old := match aget (c_pid cl) (nodes c) with Some s => s | None => new_node end in
    let n := mkSN (sn_node old) (Some cl) (sn_pods old) (sn_dsr old)
               (if carry_costs then sn_costs old else []) (sn_vun old) (sn_marked old) in
    let c' := match aget (c_name cl) (c2p c) with
              | Some id => if id =s c_pid cl then c else cleanup_claim (c_name cl) c
              | None => c
              end in
    if panicked c' then c' else
    let c'' := upr_c (Some old) (Some n) c' in
    with_nodes c'' (aset (c_pid cl) n (nodes c'')) in
  if panicked c1 then c1 else with_c2p c1 (aset (c_name cl) (c_pid cl) (c2p c1)).

Definition update_claim := update_claim_gen true.

(* ---- MarkForDeletion / UnmarkForDeletion ---- *)
Definition set_mark (b : bool) (c : cache) (id : string) : cache :=
  match aget id (nodes c) with
  | Some s =>
      let s' := mkSN (sn_node s) (sn_claim s) (sn_pods s) (sn_dsr s) (sn_costs s) (sn_vun s) b in
      with_nodes (upr_c (Some s) (Some s') c) (aset id s' (nodes c))
  | None => c
  end.

(* ---- histories ---- *)
Inductive op :=
| SetNode (n : nodeobj) | DelNode (name : string)
| SetClaim (cl : claimobj) | DelClaim (name : string)
| SetPod (p : podobj) | DelPod (key : string)
| DeliverNode (name : string) | DeliverClaim (name : string) | DeliverPod (key : string)
| Mark (ids : list string) | Unmark (ids : list string).

Definition api_step (a : api) (o : op) : api :=
  match o with
  | SetNode n => mkApi (aset (n_name n) n (a_nodes a)) (a_claims a) (a_pods a)
  | DelNode k => mkApi (adel k (a_nodes a)) (a_claims a) (a_pods a)
  | SetClaim cl => mkApi (a_nodes a) (aset (c_name cl) cl (a_claims a)) (a_pods a)
  | DelClaim k => mkApi (a_nodes a) (adel k (a_claims a)) (a_pods a)
  | SetPod p => mkApi (a_nodes a) (a_claims a) (aset (p_key p) p (a_pods a))
  | DelPod k => mkApi (a_nodes a) (a_claims a) (adel k (a_pods a))
  | _ => a
  end.

(* the informers: Get, then the Update method or (NotFound) the Delete method.
   [variant]: which earlier version of the code is run (all false = the code as it is). *)
Record variant := mkVar { v_drop_costs : bool; v_keep_aggs : bool; v_pending_noop : bool }.
Definition current : variant := mkVar false false false.

Definition deliver_node_gen (v : variant) (a : api) (name : string) (c : cache) : cache :=
  match aget name (a_nodes a) with
  | Some n => update_node_gen (v_keep_aggs v) a n c
  | None => cleanup_node_gen (v_keep_aggs v) name c
  end.
Definition deliver_claim_gen (v : variant) (a : api) (name : string) (c : cache) : cache :=
  match aget name (a_claims a) with
  | Some cl => update_claim_gen (negb (v_drop_costs v)) cl c
  | None => cleanup_claim name c
  end.
Definition deliver_pod_gen (v : variant) (a : api) (key : string) (c : cache) : cache :=
  match aget key (a_pods a) with Some p => update_pod_gen (v_pending_noop v) p c | None => pod_completion key c end.
Definition deliver_node := deliver_node_gen current.
Definition deliver_claim := deliver_claim_gen current.
Definition deliver_pod := deliver_pod_gen current.

Definition cache_step_gen (v : variant) (a : api) (c : cache) (o : op) : cache :=
  if panicked c then c else
  match o with
  | DeliverNode k => deliver_node_gen v a k c
  | DeliverClaim k => deliver_claim_gen v a k c
  | DeliverPod k => deliver_pod_gen v a k c
  | Mark ids => fold_left (set_mark true) ids c
  | Unmark ids => fold_left (set_mark false) ids c
  | _ => c
  end.
Definition cache_step := cache_step_gen current.

Definition step_gen (v : variant) (s : api * cache) (o : op) : api * cache :=
  let a := api_step (fst s) o in (a, cache_step_gen v a (snd s) o).
Definition step := step_gen current.

Definition run_from (s : api * cache) (ops : list op) : api * cache := fold_left step ops s.
Definition run (ops : list op) : api * cache := run_from (api0, cache0) ops.
Definition run_gen (v : variant) (ops : list op) : api * cache := fold_left (step_gen v) ops (api0, cache0).

(* ---- the specification: what a recomputation from the API objects yields ---- *)
Fixpoint find_node (pid : string) (l : amap nodeobj) : option nodeobj :=
  match l with
  | [] => None
  | (_, n) :: t => if trackable n && (epid n =s pid) then Some n else find_node pid t
  end.

Fixpoint find_claim (pid : string) (l : amap claimobj) : option claimobj :=
  match l with
  | [] => None
  | (_, cl) :: t => if c_pid cl =s pid then Some cl else find_claim pid t
  end.

Definition node_at (a : api) (pid : string) : option nodeobj := find_node pid (a_nodes a).
Definition claim_at (a : api) (pid : string) : option claimobj :=
  if pid =s "" then None else find_claim pid (a_claims a).

(* the pod as far as node [name] is concerned *)
Definition pod_on (a : api) (name key : string) : option podobj :=
  match aget key (a_pods a) with
  | Some p => if (p_node p =s name) && negb (p_term p) then Some p else None
  | None => None
  end.

Definition spec_has (a : api) (pid : string) : bool :=
  match node_at a pid, claim_at a pid with None, None => false | _, _ => true end.

Definition spec_pent (a : api) (pid key : string) : option pent :=
  match node_at a pid with
  | Some n => option_map pent_of (pod_on a (n_name n) key)
  | None => None
  end.

Definition spec_dsr (a : api) (pid key : string) : option ((Z * Z) * (Z * Z)) :=
  match node_at a pid with
  | Some n => match pod_on a (n_name n) key with
              | Some p => if p_ds p then Some (p_req p, p_lim p) else None
              | None => None
              end
  | None => None
  end.

Definition spec_cost (a : api) (pid key : string) : option Z :=
  match node_at a pid with
  | Some n => match pod_on a (n_name n) key with
              | Some p => if negb (p_ds p) && (0 <? p_cost p) then Some (p_cost p) else None
              | None => None
              end
  | None => None
  end.

(* membership in the volume union *)
Definition spec_vol (a : api) (pid : string) (v : string) : bool :=
  match node_at a pid with
  | Some n => existsb (fun kp => match pod_on a (n_name n) (fst kp) with
                                 | Some p => existsb (String.eqb v) (p_vols p)
                                 | None => false
                                 end) (a_pods a)
  | None => false
  end.

Definition spec_n2p (a : api) (name : string) : option string :=
  match aget name (a_nodes a) with
  | Some n => if trackable n then Some (epid n) else None
  | None => None
  end.

Definition spec_c2p (a : api) (name : string) : option string := option_map c_pid (aget name (a_claims a)).

Definition spec_bind (a : api) (key : string) : option string :=
  match aget key (a_pods a) with
  | Some p =>
      if negb (p_term p) && negb (p_node p =s "") &&
         match spec_n2p a (p_node p) with Some _ => true | None => false end
      then Some (p_node p) else None
  | None => None
  end.

(* identity of the recomputed StateNode; deletion marks are in-memory state and are taken from
   the cache the recomputation is compared with *)
Definition spec_sn (a : api) (marked : bool) (pid : string) : snode :=
  mkSN (node_at a pid) (claim_at a pid) [] [] [] [] marked.

(* bindings an accessor can show: the bound node is tracked *)
Definition eff_bind (c : cache) (key : string) : option string :=
  match aget key (binds c) with
  | Some nn => match aget (sget nn (n2p c)) (nodes c) with
               | Some s => match sn_node s with Some _ => Some nn | None => None end
               | None => None
               end
  | None => None
  end.

(* per-pool total over the cached nodes: what nodePoolResources must equal *)
Definition contrib (pool : string) (s : snode) : res :=
  if has_identity s && (sn_pool s =s pool) then sn_res s else z3.
Definition pool_total (pool : string) (m : amap snode) : res :=
  fold_right (fun kv acc => radd (contrib pool (snd kv)) acc) z3 m.

(* ---- the observable view of a cache: what the exported accessors (plus the read-only hooks) show ---- *)
Record vnode := mkVN {
  v_node : string; v_claim : string;            (* names, "" = nil *)
  v_pods : amap pent; v_dsr : amap ((Z * Z) * (Z * Z)); v_costs : amap Z; v_vun : list string;
  v_marked : bool;                              (* the in-memory mark *)
  v_mfd : bool; v_pool : string; v_cap : Z * Z }.   (* MarkedForDeletion(), Labels()[nodepool], Capacity() *)

Record view := mkView {
  vw_nodes : amap vnode; vw_binds : amap string; vw_n2p : amap string; vw_c2p : amap string;
  vw_npr : amap res }.

Definition vnode_of (s : snode) : vnode :=
  mkVN (match sn_node s with Some n => n_name n | None => "" end)
       (match sn_claim s with Some c => c_name c | None => "" end)
       (sn_pods s) (sn_dsr s) (sn_costs s) (sn_vun s) (sn_marked s)
       (sn_mfd s) (sn_pool s) (sn_cap s).

Definition view_of (c : cache) : view :=
  mkView (map (fun kv => (fst kv, vnode_of (snd kv))) (nodes c)) (binds c) (n2p c) (c2p c) (npr c).

Definition veff_bind (w : view) (key : string) : option string :=
  match aget key (vw_binds w) with
  | Some nn => match aget (sget nn (vw_n2p w)) (vw_nodes w) with
               | Some s => if v_node s =s "" then None else Some nn
               | None => None
               end
  | None => None
  end.

Definition vmarked (w : view) (pid : string) : bool :=
  match aget pid (vw_nodes w) with Some s => v_marked s | None => false end.

Definition mem (v : string) (l : list string) : bool := existsb (String.eqb v) l.

(* all provider ids the API objects give rise to *)
Definition api_pids (a : api) : list string :=
  nodup string_dec (map (fun kv => epid (snd kv)) (a_nodes a) ++ map (fun kv => c_pid (snd kv)) (a_claims a)).

Definition spec_total (a : api) (w : view) (pool : string) : res :=
  fold_right (fun pid acc => if spec_has a pid then radd (contrib pool (spec_sn a (vmarked w pid) pid)) acc else acc)
    z3 (api_pids a).

(* The property: the view equals the recomputation from the API objects. *)
Definition node_matches (a : api) (pid : string) (s : vnode) : Prop :=
  let f := spec_sn a (v_marked s) pid in
  v_node s = match sn_node f with Some n => n_name n | None => "" end /\
  v_claim s = match sn_claim f with Some c => c_name c | None => "" end /\
  (forall key, aget key (v_pods s) = spec_pent a pid key) /\
  (forall key, aget key (v_dsr s) = spec_dsr a pid key) /\
  (forall key, aget key (v_costs s) = spec_cost a pid key) /\
  (forall v, mem v (v_vun s) = spec_vol a pid v) /\
  v_mfd s = sn_mfd f /\ v_pool s = sn_pool f /\ v_cap s = sn_cap f.

Definition nodes_match (a : api) (w : view) : Prop :=
  forall pid, match aget pid (vw_nodes w) with
              | Some s => spec_has a pid = true /\ node_matches a pid s
              | None => spec_has a pid = false
              end.

Definition maps_match (a : api) (w : view) : Prop :=
  (forall name, aget name (vw_n2p w) = spec_n2p a name) /\
  (forall name, aget name (vw_c2p w) = spec_c2p a name).

Definition binds_match (a : api) (w : view) : Prop := forall key, veff_bind w key = spec_bind a key.

Definition pools_match (a : api) (w : view) : Prop :=
  forall pool, pool <> "" -> rget pool (vw_npr w) = spec_total a w pool.

Definition fresh_eq (a : api) (w : view) : Prop :=
  nodes_match a w /\ maps_match a w /\ binds_match a w /\ pools_match a w.

(* ================= NodePoolState (pkg/controllers/state/statenodepool.go) as driven by Cluster ================= *)
(* Active / Deleting sets per pool and the claim -> pool map.  PendingDisruption and the reserved node
   counts are written only by the disruption / provisioning controllers, never by the informers or
   Mark/UnmarkForDeletion, so they stay empty / zero here and are not modelled.
   NodePoolState is a separate component next to the cache: the calls Cluster makes into it are replayed
   by [nps_step] from the cache before and after the Cluster method (same order as in the code). *)
Record npstate := mkNPS { ps_sets : amap (list string * list string); ps_map : amap string }.
Definition nps0 : npstate := mkNPS [] [].

Definition sins (x : string) (l : list string) : list string := if mem x l then l else x :: l.
Definition sdel (x : string) (l : list string) : list string := filter (fun y => negb (x =s y)) l.

Definition ps_get (np : string) (st : npstate) : list string * list string :=
  match aget np (ps_sets st) with Some v => v | None => ([], []) end.

(* ensureNodePoolEntry + the three set updates of MarkNodeClaimActive / MarkNodeClaimDeleting *)
Definition mark_active (np k : string) (st : npstate) : npstate :=
  let '(a, d) := ps_get np st in mkNPS (aset np (sins k a, sdel k d) (ps_sets st)) (ps_map st).
Definition mark_deleting (np k : string) (st : npstate) : npstate :=
  let '(a, d) := ps_get np st in mkNPS (aset np (sdel k a, sins k d) (ps_sets st)) (ps_map st).

(* NodePoolState.UpdateNodeClaim *)
Definition nps_update (cl : claimobj) (marked : bool) (st : npstate) : npstate :=
  if c_pool cl =s "" then st else
  let st1 := if c_name cl =s "" then st
             else mkNPS (match aget (c_pool cl) (ps_sets st) with Some _ => ps_sets st | None => aset (c_pool cl) ([], []) (ps_sets st) end)
                        (aset (c_name cl) (c_pool cl) (ps_map st)) in
  if marked then mark_deleting (c_pool cl) (c_name cl) st1 else mark_active (c_pool cl) (c_name cl) st1.

(* NodePoolState.Cleanup (nothing is ever reserved or pending here) *)
Definition nps_cleanup (k : string) (st : npstate) : npstate :=
  let np := sget k (ps_map st) in
  mkNPS (match aget np (ps_sets st) with
         | Some (a, d) =>
             match sdel k a, sdel k d with
             | [], [] => adel np (ps_sets st)
             | a', d' => aset np (a', d') (ps_sets st)
             end
         | None => ps_sets st
         end) (adel k (ps_map st)).

Definition nps_mark (b : bool) (c : cache) (st : npstate) (id : string) : npstate :=
  match aget id (nodes c) with
  | Some s => match sn_claim s with
              | Some cl => if b then mark_deleting (c_pool cl) (c_name cl) st
                           else if c_del cl then st else mark_active (c_pool cl) (c_name cl) st
              | None => st
              end
  | None => st
  end.

(* [c] the cache before the Cluster method, [c'] after it *)
Definition nps_step (a : api) (c c' : cache) (o : op) (st : npstate) : npstate :=
  if panicked c then st else
  match o with
  | DeliverClaim k =>
      match aget k (a_claims a) with
      | Some cl =>
          let st1 := if c_pid cl =s "" then st else
                     match aget k (c2p c) with
                     | Some id => if id =s c_pid cl then st else nps_cleanup k st
                     | None => st
                     end in
          if panicked c' then st1 else
          nps_update cl (match aget (c_pid cl) (nodes c') with Some s => sn_mfd s | None => false end) st1
      | None => if panicked c' then st else nps_cleanup k st
      end
  | Mark ids => fold_left (nps_mark true c) ids st      (* marks never change which NodeClaim an entry holds *)
  | Unmark ids => fold_left (nps_mark false c) ids st
  | _ => st
  end.

Definition step3 (s : api * cache * npstate) (o : op) : api * cache * npstate :=
  let '(a, c, st) := s in
  let a' := api_step a o in let c' := cache_step a' c o in (a', c', nps_step a' c c' o st).
Definition run3 (ops : list op) : api * cache * npstate := fold_left step3 ops (api0, cache0, nps0).

(* what the recomputation yields for NodePoolState: Some true = Deleting, Some false = Active *)
Definition spec_member (a : api) (w : view) (pool k : string) : option bool :=
  match aget k (a_claims a) with
  | Some cl => if (c_pool cl =s pool) && negb (pool =s "")
               then Some (if c_pid cl =s "" then false else sn_mfd (spec_sn a (vmarked w (c_pid cl)) (c_pid cl)))
               else None
  | None => None
  end.

Definition nps_match (a : api) (w : view) (st : npstate) : Prop :=
  forall pool, pool <> "" ->
    NoDup (fst (ps_get pool st)) /\ NoDup (snd (ps_get pool st)) /\
    forall k, mem k (fst (ps_get pool st)) = match spec_member a w pool k with Some false => true | _ => false end /\
              mem k (snd (ps_get pool st)) = match spec_member a w pool k with Some true => true | _ => false end.
