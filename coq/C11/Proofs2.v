(* C11 — soundness of the boolean hypothesis checkers and reflection of the oracle. *)
From KV Require Import C11.Model C11.Proofs C11.Check.

Lemma in_keys {A} k (v : A) m : In (k, v) m -> In k (keys m).
Proof. intros H. unfold keys. change k with (fst (k, v)). apply in_map, H. Qed.

Lemma uniq_pids_b_sound a : uniq_pids_b a = true -> uniq_pids a.
Proof.
  unfold uniq_pids_b. rewrite !andb_true_iff, !forallb_forall. intros [[H1 H2] H3]. split; [|split].
  - intros m1 m2 n1 n2 E1 E2 T1 T2 He. apply aget_in in E1. apply aget_in in E2.
    specialize (H1 _ E1). rewrite forallb_forall in H1. specialize (H1 _ E2). cbn [fst snd] in H1.
    rewrite T1, T2, He, seqb_refl in H1. simpl in H1. apply String.eqb_eq, H1.
  - intros k1 k2 c1 c2 E1 E2 Hp He. apply aget_in in E1. apply aget_in in E2.
    specialize (H2 _ E1). rewrite forallb_forall in H2. specialize (H2 _ E2). cbn [fst snd] in H2.
    apply String.eqb_neq in Hp. rewrite Hp, He, seqb_refl in H2. simpl in H2. apply String.eqb_eq, H2.
  - intros m n E. apply aget_in in E. specialize (H3 _ E). cbn [fst] in H3.
    apply negb_true_iff, String.eqb_neq in H3. exact H3.
Qed.

Lemma op_ok_b_sound a c o : op_ok_b a c o = true -> op_ok a c o.
Proof.
  destruct o; cbn [op_ok_b op_ok]; try (intros; exact I).
  - rewrite !andb_true_iff. intros [[H1 H2] H3]. split; [apply uniq_pids_b_sound, H1|]. split.
    + intros Ht m E. rewrite Ht in H2. simpl in H2. rewrite forallb_forall in H2.
      specialize (H2 _ (aget_in _ _ _ E)). cbn [fst snd] in H2. rewrite seqb_refl in H2. simpl in H2.
      apply String.eqb_eq, H2.
    + intros Hn. unfold has in H3. destruct (aget (n_name n) (n2p c)); [|congruence]. simpl in H3. exact H3.
  - rewrite !andb_true_iff. intros [[H1 H2] H3]. split; [apply uniq_pids_b_sound, H1|]. split.
    + intros Hp k E. apply String.eqb_neq in Hp. rewrite Hp in H2. simpl in H2. rewrite forallb_forall in H2.
      specialize (H2 _ (aget_in _ _ _ E)). cbn [fst snd] in H2. rewrite seqb_refl in H2. simpl in H2.
      apply String.eqb_eq, H2.
    + intros X E Hx. rewrite E in H3. apply String.eqb_neq in Hx. rewrite Hx in H3. simpl in H3.
      apply negb_true_iff, String.eqb_neq in H3. exact H3.
Qed.

Lemma hist_ok_from_b_sound ops : forall s, hist_ok_from_b s ops = true -> hist_ok_from s ops.
Proof.
  induction ops as [|o ops IH]; intros s H; [exact I|]. cbn [hist_ok_from_b] in H.
  apply andb_true_iff in H. destruct H as [H1 H2]. split; [apply op_ok_b_sound, H1|apply IH, H2].
Qed.

Lemma hist_ok_b_sound ops : hist_ok_b ops = true -> hist_ok ops.
Proof. apply hist_ok_from_b_sound. Qed.

Lemma pods_settled_b_sound a : pods_settled_b a = true -> pods_settled a.
Proof.
  unfold pods_settled_b. rewrite forallb_forall. intros H key p E Ht Hn.
  specialize (H _ (aget_in _ _ _ E)). cbn [snd] in H. apply String.eqb_neq in Hn. rewrite Ht, Hn in H. simpl in H.
  destruct (spec_n2p a (p_node p)); [discriminate|discriminate H].
Qed.

Lemma is_deliver_b_sound r : forallb is_deliver_b r = true -> Forall is_deliver r.
Proof.
  rewrite forallb_forall. intros H. apply Forall_forall. intros o Ho. specialize (H o Ho).
  destruct o; try discriminate; exact I.
Qed.

Lemma aget_some_in_keys {A} k (m : amap A) : aget k m <> None -> In k (keys m).
Proof. destruct (aget k m) as [v|] eqn:E; [|congruence]. intros _. eapply in_keys, aget_in, E. Qed.

Lemma covers_b_sound a c r : covers_b a c r = true -> covers a c r.
Proof.
  unfold covers_b. rewrite !andb_true_iff, !forallb_forall. intros [[H1 H2] H3]. split; [|split].
  - intros m. destruct (aget m (a_nodes a)) eqn:E1; [|destruct (aget m (n2p c)) eqn:E2; [|right; auto]]; left.
    + assert (Hin : In m (keys (a_nodes a) ++ keys (n2p c))) by (apply in_or_app; left; apply aget_some_in_keys; congruence).
      specialize (H1 _ Hin). apply existsb_exists in H1. destruct H1 as (o & Ho & Hd).
      destruct o; try discriminate. simpl in Hd. apply String.eqb_eq in Hd. subst. exact Ho.
    + assert (Hin : In m (keys (a_nodes a) ++ keys (n2p c))) by (apply in_or_app; right; apply aget_some_in_keys; congruence).
      specialize (H1 _ Hin). apply existsb_exists in H1. destruct H1 as (o & Ho & Hd).
      destruct o; try discriminate. simpl in Hd. apply String.eqb_eq in Hd. subst. exact Ho.
  - intros k. destruct (aget k (a_claims a)) eqn:E1; [|destruct (aget k (c2p c)) eqn:E2; [|right; auto]]; left.
    + assert (Hin : In k (keys (a_claims a) ++ keys (c2p c))) by (apply in_or_app; left; apply aget_some_in_keys; congruence).
      specialize (H2 _ Hin). apply existsb_exists in H2. destruct H2 as (o & Ho & Hd).
      destruct o; try discriminate. simpl in Hd. apply String.eqb_eq in Hd. subst. exact Ho.
    + assert (Hin : In k (keys (a_claims a) ++ keys (c2p c))) by (apply in_or_app; right; apply aget_some_in_keys; congruence).
      specialize (H2 _ Hin). apply existsb_exists in H2. destruct H2 as (o & Ho & Hd).
      destruct o; try discriminate. simpl in Hd. apply String.eqb_eq in Hd. subst. exact Ho.
  - intros key. destruct (aget key (binds c)) eqn:E; [left|right; reflexivity].
    assert (Hin : In key (keys (binds c))) by (apply aget_some_in_keys; congruence).
    specialize (H3 _ Hin). apply existsb_exists in H3. destruct H3 as (o & Ho & Hd).
    destruct o; try discriminate. simpl in Hd. apply String.eqb_eq in Hd. subst. exact Ho.
Qed.

(* the main theorem with every hypothesis decidable: what the harness' cases are checked against *)
Lemma quiescent_equals_fresh_b_l : forall (ops r : list op),
  hist_ok_b ops = true -> pods_settled_b (fst (run ops)) = true -> forallb is_deliver_b r = true ->
  covers_b (fst (run ops)) (snd (run ops)) r = true ->
  fresh_eq (fst (run ops)) (view_of (snd (run (ops ++ r)))).
Proof.
  intros ops r H1 H2 H3 H4. apply quiescent_equals_fresh_hist_l.
  - apply hist_ok_b_sound, H1.
  - apply pods_settled_b_sound, H2.
  - apply is_deliver_b_sound, H3.
  - apply covers_b_sound, H4.
Qed.

(* ================= fresh_eqb reflects fresh_eq ================= *)
Lemma zz_eqb_eq a b : zz_eqb a b = true <-> a = b.
Proof.
  destruct a as [a1 a2], b as [b1 b2]. unfold zz_eqb; simpl. rewrite andb_true_iff, !Z.eqb_eq.
  split; [intros [-> ->]; reflexivity|intros [= -> ->]; auto].
Qed.

Lemma res_eqb_eq a b : res_eqb a b = true <-> a = b.
Proof.
  destruct a as [[a1 a2] a3], b as [[b1 b2] b3]. unfold res_eqb. rewrite !andb_true_iff, !Z.eqb_eq.
  split; [intros [[-> ->] ->]; reflexivity|intros [= -> -> ->]; auto].
Qed.

Lemma strs_eqb_eq a b : strs_eqb a b = true <-> a = b.
Proof.
  revert b. induction a as [|x a IH]; destruct b as [|y b]; simpl; try (split; [discriminate|discriminate]); [tauto|].
  rewrite andb_true_iff, String.eqb_eq, IH. split; [intros [-> ->]; reflexivity|intros [= -> ->]; auto].
Qed.

Lemma pent_eqb_eq a b : pent_eqb a b = true <-> a = b.
Proof.
  destruct a, b. unfold pent_eqb; simpl. rewrite !andb_true_iff, !zz_eqb_eq, !strs_eqb_eq.
  split; [intros [[[-> ->] ->] ->]; reflexivity|intros [= -> -> -> ->]; auto].
Qed.

Lemma dsr_eqb_eq a b : dsr_eqb a b = true <-> a = b.
Proof.
  destruct a, b. unfold dsr_eqb; simpl. rewrite andb_true_iff, !zz_eqb_eq.
  split; [intros [-> ->]; reflexivity|intros [= -> ->]; auto].
Qed.

Lemma opt_eqb_eq {A} (e : A -> A -> bool) : (forall x y, e x y = true <-> x = y) ->
  forall x y, opt_eqb e x y = true <-> x = y.
Proof.
  intros He [x|] [y|]; simpl; try (split; [discriminate|discriminate]); [|tauto].
  rewrite He. split; [intros ->; reflexivity|intros [= ->]; reflexivity].
Qed.

Lemma bool_eqb_eq a b : Bool.eqb a b = true <-> a = b.
Proof. destruct a, b; simpl; split; auto; discriminate. Qed.

Lemma notin_keys_none {A} k (m : amap A) : ~ In k (keys m) -> aget k m = None.
Proof. intros H. apply aget_none_notin. exact H. Qed.

(* forallb over (keys m ++ extra) decides a pointwise equation that is trivially true off the universe *)
Lemma forallb_univ (U : list string) (f : string -> bool) (P : string -> Prop) :
  (forall k, f k = true <-> P k) -> (forall k, ~ In k U -> P k) ->
  (forallb f U = true <-> forall k, P k).
Proof.
  intros Hf Hoff. rewrite forallb_forall. split.
  - intros H k. destruct (in_dec string_dec k U) as [Hin|Hnin]; [apply Hf, H, Hin|apply Hoff, Hnin].
  - intros H k _. apply Hf, H.
Qed.

Lemma pod_on_none_notin a name key : ~ In key (keys (a_pods a)) -> pod_on a name key = None.
Proof. intros H. unfold pod_on. rewrite notin_keys_none by exact H. reflexivity. Qed.

Lemma spec_pent_off a pid key : ~ In key (keys (a_pods a)) -> spec_pent a pid key = None.
Proof. intros H. unfold spec_pent. destruct (node_at a pid); [rewrite pod_on_none_notin by exact H|]; reflexivity. Qed.
Lemma spec_dsr_off a pid key : ~ In key (keys (a_pods a)) -> spec_dsr a pid key = None.
Proof. intros H. unfold spec_dsr. destruct (node_at a pid); [rewrite pod_on_none_notin by exact H|]; reflexivity. Qed.
Lemma spec_cost_off a pid key : ~ In key (keys (a_pods a)) -> spec_cost a pid key = None.
Proof. intros H. unfold spec_cost. destruct (node_at a pid); [rewrite pod_on_none_notin by exact H|]; reflexivity. Qed.

Lemma mem_false_notin v l : ~ In v l -> mem v l = false.
Proof. intros H. destruct (mem v l) eqn:E; [|reflexivity]. apply mem_true_iff in E. contradiction. Qed.

Lemma spec_vol_off a pid v : ~ In v (api_vols a) -> spec_vol a pid v = false.
Proof.
  intros H. unfold spec_vol. destruct (node_at a pid) as [n|]; [|reflexivity].
  destruct (existsb _ (a_pods a)) eqn:E; [|reflexivity]. exfalso. apply H.
  apply existsb_exists in E. destruct E as ([k p0] & Hin & E). cbn [fst] in E.
  destruct (pod_on a (n_name n) k) as [p|] eqn:Ep; [|discriminate].
  unfold pod_on in Ep. destruct (aget k (a_pods a)) as [p'|] eqn:Eg; [|discriminate].
  destruct ((p_node p' =s n_name n) && negb (p_term p')); [|discriminate]. injection Ep as <-.
  unfold api_vols. apply in_flat_map. exists (k, p'). split; [apply aget_in, Eg|]. apply mem_true_iff, E.
Qed.

Lemma in_app_not {A} (x : A) l1 l2 : ~ In x (l1 ++ l2) -> ~ In x l1 /\ ~ In x l2.
Proof. intros H. split; intros Hin; apply H, in_or_app; auto. Qed.

Lemma node_matches_b_iff a pid s :
  node_matches_b a pid (keys (a_pods a)) (api_vols a) s = true <-> node_matches a pid s.
Proof.
  unfold node_matches_b, node_matches. rewrite !andb_true_iff, !String.eqb_eq, bool_eqb_eq, zz_eqb_eq.
  rewrite (forallb_univ _ _ (fun key => aget key (v_pods s) = spec_pent a pid key)).
  2:{ intros k. apply opt_eqb_eq, pent_eqb_eq. }
  2:{ intros k Hn. apply in_app_not in Hn. destruct Hn. rewrite notin_keys_none, spec_pent_off by assumption. reflexivity. }
  rewrite (forallb_univ _ _ (fun key => aget key (v_dsr s) = spec_dsr a pid key)).
  2:{ intros k. apply opt_eqb_eq, dsr_eqb_eq. }
  2:{ intros k Hn. apply in_app_not in Hn. destruct Hn. rewrite notin_keys_none, spec_dsr_off by assumption. reflexivity. }
  rewrite (forallb_univ _ _ (fun key => aget key (v_costs s) = spec_cost a pid key)).
  2:{ intros k. apply opt_eqb_eq. intros x y. apply Z.eqb_eq. }
  2:{ intros k Hn. apply in_app_not in Hn. destruct Hn. rewrite notin_keys_none, spec_cost_off by assumption. reflexivity. }
  rewrite (forallb_univ _ _ (fun v => mem v (v_vun s) = spec_vol a pid v)).
  2:{ intros v. apply bool_eqb_eq. }
  2:{ intros v Hn. apply in_app_not in Hn. destruct Hn. rewrite mem_false_notin, spec_vol_off by assumption. reflexivity. }
  tauto.
Qed.

Lemma spec_has_in_pids a pid : spec_has a pid = true -> In pid (api_pids a).
Proof.
  unfold spec_has, api_pids. intros H. apply nodup_In, in_or_app.
  destruct (node_at a pid) as [nd|] eqn:F.
  - left. destruct (find_node_some _ _ _ F) as (k & Hin & _ & He). rewrite <- He.
    apply (in_map (fun kv => epid (snd kv)) _ (k, nd)), Hin.
  - destruct (claim_at a pid) as [cl|] eqn:F2; [|discriminate]. right.
    unfold claim_at in F2. destruct (pid =s ""); [discriminate|].
    destruct (find_claim_some _ _ _ F2) as (k & Hin & He). rewrite <- He.
    apply (in_map (fun kv => c_pid (snd kv)) _ (k, cl)), Hin.
Qed.

Lemma nodes_match_b_iff a w : nodes_match_b a w = true <-> nodes_match a w.
Proof.
  unfold nodes_match_b, nodes_match. apply forallb_univ.
  - intros pid. destruct (aget pid (vw_nodes w)) as [s|].
    + rewrite andb_true_iff, node_matches_b_iff. tauto.
    + rewrite negb_true_iff. tauto.
  - intros pid Hn. apply in_app_not in Hn. destruct Hn as [H1 H2]. rewrite notin_keys_none by exact H1.
    destruct (spec_has a pid) eqn:E; [|reflexivity]. exfalso. apply H2, spec_has_in_pids, E.
Qed.

Lemma maps_match_b_iff a w : maps_match_b a w = true <-> maps_match a w.
Proof.
  unfold maps_match_b, maps_match. rewrite andb_true_iff.
  rewrite (forallb_univ _ _ (fun k => aget k (vw_n2p w) = spec_n2p a k)).
  2:{ intros k. apply opt_eqb_eq. intros x y. apply String.eqb_eq. }
  2:{ intros k Hn. apply in_app_not in Hn. destruct Hn. unfold spec_n2p. rewrite !notin_keys_none by assumption. reflexivity. }
  rewrite (forallb_univ _ _ (fun k => aget k (vw_c2p w) = spec_c2p a k)).
  2:{ intros k. apply opt_eqb_eq. intros x y. apply String.eqb_eq. }
  2:{ intros k Hn. apply in_app_not in Hn. destruct Hn. unfold spec_c2p. rewrite !notin_keys_none by assumption. reflexivity. }
  tauto.
Qed.

Lemma binds_match_b_iff a w : binds_match_b a w = true <-> binds_match a w.
Proof.
  unfold binds_match_b, binds_match. apply forallb_univ.
  - intros k. apply opt_eqb_eq. intros x y. apply String.eqb_eq.
  - intros k Hn. apply in_app_not in Hn. destruct Hn. unfold veff_bind, spec_bind.
    rewrite !notin_keys_none by assumption. reflexivity.
Qed.

Lemma spec_sn_pool_in a b X : has_identity (spec_sn a b X) = true -> In (sn_pool (spec_sn a b X)) (api_pools a).
Proof.
  unfold spec_sn, has_identity, sn_pool, api_pools; cbn [sn_node sn_claim]. intros H. apply in_or_app.
  assert (Hn : forall nd, node_at a X = Some nd -> In (n_pool nd) (map (fun kv => n_pool (snd kv)) (a_nodes a))).
  { intros nd F. destruct (find_node_some _ _ _ F) as (k & Hin & _).
    apply (in_map (fun kv => n_pool (snd kv)) _ (k, nd)), Hin. }
  assert (Hc : forall cl, claim_at a X = Some cl -> In (c_pool cl) (map (fun kv => c_pool (snd kv)) (a_claims a))).
  { intros cl F. unfold claim_at in F. destruct (X =s ""); [discriminate|].
    destruct (find_claim_some _ _ _ F) as (k & Hin & _).
    apply (in_map (fun kv => c_pool (snd kv)) _ (k, cl)), Hin. }
  destruct (node_at a X) as [nd|], (claim_at a X) as [cl|]; try discriminate.
  - destruct (n_reg nd); [left; apply Hn|right; apply Hc]; reflexivity.
  - left. apply Hn. reflexivity.
  - right. apply Hc. reflexivity.
Qed.

Lemma spec_total_off a w pool : ~ In pool (api_pools a) -> spec_total a w pool = z3.
Proof.
  intros Hn. unfold spec_total. induction (api_pids a) as [|X L IH]; [reflexivity|]. cbn [fold_right].
  rewrite IH. destruct (spec_has a X); [|reflexivity].
  unfold contrib. destruct (has_identity (spec_sn a (vmarked w X) X)) eqn:Hi; [|reflexivity].
  destruct (sn_pool (spec_sn a (vmarked w X) X) =s pool) eqn:E; [|reflexivity].
  exfalso. apply Hn. apply String.eqb_eq in E. rewrite <- E. apply spec_sn_pool_in, Hi.
Qed.

Lemma pools_match_b_iff a w : pools_match_b a w = true <-> pools_match a w.
Proof.
  unfold pools_match_b, pools_match. apply forallb_univ.
  - intros pool. rewrite orb_true_iff, String.eqb_eq, res_eqb_eq.
    destruct (string_dec pool "") as [->|Hne]; [split; [intros _ H; congruence|auto]|].
    split; [intros [H|H]; [congruence|auto]|auto].
  - intros pool Hn _. apply in_app_not in Hn. destruct Hn as [H1 H2].
    unfold rget. rewrite notin_keys_none by exact H1. symmetry. apply spec_total_off, H2.
Qed.

(* the oracle evaluated by Check.v is exactly the property *)
Lemma fresh_eqb_iff_l : forall (a : api) (w : view), fresh_eqb a w = true <-> fresh_eq a w.
Proof.
  intros a w. unfold fresh_eqb, fresh_eqb_parts, fresh_eq. cbn [forallb snd].
  rewrite !andb_true_iff, nodes_match_b_iff, maps_match_b_iff, binds_match_b_iff, pools_match_b_iff. tauto.
Qed.

(* ================= witnesses ================= *)
Definition w_n0 := mkNode "n0" "x0" "pa" true true true true 4000 8192 false.
Definition w_n1 := mkNode "n1" "x1" "pb" true true true true 2000 4096 false.
Definition w_c0 := mkClaim "c0" "x0" "pa" 2000 4096 false false.
Definition w_p0 (node : string) := mkPod "default/p0" node false false (250, 128) (500, 128) 134217728 ["0.0.0.0/80/TCP"] ["drv1|default/pvc-a"].

Ltac refute :=
  eexists _, _; repeat (split; [vm_compute; reflexivity|]);
  intros H; apply fresh_eqb_iff_l in H; vm_compute in H; discriminate.

Lemma f2_refuted : exists ops r, hist_ok_b ops = true /\ pods_settled_b (fst (run ops)) = true /\
  forallb is_deliver_b r = true /\ covers_b (fst (run ops)) (snd (run ops)) r = true /\
  ~ fresh_eq (fst (run_gen (mkVar true false false) (ops ++ r))) (view_of (snd (run_gen (mkVar true false false) (ops ++ r)))).
Proof.
  exists [SetNode w_n0; SetPod (w_p0 "n0"); SetClaim w_c0],
         [DeliverNode "n0"; DeliverPod "default/p0"; DeliverClaim "c0"].
  repeat (split; [vm_compute; reflexivity|]).
  intros H; apply fresh_eqb_iff_l in H; vm_compute in H; discriminate.
Qed.

Lemma node_loss_refuted : exists ops r, hist_ok_b ops = true /\ pods_settled_b (fst (run ops)) = true /\
  forallb is_deliver_b r = true /\ covers_b (fst (run ops)) (snd (run ops)) r = true /\
  ~ fresh_eq (fst (run_gen (mkVar false true false) (ops ++ r))) (view_of (snd (run_gen (mkVar false true false) (ops ++ r)))).
Proof.
  exists [SetNode w_n0; SetClaim w_c0; DeliverNode "n0"; DeliverClaim "c0"; SetPod (w_p0 "n0"); DeliverPod "default/p0";
          DelNode "n0"; DelPod "default/p0"],
         [DeliverNode "n0"; DeliverPod "default/p0"; DeliverClaim "c0"].
  repeat (split; [vm_compute; reflexivity|]).
  intros H; apply fresh_eqb_iff_l in H; vm_compute in H; discriminate.
Qed.

Lemma pending_refuted : exists ops r, hist_ok_b ops = true /\ pods_settled_b (fst (run ops)) = true /\
  forallb is_deliver_b r = true /\ covers_b (fst (run ops)) (snd (run ops)) r = true /\
  ~ fresh_eq (fst (run_gen (mkVar false false true) (ops ++ r))) (view_of (snd (run_gen (mkVar false false true) (ops ++ r)))).
Proof.
  exists [SetNode w_n0; DeliverNode "n0"; SetPod (w_p0 "n0"); DeliverPod "default/p0"; SetPod (w_p0 "")],
         [DeliverPod "default/p0"; DeliverNode "n0"].
  repeat (split; [vm_compute; reflexivity|]).
  intros H; apply fresh_eqb_iff_l in H; vm_compute in H; discriminate.
Qed.

Lemma unsettled_pod_refuted : exists ops r, hist_ok_b ops = true /\ forallb is_deliver_b r = true /\
  covers_b (fst (run ops)) (snd (run ops)) r = true /\
  ~ fresh_eq (fst (run ops)) (view_of (snd (run (ops ++ r)))).
Proof.
  exists [SetNode w_n0; DeliverNode "n0"; SetPod (w_p0 "n0"); DeliverPod "default/p0"; SetPod (w_p0 "ghost")],
         [DeliverPod "default/p0"; DeliverNode "n0"].
  repeat (split; [vm_compute; reflexivity|]).
  intros H; apply fresh_eqb_iff_l in H; vm_compute in H; discriminate.
Qed.

Definition demo_ops : list op :=
  [ SetNode (mkNode "n0" "" "pa" true false false true 4000 8192 false);   (* managed, provider id not set yet: ignored *)
    DeliverNode "n0";
    SetNode w_n1; DeliverNode "n1";
    SetPod (w_p0 "n0"); DeliverPod "default/p0";                     (* node not tracked yet: NotFound, requeue *)
    SetNode w_n0; SetClaim w_c0; DeliverClaim "c0"; DeliverNode "n0"; (* the id arrives; claim first, then node *)
    Mark ["x0"; "nope"];
    SetPod (w_p0 "n1");                                              (* re-created under the same name on n1 *)
    SetPod (mkPod "default/p1" "n0" false true (100, 64) (0, 0) 0 [] []);
    DeliverPod "default/p1"; DelPod "default/p1";                    (* deleted; the deletion is only seen in the round *)
    Unmark ["x0"] ].
Definition demo_round : list op :=
  [ DeliverPod "default/p0"; DeliverClaim "c0"; DeliverNode "n1"; DeliverPod "default/p1"; DeliverNode "n0";
    DeliverPod "default/p0" ].

Lemma demo_ok :
  hist_ok_b demo_ops = true /\ pods_settled_b (fst (run demo_ops)) = true /\
  forallb is_deliver_b demo_round = true /\ covers_b (fst (run demo_ops)) (snd (run demo_ops)) demo_round = true /\
  fresh_eqb (fst (run demo_ops)) (view_of (snd (run (demo_ops ++ demo_round)))) = true /\
  List.length (nodes (snd (run (demo_ops ++ demo_round)))) = 2%nat /\
  spec_bind (fst (run demo_ops)) "default/p0" = Some "n1" /\
  rget "pa" (npr (snd (run (demo_ops ++ demo_round)))) = (4000, 8192, 1).
Proof. vm_compute. repeat split; reflexivity. Qed.
