(* C09 — proofs about the model of the node termination finalizer and the NodeClaim finalizer. *)
From KV Require Import C09.Model.

(* ------------------------------------------------------------------ effects: frame lemmas *)

(* effects that do not touch the provider's instance / the Node objects *)
Definition inst_safe (e : eff) : bool :=
  match e with EProvDelete PNil | EProvCreate true => false | _ => true end.
Definition node_safe (e : eff) : bool :=
  match e with ETaint _ true | ERmNodeFin _ true | EDelNode _ true => false | _ => true end.
Definition claim_safe (e : eff) : bool :=     (* does not remove the claim object or its finalizer *)
  match e with EDelClaim true | ERmClaimFin true => false | _ => true end.

Lemma upd_claim_frame : forall g w,
  w_now (upd_claim g w) = w_now w /\ w_pods (upd_claim g w) = w_pods w /\ w_vas (upd_claim g w) = w_vas w /\
  w_inst (upd_claim g w) = w_inst w /\ w_nodes (upd_claim g w) = w_nodes w /\ w_cache (upd_claim g w) = w_cache w.
Proof. intros g w. unfold upd_claim. simpl. repeat split. Qed.

Lemma upd_node_frame : forall i g w,
  w_now (upd_node i g w) = w_now w /\ w_pods (upd_node i g w) = w_pods w /\ w_vas (upd_node i g w) = w_vas w /\
  w_inst (upd_node i g w) = w_inst w /\ w_claim (upd_node i g w) = w_claim w /\ w_cache (upd_node i g w) = w_cache w.
Proof.
  intros i g w. unfold upd_node. destruct (get_node i (w_nodes w)) as [n|]; [destruct (g n)|]; simpl; repeat split.
Qed.

Lemma apply_eff_frame : forall e w,
  w_now (apply_eff w e) = w_now w /\ w_pods (apply_eff w e) = w_pods w /\ w_vas (apply_eff w e) = w_vas w.
Proof.
  intros e w. destruct e as [ok|a|i ok|a|ok d v t|i ok|ok t|i ok|ok|ok|ok|ok]; simpl;
    try destruct ok; try destruct a; simpl;
    try (destruct (upd_claim_frame (api_delete_claim (w_now w)) w) as (?&?&?&_); auto; fail);
    try (match goal with |- context[upd_claim ?g w] => destruct (upd_claim_frame g w) as (?&?&?&_); auto end; fail);
    try (match goal with |- context[upd_node ?i ?g w] => destruct (upd_node_frame i g w) as (?&?&?&_); auto end; fail);
    auto.
Qed.

Lemma apply_effs_frame : forall es w,
  w_now (apply_effs w es) = w_now w /\ w_pods (apply_effs w es) = w_pods w /\ w_vas (apply_effs w es) = w_vas w.
Proof.
  induction es as [|e es IH]; intros w; simpl; auto.
  destruct (IH (apply_eff w e)) as (a & b & c). destruct (apply_eff_frame e w) as (a' & b' & c').
  unfold apply_effs in *. simpl. rewrite a, b, c. auto.
Qed.

Lemma apply_eff_inst : forall e w, inst_safe e = true -> w_inst (apply_eff w e) = w_inst w.
Proof.
  intros e w H. destruct e as [ok|a|i ok|a|ok d v t|i ok|ok t|i ok|ok|ok|ok|ok]; simpl in *;
    try destruct ok; try destruct a; simpl in *; try discriminate;
    try (match goal with |- context[upd_claim ?g w] => destruct (upd_claim_frame g w) as (_&_&_&?&_); auto end; fail);
    try (match goal with |- context[upd_node ?i ?g w] => destruct (upd_node_frame i g w) as (_&_&_&?&_); auto end; fail);
    auto.
Qed.

Lemma apply_effs_inst : forall es w, forallb inst_safe es = true -> w_inst (apply_effs w es) = w_inst w.
Proof.
  induction es as [|e es IH]; intros w H; simpl in *; auto.
  apply andb_prop in H. destruct H as [H1 H2]. unfold apply_effs in *. simpl.
  rewrite IH by exact H2. apply apply_eff_inst. exact H1.
Qed.

Lemma apply_eff_nodes : forall e w, node_safe e = true -> w_nodes (apply_eff w e) = w_nodes w.
Proof.
  intros e w H. destruct e as [ok|a|i ok|a|ok d v t|i ok|ok t|i ok|ok|ok|ok|ok]; simpl in *;
    try destruct ok; try destruct a; simpl in *; try discriminate;
    try (match goal with |- context[upd_claim ?g w] => destruct (upd_claim_frame g w) as (_&_&_&_&?&_); auto end; fail);
    auto.
Qed.

Lemma apply_effs_nodes : forall es w, forallb node_safe es = true -> w_nodes (apply_effs w es) = w_nodes w.
Proof.
  induction es as [|e es IH]; intros w H; simpl in *; auto.
  apply andb_prop in H. destruct H as [H1 H2]. unfold apply_effs in *. simpl.
  rewrite IH by exact H2. apply apply_eff_nodes. exact H1.
Qed.

Lemma apply_effs_app : forall a b w, apply_effs w (a ++ b) = apply_effs (apply_effs w a) b.
Proof. intros. unfold apply_effs. apply fold_left_app. Qed.

(* ------------------------------------------------------------------ node lookup *)

Lemma get_node_id : forall i ns n, get_node i ns = Some n -> n_id n = i.
Proof.
  intros i ns n H. unfold get_node in H. apply find_some in H. destruct H as [_ H]. apply Z.eqb_eq in H. exact H.
Qed.

Lemma get_set_node : forall i ns n n', get_node i ns = Some n -> n_id n' = i -> get_node i (set_node n' ns) = Some n'.
Proof.
  intros i ns n n' H Hid. subst i. unfold get_node, set_node in *.
  induction ns as [|m ns IH]; simpl in *; [discriminate|].
  destruct (n_id m =? n_id n') eqn:E.
  - simpl. rewrite Z.eqb_refl. reflexivity.
  - simpl. rewrite E. apply IH. exact H.
Qed.

Lemma taint_applied : forall i w n, get_node i (w_nodes w) = Some n ->
  exists n', get_node i (w_nodes (apply_eff w (ETaint i true))) = Some n' /\ n_taint n' = true /\ n_ready n' = n_ready n.
Proof.
  intros i w n H. simpl. unfold upd_node. rewrite H. simpl.
  eexists. split; [eapply get_set_node; [exact H|simpl; eapply get_node_id; exact H]|]. simpl. auto.
Qed.

(* ------------------------------------------------------------------ oracle = specification *)

Lemma stuck_spec : forall now p, stuck now p = true <-> stuck_terminating now p.
Proof.
  intros now p. unfold stuck, stuck_terminating. destruct (p_del p) as [t|].
  - rewrite Z.ltb_lt. split; [intros H; exists t; split; [reflexivity|lia] | intros (t' & E & H); inversion E; lia].
  - split; [discriminate | intros (t' & E & _); discriminate].
Qed.

Lemma waiting_spec : forall now p, waiting now p = false <-> (can_drain p -> stuck_terminating now p).
Proof.
  intros now p. unfold waiting, drainable, can_drain. rewrite <- stuck_spec.
  destruct (p_terminal p), (p_tol p), (p_static p), (stuck now p); simpl; split; intros H; auto; try discriminate;
    try (intros (a & b & c); discriminate); try (exfalso; assert (X : false = true) by (apply H; auto); discriminate).
Qed.

Lemma drain_done_spec : forall i w,
  drain_done i w = true <->
  (forall p, In p (w_pods w) -> p_node p = i -> can_drain p -> stuck_terminating (w_now w) p).
Proof.
  intros i w. unfold drain_done, pods_on. rewrite forallb_forall. split.
  - intros H p Hin Hn. apply waiting_spec. specialize (H p).
    rewrite filter_In in H. rewrite negb_true_iff in H. apply H. split; [exact Hin | apply Z.eqb_eq; exact Hn].
  - intros H p Hin. apply filter_In in Hin. destruct Hin as [Hin Hn]. apply Z.eqb_eq in Hn.
    rewrite negb_true_iff. apply waiting_spec. apply H; assumption.
Qed.

Lemma in_shielded : forall i w x,
  In x (shielded_pvs i w) <->
  exists p, In p (w_pods w) /\ p_node p = i /\ drainable (w_now w) p = false /\ In x (p_pvs p).
Proof.
  intros i w x. unfold shielded_pvs, pods_on. rewrite in_flat_map. split.
  - intros (p & Hp & Hx). apply filter_In in Hp. destruct Hp as [Hp Hd]. apply filter_In in Hp. destruct Hp as [Hp Hn].
    exists p. rewrite negb_true_iff in Hd. apply Z.eqb_eq in Hn. auto.
  - intros (p & Hp & Hn & Hd & Hx). exists p. split; [|exact Hx].
    apply filter_In. split; [apply filter_In; split; [exact Hp | apply Z.eqb_eq; exact Hn] | rewrite Hd; reflexivity].
Qed.

Lemma existsb_eqb_in : forall x l, existsb (Z.eqb x) l = true <-> In x l.
Proof.
  intros x l. rewrite existsb_exists. split.
  - intros (y & Hy & E). apply Z.eqb_eq in E. subst. exact Hy.
  - intros H. exists x. split; [exact H | apply Z.eqb_refl].
Qed.

Lemma blocking_spec : forall i w v, v_node v = i ->
  (blocking (shielded_pvs i w) v = true <-> va_blocks w i v).
Proof.
  intros i w v Hn. unfold blocking, va_blocks. destruct (v_pv v) as [x|].
  - rewrite negb_true_iff. split.
    + intros H. split; [exact Hn|]. exists x. split; [reflexivity|]. intros p Hp Hpn Hd Hx.
      assert (X : existsb (Z.eqb x) (shielded_pvs i w) = true).
      { apply existsb_eqb_in. apply in_shielded. exists p. auto. }
      rewrite X in H. discriminate.
    + intros (_ & y & E & H). inversion E; subst y. clear E.
      destruct (existsb (Z.eqb x) (shielded_pvs i w)) eqn:X; [|reflexivity].
      apply existsb_eqb_in in X. apply in_shielded in X. destruct X as (p & Hp & Hpn & Hd & Hx).
      exfalso. exact (H p Hp Hpn Hd Hx).
  - split; [discriminate | intros (_ & y & E & _); discriminate].
Qed.

Lemma pending_none_spec : forall i w,
  pending_vas i w = [] <-> (forall v, In v (w_vas w) -> ~ va_blocks w i v).
Proof.
  intros i w. unfold pending_vas, vas_on. split.
  - intros H v Hv Hb. assert (Hn : v_node v = i) by (destruct Hb; assumption).
    assert (X : In v (filter (blocking (shielded_pvs i w)) (filter (fun v0 => v_node v0 =? i) (w_vas w)))).
    { apply filter_In. split; [apply filter_In; split; [exact Hv | apply Z.eqb_eq; exact Hn] | apply blocking_spec; assumption]. }
    rewrite H in X. exact X.
  - intros H. destruct (filter _ _) as [|v l] eqn:E; [reflexivity|]. exfalso.
    assert (X : In v (v :: l)) by (left; reflexivity). rewrite <- E in X.
    apply filter_In in X. destruct X as [X Hb]. apply filter_In in X. destruct X as [Hv Hn]. apply Z.eqb_eq in Hn.
    apply (H v Hv). apply blocking_spec; assumption.
Qed.

Lemma tgp_expired_spec : forall w0 w, tgp_expired_b w0 w = true <-> tgp_expired w0 w.
Proof.
  intros w0 w. unfold tgp_expired_b, tgp_expired. destruct (w_claim w0) as [c|].
  - split.
    + intros H. apply andb_prop in H. destruct H as [Hp H]. destruct (c_annot c) as [| |t] eqn:E; try discriminate.
      apply Z.ltb_lt in H. exists c, t. repeat split; auto. lia.
    + intros (c' & t & E & Hp & Ha & Hl). inversion E; subst c'. rewrite Hp, Ha. simpl. apply Z.ltb_lt. lia.
  - split; [discriminate | intros (c' & t & E & _); discriminate].
Qed.

Lemma node_fin_ok_b_spec : forall w0 w i, node_fin_ok_b w0 w i = true <-> node_fin_ok w0 w i.
Proof.
  intros w0 w i. unfold node_fin_ok_b, node_fin_ok. destruct (get_node i (w_nodes w)) as [n|].
  - split.
    + intros H. exists n. split; [reflexivity|]. apply orb_prop in H. destruct H as [H|H].
      * left. apply andb_prop in H. destruct H as [H Hi]. apply andb_prop in H. destruct H as [H Hv].
        apply andb_prop in H. destruct H as [Ht Hd]. repeat split; auto.
        -- apply drain_done_spec. exact Hd.
        -- apply orb_prop in Hv. destruct Hv as [Hv|Hv].
           ++ left. apply pending_none_spec. destruct (pending_vas i w); [reflexivity|discriminate].
           ++ right. apply tgp_expired_spec. exact Hv.
      * right. apply andb_prop in H. destruct H as [Hr Hi]. rewrite negb_true_iff in Hr. auto.
    + intros (n' & E & H). inversion E; subst n'. clear E. destruct H as [(Ht & Hd & Hv & Hi)|(Hr & Hi)].
      * apply orb_true_iff. left. rewrite Ht, Hi. apply drain_done_spec in Hd. rewrite Hd. simpl.
        rewrite andb_true_r. destruct Hv as [Hv|Hv].
        -- apply pending_none_spec in Hv. rewrite Hv. reflexivity.
        -- apply tgp_expired_spec in Hv. rewrite Hv. apply orb_true_r.
      * apply orb_true_iff. right. rewrite Hr, Hi. reflexivity.
  - split; [discriminate | intros (n & E & _); discriminate].
Qed.

Lemma node_has_claim_b_spec : forall w, node_has_claim_b w = true <-> node_has_claim w.
Proof.
  intros w. unfold node_has_claim_b, node_has_claim, visible_claim. destruct (w_claim w) as [c|].
  - destruct (c_pid c) eqn:E; simpl; split; intros H; auto; try discriminate.
    + exists c. auto.
    + destruct H as (c' & E' & Hp). inversion E'; subst. congruence.
  - simpl. split; [discriminate | intros (c & E & _); discriminate].
Qed.

Lemma claim_fin_ok_b_spec : forall w, claim_fin_ok_b w = true <-> claim_fin_ok w.
Proof.
  intros w. unfold claim_fin_ok_b, claim_fin_ok, claim_nodes_gone, claim_instance_gone. destruct (w_claim w) as [c|].
  - split.
    + intros H. apply andb_prop in H. destruct H as [Hn Hi]. split.
      * exists c. split; [reflexivity|]. intros Hr. rewrite Hr in Hn. simpl in Hn.
        destruct (claim_nodes w c); [reflexivity|discriminate].
      * intros Hne. destruct (w_inst w); simpl in Hi; try discriminate; try reflexivity. exfalso. apply Hne. reflexivity.
    + intros [(c' & E & Hn) Hi]. inversion E; subst c'. clear E. apply andb_true_iff. split.
      * destruct (c_registered c); simpl; [|reflexivity]. rewrite Hn by reflexivity. reflexivity.
      * destruct (w_inst w) eqn:E; simpl; auto; assert (X : w_inst w = IGone) by (rewrite E; apply Hi; discriminate);
          rewrite E in X; discriminate.
  - split; [discriminate | intros [(c & E & _) _]; discriminate].
Qed.

(* ------------------------------------------------------------------ the three await functions *)

Lemma in_node_safe : forall j es, forallb node_safe es = true -> ~ In (ERmNodeFin j true) es.
Proof.
  intros j es H Hin. rewrite forallb_forall in H. specialize (H _ Hin). discriminate.
Qed.

Lemma await_instance_spec : forall hc f cs s,
  forallb node_safe (a_effs (await_instance hc f cs s)) = true /\
  (a_res (await_instance hc f cs s) = ROk ->
     forallb inst_safe (a_effs (await_instance hc f cs s)) = true /\ (hc = true -> inst_absent s = true)).
Proof.
  intros hc f [[d v] t] s. unfold await_instance. destruct hc; simpl.
  - destruct (fails f SProvDelete); simpl; [split; [reflexivity|discriminate]|].
    destruct s; simpl; split; try reflexivity; try discriminate; intros _; split; auto.
  - split; [reflexivity|]. intros _. split; [reflexivity|discriminate].
Qed.

Lemma blocking_mono : forall sh v, blocking sh v = true -> blocking [] v = true.
Proof. intros sh v. unfold blocking. destruct (v_pv v); simpl; auto. Qed.

Lemma filter_nil_mono : forall sh l, filter (blocking []) l = [] -> filter (blocking sh) l = [].
Proof.
  intros sh l. induction l as [|v l IH]; simpl; auto.
  destruct (blocking [] v) eqn:E; [discriminate|]. intros H.
  destruct (blocking sh v) eqn:E'; [apply blocking_mono in E'; congruence | auto].
Qed.

Lemma await_volumes_spec : forall hc i w f dl cs,
  forallb node_safe (a_effs (await_volumes hc i w f dl cs)) = true /\
  (a_res (await_volumes hc i w f dl cs) = ROk ->
     forallb inst_safe (a_effs (await_volumes hc i w f dl cs)) = true /\
     (pending_vas i w = [] \/ elapsed (w_now w) dl = true) /\
     (hc = true -> inst_absent (w_inst w) = true)).
Proof.
  intros hc i w f dl [[d v] t]. unfold await_volumes. cbv zeta.
  destruct (fails f SListVAs); [simpl; split; [reflexivity|discriminate]|].
  match goal with |- context[if ?b then _ else _] => destruct b eqn:Elk end; [simpl; split; [reflexivity|discriminate]|].
  match goal with |- context[filter (blocking ?sh) _] => set (sh0 := sh) end.
  assert (Hmono : filter (blocking sh0) (vas_on i w) = [] -> pending_vas i w = []).
  { unfold pending_vas, sh0. destruct (fails f SGetPVC) as [[| |]|]; auto. apply filter_nil_mono. }
  destruct (filter (blocking sh0) (vas_on i w)) eqn:Ep.
  - destruct (await_instance_spec hc f (d, (if hc then VTrue else v), t) (w_inst w)) as [Hs Hr].
    split; [exact Hs|]. intros H. destruct (Hr H) as [Hi Ha]. split; [exact Hi|]. split; [left; auto | exact Ha].
  - destruct (elapsed (w_now w) dl) eqn:Ee.
    + destruct (await_instance_spec hc f (d, (if hc then VFalse else v), t) (w_inst w)) as [Hs Hr].
      split; [exact Hs|]. intros H. destruct (Hr H) as [Hi Ha]. split; [exact Hi|]. split; [right; auto | exact Ha].
    + simpl. split; [reflexivity|discriminate].
Qed.

Lemma await_drain_spec : forall hc i w f dl cs,
  forallb node_safe (a_effs (await_drain hc i w f dl cs)) = true /\
  (a_res (await_drain hc i w f dl cs) = ROk ->
     forallb inst_safe (a_effs (await_drain hc i w f dl cs)) = true /\
     drain_done i w = true /\
     (pending_vas i w = [] \/ elapsed (w_now w) dl = true) /\
     (hc = true -> inst_absent (w_inst w) = true)).
Proof.
  intros hc i w f dl [[d v] t]. unfold await_drain. cbv zeta.
  destruct (fails f SListPods); [simpl; split; [reflexivity|discriminate]|].
  destruct (drain_done i w) eqn:Ed; simpl; [|split; [reflexivity|discriminate]].
  match goal with |- context[if ?b then _ else _] => destruct b eqn:Emin end; [simpl; split; [reflexivity|discriminate]|].
  match goal with |- context[await_volumes hc i w f dl ?c] =>
    destruct (await_volumes_spec hc i w f dl c) as [Hs Hr] end.
  split; [exact Hs|]. intros H. destruct (Hr H) as (Hi & Hv & Ha). auto.
Qed.

(* ------------------------------------------------------------------ node termination: the finalizer *)

Lemma rm_node_fin_shape : forall i f e r, rm_node_fin i f = (e, r) ->
  e = [ERmNodeFin i true] \/ e = [ERmNodeFin i false].
Proof. intros i f e r H. unfold rm_node_fin in H. destruct (fails f SRmNodeFin) as [[| |]|]; inversion H; auto. Qed.

Lemma in_app3 : forall (A : Type) (x : A) a b, In x (a ++ b) -> ~ In x a -> In x b.
Proof. intros A x a b H Hn. apply in_app_or in H. destruct H; [contradiction|assumption]. Qed.

Lemma node_tail_rm : forall w i f oc dl cgone stale es r j,
  node_tail w i f oc dl cgone stale = (es, r) -> In (ERmNodeFin j true) es ->
  j = i /\ exists p, es = p ++ [ERmNodeFin i true] /\ forallb node_safe p = true /\ forallb inst_safe p = true /\
    drain_done i w = true /\ (pending_vas i w = [] \/ elapsed (w_now w) dl = true) /\
    (is_some oc = true -> inst_absent (w_inst w) = true).
Proof.
  intros w i f oc dl cgone stale es r j H Hin. unfold node_tail in H.
  match type of H with context[await_drain ?hc i w f dl ?cs] =>
    destruct (await_drain_spec hc i w f dl cs) as [Hs Hr]; set (a := await_drain hc i w f dl cs) in * end.
  assert (He4 : forall (e4 : list eff) (st : option res),
    (if is_some oc && negb (conds_eqb (match oc with Some c => (c_drained c, c_vol c, c_term c) | None => (DNone, VNone, false) end) (a_conds a))
     then let '(d, v, t) := a_conds a in
          match status_patch_ans f cgone stale with
          | PatchOk => ([EStatus true d v t], None)
          | PatchNotFound => ([EStatus false d v t], None)
          | PatchConflict => ([EStatus false d v t], Some RRequeue)
          | PatchOther => ([EStatus false d v t], Some RErr)
          end
     else ([], None)) = (e4, st) -> forallb node_safe e4 = true /\ forallb inst_safe e4 = true).
  { intros e4 st E. destruct (is_some oc && negb _) in E; [|inversion E; auto].
    destruct (a_conds a) as [[d v] t]. destruct (status_patch_ans f cgone stale); inversion E; auto. }
  match type of H with (let '(e4, stop4) := ?X in _) = _ => destruct X as [e4 stop4] eqn:E4 end.
  destruct (He4 _ _ E4) as [Hn4 Hi4].
  assert (Hpre : forallb node_safe (a_effs a ++ e4) = true) by (rewrite forallb_app, Hs, Hn4; reflexivity).
  destruct stop4 as [r4|].
  { inversion H; subst. exfalso. eapply in_node_safe; eauto. }
  destruct (a_res a) eqn:Er;
    try (inversion H; subst; exfalso; eapply in_node_safe; eauto; fail).
  destruct (rm_node_fin i f) as [e r'] eqn:Erm. inversion H; subst. clear H.
  destruct (Hr eq_refl) as (Hia & Hd & Hv & Hc).
  rewrite app_assoc in Hin. apply in_app3 in Hin; [|eapply in_node_safe; eauto].
  apply rm_node_fin_shape in Erm. destruct Erm as [Erm|Erm]; subst e; simpl in Hin; destruct Hin as [Hin|[]]; inversion Hin; subst.
  split; [reflexivity|]. exists (a_effs a ++ e4). split; [rewrite app_assoc; reflexivity|].
  split; [exact Hpre|]. split; [rewrite forallb_app, Hia, Hi4; reflexivity|]. auto.
Qed.
