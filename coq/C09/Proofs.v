(* C09 — proofs about the model of the node termination finalizer and the NodeClaim finalizer. *)
From KV Require Import C09.Model.

(* ------------------------------------------------------------------ effects: frame lemmas *)

(* effects that do not touch the provider's instance / the Node objects *)
Definition inst_safe (e : eff) : bool :=
  match e with EProvDelete PNil | EProvCreate true => false | _ => true end.
Definition node_safe (e : eff) : bool :=
  match e with ETaint _ true | ERmNodeFin _ true | EDelNode _ true => false | _ => true end.
Definition claim_safe (e : eff) : bool :=     (* keeps the claim object, its finalizer, deletion mark, provider id *)
  match e with EDelClaim true | ERmClaimFin true | EAddFin true | EPersist true => false | _ => true end.

Lemma upd_claim_frame : forall g w,
  w_now (upd_claim g w) = w_now w /\ w_pods (upd_claim g w) = w_pods w /\ w_vas (upd_claim g w) = w_vas w /\
  w_inst (upd_claim g w) = w_inst w /\ w_nodes (upd_claim g w) = w_nodes w /\ w_cache (upd_claim g w) = w_cache w.
Proof. intros g w. unfold upd_claim. simpl. repeat split. Qed.

Lemma upd_node_frame : forall i g w,
  w_now (upd_node i g w) = w_now w /\ w_pods (upd_node i g w) = w_pods w /\ w_vas (upd_node i g w) = w_vas w /\
  w_inst (upd_node i g w) = w_inst w /\ w_claim (upd_node i g w) = w_claim w /\ w_cache (upd_node i g w) = w_cache w.
Proof.
  intros i g w. unfold upd_node. destruct (get_node i (w_nodes w)) as [n|]; [destruct (g n)|]; simpl; repeat split.
Qed.

Lemma apply_eff_frame : forall e w,
  w_now (apply_eff w e) = w_now w /\ w_pods (apply_eff w e) = w_pods w /\ w_vas (apply_eff w e) = w_vas w.
Proof.
  intros e w. destruct e as [ok|a|i ok|a|ok d v t|i ok|ok t|i ok|ok|ok|ok|ok|ok|ok d v t]; simpl;
    try destruct ok; try destruct a; simpl;
    try (destruct (upd_claim_frame (api_delete_claim (w_now w)) w) as (?&?&?&_); auto; fail);
    try (match goal with |- context[upd_claim ?g w] => destruct (upd_claim_frame g w) as (?&?&?&_); auto end; fail);
    try (match goal with |- context[upd_node ?i ?g w] => destruct (upd_node_frame i g w) as (?&?&?&_); auto end; fail);
    auto.
Qed.

Lemma apply_effs_frame : forall es w,
  w_now (apply_effs w es) = w_now w /\ w_pods (apply_effs w es) = w_pods w /\ w_vas (apply_effs w es) = w_vas w.
Proof.
  induction es as [|e es IH]; intros w; simpl; auto.
  destruct (IH (apply_eff w e)) as (a & b & c). destruct (apply_eff_frame e w) as (a' & b' & c').
  unfold apply_effs in *. simpl. rewrite a, b, c. auto.
Qed.

Lemma apply_eff_inst : forall e w, inst_safe e = true -> w_inst (apply_eff w e) = w_inst w.
Proof.
  intros e w H. destruct e as [ok|a|i ok|a|ok d v t|i ok|ok t|i ok|ok|ok|ok|ok|ok|ok d v t]; simpl in *;
    try destruct ok; try destruct a; simpl in *; try discriminate;
    try (match goal with |- context[upd_claim ?g w] => destruct (upd_claim_frame g w) as (_&_&_&?&_); auto end; fail);
    try (match goal with |- context[upd_node ?i ?g w] => destruct (upd_node_frame i g w) as (_&_&_&?&_); auto end; fail);
    auto.
Qed.

Lemma apply_effs_inst : forall es w, forallb inst_safe es = true -> w_inst (apply_effs w es) = w_inst w.
Proof.
  induction es as [|e es IH]; intros w H; simpl in *; auto.
  apply andb_prop in H. destruct H as [H1 H2]. unfold apply_effs in *. simpl.
  rewrite IH by exact H2. apply apply_eff_inst. exact H1.
Qed.

Lemma apply_eff_nodes : forall e w, node_safe e = true -> w_nodes (apply_eff w e) = w_nodes w.
Proof.
  intros e w H. destruct e as [ok|a|i ok|a|ok d v t|i ok|ok t|i ok|ok|ok|ok|ok|ok|ok d v t]; simpl in *;
    try destruct ok; try destruct a; simpl in *; try discriminate;
    try (match goal with |- context[upd_claim ?g w] => destruct (upd_claim_frame g w) as (_&_&_&_&?&_); auto end; fail);
    auto.
Qed.

Lemma apply_effs_nodes : forall es w, forallb node_safe es = true -> w_nodes (apply_effs w es) = w_nodes w.
Proof.
  induction es as [|e es IH]; intros w H; simpl in *; auto.
  apply andb_prop in H. destruct H as [H1 H2]. unfold apply_effs in *. simpl.
  rewrite IH by exact H2. apply apply_eff_nodes. exact H1.
Qed.

Lemma apply_effs_app : forall a b w, apply_effs w (a ++ b) = apply_effs (apply_effs w a) b.
Proof. intros. unfold apply_effs. apply fold_left_app. Qed.

(* ------------------------------------------------------------------ node lookup *)

Lemma get_node_id : forall i ns n, get_node i ns = Some n -> n_id n = i.
Proof.
  intros i ns n H. unfold get_node in H. apply find_some in H. destruct H as [_ H]. apply Z.eqb_eq in H. exact H.
Qed.

Lemma get_set_node : forall i ns n n', get_node i ns = Some n -> n_id n' = i -> get_node i (set_node n' ns) = Some n'.
Proof.
  intros i ns n n' H Hid. subst i. unfold get_node, set_node in *.
  induction ns as [|m ns IH]; simpl in *; [discriminate|].
  destruct (n_id m =? n_id n') eqn:E.
  - simpl. rewrite Z.eqb_refl. reflexivity.
  - simpl. rewrite E. apply IH. exact H.
Qed.

Lemma taint_applied : forall i w n, get_node i (w_nodes w) = Some n ->
  exists n', get_node i (w_nodes (apply_eff w (ETaint i true))) = Some n' /\ n_taint n' = true /\ n_ready n' = n_ready n.
Proof.
  intros i w n H. simpl. unfold upd_node. rewrite H. simpl.
  eexists. split; [eapply get_set_node; [exact H|simpl; eapply get_node_id; exact H]|]. simpl. auto.
Qed.

(* ------------------------------------------------------------------ oracle = specification *)

Lemma stuck_spec : forall now p, stuck now p = true <-> stuck_terminating now p.
Proof.
  intros now p. unfold stuck, stuck_terminating. destruct (p_del p) as [t|].
  - rewrite Z.ltb_lt. split; [intros H; exists t; split; [reflexivity|lia] | intros (t' & E & H); inversion E; lia].
  - split; [discriminate | intros (t' & E & _); discriminate].
Qed.

Lemma waiting_spec : forall now p, waiting now p = false <-> (can_drain p -> stuck_terminating now p).
Proof.
  intros now p. unfold waiting, drainable, can_drain. rewrite <- stuck_spec.
  destruct (p_terminal p), (p_tol p), (p_static p), (stuck now p); simpl; split; intros H; auto; try discriminate;
    try (intros (a & b & c); discriminate); try (exfalso; assert (X : false = true) by (apply H; auto); discriminate).
Qed.

Lemma drain_done_spec : forall i w,
  drain_done i w = true <->
  (forall p, In p (w_pods w) -> p_node p = i -> can_drain p -> stuck_terminating (w_now w) p).
Proof.
  intros i w. unfold drain_done, pods_on. rewrite forallb_forall. split.
  - intros H p Hin Hn. apply waiting_spec. specialize (H p).
    rewrite filter_In in H. rewrite negb_true_iff in H. apply H. split; [exact Hin | apply Z.eqb_eq; exact Hn].
  - intros H p Hin. apply filter_In in Hin. destruct Hin as [Hin Hn]. apply Z.eqb_eq in Hn.
    rewrite negb_true_iff. apply waiting_spec. apply H; assumption.
Qed.

Lemma in_shielded : forall i w x,
  In x (shielded_pvs i w) <->
  exists p, In p (w_pods w) /\ p_node p = i /\ drainable (w_now w) p = false /\ In x (p_pvs p).
Proof.
  intros i w x. unfold shielded_pvs, pods_on. rewrite in_flat_map. split.
  - intros (p & Hp & Hx). apply filter_In in Hp. destruct Hp as [Hp Hd]. apply filter_In in Hp. destruct Hp as [Hp Hn].
    exists p. rewrite negb_true_iff in Hd. apply Z.eqb_eq in Hn. auto.
  - intros (p & Hp & Hn & Hd & Hx). exists p. split; [|exact Hx].
    apply filter_In. split; [apply filter_In; split; [exact Hp | apply Z.eqb_eq; exact Hn] | rewrite Hd; reflexivity].
Qed.

Lemma existsb_eqb_in : forall x l, existsb (Z.eqb x) l = true <-> In x l.
Proof.
  intros x l. rewrite existsb_exists. split.
  - intros (y & Hy & E). apply Z.eqb_eq in E. subst. exact Hy.
  - intros H. exists x. split; [exact H | apply Z.eqb_refl].
Qed.

Lemma blocking_spec : forall i w v, v_node v = i ->
  (blocking (shielded_pvs i w) v = true <-> va_blocks w i v).
Proof.
  intros i w v Hn. unfold blocking, va_blocks. destruct (v_pv v) as [x|].
  - rewrite negb_true_iff. split.
    + intros H. split; [exact Hn|]. exists x. split; [reflexivity|]. intros p Hp Hpn Hd Hx.
      assert (X : existsb (Z.eqb x) (shielded_pvs i w) = true).
      { apply existsb_eqb_in. apply in_shielded. exists p. auto. }
      rewrite X in H. discriminate.
    + intros (_ & y & E & H). inversion E; subst y. clear E.
      destruct (existsb (Z.eqb x) (shielded_pvs i w)) eqn:X; [|reflexivity].
      apply existsb_eqb_in in X. apply in_shielded in X. destruct X as (p & Hp & Hpn & Hd & Hx).
      exfalso. exact (H p Hp Hpn Hd Hx).
  - split; [discriminate | intros (_ & y & E & _); discriminate].
Qed.

Lemma pending_none_spec : forall i w,
  pending_vas i w = [] <-> (forall v, In v (w_vas w) -> ~ va_blocks w i v).
Proof.
  intros i w. unfold pending_vas, vas_on. split.
  - intros H v Hv Hb. assert (Hn : v_node v = i) by (destruct Hb; assumption).
    assert (X : In v (filter (blocking (shielded_pvs i w)) (filter (fun v0 => v_node v0 =? i) (w_vas w)))).
    { apply filter_In. split; [apply filter_In; split; [exact Hv | apply Z.eqb_eq; exact Hn] | apply blocking_spec; assumption]. }
    rewrite H in X. exact X.
  - intros H. destruct (filter _ _) as [|v l] eqn:E; [reflexivity|]. exfalso.
    assert (X : In v (v :: l)) by (left; reflexivity). rewrite <- E in X.
    apply filter_In in X. destruct X as [X Hb]. apply filter_In in X. destruct X as [Hv Hn]. apply Z.eqb_eq in Hn.
    apply (H v Hv). apply blocking_spec; assumption.
Qed.

Lemma tgp_expired_spec : forall w0 w, tgp_expired_b w0 w = true <-> tgp_expired w0 w.
Proof.
  intros w0 w. unfold tgp_expired_b, tgp_expired. destruct (visible_claim w0) as [c|].
  - split.
    + intros H. destruct (c_annot c) as [| |t] eqn:E; try discriminate.
      apply Z.ltb_lt in H. exists c, t. repeat split; auto. lia.
    + intros (c' & t & E & Ha & Hl). inversion E; subst c'. rewrite Ha. apply Z.ltb_lt. lia.
  - split; [discriminate | intros (c' & t & E & _); discriminate].
Qed.

Lemma node_fin_ok_b_spec : forall w0 w i, node_fin_ok_b w0 w i = true <-> node_fin_ok w0 w i.
Proof.
  intros w0 w i. unfold node_fin_ok_b, node_fin_ok. destruct (get_node i (w_nodes w)) as [n|].
  - split.
    + intros H. exists n. split; [reflexivity|]. apply orb_prop in H. destruct H as [H|H].
      * left. apply andb_prop in H. destruct H as [H Hi]. apply andb_prop in H. destruct H as [H Hv].
        apply andb_prop in H. destruct H as [Ht Hd]. repeat split; auto.
        -- apply drain_done_spec. exact Hd.
        -- apply orb_prop in Hv. destruct Hv as [Hv|Hv].
           ++ left. apply pending_none_spec. destruct (pending_vas i w); [reflexivity|discriminate].
           ++ right. apply tgp_expired_spec. exact Hv.
      * right. apply andb_prop in H. destruct H as [Hr Hi]. rewrite negb_true_iff in Hr. auto.
    + intros (n' & E & H). inversion E; subst n'. clear E. destruct H as [(Ht & Hd & Hv & Hi)|(Hr & Hi)].
      * apply orb_true_iff. left. rewrite Ht, Hi. apply drain_done_spec in Hd. rewrite Hd. simpl.
        rewrite andb_true_r. destruct Hv as [Hv|Hv].
        -- apply pending_none_spec in Hv. rewrite Hv. reflexivity.
        -- apply tgp_expired_spec in Hv. rewrite Hv. apply orb_true_r.
      * apply orb_true_iff. right. rewrite Hr, Hi. reflexivity.
  - split; [discriminate | intros (n & E & _); discriminate].
Qed.

Lemma node_has_claim_b_spec : forall w, node_has_claim_b w = true <-> node_has_claim w.
Proof.
  intros w. unfold node_has_claim_b, node_has_claim. destruct (visible_claim w) as [c|]; simpl.
  - split; [intros _; exists c; reflexivity | reflexivity].
  - split; [discriminate | intros (c & E); discriminate].
Qed.

Lemma claim_fin_ok_b_spec : forall w, claim_fin_ok_b w = true <-> claim_fin_ok w.
Proof.
  intros w. unfold claim_fin_ok_b, claim_fin_ok, claim_nodes_gone, claim_instance_gone. destruct (w_claim w) as [c|].
  - split.
    + intros H. apply andb_prop in H. destruct H as [Hn Hi]. split.
      * exists c. split; [reflexivity|]. intros Hr. rewrite Hr in Hn. simpl in Hn.
        destruct (claim_nodes w c); [reflexivity|discriminate].
      * intros Hne. destruct (w_inst w); simpl in Hi; try discriminate; try reflexivity. exfalso. apply Hne. reflexivity.
    + intros [(c' & E & Hn) Hi]. inversion E; subst c'. clear E. apply andb_true_iff. split.
      * destruct (c_registered c); simpl; [|reflexivity]. rewrite Hn by reflexivity. reflexivity.
      * destruct (w_inst w) eqn:E; simpl; auto; assert (X : w_inst w = IGone) by (rewrite E; apply Hi; discriminate);
          rewrite E in X; discriminate.
  - split; [discriminate | intros [(c & E & _) _]; discriminate].
Qed.

(* ------------------------------------------------------------------ the three await functions *)

Lemma in_node_safe : forall j es, forallb node_safe es = true -> ~ In (ERmNodeFin j true) es.
Proof.
  intros j es H Hin. rewrite forallb_forall in H. specialize (H _ Hin). discriminate.
Qed.

Lemma await_instance_spec : forall hc f cs s,
  forallb node_safe (a_effs (await_instance hc f cs s)) = true /\
  (a_res (await_instance hc f cs s) = ROk ->
     forallb inst_safe (a_effs (await_instance hc f cs s)) = true /\ (hc = true -> inst_absent s = true)).
Proof.
  intros hc f [[d v] t] s. unfold await_instance. destruct hc; simpl.
  - destruct (fails f SProvDelete); simpl; [split; [reflexivity|discriminate]|].
    destruct s; simpl; split; try reflexivity; try discriminate; intros _; split; auto.
  - split; [reflexivity|]. intros _. split; [reflexivity|discriminate].
Qed.

Lemma blocking_mono : forall sh v, blocking sh v = true -> blocking [] v = true.
Proof. intros sh v. unfold blocking. destruct (v_pv v); simpl; auto. Qed.

Lemma filter_nil_mono : forall sh l, filter (blocking []) l = [] -> filter (blocking sh) l = [].
Proof.
  intros sh l. induction l as [|v l IH]; simpl; auto.
  destruct (blocking [] v) eqn:E; [discriminate|]. intros H.
  destruct (blocking sh v) eqn:E'; [apply blocking_mono in E'; congruence | auto].
Qed.

Lemma await_volumes_spec : forall hc i w f dl cs,
  forallb node_safe (a_effs (await_volumes hc i w f dl cs)) = true /\
  (a_res (await_volumes hc i w f dl cs) = ROk ->
     forallb inst_safe (a_effs (await_volumes hc i w f dl cs)) = true /\
     (pending_vas i w = [] \/ elapsed (w_now w) dl = true) /\
     (hc = true -> inst_absent (w_inst w) = true)).
Proof.
  intros hc i w f dl [[d v] t]. unfold await_volumes. cbv zeta.
  destruct (fails f SListVAs); [simpl; split; [reflexivity|discriminate]|].
  destruct (va_lookup_err i w f); [simpl; split; [reflexivity|discriminate]|].
  assert (Hmono : filter (blocking (va_shield i w f)) (vas_on i w) = [] -> pending_vas i w = []).
  { unfold pending_vas, va_shield. destruct (fails f SGetPVC) as [[| |]|]; auto. apply filter_nil_mono. }
  destruct (filter (blocking (va_shield i w f)) (vas_on i w)) eqn:Ep.
  - destruct (await_instance_spec hc f (d, (if hc then VTrue else v), t) (w_inst w)) as [Hs Hr].
    split; [exact Hs|]. intros H. destruct (Hr H) as [Hi Ha]. split; [exact Hi|]. split; [left; auto | exact Ha].
  - destruct (elapsed (w_now w) dl) eqn:Ee.
    + destruct (await_instance_spec hc f (d, (if hc then VFalse else v), t) (w_inst w)) as [Hs Hr].
      split; [exact Hs|]. intros H. destruct (Hr H) as [Hi Ha]. split; [exact Hi|]. split; [right; auto | exact Ha].
    + simpl. split; [reflexivity|discriminate].
Qed.

Lemma await_drain_spec : forall hc i w f dl cs,
  forallb node_safe (a_effs (await_drain hc i w f dl cs)) = true /\
  (a_res (await_drain hc i w f dl cs) = ROk ->
     forallb inst_safe (a_effs (await_drain hc i w f dl cs)) = true /\
     drain_done i w = true /\
     (pending_vas i w = [] \/ elapsed (w_now w) dl = true) /\
     (hc = true -> inst_absent (w_inst w) = true)).
Proof.
  intros hc i w f dl [[d v] t]. unfold await_drain. cbv zeta.
  destruct (fails f SListPods); [simpl; split; [reflexivity|discriminate]|].
  destruct (drain_done i w) eqn:Ed; cbn [negb]; [|simpl; split; [reflexivity|discriminate]].
  destruct (min_drain_wait hc (w_now w) _); [simpl; split; [reflexivity|discriminate]|].
  match goal with |- context[await_volumes hc i w f dl ?c] =>
    destruct (await_volumes_spec hc i w f dl c) as [Hs Hr] end.
  split; [exact Hs|]. intros H. destruct (Hr H) as (Hi & Hv & Ha). auto.
Qed.

(* ------------------------------------------------------------------ node termination: the finalizer *)

Lemma rm_node_fin_shape : forall i cur f e r, rm_node_fin i cur f = (e, r) ->
  (e = [ERmNodeFin i true] /\ exists m, cur = Some m) \/ e = [ERmNodeFin i false].
Proof.
  intros i cur f e r H. unfold rm_node_fin in H. destruct (fails f SRmNodeFin) as [[| |]|]; try (inversion H; auto; fail).
  destruct cur as [m|]; inversion H; [left; split; [reflexivity|exists m; reflexivity]|right; reflexivity].
Qed.

Lemma in_app3 : forall (A : Type) (x : A) a b, In x (a ++ b) -> ~ In x a -> In x b.
Proof. intros A x a b H Hn. apply in_app_or in H. destruct H; [contradiction|assumption]. Qed.

Lemma node_tail_rm : forall w i cur f oc tw dl cgone stale es r j,
  node_tail w i cur f oc tw dl cgone stale = (es, r) -> In (ERmNodeFin j true) es ->
  j = i /\ (exists m, cur = Some m) /\ exists p, es = p ++ [ERmNodeFin i true] /\ forallb node_safe p = true /\ forallb inst_safe p = true /\
    drain_done i w = true /\ (pending_vas i w = [] \/ elapsed (w_now w) dl = true) /\
    (is_some oc = true -> inst_absent (w_inst w) = true).
Proof.
  intros w i cur f oc tw dl cgone stale es r j H Hin. unfold node_tail in H.
  match type of H with context[await_drain ?hc i w f dl ?cs] =>
    destruct (await_drain_spec hc i w f dl cs) as [Hs Hr]; set (a := await_drain hc i w f dl cs) in * end.
  match type of H with (let '(e4, stop4) := ?X in _) = _ => destruct X as [e4 stop4] eqn:E4 end.
  assert (H4 : forallb node_safe e4 = true /\ forallb inst_safe e4 = true).
  { clear - E4. destruct (is_some oc && negb _) in E4; [|inversion E4; auto].
    destruct (a_conds a) as [[d v] t]. destruct tw; destruct (status_patch_ans f cgone stale); inversion E4; auto. }
  destruct H4 as [Hn4 Hi4].
  assert (Hpre : forallb node_safe (a_effs a ++ e4) = true) by (rewrite forallb_app, Hs, Hn4; reflexivity).
  destruct stop4 as [r4|].
  { inversion H; subst. exfalso. eapply in_node_safe; eauto. }
  destruct (a_res a) eqn:Er;
    try (inversion H; subst; exfalso; eapply in_node_safe; eauto; fail).
  destruct (rm_node_fin i cur f) as [e r'] eqn:Erm. inversion H; subst. clear H.
  destruct (Hr eq_refl) as (Hia & Hd & Hv & Hc).
  rewrite app_assoc in Hin. apply in_app3 in Hin; [|eapply in_node_safe; eauto].
  apply rm_node_fin_shape in Erm. destruct Erm as [[Erm Hcur]|Erm]; subst e; simpl in Hin; destruct Hin as [Hin|[]]; inversion Hin; subst.
  split; [reflexivity|]. split; [exact Hcur|]. exists (a_effs a ++ e4). split; [rewrite app_assoc; reflexivity|].
  split; [exact Hpre|]. split; [rewrite forallb_app, Hia, Hi4; reflexivity|]. auto.
Qed.

Lemma drain_done_ext : forall i a b, w_pods a = w_pods b -> w_now a = w_now b -> drain_done i a = drain_done i b.
Proof. intros i a b Hp Hn. unfold drain_done, pods_on. rewrite Hp, Hn. reflexivity. Qed.

Lemma pending_vas_ext : forall i a b, w_pods a = w_pods b -> w_now a = w_now b -> w_vas a = w_vas b ->
  pending_vas i a = pending_vas i b.
Proof. intros i a b Hp Hn Hv. unfold pending_vas, shielded_pvs, vas_on, pods_on. rewrite Hp, Hn, Hv. reflexivity. Qed.

Lemma elapsed_tgp : forall w wi dl, term_time (visible_claim w) = Some dl -> elapsed (w_now w) dl = true ->
  w_now wi = w_now w -> tgp_expired_b w wi = true.
Proof.
  intros w wi dl Ht He Hn. unfold tgp_expired_b, term_time in *.
  destruct (visible_claim w) as [c|]; [|inversion Ht; subst; discriminate].
  destruct (c_annot c); inversion Ht; subst; simpl in *; try discriminate. rewrite Hn. exact He.
Qed.

(* what holds in the world of every successful finalizer-removing patch of the node controller;
   [nr] = the readiness the controller saw on the object it was handed *)
Definition node_gate (w wi : world) (i : Z) (nr : bool) : Prop :=
  exists n', get_node i (w_nodes wi) = Some n' /\
    (exists m, get_node i (w_nodes w) = Some m /\ n_ready n' = n_ready m) /\
    ((n_taint n' = true /\ drain_done i wi = true /\
      (pending_vas i wi = [] \/ tgp_expired_b w wi = true) /\
      (is_some (visible_claim w) = true -> inst_absent (w_inst wi) = true))
     \/ (nr = false /\ inst_absent (w_inst wi) = true)).

Lemma older_node_refl : forall n, older_node n n = true.
Proof.
  intros n. unfold older_node. rewrite Z.eqb_refl, Bool.eqb_reflx.
  destruct (n_taint n), (n_lbl n), (n_del n); reflexivity.
Qed.

Lemma older_node_taint : forall n m, older_node n m = true -> n_taint n = true -> n_taint m = true.
Proof.
  intros n m H Ht. unfold older_node in H. rewrite Ht in H.
  destruct (n_taint m); [reflexivity|]. simpl in H. rewrite !andb_false_r in H. simpl in H.
  destruct (n_id n =? n_id m), (Bool.eqb (n_managed n) (n_managed m)); discriminate.
Qed.

Lemma node_finalize_rm : forall w n f es r j,
  node_finalize w n f = (es, r) -> In (ERmNodeFin j true) es ->
  j = n_id n /\ exists pre m, es = pre ++ [ERmNodeFin (n_id n) true] /\
    get_node (n_id n) (w_nodes w) = Some m /\
    (older_node n m = true -> node_gate w (apply_effs w pre) (n_id n) (n_ready n)).
Proof.
  intros w n f es r j H Hin. unfold node_finalize in H. cbv zeta in H.
  remember (get_node (n_id n) (w_nodes w)) as cur eqn:Hcur.
  destruct (fails f SListClaims); [inversion H; subst; contradiction|].
  destruct (del_claim_step (visible_claim w) (on_twin w) f) as [[[e1 stop1] stale] cgone] eqn:E1.
  assert (H1 : forallb node_safe e1 = true /\ forallb inst_safe e1 = true).
  { clear - E1. unfold del_claim_step in E1. destruct (visible_claim w) as [c|]; [|inversion E1; auto].
    destruct (is_some (c_del c)); [inversion E1; auto|].
    destruct (on_twin w); destruct (fails f SDelClaim) as [[| |]|]; inversion E1; auto. }
  destruct H1 as [Hn1 Hi1].
  destruct stop1; [inversion H; subst; exfalso; eapply in_node_safe; eauto|].
  destruct (not_ready_step n (w_inst w) f) as [e2 short] eqn:E2.
  assert (H2 : forallb node_safe e2 = true /\ forallb inst_safe e2 = true /\
               (short = Some true -> n_ready n = false /\ inst_absent (w_inst w) = true)).
  { clear - E2. unfold not_ready_step in E2. destruct (n_ready n); [inversion E2; repeat split; auto; discriminate|].
    destruct (fails f SProvGet); [inversion E2; repeat split; auto; discriminate|].
    unfold prov_get in E2. destruct (inst_absent (w_inst w)) eqn:Ea; inversion E2; repeat split; auto; discriminate. }
  destruct H2 as (Hn2 & Hi2 & Hshort).
  assert (Hn12 : forallb node_safe (e1 ++ e2) = true) by (rewrite forallb_app, Hn1, Hn2; reflexivity).
  assert (Hi12 : forallb inst_safe (e1 ++ e2) = true) by (rewrite forallb_app, Hi1, Hi2; reflexivity).
  destruct short as [[|]|].
  - (* not Ready and the provider says NotFound *)
    destruct (rm_node_fin (n_id n) cur f) as [e r'] eqn:Erm. inversion H; subst es r'. clear H.
    apply in_app3 in Hin; [|eapply in_node_safe; eauto].
    apply rm_node_fin_shape in Erm. destruct Erm as [[Erm (m & Hm)]|Erm]; subst e; simpl in Hin; destruct Hin as [Hin|[]]; inversion Hin; subst j.
    split; [reflexivity|]. exists (e1 ++ e2), m. split; [reflexivity|].
    assert (Hget : get_node (n_id n) (w_nodes w) = Some m) by congruence.
    split; [congruence|]. intros _.
    destruct (Hshort eq_refl) as [Hr Ha]. exists m. split; [|split].
    + rewrite apply_effs_nodes by exact Hn12. exact Hget.
    + exists m. split; [exact Hget|reflexivity].
    + right. split; [exact Hr|]. rewrite apply_effs_inst by exact Hi12. exact Ha.
  - inversion H; subst. exfalso. eapply in_node_safe; eauto.
  - destruct (term_time (visible_claim w)) as [dl|] eqn:Et; [|inversion H; subst; exfalso; eapply in_node_safe; eauto].
    destruct (taint_step n cur f) as [e3 stop3] eqn:E3.
    assert (H3 : stop3 = None -> (e3 = [] /\ n_taint n = true) \/ e3 = [ETaint (n_id n) true]).
    { clear - E3. unfold taint_step in E3. intros ->. destruct (n_taint n && n_lbl n) eqn:Etl.
      - inversion E3. left. apply andb_prop in Etl. destruct Etl. auto.
      - destruct (fails f STaint) as [[| |]|]; try (inversion E3; fail).
        destruct cur as [m|]; [|inversion E3]. destruct (node_eqb n m); inversion E3. right. reflexivity. }
    destruct stop3 as [r3|].
    { inversion H; subst. exfalso. apply in_app3 in Hin; [|eapply in_node_safe; eauto].
      clear - E3 Hin. unfold taint_step in E3. destruct (n_taint n && n_lbl n); [inversion E3; subst; contradiction|].
      destruct (fails f STaint) as [[| |]|]; try (inversion E3; subst; simpl in Hin; destruct Hin as [X|[]]; discriminate).
      destruct (get_node (n_id n) (w_nodes w)) as [m|]; [destruct (node_eqb n m)|]; inversion E3; subst; simpl in Hin; destruct Hin as [X|[]]; discriminate. }
    specialize (H3 eq_refl).
    destruct (node_tail w (n_id n) cur f (visible_claim w) (on_twin w) dl cgone stale) as [et rt] eqn:Etail.
    inversion H; subst es rt. clear H.
    apply in_app3 in Hin; [|eapply in_node_safe; eauto].
    assert (Hin' : In (ERmNodeFin j true) et).
    { apply in_app3 in Hin; [exact Hin|]. destruct H3 as [[-> _]| ->]; simpl; [tauto|]. intros [X|[]]; discriminate. }
    destruct (node_tail_rm _ _ _ _ _ _ _ _ _ _ _ _ Etail Hin') as (Hj & (m & Hm) & p & Hp & Hnp & Hip & Hd & Hv & Hc).
    assert (Hget : get_node (n_id n) (w_nodes w) = Some m) by congruence.
    split; [exact Hj|]. subst et. exists ((e1 ++ e2) ++ e3 ++ p), m.
    split; [rewrite <- !app_assoc; reflexivity|]. split; [congruence|]. intros Hold.
    set (wi := apply_effs w ((e1 ++ e2) ++ e3 ++ p)).
    destruct (apply_effs_frame ((e1 ++ e2) ++ e3 ++ p) w) as (Fnow & Fpods & Fvas). fold wi in Fnow, Fpods, Fvas.
    assert (Finst : w_inst wi = w_inst w).
    { unfold wi. apply apply_effs_inst. rewrite !forallb_app, Hi1, Hi2, Hip.
      destruct H3 as [[-> _]| ->]; reflexivity. }
    assert (Fnode : exists n', get_node (n_id n) (w_nodes wi) = Some n' /\ n_taint n' = true /\ n_ready n' = n_ready m).
    { assert (G : get_node (n_id n) (w_nodes (apply_effs w (e1 ++ e2))) = Some m)
        by (rewrite apply_effs_nodes by exact Hn12; exact Hget).
      unfold wi. rewrite (apply_effs_app (e1 ++ e2) (e3 ++ p)). rewrite (apply_effs_app e3 p).
      rewrite (apply_effs_nodes p) by exact Hnp.
      destruct H3 as [[-> Ht]| ->].
      - exists m. split; [exact G|]. split; [exact (older_node_taint _ _ Hold Ht)|reflexivity].
      - destruct (taint_applied _ _ _ G) as (n' & G' & Ht & Hr). exists n'. auto. }
    destruct Fnode as (n' & Gn & Ht & Hrd). exists n'. split; [exact Gn|]. split; [exists m; auto|]. left.
    split; [exact Ht|]. split; [rewrite (drain_done_ext _ wi w) by assumption; exact Hd|].
    split.
    + rewrite (pending_vas_ext _ wi w) by assumption.
      destruct Hv as [Hv|Hv]; [left; exact Hv | right; exact (elapsed_tgp w wi dl Et Hv Fnow)].
    + intros Hhc. rewrite Finst. exact (Hc Hhc).
Qed.

Lemma node_gate_seen : forall w wi i nr, node_gate w wi i nr -> node_has_claim w -> node_fin_ok_seen w wi i nr.
Proof.
  intros w wi i nr (n & G & _ & H) Hc.
  apply node_has_claim_b_spec in Hc. unfold node_has_claim_b in Hc.
  exists n. split; [exact G|]. destruct H as [(Ht & Hd & Hv & Hi)|Hs]; [left|right; exact Hs].
  split; [exact Ht|]. split; [apply drain_done_spec; exact Hd|]. split; [|exact (Hi Hc)].
  destruct Hv as [Hv|Hv]; [left; apply pending_none_spec; exact Hv | right; apply tgp_expired_spec; exact Hv].
Qed.

Lemma node_gate_claim : forall w wi i nr, node_gate w wi i nr ->
  (forall m, get_node i (w_nodes w) = Some m -> n_ready m = nr) ->
  node_has_claim w -> node_fin_ok w wi i.
Proof.
  intros w wi i nr Hg Hnr Hc. pose proof (node_gate_seen _ _ _ _ Hg Hc) as (n & G & H).
  destruct Hg as (n0 & G0 & (m & Gm & Hr) & _). rewrite G in G0. inversion G0; subst n0.
  exists n. split; [exact G|]. destruct H as [H|[Hs Hi]]; [left; exact H|right].
  split; [|exact Hi]. rewrite Hr, (Hnr m Gm). exact Hs.
Qed.

Lemma instant_last : forall w pre e, instant w (pre ++ [e]) = apply_effs w pre.
Proof. intros. unfold instant. rewrite removelast_last. reflexivity. Qed.

Lemma node_reconcile_at_rm : forall w n f es r j,
  node_reconcile_at w n f = (es, r) -> In (ERmNodeFin j true) es ->
  j = n_id n /\ (exists pre, es = pre ++ [ERmNodeFin (n_id n) true]) /\
  exists m, get_node (n_id n) (w_nodes w) = Some m /\
    (older_node n m = true -> node_gate w (instant w es) (n_id n) (n_ready n)).
Proof.
  intros w n f es r j H Hin. unfold node_reconcile_at in H.
  destruct (n_del n && n_fin n && n_managed n); [|inversion H; subst; contradiction].
  destruct (node_finalize_rm _ _ _ _ _ _ H Hin) as (Hj & pre & m & Hes & G & Hg).
  split; [exact Hj|]. split; [exists pre; exact Hes|]. exists m. split; [exact G|].
  subst es. rewrite instant_last. exact Hg.
Qed.

Lemma node_reconcile_rm : forall w i f es r j,
  node_reconcile w i f = (es, r) -> In (ERmNodeFin j true) es ->
  j = i /\ (exists pre, es = pre ++ [ERmNodeFin i true]) /\
  exists n, get_node i (w_nodes w) = Some n /\ node_gate w (instant w es) i (n_ready n).
Proof.
  intros w i f es r j H Hin. unfold node_reconcile in H.
  destruct (get_node i (w_nodes w)) as [n|] eqn:G; [|inversion H; subst; contradiction].
  pose proof (get_node_id _ _ _ G) as Hid. subst i.
  destruct (node_reconcile_at_rm _ _ _ _ _ _ H Hin) as (Hj & Hp & m & Gm & Hg).
  rewrite G in Gm. inversion Gm; subst m.
  split; [exact Hj|]. split; [exact Hp|]. exists n. split; [reflexivity|exact (Hg (older_node_refl n))].
Qed.

(* the node finalizer is removed only by a reconcile of that node, as its last write, and only if ... *)
Lemma node_finalizer_removed_only_if_l : forall w i f es r j,
  node_reconcile w i f = (es, r) -> In (ERmNodeFin j true) es ->
  j = i /\ (exists pre, es = pre ++ [ERmNodeFin i true]) /\
  (node_has_claim w -> node_fin_ok w (instant w es) i).
Proof.
  intros w i f es r j H Hin. destruct (node_reconcile_rm _ _ _ _ _ _ H Hin) as (Hj & Hp & n & G & Hg).
  split; [exact Hj|]. split; [exact Hp|]. intros Hc. apply (node_gate_claim _ _ _ _ Hg); [|exact Hc].
  intros m Gm. rewrite G in Gm. inversion Gm. reflexivity.
Qed.

(* without a NodeClaim: cordoned, drained, attachments gone (or the not-ready shortcut) *)
Lemma node_finalizer_claimless_l : forall w i f es r j,
  node_reconcile w i f = (es, r) -> In (ERmNodeFin j true) es ->
  exists n, get_node i (w_nodes (instant w es)) = Some n /\
    ((n_taint n = true /\
      (forall p, In p (w_pods (instant w es)) -> p_node p = i -> can_drain p -> stuck_terminating (w_now (instant w es)) p) /\
      ((forall v, In v (w_vas (instant w es)) -> ~ va_blocks (instant w es) i v) \/ tgp_expired w (instant w es)))
     \/ (n_ready n = false /\ inst_absent (w_inst (instant w es)) = true)).
Proof.
  intros w i f es r j H Hin. destruct (node_reconcile_rm _ _ _ _ _ _ H Hin) as (_ & _ & n0 & G0 & n & G & (m & Gm & Hr) & Hg).
  rewrite G0 in Gm. inversion Gm; subst m.
  exists n. split; [exact G|]. destruct Hg as [(Ht & Hd & Hv & _)|[Hs Hi]]; [left|right; rewrite Hr; auto].
  split; [exact Ht|]. split; [apply drain_done_spec; exact Hd|].
  destruct Hv as [Hv|Hv]; [left; apply pending_none_spec; exact Hv | right; apply tgp_expired_spec; exact Hv].
Qed.

(* the same when the reconcile is handed ANY older version of the node: only "not Ready" is then the older
   version's word *)
Lemma node_finalizer_stale_read_l : forall w old m f es r j,
  get_node (n_id old) (w_nodes w) = Some m -> older_node old m = true ->
  node_reconcile_at w old f = (es, r) -> In (ERmNodeFin j true) es ->
  j = n_id old /\ (exists pre, es = pre ++ [ERmNodeFin (n_id old) true]) /\
  (node_has_claim w -> node_fin_ok_seen w (instant w es) (n_id old) (n_ready old)).
Proof.
  intros w old m f es r j G Hold H Hin.
  destruct (node_reconcile_at_rm _ _ _ _ _ _ H Hin) as (Hj & Hp & m' & Gm & Hg).
  rewrite G in Gm. inversion Gm; subst m'.
  split; [exact Hj|]. split; [exact Hp|]. intros Hc. exact (node_gate_seen _ _ _ _ (Hg Hold) Hc).
Qed.

(* ... and that weakening is real: a node that was NotReady in the cached version and is Ready now loses its
   finalizer by the shortcut although it is neither cordoned nor drained *)
Lemma stale_not_ready_witness_l :
  let w := W 1000 [N 0 true true true false false true] (Some (C true true (Some 990) true true None ANone DNone VNone false)) None
             [P 0 0 false false false None []] [] IGone false in
  let old := N 0 true true true false false false in
  older_node old (N 0 true true true false false true) = true /\
  node_reconcile_at w old None = ([EProvGet PNotFound; ERmNodeFin 0 true], ROk) /\
  node_fin_ok_b w (instant w [EProvGet PNotFound; ERmNodeFin 0 true]) 0 = false.
Proof. vm_compute. repeat split; reflexivity. Qed.

(* ------------------------------------------------------------------ NodeClaim lifecycle: the finalizer *)

(* the claim object up to the fields that no claim_safe write changes *)
Definition claim_sim (a b : option claim) : Prop :=
  match a, b with
  | Some x, Some y => c_registered x = c_registered y /\ c_pid x = c_pid y /\ c_del x = c_del y /\ c_fin x = c_fin y
  | None, None => True
  | _, _ => False
  end.

Lemma claim_sim_refl : forall a, claim_sim a a.
Proof. intros [c|]; simpl; auto. Qed.

Lemma claim_sim_trans : forall a b c, claim_sim a b -> claim_sim b c -> claim_sim a c.
Proof.
  intros [a|] [b|] [c|]; simpl; try tauto. intros (h1 & h2 & h3 & h4) (g1 & g2 & g3 & g4).
  repeat split; congruence.
Qed.

Lemma apply_eff_claim : forall e w, claim_safe e = true -> claim_sim (w_claim w) (w_claim (apply_eff w e)).
Proof.
  intros e w H. destruct e as [ok|a|i ok|a|ok d v t|i ok|ok t|i ok|ok|ok|ok|ok|ok|ok d v t]; simpl in *;
    try destruct ok; try destruct a; simpl in *; try discriminate; try apply claim_sim_refl;
    try (match goal with |- context[upd_node ?i ?g w] => destruct (upd_node_frame i g w) as (_&_&_&_&X&_); rewrite X; apply claim_sim_refl end; fail);
    unfold upd_claim; simpl; destruct (w_claim w); simpl; auto.
Qed.

Lemma apply_effs_claim : forall es w, forallb claim_safe es = true -> claim_sim (w_claim w) (w_claim (apply_effs w es)).
Proof.
  induction es as [|e es IH]; intros w H; simpl in *; [apply claim_sim_refl|].
  apply andb_prop in H. destruct H as [H1 H2]. unfold apply_effs in *. simpl.
  eapply claim_sim_trans; [apply apply_eff_claim; exact H1 | apply IH; exact H2].
Qed.

Lemma rm_claim_fin_shape : forall lk f e r, rm_claim_fin lk f = (e, r) ->
  (e = [ERmClaimFin true] /\ lk = None) \/ e = [ERmClaimFin false].
Proof.
  intros lk f e r H. unfold rm_claim_fin, lfails in H.
  destruct (fails f SRmClaimFin) as [[| |]|]; try (inversion H; auto; fail).
  destruct lk as [[| |]|]; inversion H; auto.
Qed.

Definition no_rm (e : eff) : bool := match e with ERmClaimFin true => false | _ => true end.

Lemma in_no_rm : forall es, forallb no_rm es = true -> ~ In (ERmClaimFin true) es.
Proof. intros es H Hin. rewrite forallb_forall in H. specialize (H _ Hin). discriminate. Qed.

Lemma delete_nodes_no_rm : forall f ns, forallb no_rm (fst (delete_nodes f ns)) = true.
Proof.
  intros f ns. induction ns as [|n ns IH]; simpl; [reflexivity|].
  destruct (n_del n); [exact IH|].
  destruct (fails f (SDelNode (n_id n))) as [[| |]|]; try reflexivity;
    destruct (delete_nodes f ns) as [e b]; simpl in *; exact IH.
Qed.

(* all four frame properties of a list of writes at once *)
Definition quiet (e : eff) : bool := claim_safe e && inst_safe e && node_safe e && no_rm e.

Lemma quiet_forall : forall es, forallb quiet es = true ->
  forallb claim_safe es = true /\ forallb inst_safe es = true /\ forallb node_safe es = true /\ forallb no_rm es = true.
Proof.
  induction es as [|e es IH]; simpl; auto. intros H. apply andb_prop in H. destruct H as [H1 H2].
  destruct (IH H2) as (a & b & c & d). unfold quiet in H1.
  apply andb_prop in H1. destruct H1 as [H1 h4]. apply andb_prop in H1. destruct H1 as [H1 h3].
  apply andb_prop in H1. destruct H1 as [h1 h2]. rewrite h1, h2, h3, h4, a, b, c, d. auto.
Qed.

(* split a membership hypothesis over appends and conses, discarding the elements that differ *)
Ltac splitin H :=
  repeat (cbn [app] in H;
          match type of H with
          | In _ (_ ++ _) => apply in_app_or in H; destruct H as [H|H]
          | In _ (_ :: _) => destruct H as [H|H]; [discriminate|]
          | In _ [] => contradiction
          | _ \/ _ => destruct H as [H|H]; [discriminate|]
          | False => contradiction
          end).

Lemma claim_finalize_rm : forall w c tdel lk f es r,
  claim_finalize w c tdel lk f = (es, r) -> In (ERmClaimFin true) es ->
  lk = None /\ exists pre, es = pre ++ [ERmClaimFin true] /\ forallb quiet pre = true /\
    (c_registered c = true -> claim_nodes w c = []) /\
    (c_pid c = true -> inst_absent (w_inst w) = true).
Proof.
  intros w c tdel lk f es r H Hin. unfold claim_finalize in H. cbv zeta in H.
  destruct (negb (c_fin c)); [inversion H; subst; contradiction|].
  match type of H with context[match c_annot c with _ => _ end] => idtac end.
  set (A := match c_annot c, c_tgp c with
            | ANone, Some g =>
                match lfails lk f SAnnot with
                | Some KNotFound => ([EAnnot false (tdel + g)], None)
                | Some KConflict => ([EAnnot false (tdel + g)], Some RRequeue)
                | Some KServer => ([EAnnot false (tdel + g)], Some RErr)
                | None => ([EAnnot true (tdel + g)], None)
                end
            | _, _ => ([], None)
            end) in H.
  assert (HA : forallb quiet (fst A) = true).
  { unfold A. destruct (c_annot c); try reflexivity. destruct (c_tgp c); try reflexivity.
    destruct (lfails lk f SAnnot) as [[| |]|]; reflexivity. }
  destruct A as [e1 stop1]. simpl in HA.
  destruct stop1; [inversion H; subst; exfalso; apply (in_no_rm es); [apply quiet_forall; exact HA | exact Hin]|].
  set (B := if c_registered c
            then match fails f SListNodes with
                 | Some _ => ([], Some RErr)
                 | None =>
                     let ns := claim_nodes w c in
                     let '(e, hard) := delete_nodes f ns in
                     if hard then (e, Some RErr) else match ns with [] => (e, None) | _ => (e, Some ROk) end
                 end
            else ([], None)) in H.
  assert (HB : forallb no_rm (fst B) = true /\ (snd B = None -> fst B = [] /\ (c_registered c = true -> claim_nodes w c = []))).
  { unfold B. destruct (c_registered c); [|simpl; split; auto; intros _; split; auto; discriminate].
    destruct (fails f SListNodes); [simpl; split; auto; discriminate|]. cbv zeta.
    pose proof (delete_nodes_no_rm f (claim_nodes w c)) as Hd.
    destruct (delete_nodes f (claim_nodes w c)) as [e hard] eqn:Ed. simpl in Hd.
    destruct hard; [simpl; split; auto; discriminate|].
    destruct (claim_nodes w c) eqn:En; simpl; split; auto; try discriminate.
    intros _. simpl in Ed. inversion Ed. auto. }
  destruct B as [e2 stop2]. simpl in HB. destruct HB as [HB1 HB2].
  assert (H12 : forallb no_rm (e1 ++ e2) = true).
  { rewrite forallb_app, HB1. destruct (quiet_forall _ HA) as (_ & _ & _ & X). rewrite X. reflexivity. }
  destruct stop2; [inversion H; subst; exfalso; eapply in_no_rm; eauto|].
  destruct (HB2 eq_refl) as [-> Hreg]. rewrite app_nil_r in *.
  assert (N1 : forallb no_rm e1 = true) by exact H12.
  destruct (c_pid c) eqn:Epid.
  - destruct (fails f SProvDelete).
    { inversion H; subst. exfalso. splitin Hin; exact (in_no_rm _ N1 Hin). }
    cbv zeta in H.
    set (E := if c_term c then ([], None)
              else match lfails lk f SPatchStatus with
                   | Some KNotFound => ([EStatus false (c_drained c) (c_vol c) true], Some ROk)
                   | Some KConflict => ([EStatus false (c_drained c) (c_vol c) true], Some RRequeue)
                   | Some KServer => ([EStatus false (c_drained c) (c_vol c) true], Some RErr)
                   | None => ([EStatus true (c_drained c) (c_vol c) true], None)
                   end) in H.
    assert (HE : forallb quiet (fst E) = true).
    { unfold E. destruct (c_term c); [reflexivity|]. destruct (lfails lk f SPatchStatus) as [[| |]|]; reflexivity. }
    destruct E as [e3 stop3]. simpl in HE.
    assert (N3 : forallb no_rm e3 = true) by (apply quiet_forall; exact HE).
    assert (Hq : forallb quiet ((e1 ++ [EProvDelete PNotFound]) ++ e3) = true).
    { rewrite !forallb_app, HA, HE. reflexivity. }
    destruct stop3.
    { inversion H; subst. exfalso. splitin Hin; [exact (in_no_rm _ N1 Hin) | exact (in_no_rm _ N3 Hin)]. }
    destruct (fst (prov_delete (w_inst w))) eqn:Epd.
    + inversion H; subst. exfalso. splitin Hin; [exact (in_no_rm _ N1 Hin) | exact (in_no_rm _ N3 Hin)].
    + destruct (rm_claim_fin lk f) as [e r'] eqn:Erm. inversion H; subst. clear H.
      apply rm_claim_fin_shape in Erm.
      destruct Erm as [[-> Hlk] | ->];
        [|exfalso; splitin Hin; [exact (in_no_rm _ N1 Hin) | exact (in_no_rm _ N3 Hin)]].
      split; [exact Hlk|].
      exists ((e1 ++ [EProvDelete PNotFound]) ++ e3). split; [simpl; rewrite <- !app_assoc; reflexivity|].
      split; [exact Hq|]. split; [exact Hreg|]. intros _.
      destruct (w_inst w); simpl in *; try discriminate; reflexivity.
    + inversion H; subst. exfalso. splitin Hin; [exact (in_no_rm _ N1 Hin) | exact (in_no_rm _ N3 Hin)].
  - destruct (rm_claim_fin lk f) as [e r'] eqn:Erm. inversion H; subst. clear H.
    apply rm_claim_fin_shape in Erm.
    destruct Erm as [[-> Hlk] | ->]; [|exfalso; splitin Hin; exact (in_no_rm _ N1 Hin)].
    split; [exact Hlk|]. exists e1. split; [reflexivity|].
    split; [exact HA|]. split; [exact Hreg|]. discriminate.
Qed.

Lemma claim_launch_no_rm : forall w c f es r k, claim_launch w c f = (es, r, k) -> forallb no_rm es = true.
Proof.
  intros w c f es r k H. unfold claim_launch in H. cbv zeta in H.
  destruct (c_fin c); [|destruct (fails f SAddFin) as [[| |]|]]; simpl in H;
    try (inversion H; reflexivity);
    (destruct (c_pid c); [inversion H; reflexivity|]);
    (destruct (w_cache w); simpl in H;
      [|destruct (fails f SProvCreate) as [[| |]|]; simpl in H; try (inversion H; reflexivity)]);
    destruct (fails f SPatchMeta) as [[| |]|]; destruct (fails f SPatchStatusL) as [[| |]|]; inversion H; reflexivity.
Qed.

Lemma claim_reconcile_rm : forall w f es r k,
  claim_reconcile w f = (es, r, k) -> In (ERmClaimFin true) es ->
  exists c t pre, w_claim w = Some c /\ c_del c = Some t /\ es = pre ++ [ERmClaimFin true] /\
    forallb quiet pre = true /\
    (c_registered c = true -> claim_nodes w c = []) /\
    (c_pid c = true -> inst_absent (w_inst w) = true).
Proof.
  intros w f es r k H Hin. unfold claim_reconcile in H.
  destruct (w_claim w) as [c|] eqn:Ec; [|inversion H; subst; contradiction].
  destruct (negb (c_managed c)); [inversion H; subst; contradiction|].
  destruct (c_del c) as [t|] eqn:Ed.
  - destruct (claim_finalize w c t None f) as [e r'] eqn:Ef. inversion H; subst. clear H.
    destruct (claim_finalize_rm _ _ _ _ _ _ _ Ef Hin) as (_ & pre & Hes & Hq & Hr & Hp).
    exists c, t, pre. repeat split; auto.
  - exfalso. apply (in_no_rm es); [eapply claim_launch_no_rm; exact H | exact Hin].
Qed.

Lemma claim_instant : forall w c pre, w_claim w = Some c -> forallb quiet pre = true ->
  exists c', w_claim (apply_effs w pre) = Some c' /\
    c_registered c' = c_registered c /\ c_pid c' = c_pid c /\ c_del c' = c_del c /\ c_fin c' = c_fin c /\
    w_nodes (apply_effs w pre) = w_nodes w /\ w_inst (apply_effs w pre) = w_inst w.
Proof.
  intros w c pre Hc Hq. destruct (quiet_forall _ Hq) as (Q1 & Q2 & Q3 & _).
  pose proof (apply_effs_claim pre w Q1) as Hs. rewrite Hc in Hs.
  destruct (w_claim (apply_effs w pre)) as [c'|]; simpl in Hs; [|contradiction].
  destruct Hs as (a & b & d & e). exists c'. repeat split; auto.
  - apply apply_effs_nodes. exact Q3.
  - apply apply_effs_inst. exact Q2.
Qed.

(* the NodeClaim finalizer comes off only as the last write of a finalize, after the Nodes are gone if the claim
   registered, and — when the claim recorded a provider id — after the provider answered NotFound *)
Lemma claim_finalizer_nodes_gone_l : forall w f es r k,
  claim_reconcile w f = (es, r, k) -> In (ERmClaimFin true) es ->
  (exists pre, es = pre ++ [ERmClaimFin true]) /\
  claim_nodes_gone (instant w es) /\
  (exists c, w_claim w = Some c /\ (c_pid c = true -> inst_absent (w_inst (instant w es)) = true)).
Proof.
  intros w f es r k H Hin.
  destruct (claim_reconcile_rm _ _ _ _ _ H Hin) as (c & t & pre & Hc & Hd & Hes & Hq & Hr & Hp).
  subst es. rewrite instant_last.
  destruct (claim_instant _ _ _ Hc Hq) as (c' & Hc' & e1 & e2 & e3 & e4 & Hn & Hi).
  split; [exists pre; reflexivity|]. split.
  - exists c'. split; [exact Hc'|]. intros Hreg. unfold claim_nodes in *. rewrite e2, Hn. apply Hr. congruence.
  - exists c. split; [exact Hc|]. intros Hpid. rewrite Hi. exact (Hp Hpid).
Qed.

(* FINDING: Create succeeded, the status patch that records the provider id failed, the claim is deleted before the
   next reconcile: finalize sees an empty provider id, skips the provider and removes the finalizer. *)
Definition leak_w0 : world :=
  W 1000 [] (Some (C true false None false false None ANone DNone VNone false)) None [] [] INone false.
Definition leak_ops : list op := [RClaim (Some (SPatchStatusL, KServer)); EnvDelClaim].

Lemma claim_finalizer_removed_only_if_refuted_l :
  accounted leak_w0 /\ finalizer_before_launch leak_w0 /\
  let w := run leak_w0 leak_ops in
  exists es r k, claim_reconcile w None = (es, r, k) /\ In (ERmClaimFin true) es /\ ~ claim_fin_ok (instant w es).
Proof.
  split; [reflexivity|]. split; [reflexivity|]. cbv zeta.
  exists [ERmClaimFin true], ROk, true. split; [vm_compute; reflexivity|]. split; [left; reflexivity|].
  intros H. apply claim_fin_ok_b_spec in H. vm_compute in H. discriminate.
Qed.

(* ------------------------------------------------------------------ no orphan: the invariant over histories *)

Definition plain (e : eff) : bool :=
  match e with ERmClaimFin true | EProvCreate true | EPersist true => false | _ => true end.
Definition no_create (e : eff) : bool :=
  match e with EProvCreate true | EPersist true => false | _ => true end.

Lemma quiet_plain : forall es, forallb quiet es = true -> forallb plain es = true.
Proof.
  induction es as [|e es IH]; simpl; auto. intros H. apply andb_prop in H. destruct H as [H1 H2].
  rewrite (IH H2), andb_true_r. unfold quiet in H1. destruct e as [ok|a|i ok|a|ok d v t|i ok|ok t|i ok|ok|ok|ok|ok|ok|ok d v t];
    try destruct ok; try destruct a; simpl in *; auto.
Qed.

Lemma no_create_no_rm_plain : forall es, forallb no_create es = true -> forallb no_rm es = true -> forallb plain es = true.
Proof.
  induction es as [|e es IH]; simpl; auto. intros H1 H2.
  apply andb_prop in H1. destruct H1 as [a1 a2]. apply andb_prop in H2. destruct H2 as [b1 b2].
  rewrite (IH a2 b2), andb_true_r. destruct e as [ok|a|i ok|a|ok d v t|i ok|ok t|i ok|ok|ok|ok|ok|ok|ok d v t];
    try destruct ok; try destruct a; simpl in *; auto.
Qed.

Lemma not_no_rm_in : forall es, forallb no_rm es = false -> In (ERmClaimFin true) es.
Proof.
  induction es as [|e es IH]; simpl; [discriminate|]. intros H. apply andb_false_iff in H. destruct H as [H|H].
  - left. destruct e as [ok|a|i ok|a|ok d v t|i ok|ok t|i ok|ok|ok|ok|ok|ok|ok d v t]; try destruct ok; simpl in H; try discriminate. reflexivity.
  - right. apply IH. exact H.
Qed.

(* the node controller never creates instances, persists provider ids or touches the claim finalizer *)
Lemma await_drain_plain : forall hc i w f dl cs, forallb plain (a_effs (await_drain hc i w f dl cs)) = true.
Proof.
  intros hc i w f dl [[d v] t]. unfold await_drain. cbv zeta.
  destruct (fails f SListPods); [reflexivity|]. destruct (negb (drain_done i w)); [reflexivity|].
  destruct (min_drain_wait hc (w_now w) _); [reflexivity|].
  unfold await_volumes. destruct (fails f SListVAs); [reflexivity|]. destruct (va_lookup_err i w f); [reflexivity|].
  assert (X : forall cs', forallb plain (a_effs (await_instance hc f cs' (w_inst w))) = true).
  { intros [[d' v'] t']. unfold await_instance. destruct hc; simpl; [|reflexivity].
    destruct (fails f SProvDelete); [reflexivity|]. destruct (w_inst w); reflexivity. }
  destruct (filter _ _); [apply X|]. destruct (elapsed (w_now w) dl); [apply X|reflexivity].
Qed.

Lemma rm_node_fin_plain : forall i cur f, forallb plain (fst (rm_node_fin i cur f)) = true.
Proof. intros i cur f. unfold rm_node_fin. destruct (fails f SRmNodeFin) as [[| |]|]; try reflexivity. destruct cur; reflexivity. Qed.

Lemma node_tail_plain : forall w i cur f oc tw dl cgone stale, forallb plain (fst (node_tail w i cur f oc tw dl cgone stale)) = true.
Proof.
  intros w i cur f oc tw dl cgone stale. unfold node_tail. cbv zeta.
  match goal with |- context[await_drain ?hc i w f dl ?cs] =>
    pose proof (await_drain_plain hc i w f dl cs) as Ha; set (a := await_drain hc i w f dl cs) in * end.
  match goal with |- context[let '(e4, stop4) := ?X in _] =>
    assert (H4 : forallb plain (fst X) = true);
      [destruct (is_some oc && negb _); [|reflexivity];
       destruct (a_conds a) as [[d v] t]; destruct tw; destruct (status_patch_ans f cgone stale); reflexivity
      | destruct X as [e4 stop4]] end.
  simpl in H4. destruct stop4; simpl; [rewrite forallb_app, Ha, H4; reflexivity|].
  destruct (a_res a); simpl; try (rewrite forallb_app, Ha, H4; reflexivity).
  pose proof (rm_node_fin_plain i cur f) as Hr. destruct (rm_node_fin i cur f) as [e r]. simpl in *.
  rewrite !forallb_app, Ha, H4, Hr. reflexivity.
Qed.

Lemma node_reconcile_at_plain : forall w n f, forallb plain (fst (node_reconcile_at w n f)) = true.
Proof.
  intros w n f. unfold node_reconcile_at.
  destruct (n_del n && n_fin n && n_managed n); [|reflexivity].
  unfold node_finalize. cbv zeta. destruct (fails f SListClaims); [reflexivity|].
  assert (H1 : forallb plain (fst (fst (fst (del_claim_step (visible_claim w) (on_twin w) f)))) = true).
  { unfold del_claim_step. destruct (visible_claim w) as [c|]; [|reflexivity].
    destruct (is_some (c_del c)); [reflexivity|]. destruct (on_twin w); destruct (fails f SDelClaim) as [[| |]|]; reflexivity. }
  destruct (del_claim_step (visible_claim w) (on_twin w) f) as [[[e1 stop1] stale] cgone]. simpl in H1.
  destruct stop1; [exact H1|].
  assert (H2 : forallb plain (fst (not_ready_step n (w_inst w) f)) = true).
  { unfold not_ready_step. destruct (n_ready n); [reflexivity|]. destruct (fails f SProvGet); [reflexivity|].
    destruct (prov_get (w_inst w)); reflexivity. }
  destruct (not_ready_step n (w_inst w) f) as [e2 short]. simpl in H2.
  destruct short as [[|]|].
  - pose proof (rm_node_fin_plain (n_id n) (get_node (n_id n) (w_nodes w)) f) as Hr. destruct (rm_node_fin (n_id n) (get_node (n_id n) (w_nodes w)) f) as [e r]. simpl in *.
    rewrite !forallb_app, H1, H2, Hr. reflexivity.
  - simpl. rewrite forallb_app, H1, H2. reflexivity.
  - destruct (term_time (visible_claim w)) as [dl|]; [|simpl; rewrite forallb_app, H1, H2; reflexivity].
    assert (H3 : forallb plain (fst (taint_step n (get_node (n_id n) (w_nodes w)) f)) = true).
    { unfold taint_step. destruct (n_taint n && n_lbl n); [reflexivity|]. destruct (fails f STaint) as [[| |]|]; try reflexivity.
      destruct (get_node (n_id n) (w_nodes w)) as [m|]; [|reflexivity]. destruct (node_eqb n m); reflexivity. }
    destruct (taint_step n (get_node (n_id n) (w_nodes w)) f) as [e3 stop3]. simpl in H3.
    destruct stop3; [simpl; rewrite !forallb_app, H1, H2, H3; reflexivity|].
    pose proof (node_tail_plain w (n_id n) (get_node (n_id n) (w_nodes w)) f (visible_claim w) (on_twin w) dl cgone stale) as Ht.
    destruct (node_tail w (n_id n) (get_node (n_id n) (w_nodes w)) f (visible_claim w) (on_twin w) dl cgone stale) as [et r]. simpl in *.
    rewrite !forallb_app, H1, H2, H3, Ht. reflexivity.
Qed.

Lemma node_reconcile_plain : forall w i f, forallb plain (fst (node_reconcile w i f)) = true.
Proof.
  intros w i f. unfold node_reconcile. destruct (get_node i (w_nodes w)) as [n|]; [|reflexivity].
  apply node_reconcile_at_plain.
Qed.

Lemma delete_nodes_no_create : forall f ns, forallb no_create (fst (delete_nodes f ns)) = true.
Proof.
  intros f ns. induction ns as [|n ns IH]; simpl; [reflexivity|].
  destruct (n_del n); [exact IH|].
  destruct (fails f (SDelNode (n_id n))) as [[| |]|]; try reflexivity;
    destruct (delete_nodes f ns) as [e b]; simpl in *; exact IH.
Qed.

Lemma claim_finalize_no_create : forall w c t lk f, forallb no_create (fst (claim_finalize w c t lk f)) = true.
Proof.
  intros w c t lk f. unfold claim_finalize. cbv zeta. destruct (negb (c_fin c)); [reflexivity|].
  assert (HA : forall X : list eff * option res,
    X = (match c_annot c, c_tgp c with
         | ANone, Some g =>
             match lfails lk f SAnnot with
             | Some KNotFound => ([EAnnot false (t + g)], None)
             | Some KConflict => ([EAnnot false (t + g)], Some RRequeue)
             | Some KServer => ([EAnnot false (t + g)], Some RErr)
             | None => ([EAnnot true (t + g)], None)
             end
         | _, _ => ([], None)
         end) -> forallb no_create (fst X) = true).
  { intros X ->. destruct (c_annot c); try reflexivity. destruct (c_tgp c); try reflexivity.
    destruct (lfails lk f SAnnot) as [[| |]|]; reflexivity. }
  match goal with |- context[let '(e1, stop1) := ?X in _] => specialize (HA X eq_refl); destruct X as [e1 stop1] end.
  simpl in HA. destruct stop1; [exact HA|].
  assert (HB : forall X : list eff * option res,
    X = (if c_registered c
         then match fails f SListNodes with
              | Some _ => ([], Some RErr)
              | None =>
                  let ns := claim_nodes w c in
                  let '(e, hard) := delete_nodes f ns in
                  if hard then (e, Some RErr) else match ns with [] => (e, None) | _ => (e, Some ROk) end
              end
         else ([], None)) -> forallb no_create (fst X) = true).
  { intros X ->. destruct (c_registered c); [|reflexivity]. destruct (fails f SListNodes); [reflexivity|]. cbv zeta.
    pose proof (delete_nodes_no_create f (claim_nodes w c)) as Hd.
    destruct (delete_nodes f (claim_nodes w c)) as [e hard]. simpl in Hd.
    destruct hard; [exact Hd|]. destruct (claim_nodes w c); exact Hd. }
  match goal with |- context[let '(e2, stop2) := ?X in _] => specialize (HB X eq_refl); destruct X as [e2 stop2] end.
  simpl in HB. destruct stop2; [simpl; rewrite forallb_app, HA, HB; reflexivity|].
  pose proof (fun X => proj1 (forallb_forall no_create (fst (rm_claim_fin lk f))) X) as _.
  assert (HR : forallb no_create (fst (rm_claim_fin lk f)) = true).
  { unfold rm_claim_fin. destruct (lfails lk f SRmClaimFin) as [[| |]|]; reflexivity. }
  destruct (c_pid c).
  - destruct (fails f SProvDelete); [simpl; rewrite !forallb_app, HA, HB; reflexivity|].
    assert (HE : forall X : list eff * option res,
      X = (if c_term c then ([], None)
           else match lfails lk f SPatchStatus with
                | Some KNotFound => ([EStatus false (c_drained c) (c_vol c) true], Some ROk)
                | Some KConflict => ([EStatus false (c_drained c) (c_vol c) true], Some RRequeue)
                | Some KServer => ([EStatus false (c_drained c) (c_vol c) true], Some RErr)
                | None => ([EStatus true (c_drained c) (c_vol c) true], None)
                end) -> forallb no_create (fst X) = true).
    { intros X ->. destruct (c_term c); [reflexivity|]. destruct (lfails lk f SPatchStatus) as [[| |]|]; reflexivity. }
    match goal with |- context[let '(e3, stop3) := ?X in _] => specialize (HE X eq_refl); destruct X as [e3 stop3] end.
    simpl in HE.
    assert (HP : forallb no_create [EProvDelete (fst (prov_delete (w_inst w)))] = true) by (destruct (w_inst w); reflexivity).
    destruct stop3; [simpl fst; rewrite !forallb_app, HA, HB, HP, HE; reflexivity|].
    destruct (fst (prov_delete (w_inst w))) eqn:Ep; try (simpl fst; rewrite !forallb_app, HA, HB, HE; reflexivity).
    destruct (rm_claim_fin lk f) as [e r]. simpl in *. rewrite !forallb_app, HA, HB, HE, HR. reflexivity.
  - destruct (rm_claim_fin lk f) as [e r]. simpl in *. rewrite !forallb_app, HA, HB, HR. reflexivity.
Qed.

Lemma run_snoc : forall w ops o, run w (ops ++ [o]) = fst (step (run w ops) o).
Proof. intros. unfold run. rewrite fold_left_app. reflexivity. Qed.

Lemma no_orphan_refuted_l :
  accounted leak_w0 /\
  orphaned (run leak_w0 leak_ops) (run leak_w0 (leak_ops ++ [RClaim None])) = true.
Proof. split; vm_compute; reflexivity. Qed.

(* non-vacuity: a complete happy path — both finalizers come off, in order, and the instance is gone *)
Definition happy_w0 : world :=
  W 1000 [N 0 true true false false false true]
    (Some (C true true None true true (Some 30) ANone DNone VNone false)) None
    [P 0 0 false false false None [1]] [V 0 0 (Some 1)] IRunning false.
Definition happy_ops : list op :=
  [EnvDelClaim; RClaim None; RNode 0 None; EnvPodTerm 0; EnvTick 5; RNode 0 None; EnvPodGone 0; RNode 0 None;
   EnvVAGone 0; RNode 0 None; EnvInstGone; RNode 0 None; RClaim None].

Lemma happy_path :
  accounted happy_w0 /\
  w_nodes (run happy_w0 happy_ops) = [] /\ w_claim (run happy_w0 happy_ops) = None /\
  w_inst (run happy_w0 happy_ops) = IGone /\
  snd (step (run happy_w0 (firstn 11 happy_ops)) (RNode 0 None)) = ([EProvDelete PNotFound; ERmNodeFin 0 true], ROk) /\
  snd (step (run happy_w0 (firstn 12 happy_ops)) (RClaim None)) = ([EProvDelete PNotFound; ERmClaimFin true], ROk).
Proof. vm_compute. repeat split; reflexivity. Qed.

(* ------------------------------------------------------------------ nothing else removes the finalizers *)

Definition node_has_fin (i : Z) (w : world) : bool :=
  match get_node i (w_nodes w) with Some n => n_fin n | None => false end.
Definition claim_has_fin (w : world) : bool :=
  match w_claim w with Some c => c_fin c | None => false end.

Lemma get_set_node_other : forall i n' ns, n_id n' <> i -> get_node i (set_node n' ns) = get_node i ns.
Proof.
  intros i n' ns H. unfold get_node, set_node. induction ns as [|m ns IH]; simpl; [reflexivity|].
  destruct (n_id m =? n_id n') eqn:E.
  - apply Z.eqb_eq in E. assert (X : (n_id n' =? i) = false) by (apply Z.eqb_neq; exact H).
    rewrite X. rewrite E. rewrite X. exact IH.
  - destruct (n_id m =? i); [reflexivity|exact IH].
Qed.

Lemma get_del_node_other : forall i j ns, j <> i -> get_node i (del_node j ns) = get_node i ns.
Proof.
  intros i j ns H. unfold get_node, del_node. induction ns as [|m ns IH]; simpl; [reflexivity|].
  destruct (n_id m =? j) eqn:E; simpl.
  - apply Z.eqb_eq in E. assert (X : (n_id m =? i) = false) by (apply Z.eqb_neq; congruence). rewrite X. exact IH.
  - destruct (n_id m =? i); [reflexivity|exact IH].
Qed.

(* an id-preserving update of node [j] that keeps the finalizer of a node that has it *)
Lemma upd_node_fin : forall i j g w,
  (forall n n', g n = Some n' -> n_id n' = n_id n) ->
  (forall n, n_fin n = true -> exists n', g n = Some n' /\ n_fin n' = true) ->
  node_has_fin i w = true -> node_has_fin i (upd_node j g w) = true.
Proof.
  intros i j g w Hid Hg H. unfold upd_node. destruct (get_node j (w_nodes w)) as [n|] eqn:Gj; [|exact H].
  pose proof (get_node_id _ _ _ Gj) as Hj.
  destruct (Z.eq_dec j i) as [->|Hne].
  - unfold node_has_fin in H. rewrite Gj in H. destruct (Hg n H) as (n' & E & Hf). rewrite E.
    unfold node_has_fin, upd_nodes. simpl. rewrite (get_set_node i _ n n' Gj) by (rewrite (Hid _ _ E); exact Hj). exact Hf.
  - destruct (g n) as [n'|] eqn:E; unfold node_has_fin, upd_nodes in *; simpl.
    + rewrite get_set_node_other; [exact H|]. rewrite (Hid _ _ E). congruence.
    + rewrite get_del_node_other; [exact H|exact Hne].
Qed.

Definition nfin_safe (i : Z) (e : eff) : bool :=
  match e with ERmNodeFin j true => negb (j =? i) | _ => true end.

Lemma apply_eff_node_fin : forall i e w, nfin_safe i e = true -> node_has_fin i w = true ->
  node_has_fin i (apply_eff w e) = true.
Proof.
  intros i e w Hs H.
  assert (Hc : forall g, node_has_fin i (upd_claim g w) = node_has_fin i w) by (intros g; reflexivity).
  destruct e as [ok|a|j ok|a|ok d v t|j ok|ok t|j ok|ok|ok|ok|ok|ok|ok d v t]; simpl in *;
    try destruct ok; try destruct a; simpl in *; try exact H; try (rewrite Hc; exact H).
  - apply upd_node_fin; [intros n n' E; inversion E; reflexivity | intros n Hf; eexists; split; [reflexivity|exact Hf] | exact H].
  - (* the finalizer of another node *)
    rewrite negb_true_iff in Hs. apply Z.eqb_neq in Hs.
    unfold upd_node. destruct (get_node j (w_nodes w)) as [n|] eqn:Gj; [|exact H].
    pose proof (get_node_id _ _ _ Gj) as Hj. unfold node_has_fin, upd_nodes in *.
    destruct (n_del n); simpl.
    + rewrite get_del_node_other; [exact H|exact Hs].
    + rewrite get_set_node_other; [exact H|simpl; congruence].
  - apply upd_node_fin; [| | exact H].
    + intros n n' E. unfold api_delete_node in E. destruct (n_del n); [inversion E; reflexivity|].
      destruct (n_fin n); inversion E; reflexivity.
    + intros n Hf. unfold api_delete_node. destruct (n_del n); [eexists; split; [reflexivity|exact Hf]|].
      rewrite Hf. eexists; split; reflexivity.
Qed.

Lemma apply_effs_node_fin : forall i es w, forallb (nfin_safe i) es = true -> node_has_fin i w = true ->
  node_has_fin i (apply_effs w es) = true.
Proof.
  intros i es. induction es as [|e es IH]; intros w Hs H; simpl in *; [exact H|].
  apply andb_prop in Hs. destruct Hs as [H1 H2]. unfold apply_effs in *. simpl.
  apply IH; [exact H2|]. apply apply_eff_node_fin; assumption.
Qed.

Lemma not_nfin_safe_in : forall i es, forallb (nfin_safe i) es = false -> In (ERmNodeFin i true) es.
Proof.
  intros i es. induction es as [|e es IH]; simpl; [discriminate|]. intros H. apply andb_false_iff in H. destruct H as [H|H].
  - left. destruct e as [ok|a|j ok|a|ok d v t|j ok|ok t|j ok|ok|ok|ok|ok|ok|ok d v t]; try destruct ok; simpl in H; try discriminate.
    rewrite negb_false_iff in H. apply Z.eqb_eq in H. subst. reflexivity.
  - right. apply IH. exact H.
Qed.

Definition no_rmnode (e : eff) : bool := match e with ERmNodeFin _ true => false | _ => true end.

Lemma no_rmnode_nfin_safe : forall i es, forallb no_rmnode es = true -> forallb (nfin_safe i) es = true.
Proof.
  intros i es. induction es as [|e es IH]; simpl; auto. intros H. apply andb_prop in H. destruct H as [H1 H2].
  rewrite (IH H2), andb_true_r. destruct e as [ok|a|j ok|a|ok d v t|j ok|ok t|j ok|ok|ok|ok|ok|ok|ok d v t]; try destruct ok; simpl in *; auto; discriminate.
Qed.

Lemma delete_nodes_no_rmnode : forall f ns, forallb no_rmnode (fst (delete_nodes f ns)) = true.
Proof.
  intros f ns. induction ns as [|n ns IH]; simpl; [reflexivity|].
  destruct (n_del n); [exact IH|].
  destruct (fails f (SDelNode (n_id n))) as [[| |]|]; try reflexivity;
    destruct (delete_nodes f ns) as [e b]; simpl in *; exact IH.
Qed.

Lemma claim_finalize_no_rmnode : forall w c t lk f, forallb no_rmnode (fst (claim_finalize w c t lk f)) = true.
Proof.
  intros w c t lk f. unfold claim_finalize. cbv zeta. destruct (negb (c_fin c)); [reflexivity|].
  assert (HA : forall X : list eff * option res,
    X = (match c_annot c, c_tgp c with
         | ANone, Some g =>
             match lfails lk f SAnnot with
             | Some KNotFound => ([EAnnot false (t + g)], None)
             | Some KConflict => ([EAnnot false (t + g)], Some RRequeue)
             | Some KServer => ([EAnnot false (t + g)], Some RErr)
             | None => ([EAnnot true (t + g)], None)
             end
         | _, _ => ([], None)
         end) -> forallb no_rmnode (fst X) = true).
  { intros X ->. destruct (c_annot c); try reflexivity. destruct (c_tgp c); try reflexivity.
    destruct (lfails lk f SAnnot) as [[| |]|]; reflexivity. }
  match goal with |- context[let '(e1, stop1) := ?X in _] => specialize (HA X eq_refl); destruct X as [e1 stop1] end.
  simpl in HA. destruct stop1; [exact HA|].
  assert (HB : forall X : list eff * option res,
    X = (if c_registered c
         then match fails f SListNodes with
              | Some _ => ([], Some RErr)
              | None =>
                  let ns := claim_nodes w c in
                  let '(e, hard) := delete_nodes f ns in
                  if hard then (e, Some RErr) else match ns with [] => (e, None) | _ => (e, Some ROk) end
              end
         else ([], None)) -> forallb no_rmnode (fst X) = true).
  { intros X ->. destruct (c_registered c); [|reflexivity]. destruct (fails f SListNodes); [reflexivity|]. cbv zeta.
    pose proof (delete_nodes_no_rmnode f (claim_nodes w c)) as Hd.
    destruct (delete_nodes f (claim_nodes w c)) as [e hard]. simpl in Hd.
    destruct hard; [exact Hd|]. destruct (claim_nodes w c); exact Hd. }
  match goal with |- context[let '(e2, stop2) := ?X in _] => specialize (HB X eq_refl); destruct X as [e2 stop2] end.
  simpl in HB. destruct stop2; [simpl; rewrite forallb_app, HA, HB; reflexivity|].
  pose proof (fun X => proj1 (forallb_forall no_rmnode (fst (rm_claim_fin lk f))) X) as _.
  assert (HR : forallb no_rmnode (fst (rm_claim_fin lk f)) = true).
  { unfold rm_claim_fin. destruct (lfails lk f SRmClaimFin) as [[| |]|]; reflexivity. }
  destruct (c_pid c).
  - destruct (fails f SProvDelete); [simpl; rewrite !forallb_app, HA, HB; reflexivity|].
    assert (HE : forall X : list eff * option res,
      X = (if c_term c then ([], None)
           else match lfails lk f SPatchStatus with
                | Some KNotFound => ([EStatus false (c_drained c) (c_vol c) true], Some ROk)
                | Some KConflict => ([EStatus false (c_drained c) (c_vol c) true], Some RRequeue)
                | Some KServer => ([EStatus false (c_drained c) (c_vol c) true], Some RErr)
                | None => ([EStatus true (c_drained c) (c_vol c) true], None)
                end) -> forallb no_rmnode (fst X) = true).
    { intros X ->. destruct (c_term c); [reflexivity|]. destruct (lfails lk f SPatchStatus) as [[| |]|]; reflexivity. }
    match goal with |- context[let '(e3, stop3) := ?X in _] => specialize (HE X eq_refl); destruct X as [e3 stop3] end.
    simpl in HE.
    assert (HP : forallb no_rmnode [EProvDelete (fst (prov_delete (w_inst w)))] = true) by (destruct (w_inst w); reflexivity).
    destruct stop3; [simpl fst; rewrite !forallb_app, HA, HB, HP, HE; reflexivity|].
    destruct (fst (prov_delete (w_inst w))) eqn:Ep; try (simpl fst; rewrite !forallb_app, HA, HB, HE; reflexivity).
    destruct (rm_claim_fin lk f) as [e r]. simpl in *. rewrite !forallb_app, HA, HB, HE, HR. reflexivity.
  - destruct (rm_claim_fin lk f) as [e r]. simpl in *. rewrite !forallb_app, HA, HB, HR. reflexivity.
Qed.

Lemma claim_launch_no_rmnode : forall w c f, forallb no_rmnode (fst (fst (claim_launch w c f))) = true.
Proof.
  intros w c f. unfold claim_launch. cbv zeta.
  destruct (c_fin c); [|destruct (fails f SAddFin) as [[| |]|]]; simpl; try reflexivity;
    (destruct (c_pid c); [reflexivity|]);
    (destruct (w_cache w); simpl; [|destruct (fails f SProvCreate) as [[| |]|]; simpl; try reflexivity]);
    destruct (fails f SPatchMeta) as [[| |]|]; destruct (fails f SPatchStatusL) as [[| |]|]; reflexivity.
Qed.

Lemma claim_reconcile_no_rmnode : forall w f, forallb no_rmnode (fst (fst (claim_reconcile w f))) = true.
Proof.
  intros w f. unfold claim_reconcile. destruct (w_claim w) as [c|]; [|reflexivity].
  destruct (negb (c_managed c)); [reflexivity|]. destruct (c_del c) as [t|].
  - pose proof (claim_finalize_no_rmnode w c t None f) as H. destruct (claim_finalize w c t None f) as [es r]. exact H.
  - apply claim_launch_no_rmnode.
Qed.

Lemma env_node_fin : forall i w o, is_env o = true -> node_has_fin i w = true -> node_has_fin i (env_step w o) = true.
Proof.
  intros i w o He H.
  assert (Hc : forall g, node_has_fin i (upd_claim g w) = node_has_fin i w) by (intros g; reflexivity).
  destruct o; simpl in He; try discriminate; simpl; try exact H; try (rewrite Hc; exact H).
  - destruct (existsb _ (w_pods w)); exact H.
  - apply upd_node_fin; [intros n n' E; inversion E; reflexivity | intros n Hf; eexists; split; [reflexivity|exact Hf] | exact H].
  - apply upd_node_fin; [| | exact H].
    + intros n n' E. unfold api_delete_node in E. destruct (n_del n); [inversion E; reflexivity|].
      destruct (n_fin n); inversion E; reflexivity.
    + intros n Hf. unfold api_delete_node. destruct (n_del n); [eexists; split; [reflexivity|exact Hf]|].
      rewrite Hf. eexists; split; reflexivity.
Qed.

Lemma claim_reconcile_at_no_rmnode : forall w old f, forallb no_rmnode (fst (fst (claim_reconcile_at w old f))) = true.
Proof.
  intros w old f. unfold claim_reconcile_at. destruct (negb (c_managed old)); [reflexivity|]. destruct (c_del old) as [t|].
  - pose proof (claim_finalize_no_rmnode w old t (claim_lock w old) f) as H.
    destruct (claim_finalize w old t (claim_lock w old) f) as [es r]. exact H.
  - destruct (claim_lock w old); [reflexivity|]. apply claim_launch_no_rmnode.
Qed.

(* Only a reconcile of node [i] (handed the current or an older version of it) that writes the removal takes the
   termination finalizer off node [i]: no environment event, no reconcile of another node and no lifecycle
   reconcile does. *)
Lemma node_finalizer_only_by_reconcile_l : forall w o i,
  node_has_fin i w = true -> node_has_fin i (fst (step w o)) = false ->
  (exists f, o = RNode i f /\ In (ERmNodeFin i true) (fst (snd (step w o)))) \/
  (exists old f, o = RNodeStale old f /\ n_id old = i /\ In (ERmNodeFin i true) (fst (snd (step w o)))).
Proof.
  intros w o i H H'. unfold step in *. destruct (is_env o) eqn:He.
  - simpl in H'. rewrite (env_node_fin i w o He H) in H'. discriminate.
  - destruct o as [j f|f| | | | | | | | | | | | | |old f|old f]; simpl in He; try discriminate; simpl in *.
    + left. destruct (node_reconcile w j f) as [es r] eqn:E. simpl in *.
      destruct (forallb (nfin_safe i) es) eqn:Hs.
      * change (node_has_fin i (apply_effs w es) = false) in H'.
        rewrite (apply_effs_node_fin i es w Hs H) in H'. discriminate.
      * apply not_nfin_safe_in in Hs. destruct (node_reconcile_rm _ _ _ _ _ _ E Hs) as (Hj & _). subst j.
        exists f. split; [reflexivity|exact Hs].
    + pose proof (claim_reconcile_no_rmnode w f) as Hn. destruct (claim_reconcile w f) as [[es r] k]. simpl in *.
      change (node_has_fin i (apply_effs w es) = false) in H'.
      rewrite (apply_effs_node_fin i es w (no_rmnode_nfin_safe i es Hn) H) in H'. discriminate.
    + right. destruct (node_reconcile_at w old f) as [es r] eqn:E. simpl in *.
      destruct (forallb (nfin_safe i) es) eqn:Hs.
      * change (node_has_fin i (apply_effs w es) = false) in H'.
        rewrite (apply_effs_node_fin i es w Hs H) in H'. discriminate.
      * apply not_nfin_safe_in in Hs. destruct (node_reconcile_at_rm _ _ _ _ _ _ E Hs) as (Hj & _).
        exists old, f. split; [reflexivity|]. split; [symmetry; exact Hj|exact Hs].
    + pose proof (claim_reconcile_at_no_rmnode w old f) as Hn. destruct (claim_reconcile_at w old f) as [[es r] k]. simpl in *.
      change (node_has_fin i (apply_effs w es) = false) in H'.
      rewrite (apply_effs_node_fin i es w (no_rmnode_nfin_safe i es Hn) H) in H'. discriminate.
Qed.

Lemma apply_eff_claim_fin : forall e w, no_rm e = true -> claim_has_fin w = true -> claim_has_fin (apply_eff w e) = true.
Proof.
  intros e w Hs H. unfold claim_has_fin in *.
  destruct e as [ok|a|j ok|a|ok d v t|j ok|ok t|j ok|ok|ok|ok|ok|ok|ok d v t]; simpl in *;
    try destruct ok; try destruct a; simpl in *; try discriminate; try exact H;
    try (match goal with |- context[upd_node ?i ?g w] => destruct (upd_node_frame i g w) as (_&_&_&_&X&_); rewrite X; exact H end; fail);
    unfold upd_claim, api_delete_claim; simpl; destruct (w_claim w) as [c|]; simpl in *; try discriminate; auto.
  destruct (c_del c); simpl; [exact H|]. rewrite H. reflexivity.
Qed.

Lemma apply_effs_claim_fin : forall es w, forallb no_rm es = true -> claim_has_fin w = true ->
  claim_has_fin (apply_effs w es) = true.
Proof.
  induction es as [|e es IH]; intros w Hs H; simpl in *; [exact H|].
  apply andb_prop in Hs. destruct Hs as [H1 H2]. unfold apply_effs in *. simpl.
  apply IH; [exact H2|]. apply apply_eff_claim_fin; assumption.
Qed.

Lemma plain_no_rm : forall es, forallb plain es = true -> forallb no_rm es = true.
Proof.
  induction es as [|e es IH]; simpl; auto. intros H. apply andb_prop in H. destruct H as [H1 H2].
  rewrite (IH H2), andb_true_r. destruct e as [ok|a|j ok|a|ok d v t|j ok|ok t|j ok|ok|ok|ok|ok|ok|ok d v t]; try destruct ok; simpl in *; auto.
Qed.

Lemma env_claim_fin : forall w o, is_env o = true -> claim_has_fin w = true -> claim_has_fin (env_step w o) = true.
Proof.
  intros w o He H. unfold claim_has_fin in *.
  destruct o; simpl in He; try discriminate; simpl; try exact H;
    try (match goal with |- context[upd_node ?i ?g w] => destruct (upd_node_frame i g w) as (_&_&_&_&X&_); rewrite X; exact H end; fail);
    try (destruct (existsb _ (w_pods w)); exact H);
    unfold upd_claim, api_delete_claim; simpl; destruct (w_claim w) as [c|]; simpl in *; try discriminate.
  - destruct (c_del c); simpl; [exact H|]. rewrite H. reflexivity.
  - destruct (c_pid c && _); simpl; exact H.
Qed.

(* Only a lifecycle reconcile that writes the removal takes the finalizer off the NodeClaim. *)
Lemma claim_finalizer_only_by_reconcile_l : forall w o,
  claim_has_fin w = true -> claim_has_fin (fst (step w o)) = false ->
  (exists f, o = RClaim f /\ In (ERmClaimFin true) (fst (snd (step w o)))) \/
  (exists old f, o = RClaimStale old f /\ In (ERmClaimFin true) (fst (snd (step w o)))).
Proof.
  intros w o H H'. unfold step in *. destruct (is_env o) eqn:He.
  - simpl in H'. rewrite (env_claim_fin w o He H) in H'. discriminate.
  - destruct o as [j f|f| | | | | | | | | | | | | |old f|old f]; simpl in He; try discriminate; simpl in *.
    + pose proof (node_reconcile_plain w j f) as Hp. destruct (node_reconcile w j f) as [es r]. simpl in *.
      change (claim_has_fin (apply_effs w es) = false) in H'.
      rewrite (apply_effs_claim_fin es w (plain_no_rm _ Hp) H) in H'. discriminate.
    + left. destruct (claim_reconcile w f) as [[es r] k]. simpl in *.
      destruct (forallb no_rm es) eqn:Hs.
      * change (claim_has_fin (apply_effs w es) = false) in H'.
        rewrite (apply_effs_claim_fin es w Hs H) in H'. discriminate.
      * exists f. split; [reflexivity|]. apply not_no_rm_in. exact Hs.
    + pose proof (node_reconcile_at_plain w old f) as Hp. destruct (node_reconcile_at w old f) as [es r]. simpl in *.
      change (claim_has_fin (apply_effs w es) = false) in H'.
      rewrite (apply_effs_claim_fin es w (plain_no_rm _ Hp) H) in H'. discriminate.
    + right. destruct (claim_reconcile_at w old f) as [[es r] k]. simpl in *.
      destruct (forallb no_rm es) eqn:Hs.
      * change (claim_has_fin (apply_effs w es) = false) in H'.
        rewrite (apply_effs_claim_fin es w Hs H) in H'. discriminate.
      * exists old, f. split; [reflexivity|]. apply not_no_rm_in. exact Hs.
Qed.

(* ------------------------------------------------------------------ deepening: weakest premises *)

(* The NodeClaim finalizer theorem holds exactly in the worlds where an existing instance is recorded on the claim. *)
Lemma claim_finalizer_ok_iff_l : forall w f es r k,
  claim_reconcile w f = (es, r, k) -> In (ERmClaimFin true) es ->
  (claim_fin_ok (instant w es) <-> recorded_or_absent w).
Proof.
  intros w f es r k H Hin.
  destruct (claim_finalizer_nodes_gone_l _ _ _ _ _ H Hin) as (Hpre & Hng & c & Hc & Hp).
  destruct (claim_reconcile_rm _ _ _ _ _ H Hin) as (c0 & t & pre & Hc0 & _ & Hes & Hq & _ & _).
  subst es. rewrite instant_last in *.
  destruct (claim_instant _ _ _ Hc0 Hq) as (_ & _ & _ & _ & _ & _ & _ & Hi).
  unfold recorded_or_absent, recorded_or_absent_b. rewrite Hc. split.
  - intros [_ Hg]. unfold claim_instance_gone in Hg. rewrite Hi in Hg.
    destruct (c_pid c); [reflexivity|]. simpl. destruct (w_inst w); simpl; auto;
      (assert (X : IGone = IGone \/ True) by auto); try (specialize (Hg ltac:(discriminate)); discriminate).
  - intros Hr. split; [exact Hng|]. unfold claim_instance_gone. rewrite Hi in *. intros Hne.
    destruct (c_pid c) eqn:Ep.
    + specialize (Hp eq_refl). destruct (w_inst w); simpl in Hp; try discriminate; [exfalso; apply Hne; reflexivity|reflexivity].
    + simpl in Hr. destruct (w_inst w); simpl in Hr; try discriminate; [exfalso; apply Hne; reflexivity|reflexivity].
Qed.

(* [b]: a claim object existed when the step began *)
Definition GA (b : bool) (w : world) : Prop :=
  accounted_b w = true /\ (b = true -> w_claim w = None -> inst_absent (w_inst w) = true).

Lemma GA_init : forall w, accounted w -> GA (is_some (w_claim w)) w.
Proof. intros w H. split; [exact H|]. intros Hb Hn. rewrite Hn in Hb. discriminate. Qed.

Lemma GA_orphaned : forall w w', GA (is_some (w_claim w)) w' -> orphaned w w' = false.
Proof.
  intros w w' [_ H]. unfold orphaned. destruct (is_some (w_claim w)); [|reflexivity].
  destruct (w_claim w') eqn:E; [reflexivity|]. rewrite (H eq_refl eq_refl). reflexivity.
Qed.

(* writes that keep [accounted] in every world: everything but Create, the finalizer removal and a Delete of the
   claim (which needs to know that the claim recorded its provider id) *)
Definition calm (e : eff) : bool :=
  match e with ERmClaimFin true | EProvCreate true | EDelClaim true => false | _ => true end.

Lemma calm_eff_GA : forall e b w, calm e = true -> GA b w -> GA b (apply_eff w e).
Proof.
  intros e b w Hp [HJ HG]. unfold GA, accounted_b in *.
  destruct e as [ok|a|i ok|a|ok d v t|i ok|ok t|i ok|ok|ok|ok|ok|ok|ok d v t]; simpl in *;
    try destruct ok; try destruct a; simpl in *; try discriminate; auto;
    try (match goal with |- context[upd_node ?i ?g w] =>
           destruct (upd_node_frame i g w) as (_&_&_&X&Y&_); rewrite X, Y; auto end; fail);
    unfold upd_claim, set_inst, api_delete_claim in *; simpl in *;
    destruct (w_claim w) as [c|]; simpl in *; auto;
    try (destruct (w_inst w); simpl in *; auto; fail);
    destruct (c_del c), (c_fin c), (c_pid c), (w_inst w); simpl in *;
    split; auto; try discriminate; intros; try discriminate; auto.
Qed.

Lemma calm_effs_GA : forall es b w, forallb calm es = true -> GA b w -> GA b (apply_effs w es).
Proof.
  induction es as [|e es IH]; intros b w H Hg; simpl in *; [exact Hg|].
  apply andb_prop in H. destruct H as [H1 H2]. unfold apply_effs in *. simpl.
  apply IH; [exact H2|]. apply calm_eff_GA; assumption.
Qed.

(* a Delete of a claim that recorded its provider id *)
Lemma del_recorded_GA : forall b w c, w_claim w = Some c -> c_pid c = true -> GA b w -> GA b (apply_eff w (EDelClaim true)).
Proof.
  intros b w c Hc Hp [HJ HG]. unfold GA, accounted_b in *. simpl.
  unfold upd_claim, api_delete_claim. simpl. rewrite Hc in *. simpl.
  destruct (c_del c), (c_fin c), (w_inst w); rewrite ?Hp in *; simpl in *;
    split; auto; try discriminate; intros; try discriminate; auto.
Qed.

Definition nodelc (e : eff) : bool := match e with EDelClaim true => false | _ => true end.

Lemma await_drain_nodelc : forall hc i w f dl cs, forallb nodelc (a_effs (await_drain hc i w f dl cs)) = true.
Proof.
  intros hc i w f dl [[d v] t]. unfold await_drain. cbv zeta.
  destruct (fails f SListPods); [reflexivity|]. destruct (negb (drain_done i w)); [reflexivity|].
  destruct (min_drain_wait hc (w_now w) _); [reflexivity|].
  unfold await_volumes. destruct (fails f SListVAs); [reflexivity|]. destruct (va_lookup_err i w f); [reflexivity|].
  assert (X : forall cs', forallb nodelc (a_effs (await_instance hc f cs' (w_inst w))) = true).
  { intros [[d' v'] t']. unfold await_instance. destruct hc; simpl; [|reflexivity].
    destruct (fails f SProvDelete); [reflexivity|]. destruct (w_inst w); reflexivity. }
  destruct (filter _ _); [apply X|]. destruct (elapsed (w_now w) dl); [apply X|reflexivity].
Qed.

Lemma rm_node_fin_nodelc : forall i cur f, forallb nodelc (fst (rm_node_fin i cur f)) = true.
Proof. intros i cur f. unfold rm_node_fin. destruct (fails f SRmNodeFin) as [[| |]|]; try reflexivity. destruct cur; reflexivity. Qed.

Lemma node_tail_nodelc : forall w i cur f oc tw dl cgone stale, forallb nodelc (fst (node_tail w i cur f oc tw dl cgone stale)) = true.
Proof.
  intros w i cur f oc tw dl cgone stale. unfold node_tail. cbv zeta.
  match goal with |- context[await_drain ?hc i w f dl ?cs] =>
    pose proof (await_drain_nodelc hc i w f dl cs) as Ha; set (a := await_drain hc i w f dl cs) in * end.
  match goal with |- context[let '(e4, stop4) := ?X in _] =>
    assert (H4 : forallb nodelc (fst X) = true);
      [destruct (is_some oc && negb _); [|reflexivity];
       destruct (a_conds a) as [[d v] t]; destruct tw; destruct (status_patch_ans f cgone stale); reflexivity
      | destruct X as [e4 stop4]] end.
  simpl in H4. destruct stop4; simpl; [rewrite forallb_app, Ha, H4; reflexivity|].
  destruct (a_res a); simpl; try (rewrite forallb_app, Ha, H4; reflexivity).
  pose proof (rm_node_fin_nodelc i cur f) as Hr. destruct (rm_node_fin i cur f) as [e r]. simpl in *.
  rewrite !forallb_app, Ha, H4, Hr. reflexivity.
Qed.

Lemma node_reconcile_at_nodelc : forall w n f, visible_claim w = None \/ on_twin w = true ->
  forallb nodelc (fst (node_reconcile_at w n f)) = true.
Proof.
  intros w n f Hv. unfold node_reconcile_at.
  destruct (n_del n && n_fin n && n_managed n); [|reflexivity].
  unfold node_finalize. cbv zeta. destruct (fails f SListClaims); [reflexivity|].
  assert (H1 : forallb nodelc (fst (fst (fst (del_claim_step (visible_claim w) (on_twin w) f)))) = true).
  { unfold del_claim_step. destruct Hv as [Hv|Hv]; rewrite Hv; [reflexivity|].
    destruct (visible_claim w) as [c|]; [|reflexivity]. destruct (is_some (c_del c)); [reflexivity|].
    destruct (fails f SDelClaim) as [[| |]|]; reflexivity. }
  destruct (del_claim_step (visible_claim w) (on_twin w) f) as [[[e1 stop1] stale] cgone]. simpl in H1.
  destruct stop1; [exact H1|].
  assert (H2 : forallb nodelc (fst (not_ready_step n (w_inst w) f)) = true).
  { unfold not_ready_step. destruct (n_ready n); [reflexivity|]. destruct (fails f SProvGet); [reflexivity|].
    destruct (prov_get (w_inst w)); reflexivity. }
  destruct (not_ready_step n (w_inst w) f) as [e2 short]. simpl in H2.
  destruct short as [[|]|].
  - pose proof (rm_node_fin_nodelc (n_id n) (get_node (n_id n) (w_nodes w)) f) as Hr. destruct (rm_node_fin (n_id n) (get_node (n_id n) (w_nodes w)) f) as [e r]. simpl in *.
    rewrite !forallb_app, H1, H2, Hr. reflexivity.
  - simpl. rewrite forallb_app, H1, H2. reflexivity.
  - destruct (term_time (visible_claim w)) as [dl|]; [|simpl; rewrite forallb_app, H1, H2; reflexivity].
    assert (H3 : forallb nodelc (fst (taint_step n (get_node (n_id n) (w_nodes w)) f)) = true).
    { unfold taint_step. destruct (n_taint n && n_lbl n); [reflexivity|]. destruct (fails f STaint) as [[| |]|]; try reflexivity.
      destruct (get_node (n_id n) (w_nodes w)) as [m|]; [|reflexivity]. destruct (node_eqb n m); reflexivity. }
    destruct (taint_step n (get_node (n_id n) (w_nodes w)) f) as [e3 stop3]. simpl in H3.
    destruct stop3; [simpl; rewrite !forallb_app, H1, H2, H3; reflexivity|].
    pose proof (node_tail_nodelc w (n_id n) (get_node (n_id n) (w_nodes w)) f (visible_claim w) (on_twin w) dl cgone stale) as Ht.
    destruct (node_tail w (n_id n) (get_node (n_id n) (w_nodes w)) f (visible_claim w) (on_twin w) dl cgone stale) as [et r]. simpl in *.
    rewrite !forallb_app, H1, H2, H3, Ht. reflexivity.
Qed.

Lemma node_reconcile_nodelc : forall w i f, visible_claim w = None \/ on_twin w = true ->
  forallb nodelc (fst (node_reconcile w i f)) = true.
Proof.
  intros w i f Hv. unfold node_reconcile. destruct (get_node i (w_nodes w)) as [n|]; [|reflexivity].
  apply node_reconcile_at_nodelc. exact Hv.
Qed.


Lemma plain_nodelc_calm : forall es, forallb plain es = true -> forallb nodelc es = true -> forallb calm es = true.
Proof.
  induction es as [|e es IH]; simpl; auto. intros H1 H2.
  apply andb_prop in H1. destruct H1 as [a1 a2]. apply andb_prop in H2. destruct H2 as [b1 b2].
  rewrite (IH a2 b2), andb_true_r. destruct e as [ok|a|i ok|a|ok d v t|i ok|ok t|i ok|ok|ok|ok|ok|ok|ok d v t];
    try destruct ok; try destruct a; simpl in *; auto.
Qed.

(* plain writes on a world whose claim (if any) recorded its provider id *)
Lemma plain_effs_recorded_GA : forall es b w, forallb plain es = true ->
  (match w_claim w with Some c => c_pid c = true | None => True end) -> GA b w -> GA b (apply_effs w es).
Proof.
  induction es as [|e es IH]; intros b w H Hp Hg; simpl in *; [exact Hg|].
  apply andb_prop in H. destruct H as [H1 H2]. unfold apply_effs in *. simpl. apply IH; [exact H2| |].
  - (* the provider id stays recorded *)
    destruct e as [ok|a|i ok|a|ok d v t|i ok|ok t|i ok|ok|ok|ok|ok|ok|ok d v t]; simpl in *;
      try destruct ok; try destruct a; simpl in *; try discriminate; auto;
      try (match goal with |- context[upd_node ?i ?g w] => destruct (upd_node_frame i g w) as (_&_&_&_&Y&_); rewrite Y; auto end; fail);
      unfold upd_claim, api_delete_claim; simpl; destruct (w_claim w) as [c|]; simpl in *; auto;
      destruct (c_del c); simpl; auto; destruct (c_fin c); simpl; auto.
  - destruct (calm e) eqn:Ec; [apply calm_eff_GA; assumption|].
    destruct e as [ok|a|i ok|a|ok d v t|i ok|ok t|i ok|ok|ok|ok|ok|ok|ok d v t]; try destruct ok; simpl in *; try discriminate.
    destruct (w_claim w) as [c|] eqn:Hc.
    + eapply del_recorded_GA; eauto.
    + simpl. unfold upd_claim. rewrite Hc.
      destruct Hg as [HJ HG]. unfold GA, accounted_b in *. simpl. rewrite Hc in *. split; auto.
Qed.

Lemma node_at_GA : forall w n f b, GA b w -> GA b (apply_effs w (fst (node_reconcile_at w n f))).
Proof.
  intros w n f b Hg. pose proof (node_reconcile_at_plain w n f) as Hp.
  destruct (visible_claim w) as [c|] eqn:Hv; [destruct (on_twin w) eqn:Et|].
  - apply calm_effs_GA; [|exact Hg]. apply plain_nodelc_calm; [exact Hp|]. apply node_reconcile_at_nodelc. right. exact Et.
  - apply plain_effs_recorded_GA; [exact Hp| |exact Hg].
    unfold visible_claim, on_twin, with_pid in Hv, Et. destruct (w_claim w) as [c'|]; [|exact I].
    destruct (c_pid c'); [reflexivity|]. destruct (w_twin w) as [t|]; [destruct (c_pid t)|]; discriminate.
  - apply calm_effs_GA; [|exact Hg]. apply plain_nodelc_calm; [exact Hp|]. apply node_reconcile_at_nodelc. left. exact Hv.
Qed.

Lemma node_GA : forall w i f b, GA b w -> GA b (apply_effs w (fst (node_reconcile w i f))).
Proof.
  intros w i f b Hg. unfold node_reconcile. destruct (get_node i (w_nodes w)) as [n|]; [|exact Hg].
  apply node_at_GA. exact Hg.
Qed.

(* equal versions are the same object *)
Lemma opt_eqb_Z_eq : forall a b : option Z, opt_eqb Z.eqb a b = true -> a = b.
Proof. intros [a|] [b|]; simpl; try discriminate; auto. intros H. apply Z.eqb_eq in H. congruence. Qed.
Lemma annot_eqb_eq : forall a b, annot_eqb a b = true -> a = b.
Proof. intros [| |a] [| |b]; simpl; try discriminate; auto. intros H. apply Z.eqb_eq in H. congruence. Qed.
Lemma dcond_eqb_eq : forall a b, dcond_eqb a b = true -> a = b.
Proof. intros [|a|] [|b|]; simpl; try discriminate; auto. intros H. apply Z.eqb_eq in H. congruence. Qed.
Lemma vcond_eqb_eq : forall a b, vcond_eqb a b = true -> a = b.
Proof. intros [] []; simpl; try discriminate; auto. Qed.

Lemma claim_eqb_eq : forall a b, claim_eqb a b = true -> a = b.
Proof.
  intros [a1 a2 a3 a4 a5 a6 a7 a8 a9 a10] [b1 b2 b3 b4 b5 b6 b7 b8 b9 b10]. unfold claim_eqb. simpl. intros H.
  apply andb_prop in H; destruct H as [H h10]. apply andb_prop in H; destruct H as [H h9].
  apply andb_prop in H; destruct H as [H h8]. apply andb_prop in H; destruct H as [H h7].
  apply andb_prop in H; destruct H as [H h6]. apply andb_prop in H; destruct H as [H h5].
  apply andb_prop in H; destruct H as [H h4]. apply andb_prop in H; destruct H as [H h3].
  apply andb_prop in H; destruct H as [h1 h2].
  apply Bool.eqb_prop in h1. apply Bool.eqb_prop in h2. apply opt_eqb_Z_eq in h3. apply Bool.eqb_prop in h4.
  apply Bool.eqb_prop in h5. apply opt_eqb_Z_eq in h6. apply annot_eqb_eq in h7. apply dcond_eqb_eq in h8.
  apply vcond_eqb_eq in h9. apply Bool.eqb_prop in h10. congruence.
Qed.

(* a reconcile handed the current version is the ordinary reconcile *)
Lemma claim_reconcile_at_fresh : forall w old f, claim_lock w old = None ->
  w_claim w = Some old /\ claim_reconcile_at w old f = claim_reconcile w f.
Proof.
  intros w old f H. unfold claim_lock in H. destruct (w_claim w) as [c|] eqn:Ec; [|discriminate].
  destruct (claim_eqb old c) eqn:E; [|discriminate]. apply claim_eqb_eq in E. subst c. split; [reflexivity|].
  unfold claim_reconcile_at, claim_reconcile, claim_lock. rewrite Ec.
  assert (X : claim_eqb old old = true).
  { destruct (claim_eqb old old) eqn:Y; [reflexivity|]. exfalso.
    unfold claim_lock in H. revert Y. clear. destruct old as [a1 a2 a3 a4 a5 a6 a7 a8 a9 a10]. unfold claim_eqb. simpl.
    rewrite !Bool.eqb_reflx.
    assert (O : forall o : option Z, opt_eqb Z.eqb o o = true) by (intros [z|]; simpl; [apply Z.eqb_refl|reflexivity]).
    rewrite !O. destruct a7 as [| |z]; destruct a8 as [|z'|]; destruct a9; simpl; rewrite ?Z.eqb_refl; discriminate. }
  rewrite X. destruct (negb (c_managed old)); [reflexivity|]. destruct (c_del old); reflexivity.
Qed.

Lemma delete_nodes_nodelc : forall f ns, forallb nodelc (fst (delete_nodes f ns)) = true.
Proof.
  intros f ns. induction ns as [|n ns IH]; simpl; [reflexivity|].
  destruct (n_del n); [exact IH|].
  destruct (fails f (SDelNode (n_id n))) as [[| |]|]; try reflexivity;
    destruct (delete_nodes f ns) as [e b]; simpl in *; exact IH.
Qed.

Lemma claim_finalize_nodelc : forall w c t lk f, forallb nodelc (fst (claim_finalize w c t lk f)) = true.
Proof.
  intros w c t lk f. unfold claim_finalize. cbv zeta. destruct (negb (c_fin c)); [reflexivity|].
  assert (HA : forall X : list eff * option res,
    X = (match c_annot c, c_tgp c with
         | ANone, Some g =>
             match lfails lk f SAnnot with
             | Some KNotFound => ([EAnnot false (t + g)], None)
             | Some KConflict => ([EAnnot false (t + g)], Some RRequeue)
             | Some KServer => ([EAnnot false (t + g)], Some RErr)
             | None => ([EAnnot true (t + g)], None)
             end
         | _, _ => ([], None)
         end) -> forallb nodelc (fst X) = true).
  { intros X ->. destruct (c_annot c); try reflexivity. destruct (c_tgp c); try reflexivity.
    destruct (lfails lk f SAnnot) as [[| |]|]; reflexivity. }
  match goal with |- context[let '(e1, stop1) := ?X in _] => specialize (HA X eq_refl); destruct X as [e1 stop1] end.
  simpl in HA. destruct stop1; [exact HA|].
  assert (HB : forall X : list eff * option res,
    X = (if c_registered c
         then match fails f SListNodes with
              | Some _ => ([], Some RErr)
              | None =>
                  let ns := claim_nodes w c in
                  let '(e, hard) := delete_nodes f ns in
                  if hard then (e, Some RErr) else match ns with [] => (e, None) | _ => (e, Some ROk) end
              end
         else ([], None)) -> forallb nodelc (fst X) = true).
  { intros X ->. destruct (c_registered c); [|reflexivity]. destruct (fails f SListNodes); [reflexivity|]. cbv zeta.
    pose proof (delete_nodes_nodelc f (claim_nodes w c)) as Hd.
    destruct (delete_nodes f (claim_nodes w c)) as [e hard]. simpl in Hd.
    destruct hard; [exact Hd|]. destruct (claim_nodes w c); exact Hd. }
  match goal with |- context[let '(e2, stop2) := ?X in _] => specialize (HB X eq_refl); destruct X as [e2 stop2] end.
  simpl in HB. destruct stop2; [simpl; rewrite forallb_app, HA, HB; reflexivity|].
  pose proof (fun X => proj1 (forallb_forall nodelc (fst (rm_claim_fin lk f))) X) as _.
  assert (HR : forallb nodelc (fst (rm_claim_fin lk f)) = true).
  { unfold rm_claim_fin. destruct (lfails lk f SRmClaimFin) as [[| |]|]; reflexivity. }
  destruct (c_pid c).
  - destruct (fails f SProvDelete); [simpl; rewrite !forallb_app, HA, HB; reflexivity|].
    assert (HE : forall X : list eff * option res,
      X = (if c_term c then ([], None)
           else match lfails lk f SPatchStatus with
                | Some KNotFound => ([EStatus false (c_drained c) (c_vol c) true], Some ROk)
                | Some KConflict => ([EStatus false (c_drained c) (c_vol c) true], Some RRequeue)
                | Some KServer => ([EStatus false (c_drained c) (c_vol c) true], Some RErr)
                | None => ([EStatus true (c_drained c) (c_vol c) true], None)
                end) -> forallb nodelc (fst X) = true).
    { intros X ->. destruct (c_term c); [reflexivity|]. destruct (lfails lk f SPatchStatus) as [[| |]|]; reflexivity. }
    match goal with |- context[let '(e3, stop3) := ?X in _] => specialize (HE X eq_refl); destruct X as [e3 stop3] end.
    simpl in HE.
    assert (HP : forallb nodelc [EProvDelete (fst (prov_delete (w_inst w)))] = true) by (destruct (w_inst w); reflexivity).
    destruct stop3; [simpl fst; rewrite !forallb_app, HA, HB, HP, HE; reflexivity|].
    destruct (fst (prov_delete (w_inst w))) eqn:Ep; try (simpl fst; rewrite !forallb_app, HA, HB, HE; reflexivity).
    destruct (rm_claim_fin lk f) as [e r]. simpl in *. rewrite !forallb_app, HA, HB, HE, HR. reflexivity.
  - destruct (rm_claim_fin lk f) as [e r]. simpl in *. rewrite !forallb_app, HA, HB, HR. reflexivity.
Qed.

Lemma quiet_calm : forall es, forallb quiet es = true -> forallb calm es = true.
Proof.
  induction es as [|e es IH]; simpl; auto. intros H. apply andb_prop in H. destruct H as [H1 H2].
  rewrite (IH H2), andb_true_r. unfold quiet in H1. destruct e as [ok|a|i ok|a|ok d v t|i ok|ok t|i ok|ok|ok|ok|ok|ok|ok d v t];
    try destruct ok; try destruct a; simpl in *; auto.
Qed.

Lemma no_create_nodelc_no_rm_calm : forall es,
  forallb no_create es = true -> forallb nodelc es = true -> forallb no_rm es = true -> forallb calm es = true.
Proof.
  induction es as [|e es IH]; simpl; auto. intros H1 H2 H3.
  apply andb_prop in H1. destruct H1 as [a1 a2]. apply andb_prop in H2. destruct H2 as [b1 b2].
  apply andb_prop in H3. destruct H3 as [c1 c2].
  rewrite (IH a2 b2 c2), andb_true_r. destruct e as [ok|a|i ok|a|ok d v t|i ok|ok t|i ok|ok|ok|ok|ok|ok|ok d v t];
    try destruct ok; try destruct a; simpl in *; auto.
Qed.

(* a reconcile handed another version than the current one never takes the finalizer off and never launches *)
Lemma claim_reconcile_at_locked : forall w old f k, claim_lock w old = Some k ->
  forallb calm (fst (fst (claim_reconcile_at w old f))) = true.
Proof.
  intros w old f k H. unfold claim_reconcile_at. rewrite H.
  destruct (negb (c_managed old)); [reflexivity|]. destruct (c_del old) as [t|]; [|reflexivity].
  pose proof (claim_finalize_no_create w old t (Some k) f) as H1. pose proof (claim_finalize_nodelc w old t (Some k) f) as H2.
  destruct (claim_finalize w old t (Some k) f) as [es r] eqn:Ef. simpl in *.
  apply no_create_nodelc_no_rm_calm; [exact H1|exact H2|].
  destruct (forallb no_rm es) eqn:Hrm; [reflexivity|]. apply not_no_rm_in in Hrm.
  destruct (claim_finalize_rm _ _ _ _ _ _ _ Ef Hrm) as (X & _). discriminate.
Qed.

Lemma launch_GA : forall w c f, w_claim w = Some c -> c_del c = None -> accounted w ->
  delete_guard w (RClaim f) = true ->
  GA true (fst (step w (RClaim f))).
Proof.
  intros w c f Hc Hd HJ Hgd.
  unfold accounted, accounted_b in HJ. rewrite Hc in HJ.
  unfold delete_guard, gives_up, recorded_or_absent_b in Hgd. rewrite Hc in Hgd.
  destruct w as [now ns cl twn ps vs s k]. simpl in *. subst cl.
  destruct c as [m fin del pid reg tgp an dr vo te]. simpl in *. subst del.
  unfold step, GA, accounted_b. simpl. unfold claim_reconcile. simpl.
  destruct m; simpl; [|split; [exact HJ|discriminate]].
  unfold claim_launch. cbv zeta. simpl.
  destruct fin, pid, k, s; simpl in *; try discriminate;
    try (destruct (fails f SAddFin) as [[| |]|]; simpl);
    try (destruct (fails f SProvCreate) as [[| |]|]; simpl in *; try discriminate);
    try (destruct (fails f SPatchMeta) as [[| |]|]; simpl);
    try (destruct (fails f SPatchStatusL) as [[| |]|]; simpl);
    split; auto; discriminate.
Qed.

Lemma env_GA : forall w o, is_env o = true -> accounted w ->
  delete_guard w o = true -> GA (is_some (w_claim w)) (env_step w o).
Proof.
  intros w o He HJ Hguard. unfold accounted, accounted_b in HJ. unfold GA, accounted_b.
  unfold delete_guard, recorded_or_absent_b in Hguard.
  destruct o; simpl in He; try discriminate; simpl;
    try (match goal with |- context[upd_node ?i ?g w] =>
           destruct (upd_node_frame i g w) as (_&_&_&X&Y&_); rewrite X, Y end;
         split; [exact HJ|]; intros Hb Hn; rewrite Hn in Hb; discriminate);
    try (unfold upd_pods; simpl; split; [exact HJ|]; intros Hb Hn; rewrite Hn in Hb; discriminate);
    try (destruct (existsb _ (w_pods w)); unfold upd_pods; simpl; split; try exact HJ; intros Hb Hn; rewrite Hn in Hb; discriminate);
    try (split; [exact HJ|]; intros Hb Hn; rewrite Hn in Hb; discriminate);
    unfold upd_claim, set_inst, api_delete_claim; simpl;
    destruct (w_claim w) as [c|]; simpl in *; try (split; [reflexivity|discriminate]);
    try (destruct (c_del c), (c_fin c), (c_pid c), (w_inst w); simpl in *; split; auto; try discriminate; intros; try discriminate; auto; fail).
  - destruct (c_pid c && negb match w_nodes w with [] => true | _ :: _ => false end); simpl; split; auto; discriminate.
Qed.

Lemma step_GA_claim : forall w f, accounted w -> delete_guard w (RClaim f) = true ->
  GA (is_some (w_claim w)) (fst (step w (RClaim f))).
Proof.
  intros w f HJ Hgd. unfold step. simpl is_env. cbv iota.
  - destruct (w_claim w) as [c|] eqn:Ec.
    2:{ simpl. unfold claim_reconcile. rewrite Ec. simpl. split; [exact HJ|discriminate]. }
    destruct (c_del c) as [t|] eqn:Ed.
    2:{ simpl is_some. pose proof (launch_GA w c f Ec Ed HJ Hgd) as X. unfold step in X. simpl in X. exact X. }
    simpl. unfold claim_reconcile. rewrite Ec. destruct (negb (c_managed c)).
    { simpl. split; [exact HJ|]. unfold set_inst. simpl. rewrite Ec. discriminate. }
    rewrite Ed. pose proof (claim_finalize_no_create w c t None f) as Hnc. pose proof (claim_finalize_nodelc w c t None f) as Hnd.
    destruct (claim_finalize w c t None f) as [es r] eqn:Ef. simpl in Hnc, Hnd.
    change (GA true (apply_effs w es)).
    assert (G0 : GA true w) by (pose proof (GA_init w HJ) as X; rewrite Ec in X; exact X).
    destruct (forallb no_rm es) eqn:Hrm.
    + apply calm_effs_GA; [apply no_create_nodelc_no_rm_calm; assumption|exact G0].
    + apply not_no_rm_in in Hrm.
      destruct (claim_finalize_rm _ _ _ _ _ _ _ Ef Hrm) as (_ & pre & Hes & Hq & _ & Hpid). subst es.
      rewrite apply_effs_app.
      destruct (claim_instant _ _ _ Ec Hq) as (c' & Hc' & _ & e2 & e3 & _ & _ & Hi).
      unfold apply_effs at 1. simpl. unfold upd_claim. rewrite Hc'. rewrite e3, Ed. simpl.
      unfold GA, accounted_b. simpl. split; [reflexivity|]. intros _ _. rewrite Hi.
      destruct (c_pid c) eqn:Ep; [exact (Hpid eq_refl)|].
      unfold accounted, accounted_b in HJ. rewrite Ec, Ep, Ed in HJ. simpl in HJ.
      rewrite andb_false_r, orb_false_r in HJ. exact HJ.
Qed.

Lemma step_GA : forall w o, accounted w -> delete_guard w o = true ->
  GA (is_some (w_claim w)) (fst (step w o)).
Proof.
  intros w o HJ Hguard. unfold step. destruct (is_env o) eqn:He; [simpl; apply env_GA; assumption|].
  destruct o as [i f|f| | | | | | | | | | | | | |old f|old f]; simpl in He; try discriminate.
  - simpl. pose proof (node_GA w i f _ (GA_init w HJ)) as X. destruct (node_reconcile w i f) as [es r]. exact X.
  - exact (step_GA_claim w f HJ Hguard).
  - simpl. pose proof (node_at_GA w old f _ (GA_init w HJ)) as X. destruct (node_reconcile_at w old f) as [es r]. exact X.
  - destruct (claim_lock w old) as [k|] eqn:Elk.
    + simpl. pose proof (claim_reconcile_at_locked w old f k Elk) as Hc.
      destruct (claim_reconcile_at w old f) as [[es r] k']. simpl in *.
      change (GA (is_some (w_claim w)) (apply_effs w es)). apply calm_effs_GA; [exact Hc|apply GA_init; exact HJ].
    + destruct (claim_reconcile_at_fresh w old f Elk) as [_ E].
      pose proof (step_GA_claim w f HJ Hguard) as X. unfold step in X. simpl in X. simpl. rewrite E. exact X.
Qed.

Lemma deletes_recorded_snoc : forall ops w o,
  deletes_recorded w (ops ++ [o]) = deletes_recorded w ops && delete_guard (run w ops) o.
Proof.
  induction ops as [|a ops IH]; intros w o; simpl.
  - rewrite andb_true_r. reflexivity.
  - rewrite IH. rewrite andb_assoc. reflexivity.
Qed.

Lemma run_accounted : forall ops w, accounted w -> deletes_recorded w ops = true -> accounted (run w ops).
Proof.
  induction ops as [|o ops IH]; intros w HJ Hp; simpl in *; [exact HJ|].
  apply andb_prop in Hp. destruct Hp as [H1 H2]. apply IH; [|exact H2].
  apply (proj1 (step_GA w o HJ H1)).
Qed.

(* no orphan, weakest premise: no assumption on faults, persistence or restarts — only that nobody deletes the
   NodeClaim while it holds an instance it has not recorded *)
Lemma no_orphan_weakest_l : forall w0 ops o,
  accounted w0 -> deletes_recorded w0 (ops ++ [o]) = true ->
  orphaned (run w0 ops) (run w0 (ops ++ [o])) = false.
Proof.
  intros w0 ops o HJ Hp. rewrite deletes_recorded_snoc in Hp. apply andb_prop in Hp. destruct Hp as [H1 H2].
  rewrite run_snoc. apply GA_orphaned. apply step_GA; [apply run_accounted; assumption|exact H2].
Qed.

(* ... and that premise is needed: deleting a claim that holds an unrecorded instance orphans it at the next
   fault-free finalize (claim managed, with finalizer, no grace period) *)
Lemma delete_unrecorded_orphans_l : forall now ns reg an dr vo te tw ps vs s k,
  inst_absent s = false ->
  let w := W now ns (Some (C true true None false reg None an dr vo te)) tw ps vs s k in
  orphaned w (run w [EnvDelClaim; RClaim None]) = true.
Proof.
  intros now ns reg an dr vo te tw ps vs s k Hs. cbv zeta. unfold orphaned, run. simpl.
  unfold step at 2. simpl. unfold step. simpl. unfold claim_reconcile. simpl. unfold claim_finalize. simpl.
  destruct reg, an, s; simpl in *; try discriminate; reflexivity.
Qed.

(* the provider never resurrects an instance: once Gone it stays Gone unless a lifecycle reconcile launches for a
   claim that is neither deleting nor launched *)
Lemma gone_is_final_l : forall w o, w_inst w = IGone ->
  (forall f c, (o = RClaim f \/ exists old, o = RClaimStale old f) -> w_claim w = Some c -> c_del c <> None \/ c_pid c = true) ->
  w_inst (fst (step w o)) = IGone.
Proof.
  intros w o Hi Hl.
  assert (XP : forall es w, forallb plain es = true -> w_inst w = IGone -> w_inst (apply_effs w es) = IGone).
  { clear. induction es as [|e es IH]; intros w H Hi; simpl in *; [exact Hi|].
    apply andb_prop in H. destruct H as [H1 H2]. unfold apply_effs in *. simpl. apply IH; [exact H2|].
    destruct e as [ok|a|i ok|a|ok d v t|i ok|ok t|i ok|ok|ok|ok|ok|ok|ok d v t]; simpl in *;
      try destruct ok; try destruct a; simpl in *; try discriminate; auto;
      try (match goal with |- context[upd_node ?i ?g w] => destruct (upd_node_frame i g w) as (_&_&_&X&_); rewrite X; auto end; fail);
      try (rewrite Hi; reflexivity). }
  assert (XC : forall es w, forallb no_create es = true -> w_inst w = IGone -> w_inst (apply_effs w es) = IGone).
  { clear. induction es as [|e es IH]; intros w H Hi; simpl in *; [exact Hi|].
    apply andb_prop in H. destruct H as [H1 H2]. unfold apply_effs in *. simpl. apply IH; [exact H2|].
    destruct e as [ok|a|i ok|a|ok d v t|i ok|ok t|i ok|ok|ok|ok|ok|ok|ok d v t]; simpl in *;
      try destruct ok; try destruct a; simpl in *; try discriminate; auto;
      try (match goal with |- context[upd_node ?i ?g w] => destruct (upd_node_frame i g w) as (_&_&_&X&_); rewrite X; auto end; fail);
      try (rewrite Hi; reflexivity). }
  assert (XL : forall c f, w_claim w = Some c -> (c_del c <> None \/ c_pid c = true) -> c_del c = None ->
               w_inst (apply_effs w (fst (fst (claim_launch w c f)))) = IGone).
  { intros c f Ec [Hd|Hp] Ed; [congruence|]. unfold claim_launch. cbv zeta. rewrite Hp.
    destruct (c_fin c); [simpl; exact Hi|]. destruct (fails f SAddFin) as [[| |]|]; simpl; exact Hi. }
  unfold step. destruct (is_env o) eqn:He.
  - destruct o; simpl in He; try discriminate; simpl; try exact Hi;
      try (match goal with |- context[upd_node ?i ?g w] => destruct (upd_node_frame i g w) as (_&_&_&X&_); rewrite X; exact Hi end; fail);
      try (destruct (existsb _ (w_pods w)); exact Hi);
      try (rewrite Hi; reflexivity).
  - destruct o as [i f|f| | | | | | | | | | | | | |old f|old f]; simpl in He; try discriminate; simpl.
    + pose proof (node_reconcile_plain w i f) as Hp. destruct (node_reconcile w i f) as [es r]. simpl in *. apply XP; assumption.
    + unfold claim_reconcile. destruct (w_claim w) as [c|] eqn:Ec; [|simpl; exact Hi].
      destruct (negb (c_managed c)); [simpl; exact Hi|].
      destruct (c_del c) as [t|] eqn:Ed.
      * pose proof (claim_finalize_no_create w c t None f) as Hn. destruct (claim_finalize w c t None f) as [es r]. simpl in *.
        apply XC; assumption.
      * pose proof (XL c f eq_refl (Hl f c (or_introl eq_refl) eq_refl) Ed) as X.
        destruct (claim_launch w c f) as [[es r] k]. exact X.
    + pose proof (node_reconcile_at_plain w old f) as Hp. destruct (node_reconcile_at w old f) as [es r]. simpl in *. apply XP; assumption.
    + unfold claim_reconcile_at. destruct (negb (c_managed old)); [simpl; exact Hi|].
      destruct (c_del old) as [t|] eqn:Ed.
      * pose proof (claim_finalize_no_create w old t (claim_lock w old) f) as Hn.
        destruct (claim_finalize w old t (claim_lock w old) f) as [es r]. simpl in *. apply XC; assumption.
      * destruct (claim_lock w old) eqn:Elk; [simpl; exact Hi|].
        destruct (claim_reconcile_at_fresh w old f Elk) as [Ec _].
        pose proof (XL old f Ec (Hl f old (or_intror (ex_intro _ old eq_refl)) Ec) Ed) as X.
        destruct (claim_launch w old f) as [[es r] k]. exact X.
Qed.

(* A lifecycle reconcile that is handed an older version of the NodeClaim never removes the finalizer: every write
   of finalize carries that version's resourceVersion. A removal therefore comes from the current version, and the
   theorems about [claim_reconcile] apply to it. *)
Lemma claim_finalizer_stale_read_l : forall w old f es r k,
  claim_reconcile_at w old f = (es, r, k) -> In (ERmClaimFin true) es ->
  w_claim w = Some old /\ claim_reconcile w f = (es, r, k).
Proof.
  intros w old f es r k H Hin.
  destruct (claim_lock w old) as [kk|] eqn:Elk.
  - exfalso. pose proof (claim_reconcile_at_locked w old f kk Elk) as Hc. rewrite H in Hc. simpl in Hc.
    rewrite forallb_forall in Hc. specialize (Hc _ Hin). discriminate.
  - destruct (claim_reconcile_at_fresh w old f Elk) as [Ec E]. split; [exact Ec|]. rewrite <- E. exact H.
Qed.

(* Duplicate NodeClaims for one provider id: NodeClaimForNode fails with a duplicate error that finalize ignores, the
   node is handled as if it had no NodeClaim — cordon, drain and volume clauses hold (node_finalizer_claimless), the
   provider's confirmation is skipped. Witness: both claims recorded, instance Running, finalizer removed. *)
Definition dup_w : world :=
  W 1000 [N 0 true true true true true true]
    (Some (C true true None true true None ANone DTrue VTrue false))
    (Some (C true true None true false None ANone DNone VNone false)) [] [] IRunning false.

Lemma duplicate_claims_witness_l :
  duplicates dup_w = true /\ node_has_claim_b dup_w = false /\
  node_reconcile dup_w 0 None = ([ERmNodeFin 0 true], ROk) /\
  node_fin_ok_b dup_w (instant dup_w [ERmNodeFin 0 true]) 0 = false /\
  w_inst (fst (step dup_w (RNode 0 None))) = IRunning.
Proof. vm_compute. repeat split; reflexivity. Qed.

Lemma duplicates_claimless_l : forall w, duplicates w = true -> visible_claim w = None.
Proof.
  intros w H. unfold duplicates, visible_claim in *. destruct (with_pid (w_claim w)), (with_pid (w_twin w)); simpl in *; try discriminate; reflexivity.
Qed.

Lemma node_fin_ok_seen_b_spec : forall w0 w i nr, node_fin_ok_seen_b w0 w i nr = true <-> node_fin_ok_seen w0 w i nr.
Proof.
  intros w0 w i nr. unfold node_fin_ok_seen_b, node_fin_ok_seen. destruct (get_node i (w_nodes w)) as [n|].
  - split.
    + intros H. exists n. split; [reflexivity|]. apply orb_prop in H. destruct H as [H|H].
      * left. apply andb_prop in H. destruct H as [H Hi]. apply andb_prop in H. destruct H as [H Hv].
        apply andb_prop in H. destruct H as [Ht Hd]. repeat split; auto.
        -- apply drain_done_spec. exact Hd.
        -- apply orb_prop in Hv. destruct Hv as [Hv|Hv].
           ++ left. apply pending_none_spec. destruct (pending_vas i w); [reflexivity|discriminate].
           ++ right. apply tgp_expired_spec. exact Hv.
      * right. apply andb_prop in H. destruct H as [Hr Hi]. rewrite negb_true_iff in Hr. auto.
    + intros (n' & E & H). inversion E; subst n'. clear E. destruct H as [(Ht & Hd & Hv & Hi)|(Hr & Hi)].
      * apply orb_true_iff. left. rewrite Ht, Hi. apply drain_done_spec in Hd. rewrite Hd. simpl.
        rewrite andb_true_r. destruct Hv as [Hv|Hv].
        -- apply pending_none_spec in Hv. rewrite Hv. reflexivity.
        -- apply tgp_expired_spec in Hv. rewrite Hv. apply orb_true_r.
      * apply orb_true_iff. right. rewrite Hr, Hi. reflexivity.
  - split; [discriminate | intros (n & E & _); discriminate].
Qed.

(* the same leak without any user: the persist patch fails, the controller restarts (launch cache lost), the next
   Create answers InsufficientCapacity, Launch deletes the claim, finalize skips the provider *)
Lemma restart_capacity_error_orphans_l :
  let ops := [RClaim (Some (SPatchStatusL, KServer)); EnvRestart; RClaim (Some (SProvCreate, KNotFound))] in
  accounted leak_w0 /\ deletes_recorded leak_w0 ops = false /\
  orphaned (run leak_w0 ops) (run leak_w0 (ops ++ [RClaim None])) = true.
Proof. vm_compute. repeat split; reflexivity. Qed.
