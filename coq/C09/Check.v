(* C09 — correspondence check and oracle, evaluated by vm_compute on the histories the Go harness ran through
   the real node termination controller and NodeClaim lifecycle controller.

   A case is an initial world and, for every op, what the implementation did: the writes / provider calls it
   issued, the reconcile result class, the world read back afterwards, and the world snapshot taken inside the
   client at the instant of every finalizer-removing patch that succeeded. *)
From Coq Require Import ZArith List Bool String.
From KV Require Import C09.Model.
Import ListNotations.
Open Scope string_scope.
Open Scope Z_scope.

Inductive target := TNode (i : Z) | TClaim.

Record stepobs := S {
  s_op : op;
  s_effs : list eff;
  s_res : res;
  s_post : option world;       (* None: the world did not change (reconcile) / changed as the event says *)
  s_instants : list (target * world) }.

Inductive case := Case (w0 : world) (steps : list stepobs).

(* ------------------------------------------------------------------ decidable equality on observations *)

Fixpoint list_eqb {A} (e : A -> A -> bool) (a b : list A) : bool :=
  match a, b with
  | [], [] => true
  | x :: a', y :: b' => e x y && list_eqb e a' b'
  | _, _ => false
  end.

Definition inst_eqb (a b : inst) : bool :=
  match a, b with INone, INone | IRunning, IRunning | IShutting, IShutting | IGone, IGone => true | _, _ => false end.
Definition pans_eqb (a b : pans) : bool :=
  match a, b with PNil, PNil | PNotFound, PNotFound | PErr, PErr => true | _, _ => false end.
Definition res_eqb (a b : res) : bool :=
  match a, b with
  | ROk, ROk | RRequeue, RRequeue | RAfter1, RAfter1 | RAfter5, RAfter5 | RErr, RErr => true
  | _, _ => false
  end.

Definition pod_eqb (a b : pod) : bool :=
  (p_id a =? p_id b) && (p_node a =? p_node b) && Bool.eqb (p_terminal a) (p_terminal b)
  && Bool.eqb (p_tol a) (p_tol b) && Bool.eqb (p_static a) (p_static b)
  && opt_eqb Z.eqb (p_del a) (p_del b) && list_eqb Z.eqb (p_pvs a) (p_pvs b).
Definition va_eqb (a b : va) : bool :=
  (v_id a =? v_id b) && (v_node a =? v_node b) && opt_eqb Z.eqb (v_pv a) (v_pv b).
(* the launch cache is in-memory state of the controller and is not observed *)
Definition world_eqb (a b : world) : bool :=
  (w_now a =? w_now b) && list_eqb node_eqb (w_nodes a) (w_nodes b)
  && opt_eqb claim_eqb (w_claim a) (w_claim b) && opt_eqb claim_eqb (w_twin a) (w_twin b) && list_eqb pod_eqb (w_pods a) (w_pods b)
  && list_eqb va_eqb (w_vas a) (w_vas b) && inst_eqb (w_inst a) (w_inst b).

Definition eff_eqb (a b : eff) : bool :=
  match a, b with
  | EDelClaim x, EDelClaim y => Bool.eqb x y
  | EProvGet x, EProvGet y => pans_eqb x y
  | ETaint i x, ETaint j y => (i =? j) && Bool.eqb x y
  | EProvDelete x, EProvDelete y => pans_eqb x y
  | EStatus x d v t, EStatus y d' v' t' => Bool.eqb x y && dcond_eqb d d' && vcond_eqb v v' && Bool.eqb t t'
  | ERmNodeFin i x, ERmNodeFin j y => (i =? j) && Bool.eqb x y
  | EAnnot x s, EAnnot y t => Bool.eqb x y && (s =? t)
  | EDelNode i x, EDelNode j y => (i =? j) && Bool.eqb x y
  | ERmClaimFin x, ERmClaimFin y => Bool.eqb x y
  | EAddFin x, EAddFin y => Bool.eqb x y
  | EProvCreate x, EProvCreate y => Bool.eqb x y
  | EPersist x, EPersist y => Bool.eqb x y
  | EDelTwin x, EDelTwin y => Bool.eqb x y
  | EStatusTwin x d v t, EStatusTwin y d' v' t' => Bool.eqb x y && dcond_eqb d d' && vcond_eqb v v' && Bool.eqb t t'
  | _, _ => false
  end.

(* ------------------------------------------------------------------ oracle *)

(* the property's boolean spec on what the implementation did: [wo] is the world before the op, each instant
   is the world inside the successful finalizer-removing patch *)
Definition instant_ok (o : op) (wo : world) (ti : target * world) : bool :=
  match ti with
  | (TNode i, wi) =>
      if node_has_claim_b wo then
        match o with
        | RNodeStale old _ => node_fin_ok_seen_b wo wi i (n_ready old)   (* lagging cache: readiness as read *)
        | _ => node_fin_ok_b wo wi i
        end
      else true
  | (TClaim, wi) => claim_fin_ok_b wi
  end.
Definition is_tnode (ti : target * world) : bool := match fst ti with TNode _ => true | TClaim => false end.

(* the model's instants for the same op: the world before the last write when that write removed a finalizer *)
Definition model_instants (wm : world) (es : list eff) : list (target * world) :=
  match last es (EAddFin false) with
  | ERmNodeFin i true => [(TNode i, instant wm es)]
  | ERmClaimFin true => [(TClaim, instant wm es)]
  | _ => []
  end.
Definition ti_eqb (a b : target * world) : bool :=
  match fst a, fst b with
  | TNode i, TNode j => (i =? j) && world_eqb (snd a) (snd b)
  | TClaim, TClaim => world_eqb (snd a) (snd b)
  | _, _ => false
  end.

(* ------------------------------------------------------------------ check *)

Fixpoint check_steps (wf0 : bool) (wm wo : world) (steps : list stepobs) : list string :=
  match steps with
  | [] => []
  | s :: rest =>
      let '(wm', (em, rm)) := step wm (s_op s) in
      let wo' := match s_post s with
                 | Some x => x
                 | None => if is_env (s_op s) then env_step wo (s_op s) else wo
                 end in
      (if list_eqb eff_eqb em (s_effs s) then [] else ["corr:effects"])
      ++ (if res_eqb rm (s_res s) then [] else ["corr:result"])
      ++ (if world_eqb wm' wo' then [] else ["corr:state"])
      ++ (if list_eqb ti_eqb (model_instants wm em) (s_instants s) then [] else ["corr:instant"])
      ++ (if forallb (instant_ok (s_op s) wo) (filter is_tnode (s_instants s)) then [] else ["oracle:node-finalizer"])
      ++ (if forallb (instant_ok (s_op s) wo) (filter (fun ti => negb (is_tnode ti)) (s_instants s)) then []
          else ["oracle:claim-finalizer"])
      ++ (if wf0 && orphaned wo wo' then ["oracle:orphan"] else [])
      ++ check_steps wf0 wm' wo' rest
  end.

Definition dedup (l : list string) : list string := nodup string_dec l.

Definition check_case (c : case) : list string :=
  (* no-orphan is a statement about histories that start from a world in which the finalizer precedes the launch *)
  match c with Case w0 steps => dedup (check_steps (finalizer_before_launch_b w0) w0 w0 steps) end.

Definition check_all (cs : list (Z * case)) : list (Z * string) :=
  flat_map (fun ic => map (fun t => (fst ic, t)) (check_case (snd ic))) cs.

(* debugging aid: what the model does on a case, step by step *)
Fixpoint trace (wm : world) (steps : list stepobs) : list (list eff * res * world) :=
  match steps with
  | [] => []
  | s :: rest => let '(wm', (em, rm)) := step wm (s_op s) in (em, rm, wm') :: trace wm' rest
  end.
Definition trace_case (c : case) := match c with Case w0 steps => trace w0 steps end.
