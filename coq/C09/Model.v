(* C09 — model of the two finalizers that end a Karpenter node:
     pkg/controllers/node/termination/controller.go        (Reconcile, finalize, awaitDrain, awaitVolumeDetachment,
                                                            awaitInstanceTermination, filterVolumeAttachments,
                                                            removeFinalizer, nodeTerminationTime)
     pkg/controllers/node/termination/terminator/terminator.go (Taint; Drain at the level "returns nil iff no pod
                                                            is waiting eviction" — tiers and the queue are C10)
     pkg/controllers/nodeclaim/lifecycle/controller.go     (Reconcile: finalizer + launch persistence; finalize)
     pkg/controllers/nodeclaim/lifecycle/launch.go         (Launch.Reconcile: cache / Create)
     pkg/utils/pod/scheduling.go, pkg/utils/node/node.go   (IsWaitingEviction, IsDrainable, NodeClaimForNode)

   Granularity: one op = one Reconcile call of one of the two controllers (method granularity; the API calls of a
   reconcile are not interleaved with anything else), or one environment event. Every API / provider call of a
   reconcile can fail according to the op's fault plan. The API server is modelled by what the calls do to the
   objects (delete = mark deleting while a finalizer is present, else remove; removing the last finalizer of a
   deleting object removes it; an optimistic-lock patch from a copy read before the controller's own Delete
   conflicts). One cloud instance / provider id; any number of Nodes carry it. Time is Z seconds.
   Not modelled: two NodeClaims with one provider id (the code then treats the node as claim-less), stale cache
   reads, the registration / initialization / liveness sub-reconcilers (C14; registration is the environment
   event [EnvRegister]).
   Executable definitions and the specification predicates only; proofs are in C09/Proofs.v. *)
From Coq Require Export ZArith List Bool Lia.
Export ListNotations.
Open Scope Z_scope.

(* ------------------------------------------------------------------ objects *)

Inductive inst := INone | IRunning | IShutting | IGone.   (* never created | running | terminating | gone *)
Inductive dcond := DNone | DUnknown (since : Z) | DTrue.  (* NodeClaim condition Drained (+ lastTransitionTime) *)
Inductive vcond := VNone | VUnknown | VTrue | VFalse.     (* NodeClaim condition VolumesDetached *)
Inductive annot := ANone | ABad | AAt (t : Z).            (* karpenter.sh/nodeclaim-termination-timestamp *)

Record pod := P {
  p_id : Z; p_node : Z;
  p_terminal : bool;              (* status.phase Succeeded / Failed *)
  p_tol : bool;                   (* tolerates karpenter.sh/disrupted:NoSchedule *)
  p_static : bool;                (* mirror pod: owned by a v1 Node *)
  p_del : option Z;               (* metadata.deletionTimestamp *)
  p_pvs : list Z }.               (* volumeName of each existing PVC the pod mounts *)

Record va := V { v_id : Z; v_node : Z; v_pv : option Z }.   (* VolumeAttachment: spec.nodeName, source PV *)

Record node := N {
  n_id : Z;
  n_managed : bool;               (* carries the node-class label of a supported node class *)
  n_fin : bool;                   (* karpenter.sh/termination finalizer *)
  n_del : bool;                   (* deletionTimestamp set *)
  n_taint : bool;                 (* karpenter.sh/disrupted:NoSchedule *)
  n_lbl : bool;                   (* node.kubernetes.io/exclude-from-external-load-balancers *)
  n_ready : bool }.               (* Ready condition is True *)

Record claim := C {
  c_managed : bool;               (* nodeClassRef of a supported node class *)
  c_fin : bool;
  c_del : option Z;               (* deletionTimestamp *)
  c_pid : bool;                   (* status.providerID persisted (and Launched = True) *)
  c_registered : bool;            (* Registered = True *)
  c_tgp : option Z;               (* spec.terminationGracePeriod, seconds *)
  c_annot : annot;
  c_drained : dcond; c_vol : vcond;
  c_term : bool }.                (* InstanceTerminating = True *)

Record world := W {
  w_now : Z;
  w_nodes : list node;            (* the Nodes whose spec.providerID is the instance's id, by name order *)
  w_claim : option claim;
  w_twin : option claim;          (* a second NodeClaim object whose status.providerID is the same (duplicate) *)
  w_pods : list pod;
  w_vas : list va;
  w_inst : inst;                  (* the provider's view of the instance *)
  w_cache : bool }.               (* Launch.cache holds the created NodeClaim (in memory, lost on restart) *)

(* ------------------------------------------------------------------ ops, faults, effects *)

Inductive ekind := KConflict | KNotFound | KServer.
Inductive site :=
| SListClaims | SDelClaim | SProvGet | STaint | SListPods | SListVAs | SListPodsVA | SGetPVC
| SProvDelete | SPatchStatus | SRmNodeFin
| SAnnot | SListNodes | SDelNode (i : Z) | SRmClaimFin
| SAddFin | SProvCreate | SPatchMeta | SPatchStatusL.
Definition fault := option (site * ekind).

Inductive res := ROk | RRequeue | RAfter1 | RAfter5 | RErr.

(* provider answers *)
Inductive pans := PNil | PNotFound | PErr.

(* what a reconcile did: every write it issued (with success flag) and every provider call *)
Inductive eff :=
| EDelClaim (ok : bool)
| EProvGet (a : pans)
| ETaint (i : Z) (ok : bool)
| EProvDelete (a : pans)
| EStatus (ok : bool) (d : dcond) (v : vcond) (t : bool)
| ERmNodeFin (i : Z) (ok : bool)
| EAnnot (ok : bool) (t : Z)
| EDelNode (i : Z) (ok : bool)
| ERmClaimFin (ok : bool)
| EAddFin (ok : bool)
| EProvCreate (ok : bool)
| EPersist (ok : bool)           (* launch: metadata patch + status patch both succeeded *)
| EDelTwin (ok : bool)           (* the same two writes of the node controller, aimed at the duplicate claim *)
| EStatusTwin (ok : bool) (d : dcond) (v : vcond) (t : bool).

Inductive op :=
| RNode (i : Z) (f : fault)
| RClaim (f : fault)
| EnvPodGone (k : Z) | EnvPodTerm (k : Z) | EnvPodTerminal (k : Z) | EnvPodAdd (p : pod)
| EnvVAGone (j : Z)
| EnvInstGone
| EnvTick (dt : Z)
| EnvReady (i : Z) (b : bool)
| EnvDelNode (i : Z) | EnvDelClaim
| EnvRegister
| EnvRestart
| EnvInstShutting
(* reconciles that are handed an object read from a lagging cache: an older version of the Node / NodeClaim *)
| RNodeStale (old : node) (f : fault)
| RClaimStale (old : claim) (f : fault).          (* the provider starts terminating the instance on its own (spot reclaim, user) *)

(* ------------------------------------------------------------------ small helpers *)

Definition is_some {A} (o : option A) : bool := match o with Some _ => true | None => false end.

Definition ekind_eqb (a b : ekind) : bool :=
  match a, b with KConflict, KConflict | KNotFound, KNotFound | KServer, KServer => true | _, _ => false end.

Definition site_eqb (a b : site) : bool :=
  match a, b with
  | SListClaims, SListClaims | SDelClaim, SDelClaim | SProvGet, SProvGet | STaint, STaint
  | SListPods, SListPods | SListVAs, SListVAs | SListPodsVA, SListPodsVA | SGetPVC, SGetPVC
  | SProvDelete, SProvDelete | SPatchStatus, SPatchStatus | SRmNodeFin, SRmNodeFin
  | SAnnot, SAnnot | SListNodes, SListNodes | SRmClaimFin, SRmClaimFin
  | SAddFin, SAddFin | SProvCreate, SProvCreate | SPatchMeta, SPatchMeta | SPatchStatusL, SPatchStatusL => true
  | SDelNode i, SDelNode j => i =? j
  | _, _ => false
  end.

(* the error the fault plan injects at call site [s], if any *)
Definition fails (f : fault) (s : site) : option ekind :=
  match f with Some (s', k) => if site_eqb s s' then Some k else None | None => None end.

Definition get_node (i : Z) (ns : list node) : option node := find (fun n => n_id n =? i) ns.
Definition set_node (n' : node) (ns : list node) : list node :=
  map (fun n => if n_id n =? n_id n' then n' else n) ns.
Definition del_node (i : Z) (ns : list node) : list node := filter (fun n => negb (n_id n =? i)) ns.

Definition inst_absent (s : inst) : bool := match s with INone | IGone => true | _ => false end.

(* ------------------------------------------------------------------ pod predicates (pkg/utils/pod) *)

Definition stuck (now : Z) (p : pod) : bool :=                 (* IsStuckTerminating *)
  match p_del p with Some t => 60 <? now - t | None => false end.
Definition drainable (now : Z) (p : pod) : bool :=             (* IsDrainable *)
  negb (p_tol p) && negb (stuck now p) && negb (p_static p).
Definition waiting (now : Z) (p : pod) : bool :=               (* IsWaitingEviction *)
  negb (p_terminal p) && drainable now p.

Definition pods_on (i : Z) (w : world) : list pod := filter (fun p => p_node p =? i) (w_pods w).
Definition vas_on (i : Z) (w : world) : list va := filter (fun v => v_node v =? i) (w_vas w).

(* Terminator.Drain returns nil iff no pod bound to the node is waiting eviction *)
Definition drain_done (i : Z) (w : world) : bool :=
  forallb (fun p => negb (waiting (w_now w) p)) (pods_on i w).

(* filterVolumeAttachments: PV names mounted by pods that are not drainable *)
Definition shielded_pvs (i : Z) (w : world) : list Z :=
  flat_map p_pvs (filter (fun p => negb (drainable (w_now w) p)) (pods_on i w)).
Definition blocking (sh : list Z) (v : va) : bool :=
  match v_pv v with Some x => negb (existsb (Z.eqb x) sh) | None => false end.
Definition pending_vas (i : Z) (w : world) : list va := filter (blocking (shielded_pvs i w)) (vas_on i w).
(* does the filter reach a PVC Get at all *)
Definition pvc_lookups (i : Z) (w : world) : bool :=
  negb (match shielded_pvs i w with [] => true | _ => false end).

(* ------------------------------------------------------------------ provider *)

Definition prov_delete (s : inst) : pans * inst :=
  match s with
  | IRunning | IShutting => (PNil, IShutting)
  | INone => (PNotFound, INone)
  | IGone => (PNotFound, IGone)
  end.
Definition prov_get (s : inst) : pans := if inst_absent s then PNotFound else PNil.
Definition prov_create (s : inst) : inst := match s with INone | IGone => IRunning | x => x end.

(* ------------------------------------------------------------------ node termination controller *)

(* NodeClaimForNode: the one claim whose status.providerID is the node's; with two of them the controller goes on
   as if there were none (IgnoreDuplicateNodeClaimError) *)
Definition with_pid (oc : option claim) : option claim :=
  match oc with Some c => if c_pid c then Some c else None | None => None end.
Definition visible_claim (w : world) : option claim :=
  match with_pid (w_claim w), with_pid (w_twin w) with
  | Some c, None => Some c
  | None, Some c => Some c
  | _, _ => None
  end.
(* the claim the node controller works on is the duplicate object *)
Definition on_twin (w : world) : bool :=
  match with_pid (w_claim w), with_pid (w_twin w) with None, Some _ => true | _, _ => false end.
Definition duplicates (w : world) : bool := is_some (with_pid (w_claim w)) && is_some (with_pid (w_twin w)).

(* nodeTerminationTime: None = parse error *)
Definition term_time (oc : option claim) : option (option Z) :=
  match oc with
  | None => Some None
  | Some c => match c_annot c with ANone => Some None | ABad => None | AAt t => Some (Some t) end
  end.
Definition elapsed (now : Z) (dl : option Z) : bool :=          (* hasTerminationGracePeriodElapsed *)
  match dl with Some t => t <? now | None => false end.

(* in-memory condition triple of the NodeClaim copy *)
Definition conds := (dcond * vcond * bool)%type.
Definition dcond_eqb (a b : dcond) : bool :=
  match a, b with DNone, DNone | DTrue, DTrue => true | DUnknown s, DUnknown t => s =? t | _, _ => false end.
Definition vcond_eqb (a b : vcond) : bool :=
  match a, b with VNone, VNone | VUnknown, VUnknown | VTrue, VTrue | VFalse, VFalse => true | _, _ => false end.
Definition conds_eqb (a b : conds) : bool :=
  let '(d1, v1, t1) := a in let '(d2, v2, t2) := b in dcond_eqb d1 d2 && vcond_eqb v1 v2 && Bool.eqb t1 t2.

(* equality of API objects (same resourceVersion): an optimistic-lock patch from a different version conflicts *)
Definition opt_eqb {A} (e : A -> A -> bool) (a b : option A) : bool :=
  match a, b with Some x, Some y => e x y | None, None => true | _, _ => false end.
Definition annot_eqb (a b : annot) : bool :=
  match a, b with ANone, ANone | ABad, ABad => true | AAt s, AAt t => s =? t | _, _ => false end.
Definition node_eqb (a b : node) : bool :=
  (n_id a =? n_id b) && Bool.eqb (n_managed a) (n_managed b) && Bool.eqb (n_fin a) (n_fin b)
  && Bool.eqb (n_del a) (n_del b) && Bool.eqb (n_taint a) (n_taint b) && Bool.eqb (n_lbl a) (n_lbl b)
  && Bool.eqb (n_ready a) (n_ready b).
Definition claim_eqb (a b : claim) : bool :=
  Bool.eqb (c_managed a) (c_managed b) && Bool.eqb (c_fin a) (c_fin b) && opt_eqb Z.eqb (c_del a) (c_del b)
  && Bool.eqb (c_pid a) (c_pid b) && Bool.eqb (c_registered a) (c_registered b)
  && opt_eqb Z.eqb (c_tgp a) (c_tgp b) && annot_eqb (c_annot a) (c_annot b)
  && dcond_eqb (c_drained a) (c_drained b) && vcond_eqb (c_vol a) (c_vol b) && Bool.eqb (c_term a) (c_term b).

(* outcome of the three await functions: conditions in memory, provider effects,
   result (ROk = fall through to finalizer removal) *)
Record awaited := A { a_conds : conds; a_effs : list eff; a_res : res }.

Definition await_instance (hc : bool) (f : fault) (cs : conds) (s : inst) : awaited :=
  let '(d, v, t) := cs in
  if negb hc then A cs [] ROk
  else match fails f SProvDelete with
       | Some _ => A cs [EProvDelete PErr] RErr
       | None =>
           let a := fst (prov_delete s) in
           A (d, v, true) [EProvDelete a] (match a with PNotFound => ROk | _ => RAfter5 end)
       end.

(* errors of the pod list / PVC Gets inside filterVolumeAttachments (reached only when attachments exist) *)
Definition va_lookup_err (i : Z) (w : world) (f : fault) : bool :=
  match vas_on i w with
  | [] => false
  | _ => match fails f SListPodsVA with
         | Some _ => true
         | None => match fails f SGetPVC with
                   | Some KNotFound => false
                   | Some _ => pvc_lookups i w
                   | None => false
                   end
         end
  end.
(* an injected NotFound on the PVC Gets hides every shielding PVC *)
Definition va_shield (i : Z) (w : world) (f : fault) : list Z :=
  match fails f SGetPVC with Some KNotFound => [] | _ => shielded_pvs i w end.

Definition await_volumes (hc : bool) (i : Z) (w : world) (f : fault) (dl : option Z) (cs : conds) : awaited :=
  let '(d, v, t) := cs in
  match fails f SListVAs with Some _ => A cs [] RErr | None =>
  if va_lookup_err i w f then A cs [] RErr else
  match filter (blocking (va_shield i w f)) (vas_on i w) with
  | [] => await_instance hc f (d, (if hc then VTrue else v), t) (w_inst w)
  | _ => if elapsed (w_now w) dl
         then await_instance hc f (d, (if hc then VFalse else v), t) (w_inst w)
         else A (d, (if hc then VUnknown else v), t) [] RAfter1
  end end.

(* MinDrainTime: the Drained condition must have been Unknown for five seconds *)
Definition min_drain_wait (hc : bool) (now : Z) (d : dcond) : bool :=
  hc && match d with DUnknown s => now - s <? 5 | DNone => true | DTrue => false end.

Definition await_drain (hc : bool) (i : Z) (w : world) (f : fault) (dl : option Z) (cs : conds) : awaited :=
  let '(d, v, t) := cs in
  let d1 := if hc then match d with DNone => DUnknown (w_now w) | x => x end else d in
  match fails f SListPods with Some _ => A (d1, v, t) [] RErr | None =>
  if negb (drain_done i w) then A (d1, v, t) [] RAfter1
  else if min_drain_wait hc (w_now w) d1 then A (d1, v, t) [] RAfter1
       else await_volumes hc i w f dl ((if hc then DTrue else d1), v, t)
  end.

(* removeFinalizer: a strategic merge patch without lock; [cur] = the node object in the API right now *)
Definition rm_node_fin (i : Z) (cur : option node) (f : fault) : list eff * res :=
  match fails f SRmNodeFin with
  | Some KNotFound => ([ERmNodeFin i false], ROk)
  | Some _ => ([ERmNodeFin i false], RErr)
  | None => match cur with
            | Some _ => ([ERmNodeFin i true], ROk)
            | None => ([ERmNodeFin i false], ROk)          (* NotFound is ignored *)
            end
  end.

(* answer of the optimistic-lock status patch of the node controller *)
Inductive patch_ans := PatchOk | PatchNotFound | PatchConflict | PatchOther.
Definition status_patch_ans (f : fault) (cgone stale : bool) : patch_ans :=
  match fails f SPatchStatus with
  | Some KNotFound => PatchNotFound
  | Some KConflict => PatchConflict
  | Some KServer => PatchOther
  | None => if cgone then PatchNotFound else if stale then PatchConflict else PatchOk
  end.

(* awaitDrain -> awaitVolumeDetachment -> awaitInstanceTermination, the status patch, the finalizer *)
Definition node_tail (w : world) (i : Z) (cur : option node) (f : fault) (oc : option claim) (tw : bool) (dl : option Z) (cgone stale : bool)
  : list eff * res :=
  let hc := is_some oc in
  let cs0 : conds := match oc with Some c => (c_drained c, c_vol c, c_term c) | None => (DNone, VNone, false) end in
  let a := await_drain hc i w f dl cs0 in
  (* persist the conditions when they changed *)
  let '(e4, stop4) :=
    if hc && negb (conds_eqb cs0 (a_conds a)) then
      let '(d, v, t) := a_conds a in
      let st ok := if tw then EStatusTwin ok d v t else EStatus ok d v t in
      match status_patch_ans f cgone stale with
      | PatchOk => ([st true], None)
      | PatchNotFound => ([st false], None)
      | PatchConflict => ([st false], Some RRequeue)
      | PatchOther => ([st false], Some RErr)
      end
    else ([], None) in
  match stop4 with
  | Some r => (a_effs a ++ e4, r)
  | None =>
      match a_res a with
      | ROk => let '(e, r) := rm_node_fin i cur f in (a_effs a ++ e4 ++ e, r)
      | r => (a_effs a ++ e4, r)
      end
  end.

(* Delete the NodeClaim if it is not deleting yet: effects, hard error, in-memory copy stale, object gone *)
Definition del_claim_step (oc : option claim) (tw : bool) (f : fault) : list eff * bool * bool * bool :=
  let dl ok := if tw then EDelTwin ok else EDelClaim ok in
  match oc with
  | Some c =>
      if is_some (c_del c) then ([], false, false, false)
      else match fails f SDelClaim with
           | Some KNotFound => ([dl false], false, false, false)
           | Some _ => ([dl false], true, false, false)
           | None => ([dl true], false, true, negb (c_fin c))
           end
  | None => ([], false, false, false)
  end.

(* not Ready: ask the provider; Some true = instance gone (finish at once), Some false = error *)
Definition not_ready_step (n : node) (s0 : inst) (f : fault) : list eff * option bool :=
  if n_ready n then ([], None)
  else match fails f SProvGet with
       | Some _ => ([EProvGet PErr], Some false)
       | None => match prov_get s0 with
                 | PNotFound => ([EProvGet PNotFound], Some true)
                 | a => ([EProvGet a], None)
                 end
       end.

(* Terminator.Taint: patch only when the taint or the load-balancer label is missing; the patch carries the
   resourceVersion of the object the reconcile was handed [n] and conflicts when the API holds another version *)
Definition taint_step (n : node) (cur : option node) (f : fault) : list eff * option res :=
  if n_taint n && n_lbl n then ([], None)
  else match fails f STaint with
       | Some KConflict => ([ETaint (n_id n) false], Some RRequeue)
       | Some _ => ([ETaint (n_id n) false], Some RErr)
       | None => match cur with
                 | None => ([ETaint (n_id n) false], Some RErr)
                 | Some m => if node_eqb n m then ([ETaint (n_id n) true], None)
                             else ([ETaint (n_id n) false], Some RRequeue)
                 end
       end.

(* [n] is the Node object handed to Reconcile (the current one, or an older version from a lagging cache) *)
Definition node_finalize (w : world) (n : node) (f : fault) : list eff * res :=
  let i := n_id n in
  let cur := get_node i (w_nodes w) in
  match fails f SListClaims with Some _ => ([], RErr) | None =>
  let oc := visible_claim w in
  let tw := on_twin w in
  let '(e1, stop1, stale, cgone) := del_claim_step oc tw f in
  if stop1 then (e1, RErr) else
  let '(e2, short) := not_ready_step n (w_inst w) f in
  match short with
  | Some false => (e1 ++ e2, RErr)
  | Some true => let '(e, r) := rm_node_fin i cur f in ((e1 ++ e2) ++ e, r)
  | None =>
  match term_time oc with None => (e1 ++ e2, RErr) | Some dl =>
  let '(e3, stop3) := taint_step n cur f in
  match stop3 with
  | Some r => ((e1 ++ e2) ++ e3, r)
  | None => let '(et, r) := node_tail w i cur f oc tw dl cgone stale in ((e1 ++ e2) ++ e3 ++ et, r)
  end end end end.

Definition node_reconcile_at (w : world) (n : node) (f : fault) : list eff * res :=
  if n_del n && n_fin n && n_managed n then node_finalize w n f else ([], ROk).

Definition node_reconcile (w : world) (i : Z) (f : fault) : list eff * res :=
  match get_node i (w_nodes w) with
  | None => ([], ROk)
  | Some n => node_reconcile_at w n f
  end.

(* what may differ between an older version of a Node and the current one: taint, label and deletion mark are only
   ever added; readiness and the finalizer may have changed either way *)
Definition older_node (old cur : node) : bool :=
  (n_id old =? n_id cur) && Bool.eqb (n_managed old) (n_managed cur)
  && implb (n_taint old) (n_taint cur) && implb (n_lbl old) (n_lbl cur) && implb (n_del old) (n_del cur).

(* ------------------------------------------------------------------ NodeClaim lifecycle controller *)

(* delete every node that is not deleting yet, in list order; stop at the first hard error *)
Fixpoint delete_nodes (f : fault) (ns : list node) : list eff * bool :=
  match ns with
  | [] => ([], false)
  | n :: ns' =>
      if n_del n then delete_nodes f ns'
      else match fails f (SDelNode (n_id n)) with
           | Some KNotFound => let '(e, b) := delete_nodes f ns' in (EDelNode (n_id n) false :: e, b)
           | Some _ => ([EDelNode (n_id n) false], true)
           | None => let '(e, b) := delete_nodes f ns' in (EDelNode (n_id n) true :: e, b)
           end
  end.

(* every patch of finalize carries the resourceVersion of the object the reconcile was handed: [lk] is the answer
   of the API server to such a patch when nothing is injected (None = versions agree) *)
Definition lfails (lk : option ekind) (f : fault) (s : site) : option ekind :=
  match fails f s with Some k => Some k | None => lk end.

Definition rm_claim_fin (lk : option ekind) (f : fault) : list eff * res :=
  match lfails lk f SRmClaimFin with
  | Some KConflict => ([ERmClaimFin false], RRequeue)
  | Some KNotFound => ([ERmClaimFin false], ROk)
  | Some KServer => ([ERmClaimFin false], RErr)
  | None => ([ERmClaimFin true], ROk)
  end.

Definition claim_nodes (w : world) (c : claim) : list node := if c_pid c then w_nodes w else [].

Definition claim_finalize (w : world) (c : claim) (tdel : Z) (lk : option ekind) (f : fault) : list eff * res :=
  let s0 := w_inst w in
  if negb (c_fin c) then ([], ROk) else
  (* ensureTerminationGracePeriodTerminationTimeAnnotation *)
  let '(e1, stop1) :=
    match c_annot c, c_tgp c with
    | ANone, Some g =>
        match lfails lk f SAnnot with
        | Some KNotFound => ([EAnnot false (tdel + g)], None)
        | Some KConflict => ([EAnnot false (tdel + g)], Some RRequeue)
        | Some KServer => ([EAnnot false (tdel + g)], Some RErr)
        | None => ([EAnnot true (tdel + g)], None)
        end
    | _, _ => ([], None)
    end in
  match stop1 with Some r => (e1, r) | None =>
  (* delete the nodes and wait for them when the claim registered *)
  let '(e2, stop2) :=
    if c_registered c then
      match fails f SListNodes with
      | Some _ => ([], Some RErr)
      | None =>
          let ns := claim_nodes w c in
          let '(e, hard) := delete_nodes f ns in
          if hard then (e, Some RErr)
          else match ns with [] => (e, None) | _ => (e, Some ROk) end
      end
    else ([], None) in
  match stop2 with Some r => (e1 ++ e2, r) | None =>
  if c_pid c then
    match fails f SProvDelete with
    | Some _ => (e1 ++ e2 ++ [EProvDelete PErr], RErr)
    | None =>
        let a := fst (prov_delete s0) in
        let pre := e1 ++ e2 ++ [EProvDelete a] in
        let '(e3, stop3) :=
          if c_term c then ([], None)
          else match lfails lk f SPatchStatus with
               | Some KNotFound => ([EStatus false (c_drained c) (c_vol c) true], Some ROk)
               | Some KConflict => ([EStatus false (c_drained c) (c_vol c) true], Some RRequeue)
               | Some KServer => ([EStatus false (c_drained c) (c_vol c) true], Some RErr)
               | None => ([EStatus true (c_drained c) (c_vol c) true], None)
               end in
        match stop3 with Some r => (pre ++ e3, r) | None =>
        match a with
        | PNotFound => let '(e, r) := rm_claim_fin lk f in (pre ++ e3 ++ e, r)
        | _ => (pre ++ e3, RAfter5)
        end end
    end
  else let '(e, r) := rm_claim_fin lk f in (e1 ++ e2 ++ e, r)
  end end.

(* Reconcile of a NodeClaim that is not deleting: finalizer first, then launch and persist.
   Returns the effects, the result and the launch cache. *)
Definition claim_launch (w : world) (c : claim) (f : fault) : list eff * res * bool :=
  let s0 := w_inst w in
  let k0 := w_cache w in
  let '(e1, stop1) :=
    if c_fin c then ([], None)
    else match fails f SAddFin with
         | Some KConflict => ([EAddFin false], Some RRequeue)
         | Some KNotFound => ([EAddFin false], Some ROk)
         | Some KServer => ([EAddFin false], Some RErr)
         | None => ([EAddFin true], None)
         end in
  match stop1 with Some r => (e1, r, k0) | None =>
  if c_pid c then (e1, ROk, false)               (* Launched = True: the cache entry is dropped *)
  else
    (* Launch.Reconcile: cached result of an earlier Create, else Create *)
    (* Create errors: InsufficientCapacity / NodeClassNotReady (injected as KNotFound / KConflict) make Launch delete
       the NodeClaim and return without error; any other error is returned *)
    let '(e2, created, gaveup) :=
      if k0 then ([], true, false)
      else match fails f SProvCreate with
           | Some KServer => ([EProvCreate false], false, false)
           | Some _ => ([EProvCreate false; EDelClaim true], false, true)
           | None => ([EProvCreate true], true, false)
           end in
    if negb created then (e1 ++ e2, (if gaveup then ROk else RErr), k0)
    else match fails f SPatchMeta, fails f SPatchStatusL with
         | None, None => (e1 ++ e2 ++ [EPersist true], ROk, true)
         | Some KNotFound, _ | None, Some KNotFound => (e1 ++ e2 ++ [EPersist false], ROk, true)
         | _, _ => (e1 ++ e2 ++ [EPersist false], RErr, true)
         end
  end.

Definition claim_reconcile (w : world) (f : fault) : list eff * res * bool :=
  match w_claim w with
  | None => ([], ROk, w_cache w)
  | Some c =>
      if negb (c_managed c) then ([], ROk, w_cache w)
      else match c_del c with
           | Some t => let '(e, r) := claim_finalize w c t None f in (e, r, w_cache w)
           | None => claim_launch w c f
           end
  end.

(* Reconcile handed an older version [old] of the NodeClaim. Only the finalize path is modelled for a version that
   differs from the current one (a stale object that is not deleting belongs to the launch protocol, C14). *)
Definition claim_lock (w : world) (old : claim) : option ekind :=
  match w_claim w with
  | None => Some KNotFound
  | Some c => if claim_eqb old c then None else Some KConflict
  end.
Definition claim_reconcile_at (w : world) (old : claim) (f : fault) : list eff * res * bool :=
  if negb (c_managed old) then ([], ROk, w_cache w)
  else match c_del old with
       | Some t => let '(e, r) := claim_finalize w old t (claim_lock w old) f in (e, r, w_cache w)
       | None => match claim_lock w old with
                 | None => claim_launch w old f
                 | Some _ => ([], ROk, w_cache w)
                 end
       end.

(* ------------------------------------------------------------------ what the API server does with the writes *)

Definition upd_claim (g : claim -> option claim) (w : world) : world :=
  W (w_now w) (w_nodes w) (match w_claim w with Some c => g c | None => None end) (w_twin w)
    (w_pods w) (w_vas w) (w_inst w) (w_cache w).
Definition upd_nodes (g : list node -> list node) (w : world) : world :=
  W (w_now w) (g (w_nodes w)) (w_claim w) (w_twin w) (w_pods w) (w_vas w) (w_inst w) (w_cache w).
Definition upd_node (i : Z) (g : node -> option node) (w : world) : world :=
  match get_node i (w_nodes w) with
  | Some n => match g n with
              | Some n' => upd_nodes (set_node n') w
              | None => upd_nodes (del_node i) w
              end
  | None => w
  end.

Definition set_inst (s : inst) (k : bool) (w : world) : world :=
  W (w_now w) (w_nodes w) (w_claim w) (w_twin w) (w_pods w) (w_vas w) s k.

Definition api_delete_claim (now : Z) (c : claim) : option claim :=
  match c_del c with
  | Some _ => Some c
  | None => if c_fin c
            then Some (C (c_managed c) true (Some now) (c_pid c) (c_registered c) (c_tgp c) (c_annot c)
                         (c_drained c) (c_vol c) (c_term c))
            else None
  end.
Definition api_delete_node (n : node) : option node :=
  if n_del n then Some n
  else if n_fin n then Some (N (n_id n) (n_managed n) true true (n_taint n) (n_lbl n) (n_ready n)) else None.

Definition apply_eff (w : world) (e : eff) : world :=
  match e with
  | EDelClaim true => upd_claim (api_delete_claim (w_now w)) w
  | ETaint i true =>
      upd_node i (fun n => Some (N (n_id n) (n_managed n) (n_fin n) (n_del n) true true (n_ready n))) w
  | EStatus true d v t =>
      upd_claim (fun c => Some (C (c_managed c) (c_fin c) (c_del c) (c_pid c) (c_registered c) (c_tgp c)
                                  (c_annot c) d v t)) w
  | ERmNodeFin i true =>
      upd_node i (fun n => if n_del n then None
                           else Some (N (n_id n) (n_managed n) false false (n_taint n) (n_lbl n) (n_ready n))) w
  | EAnnot true t =>
      upd_claim (fun c => Some (C (c_managed c) (c_fin c) (c_del c) (c_pid c) (c_registered c) (c_tgp c)
                                  (AAt t) (c_drained c) (c_vol c) (c_term c))) w
  | EDelNode i true => upd_node i api_delete_node w
  | ERmClaimFin true =>
      upd_claim (fun c => if is_some (c_del c) then None
                          else Some (C (c_managed c) false None (c_pid c) (c_registered c) (c_tgp c)
                                       (c_annot c) (c_drained c) (c_vol c) (c_term c))) w
  | EAddFin true =>
      upd_claim (fun c => Some (C (c_managed c) true (c_del c) (c_pid c) (c_registered c) (c_tgp c)
                                  (c_annot c) (c_drained c) (c_vol c) (c_term c))) w
  | EPersist true =>
      upd_claim (fun c => Some (C (c_managed c) (c_fin c) (c_del c) true (c_registered c) (c_tgp c)
                                  (c_annot c) (c_drained c) (c_vol c) (c_term c))) w
  | EDelTwin true =>
      W (w_now w) (w_nodes w) (w_claim w) (match w_twin w with Some c => api_delete_claim (w_now w) c | None => None end)
        (w_pods w) (w_vas w) (w_inst w) (w_cache w)
  | EStatusTwin true d v t =>
      W (w_now w) (w_nodes w) (w_claim w)
        (match w_twin w with
         | Some c => Some (C (c_managed c) (c_fin c) (c_del c) (c_pid c) (c_registered c) (c_tgp c) (c_annot c) d v t)
         | None => None end)
        (w_pods w) (w_vas w) (w_inst w) (w_cache w)
  | EProvDelete PNil => set_inst (snd (prov_delete (w_inst w))) (w_cache w) w
  | EProvCreate true => set_inst (prov_create (w_inst w)) (w_cache w) w
  | _ => w
  end.

Definition apply_effs (w : world) (es : list eff) : world := fold_left apply_eff es w.

(* ------------------------------------------------------------------ environment *)

Definition upd_pods (g : list pod -> list pod) (w : world) : world :=
  W (w_now w) (w_nodes w) (w_claim w) (w_twin w) (g (w_pods w)) (w_vas w) (w_inst w) (w_cache w).

Definition env_step (w : world) (o : op) : world :=
  match o with
  | EnvPodGone k => upd_pods (filter (fun p => negb (p_id p =? k))) w
  | EnvPodTerm k =>
      upd_pods (map (fun p => if (p_id p =? k) && negb (is_some (p_del p))
                              then P (p_id p) (p_node p) (p_terminal p) (p_tol p) (p_static p) (Some (w_now w)) (p_pvs p)
                              else p)) w
  | EnvPodTerminal k =>
      upd_pods (map (fun p => if p_id p =? k
                              then P (p_id p) (p_node p) true (p_tol p) (p_static p) (p_del p) (p_pvs p) else p)) w
  | EnvPodAdd p => if existsb (fun q => p_id q =? p_id p) (w_pods w) then w else upd_pods (fun ps => ps ++ [p]) w
  | EnvVAGone j =>
      W (w_now w) (w_nodes w) (w_claim w) (w_twin w) (w_pods w) (filter (fun v => negb (v_id v =? j)) (w_vas w))
        (w_inst w) (w_cache w)
  | EnvInstGone => set_inst (match w_inst w with INone => INone | _ => IGone end) (w_cache w) w
  | EnvTick dt => W (w_now w + Z.max dt 0) (w_nodes w) (w_claim w) (w_twin w) (w_pods w) (w_vas w) (w_inst w) (w_cache w)
  | EnvReady i b =>
      upd_node i (fun n => Some (N (n_id n) (n_managed n) (n_fin n) (n_del n) (n_taint n) (n_lbl n) b)) w
  | EnvDelNode i => upd_node i api_delete_node w
  | EnvDelClaim => upd_claim (api_delete_claim (w_now w)) w
  | EnvRegister =>
      upd_claim (fun c => Some (if c_pid c && negb (match w_nodes w with [] => true | _ => false end)
                                then C (c_managed c) (c_fin c) (c_del c) (c_pid c) true (c_tgp c) (c_annot c)
                                       (c_drained c) (c_vol c) (c_term c)
                                else c)) w
  | EnvRestart => set_inst (w_inst w) false w
  | EnvInstShutting => set_inst (match w_inst w with IRunning => IShutting | x => x end) (w_cache w) w
  | _ => w
  end.

(* ------------------------------------------------------------------ the transition system *)

Definition decide (w : world) (o : op) : list eff * res * bool :=
  match o with
  | RNode i f => let '(e, r) := node_reconcile w i f in (e, r, w_cache w)
  | RClaim f => claim_reconcile w f
  | RNodeStale old f => let '(e, r) := node_reconcile_at w old f in (e, r, w_cache w)
  | RClaimStale old f => claim_reconcile_at w old f
  | _ => ([], ROk, w_cache w)
  end.

Definition is_env (o : op) : bool :=
  match o with RNode _ _ | RClaim _ | RNodeStale _ _ | RClaimStale _ _ => false | _ => true end.

Definition step (w : world) (o : op) : world * (list eff * res) :=
  if is_env o then (env_step w o, ([], ROk))
  else let '(e, r, k) := decide w o in let w' := apply_effs w e in (set_inst (w_inst w') k w', (e, r)).

Definition run (w : world) (ops : list op) : world := fold_left (fun w o => fst (step w o)) ops w.

(* ------------------------------------------------------------------ specification *)

(* Written against the property text and Kubernetes semantics. [w] is the world at the instant of the
   finalizer-removing patch; [w0] is the world the reconcile started from (it supplies the NodeClaim the
   controller read: "has a NodeClaim", and its termination deadline). *)

(* a pod Karpenter can drain: it is not finished, does not tolerate the disruption taint, is not a mirror pod *)
Definition can_drain (p : pod) : Prop := p_terminal p = false /\ p_tol p = false /\ p_static p = false.
Definition stuck_terminating (now : Z) (p : pod) : Prop := exists t, p_del p = Some t /\ now - t > 60.

(* a volume attachment blocks unless it has no PV or its PV is mounted by a pod on that node that Karpenter
   does not drain (tolerating, mirror, or stuck terminating) *)
Definition va_blocks (w : world) (i : Z) (v : va) : Prop :=
  v_node v = i /\ exists x, v_pv v = Some x /\
    forall p, In p (w_pods w) -> p_node p = i -> drainable (w_now w) p = false -> ~ In x (p_pvs p).

Definition node_has_claim (w0 : world) : Prop := exists c, visible_claim w0 = Some c.   (* exactly one NodeClaim *)

Definition tgp_expired (w0 w : world) : Prop :=
  exists c t, visible_claim w0 = Some c /\ c_annot c = AAt t /\ w_now w > t.

Definition node_fin_ok (w0 w : world) (i : Z) : Prop :=
  exists n, get_node i (w_nodes w) = Some n /\
  ((n_taint n = true /\
    (forall p, In p (w_pods w) -> p_node p = i -> can_drain p -> stuck_terminating (w_now w) p) /\
    ((forall v, In v (w_vas w) -> ~ va_blocks w i v) \/ tgp_expired w0 w) /\
    inst_absent (w_inst w) = true)
   \/ (n_ready n = false /\ inst_absent (w_inst w) = true)).

(* the same when the reconcile was handed an older version of the Node: "not Ready" is what that version said *)
Definition node_fin_ok_seen (w0 w : world) (i : Z) (seen_ready : bool) : Prop :=
  exists n, get_node i (w_nodes w) = Some n /\
  ((n_taint n = true /\
    (forall p, In p (w_pods w) -> p_node p = i -> can_drain p -> stuck_terminating (w_now w) p) /\
    ((forall v, In v (w_vas w) -> ~ va_blocks w i v) \/ tgp_expired w0 w) /\
    inst_absent (w_inst w) = true)
   \/ (seen_ready = false /\ inst_absent (w_inst w) = true)).

(* "its Nodes are gone (if it registered)" and "the provider reports the instance not found (if it was ever
   launched)": an instance that was created at some time is in state IGone *)
Definition claim_nodes_gone (w : world) : Prop :=
  exists c, w_claim w = Some c /\ (c_registered c = true -> claim_nodes w c = []).
Definition claim_instance_gone (w : world) : Prop := w_inst w <> INone -> w_inst w = IGone.
Definition claim_fin_ok (w : world) : Prop := claim_nodes_gone w /\ claim_instance_gone w.

(* boolean oracles (proved equivalent in Proofs.v) *)
Definition tgp_expired_b (w0 w : world) : bool :=
  match visible_claim w0 with
  | Some c => match c_annot c with AAt t => t <? w_now w | _ => false end
  | None => false
  end.
Definition node_fin_ok_b (w0 w : world) (i : Z) : bool :=
  match get_node i (w_nodes w) with
  | None => false
  | Some n =>
      (n_taint n && drain_done i w
       && ((match pending_vas i w with [] => true | _ => false end) || tgp_expired_b w0 w)
       && inst_absent (w_inst w))
      || (negb (n_ready n) && inst_absent (w_inst w))
  end.
Definition node_fin_ok_seen_b (w0 w : world) (i : Z) (seen_ready : bool) : bool :=
  match get_node i (w_nodes w) with
  | None => false
  | Some n =>
      (n_taint n && drain_done i w
       && ((match pending_vas i w with [] => true | _ => false end) || tgp_expired_b w0 w)
       && inst_absent (w_inst w))
      || (negb seen_ready && inst_absent (w_inst w))
  end.
Definition node_has_claim_b (w0 : world) : bool := is_some (visible_claim w0).
Definition claim_fin_ok_b (w : world) : bool :=
  match w_claim w with
  | None => false
  | Some c =>
      (negb (c_registered c) || match claim_nodes w c with [] => true | _ => false end)
      && inst_absent (w_inst w)
  end.

(* a completed deletion that leaks: the claim object disappears while the provider still holds the instance *)
Definition orphaned (pre post : world) : bool :=
  is_some (w_claim pre) && negb (is_some (w_claim post)) && negb (inst_absent (w_inst post)).

(* the world at the instant of the last write of a reconcile *)
Definition instant (w : world) (es : list eff) : world := apply_effs w (removelast es).

(* well-formed initial worlds: an instance exists only for a claim that carries the finalizer
   (C14: the finalizer is added before Create) *)
Definition never_created (s : inst) : bool := match s with INone => true | _ => false end.
Definition finalizer_before_launch_b (w : world) : bool :=
  match w_claim w with None => true | Some c => never_created (w_inst w) || c_fin c end.
Definition finalizer_before_launch (w : world) : Prop := finalizer_before_launch_b w = true.

(* ---- the weakest premises (deepening round) ---- *)

(* what the claim finalizer needs in the world it runs in: an existing instance is recorded on the claim *)
Definition recorded_or_absent_b (w : world) : bool :=
  match w_claim w with None => true | Some c => c_pid c || inst_absent (w_inst w) end.
Definition recorded_or_absent (w : world) : Prop := recorded_or_absent_b w = true.

(* the invariant that carries no-orphan without assuming that launches persist: an existing instance belongs to a
   claim that has the finalizer and either recorded the provider id or is not deleting yet (the launch cache or a
   repeated, idempotent Create will record it) *)
Definition accounted_b (w : world) : bool :=
  match w_claim w with
  | None => true
  | Some c => inst_absent (w_inst w) || (c_fin c && (c_pid c || negb (is_some (c_del c))))
  end.
Definition accounted (w : world) : Prop := accounted_b w = true.

(* histories in which nobody deletes the NodeClaim while it holds an unrecorded instance: neither a user / another
   controller (EnvDelClaim) nor the launch itself when Create answers InsufficientCapacity / NodeClassNotReady *)
Definition gives_up (f : fault) : bool :=
  match fails f SProvCreate with Some KServer | None => false | Some _ => true end.
Definition delete_guard (w : world) (o : op) : bool :=
  match o with
  | EnvDelClaim => recorded_or_absent_b w
  | RClaim f | RClaimStale _ f => if gives_up f then recorded_or_absent_b w else true
  | _ => true
  end.
Fixpoint deletes_recorded (w : world) (ops : list op) : bool :=
  match ops with
  | [] => true
  | o :: rest => delete_guard w o && deletes_recorded (fst (step w o)) rest
  end.
