(* C02 — the Topology level (topology.go): the set of forward and inverse groups, which groups a pod
   consults (getMatchingTopologies), AddRequirements (the per-group domain choices are intersected into the
   node's requirement per key), Record (commit into every group that counts the pod: anti-affinity records all
   possible domains, spread / affinity only a collapsed one; inverse groups record for their owners), owner
   re-registration after relaxation (Update), Register(hostname), and traces of such steps in any order.

   Deliberate abstractions, all stated here:
   * group identity is structural: a group is addressed by its position in the (append-only) group list
     instead of by TopologyGroup.Hash(); hash collisions are therefore outside this model (they are watched
     by the harness: findings `spread-group-hash-ignores-node-filter-values`,
     `selector-duplicate-values-hash-collision`);
   * `selects(pod)` and `nodeFilter.Matches(taints, requirements)` are arbitrary functions of the pod / of
     the node's requirements, fixed per group;
   * a step [GAdmit] is one successful CanAdd + Add on one node: the node requirements the topology sees
     ([nr]) are any refinement of the node's current requirements (pod / volume requirements are added by
     intersection), the domains chosen by Get are any outcome [allowed_get] permits; failed attempts have no
     effect on the topology except through [GUpdate];
   * [GUpdate] is Topology.Update after a relaxation: the pod's forward ownership is replaced, groups that
     do not exist yet are appended with whatever counts countDomains computed (bound pods only); inverse
     groups are untouched (required anti-affinity terms are never relaxed). *)
From Coq Require Import Lia Setoid.
From KV Require Import Base.Req Base.ReqProofs C02.Model C02.Spec C02.Proofs.
Open Scope Z_scope.

(* ================================================================ requirements in "In [..]" form *)
Definition inlist (r : req) : Prop := compl r = false /\ gte r = None /\ lte r = None.
Definition in_req (vs : list string) : req := mkReq false vs None None None.

Lemma inlist_in_req vs : inlist (in_req vs).
Proof. repeat split. Qed.

Lemma inlist_has r v : inlist r -> has r v = mem v (vals r).
Proof. intros (C & G & L). unfold has, within. rewrite C, G, L. apply andb_true_r. Qed.

Lemma inlist_inter a b : inlist a \/ inlist b -> inlist (intersection a b).
Proof.
  intros H. unfold intersection.
  destruct (match max_opt (gte a) (gte b) with Some x => match min_opt (lte a) (lte b) with Some y => y <? x | None => false end | None => false end);
    [repeat split|].
  assert (C : compl a && compl b = false) by (destruct H as [(C & _)|(C & _)]; rewrite C; [reflexivity | apply andb_false_r]).
  rewrite C. repeat split.
Qed.

Lemma has_in_req vs v : has (in_req vs) v = mem v vs.
Proof. apply inlist_has, inlist_in_req. Qed.

Lemma get_add1_same m k r : get (add1 m (k, r)) k = match find k m with Some ex => intersection r ex | None => r end.
Proof. unfold add1, get. destruct (find k m); rewrite find_set_same; reflexivity. Qed.

Lemma get_add1_other m k r k0 : k0 <> k -> get (add1 m (k, r)) k0 = get m k0.
Proof. intros N. unfold add1, get. destruct (find k m); rewrite find_set_other by exact N; reflexivity. Qed.

Lemma inlist_add1 m k r k0 : inlist (get m k0) \/ (k0 = k /\ inlist r) -> inlist (get (add1 m (k, r)) k0).
Proof.
  intros H. destruct (String.eqb_spec k0 k) as [->|N].
  - rewrite get_add1_same. unfold get in H. destruct (find k m) as [ex|].
    + apply inlist_inter. destruct H as [H|[_ H]]; [right | left]; exact H.
    + destruct H as [(C & _)|[_ H]]; [discriminate | exact H].
  - rewrite get_add1_other by exact N. destruct H as [H|[E _]]; [exact H | congruence].
Qed.

(* Topology.AddRequirements: requirements.Add(domains) for every consulted group *)
Definition add_choices (nr : reqs) (krs : list (string * list string)) : reqs :=
  fold_left (fun m kr => add1 m (fst kr, in_req (snd kr))) krs nr.

Lemma add_choices_has krs : forall nr k v, has (get (add_choices nr krs) k) v = true ->
  has (get nr k) v = true /\ forall res, List.In (k, res) krs -> List.In v res.
Proof.
  unfold add_choices. induction krs as [|[k1 r1] t IH]; simpl; intros nr k v H; [split; [exact H | intros ? []]|].
  destruct (IH _ _ _ H) as [H1 H2]. change (has (get (add1 nr (k1, in_req r1)) k) v = true) in H1. rewrite get_add1 in H1. destruct (String.eqb_spec k k1) as [->|N].
  - apply andb_true_iff in H1. destruct H1 as [A B]. rewrite has_in_req in A. split; [exact B|].
    intros res [E|I]; [inversion E; subst; apply mem_In; exact A | apply H2; exact I].
  - split; [exact H1|]. intros res [E|I]; [inversion E; congruence | apply H2; exact I].
Qed.

Lemma add_choices_inlist krs : forall nr k, inlist (get nr k) \/ List.In k (map fst krs) -> inlist (get (add_choices nr krs) k).
Proof.
  unfold add_choices. induction krs as [|[k1 r1] t IH]; simpl; intros nr k H; [destruct H as [H|[]]; exact H|].
  apply IH. destruct H as [H|[E|I]].
  - left. apply inlist_add1. left. exact H.
  - left. apply inlist_add1. right. split; [symmetry; exact E | apply inlist_in_req].
  - right. exact I.
Qed.

(* ================================================================ the Topology *)
Record tgroup := mkTG {
  tg_key : string;                 (* topology key *)
  tg_g : group;                    (* counters (Model.group) *)
  tg_sel : nat -> bool;            (* selects(pod) *)
  tg_filter : reqs -> bool;        (* nodeFilter.Matches on the node's requirements *)
  tg_owners : list nat
}.
Record topo := mkT { t_fwd : list tgroup; t_inv : list tgroup }.

Definition memn (x : nat) (l : list nat) : bool := existsb (Nat.eqb x) l.
Definition with_g (tg : tgroup) (g : group) : tgroup := mkTG (tg_key tg) g (tg_sel tg) (tg_filter tg) (tg_owners tg).
Definition with_owners (tg : tgroup) (o : list nat) : tgroup := mkTG (tg_key tg) (tg_g tg) (tg_sel tg) (tg_filter tg) o.

(* getMatchingTopologies *)
Definition consulted (t : topo) (p : nat) (nr : reqs) : list tgroup :=
  filter (fun tg => memn p (tg_owners tg)) (t_fwd t) ++
  filter (fun tg => tg_sel tg p && tg_filter tg nr) (t_inv t).

(* Topology.Record *)
Definition rec_fwd (p : nat) (final : reqs) (tg : tgroup) : tgroup :=
  if tg_sel tg p && tg_filter tg final then
    let r := get final (tg_key tg) in
    match gtype (tg_g tg) with
    | TAnti => with_g tg (fold_left record1 (vals r) (tg_g tg))
    | _ => if compl r then tg else match vals r with [d] => with_g tg (record1 (tg_g tg) d) | _ => tg end
    end
  else tg.
Definition rec_inv (p : nat) (final : reqs) (tg : tgroup) : tgroup :=
  if memn p (tg_owners tg) then with_g tg (fold_left record1 (vals (get final (tg_key tg))) (tg_g tg)) else tg.

(* Topology.Register(LabelHostname, h) *)
Definition reg_host (h : string) (tg : tgroup) : tgroup :=
  if String.eqb (tg_key tg) hostname_key then with_g tg (register1 (tg_g tg) h) else tg.

Definition choice := (list string * list string)%type.     (* Values() of the returned requirement, validDomains *)

Inductive gstep :=
| GAdmit (p n : nat) (pd nr : reqs) (chs : list choice)
| GUpdate (p : nat) (own : list bool) (fresh : list tgroup)
| GRegHost (h : string).

Record gstate := mkS { s_topo : topo; s_nodes : nat -> reqs; s_placed : list (nat * nat) }.

Definition krs_of (cs : list tgroup) (chs : list choice) : list (string * list string) :=
  map (fun tc : tgroup * choice => (tg_key (fst tc), fst (snd tc))) (combine cs chs).

Definition final_reqs (st : gstate) (p : nat) (nr : reqs) (chs : list choice) : reqs :=
  add_choices nr (krs_of (consulted (s_topo st) p nr) chs).

Definition reown (p : nat) (tg : tgroup) (b : bool) : tgroup :=
  let o := filter (fun x => negb (Nat.eqb p x)) (tg_owners tg) in
  with_owners tg (if b then p :: o else o).

Fixpoint reown_all (p : nat) (l : list tgroup) (own : list bool) : list tgroup :=
  match l, own with
  | tg :: t, b :: bs => reown p tg b :: reown_all p t bs
  | tg :: t, [] => reown p tg false :: reown_all p t []
  | [], _ => []
  end.

Definition gapply (st : gstate) (s : gstep) : gstate :=
  match s with
  | GAdmit p n pd nr chs =>
      let final := final_reqs st p nr chs in
      mkS (mkT (map (rec_fwd p final) (t_fwd (s_topo st))) (map (rec_inv p final) (t_inv (s_topo st))))
          (fun m => if Nat.eqb m n then final else s_nodes st m)
          ((p, n) :: s_placed st)
  | GUpdate p own fresh =>
      mkS (mkT (reown_all p (t_fwd (s_topo st)) own ++ fresh) (t_inv (s_topo st))) (s_nodes st) (s_placed st)
  | GRegHost h =>
      mkS (mkT (map (reg_host h) (t_fwd (s_topo st))) (map (reg_host h) (t_inv (s_topo st)))) (s_nodes st) (s_placed st)
  end.

Definition refines (nr cur : reqs) : Prop := forall k v, has (get nr k) v = true -> has (get cur k) v = true.

Definition gstep_ok (st : gstate) (s : gstep) : Prop :=
  match s with
  | GAdmit p n pd nr chs =>
      refines nr (s_nodes st n) /\
      Forall2 (fun tg (ch : choice) =>
                 allowed_get (tg_g tg) (tg_sel tg p) (get pd (tg_key tg)) (get nr (tg_key tg)) (fst ch) (snd ch) = true)
              (consulted (s_topo st) p nr) chs
  | GUpdate p own fresh => Forall (fun tg => wf (tg_g tg)) fresh
  | GRegHost h => True
  end.

Fixpoint gtrace_ok (st : gstate) (tr : list gstep) : Prop :=
  match tr with [] => True | s :: t => gstep_ok st s /\ gtrace_ok (gapply st s) t end.
Definition grun (st : gstate) (tr : list gstep) : gstate := fold_left gapply tr st.

Definition gwf (st : gstate) : Prop :=
  Forall (fun tg => wf (tg_g tg)) (t_fwd (s_topo st)) /\ Forall (fun tg => wf (tg_g tg)) (t_inv (s_topo st)).

(* ================================================================ one group along a trace *)
(* same group, later: static fields equal, counters only grew, still well-formed *)
Definition later (a b : tgroup) : Prop :=
  tg_key a = tg_key b /\ tg_sel a = tg_sel b /\ tg_filter a = tg_filter b /\
  gtype (tg_g a) = gtype (tg_g b) /\ ghost (tg_g a) = ghost (tg_g b) /\ gskew (tg_g a) = gskew (tg_g b) /\ gmind (tg_g a) = gmind (tg_g b) /\
  forall d, cnt (gdom (tg_g a)) d <= cnt (gdom (tg_g b)) d.

Lemma later_refl a : later a a.
Proof. repeat split; intros; lia. Qed.
Lemma later_trans a b c : later a b -> later b c -> later a c.
Proof.
  intros (A1 & A2 & A3 & A4 & A5 & A6 & A7 & A8) (B1 & B2 & B3 & B4 & B5 & B6 & B7 & B8).
  repeat split; try congruence. intros d. specialize (A8 d). specialize (B8 d). lia.
Qed.

Lemma static_records ds : forall g, let g' := fold_left record1 ds g in
  gtype g' = gtype g /\ ghost g' = ghost g /\ gskew g' = gskew g /\ gmind g' = gmind g.
Proof. intros g. apply (static_fold record1 static_record1). Qed.

Lemma later_with_records tg ds : later tg (with_g tg (fold_left record1 ds (tg_g tg))).
Proof.
  destruct (static_records ds (tg_g tg)) as (A & B & C & D). simpl in *.
  repeat split; simpl; try congruence. intros d. apply cnt_records_ge.
Qed.
Lemma later_with_record1 tg d : later tg (with_g tg (record1 (tg_g tg) d)).
Proof. apply (later_with_records tg [d]). Qed.

Lemma later_rec_fwd p final tg : later tg (rec_fwd p final tg).
Proof.
  unfold rec_fwd. destruct (tg_sel tg p && tg_filter tg final); [|apply later_refl].
  destruct (gtype (tg_g tg)); try apply later_with_records;
    (destruct (compl (get final (tg_key tg))); [apply later_refl|]);
    (destruct (vals (get final (tg_key tg))) as [|d [|e t]]; [apply later_refl | apply later_with_record1 | apply later_refl]).
Qed.
Lemma later_rec_inv p final tg : later tg (rec_inv p final tg).
Proof. unfold rec_inv. destruct (memn p (tg_owners tg)); [apply later_with_records | apply later_refl]. Qed.
Lemma later_reg_host h tg : later tg (reg_host h tg).
Proof.
  unfold reg_host. destruct (String.eqb (tg_key tg) hostname_key); [|apply later_refl].
  destruct (static_register1 (tg_g tg) h) as (A & B & C & D).
  repeat split; simpl; try congruence. intros d. rewrite cnt_register1. lia.
Qed.
Lemma later_reown p tg b : later tg (reown p tg b).
Proof. repeat split; simpl; intros; lia. Qed.

Lemma wf_rec_fwd p final tg : wf (tg_g tg) -> wf (tg_g (rec_fwd p final tg)).
Proof.
  intros W. unfold rec_fwd. destruct (tg_sel tg p && tg_filter tg final); [|exact W].
  destruct (gtype (tg_g tg)); simpl; try (apply wf_fold; [apply wf_record1 | exact W]);
    (destruct (compl (get final (tg_key tg))); [exact W|]);
    (destruct (vals (get final (tg_key tg))) as [|d [|e t]]; simpl; [exact W | apply wf_record1; exact W | exact W]).
Qed.
Lemma wf_rec_inv p final tg : wf (tg_g tg) -> wf (tg_g (rec_inv p final tg)).
Proof. intros W. unfold rec_inv. destruct (memn p (tg_owners tg)); simpl; [apply wf_fold; [apply wf_record1 | exact W] | exact W]. Qed.
Lemma wf_reg_host h tg : wf (tg_g tg) -> wf (tg_g (reg_host h tg)).
Proof. intros W. unfold reg_host. destruct (String.eqb (tg_key tg) hostname_key); simpl; [apply wf_register1; exact W | exact W]. Qed.

Lemma reown_all_nth p l : forall own i tg, nth_error l i = Some tg ->
  exists b, nth_error (reown_all p l own) i = Some (reown p tg b).
Proof.
  induction l as [|x t IH]; intros own i tg H; [destruct i; discriminate|].
  destruct i as [|i]; simpl in H.
  - inversion H; subst. destruct own as [|b bs]; simpl; eauto.
  - destruct own as [|b bs]; simpl; apply IH; exact H.
Qed.
Lemma reown_all_wf p l : forall own, Forall (fun tg => wf (tg_g tg)) l -> Forall (fun tg => wf (tg_g tg)) (reown_all p l own).
Proof. induction l as [|x t IH]; intros own H; [constructor|]. inversion H; subst. destruct own; simpl; constructor; auto. Qed.

Lemma gwf_apply st s : gwf st -> gstep_ok st s -> gwf (gapply st s).
Proof.
  intros [F I] OK. destruct s as [p n pd nr chs|p own fresh|h]; simpl; split; simpl.
  - rewrite Forall_forall in *. intros x Hx. apply in_map_iff in Hx. destruct Hx as [y [<- Hy]]. apply wf_rec_fwd, F, Hy.
  - rewrite Forall_forall in *. intros x Hx. apply in_map_iff in Hx. destruct Hx as [y [<- Hy]]. apply wf_rec_inv, I, Hy.
  - apply Forall_app. split; [apply reown_all_wf; exact F | exact OK].
  - exact I.
  - rewrite Forall_forall in *. intros x Hx. apply in_map_iff in Hx. destruct Hx as [y [<- Hy]]. apply wf_reg_host, F, Hy.
  - rewrite Forall_forall in *. intros x Hx. apply in_map_iff in Hx. destruct Hx as [y [<- Hy]]. apply wf_reg_host, I, Hy.
Qed.

(* groups are addressed by (inverse?, position); positions are stable *)
Definition group_at (st : gstate) (inv : bool) (i : nat) : option tgroup :=
  nth_error (if inv then t_inv (s_topo st) else t_fwd (s_topo st)) i.

Lemma group_at_apply st s inv i tg : group_at st inv i = Some tg ->
  exists tg', group_at (gapply st s) inv i = Some tg' /\ later tg tg'.
Proof.
  unfold group_at. intros H. destruct s as [p n pd nr chs|p own fresh|h]; destruct inv; simpl.
  - rewrite nth_error_map, H. simpl. eexists; split; [reflexivity | apply later_rec_inv].
  - rewrite nth_error_map, H. simpl. eexists; split; [reflexivity | apply later_rec_fwd].
  - exists tg. split; [exact H | apply later_refl].
  - destruct (reown_all_nth p _ own i tg H) as [b Hb]. exists (reown p tg b). split; [|apply later_reown].
    rewrite nth_error_app1; [exact Hb|]. apply nth_error_Some. congruence.
  - rewrite nth_error_map, H. simpl. eexists; split; [reflexivity | apply later_reg_host].
  - rewrite nth_error_map, H. simpl. eexists; split; [reflexivity | apply later_reg_host].
Qed.

Lemma group_at_run tr : forall st inv i tg, group_at st inv i = Some tg ->
  exists tg', group_at (grun st tr) inv i = Some tg' /\ later tg tg'.
Proof.
  unfold grun. induction tr as [|s t IH]; simpl; intros st inv i tg H; [exists tg; split; [exact H | apply later_refl]|].
  destruct (group_at_apply st s inv i tg H) as [tg1 [H1 L1]]. destruct (IH _ _ _ _ H1) as [tg2 [H2 L2]].
  exists tg2. split; [exact H2 | eapply later_trans; eauto].
Qed.

Lemma gwf_run tr : forall st, gwf st -> gtrace_ok st tr -> gwf (grun st tr).
Proof. unfold grun. induction tr as [|s t IH]; simpl; intros st W T; [exact W|]. destruct T as [OK T]. apply IH; [apply gwf_apply; assumption | exact T]. Qed.

Lemma gtrace_ok_app a : forall st b, gtrace_ok st (a ++ b) <-> gtrace_ok st a /\ gtrace_ok (grun st a) b.
Proof.
  unfold grun. induction a as [|s t IH]; simpl; intros st b; [tauto|]. rewrite IH. tauto.
Qed.
Lemma grun_app a b st : grun st (a ++ b) = grun (grun st a) b.
Proof. unfold grun. apply fold_left_app. Qed.

(* node requirements only shrink *)
Lemma nodes_apply st s : gstep_ok st s -> forall m, refines (s_nodes (gapply st s) m) (s_nodes st m).
Proof.
  intros OK m k v. destruct s as [p n pd nr chs|p own fresh|h]; simpl; try tauto.
  destruct (Nat.eqb_spec m n) as [->|N]; [|tauto]. intros H.
  destruct OK as [R _]. apply R. apply (add_choices_has _ _ _ _ H).
Qed.
Lemma nodes_run tr : forall st, gtrace_ok st tr -> forall m, refines (s_nodes (grun st tr) m) (s_nodes st m).
Proof.
  unfold grun. induction tr as [|s t IH]; simpl; intros st T m k v H; [exact H|]. destruct T as [OK T].
  apply (nodes_apply st s OK m). apply (IH _ T m). exact H.
Qed.

(* ================================================================ what an admission does to one group *)
Lemma Forall2_In_l {A B} (R : A -> B -> Prop) l l' x : Forall2 R l l' -> List.In x l ->
  exists y, List.In (x, y) (combine l l') /\ R x y.
Proof.
  induction 1 as [|a b l l' Rab F IH]; simpl; [intros []|]. intros [->|I].
  - exists b. split; [left; reflexivity | exact Rab].
  - destruct (IH I) as [y [Iy Ry]]. exists y. split; [right; exact Iy | exact Ry].
Qed.

(* a consulted group constrains the node's requirement for its key to the domains Get returned,
   and leaves it in In [..] form *)
Lemma consult_effect st p n pd nr chs X : gstep_ok st (GAdmit p n pd nr chs) ->
  List.In X (consulted (s_topo st) p nr) ->
  exists ch : choice,
    allowed_get (tg_g X) (tg_sel X p) (get pd (tg_key X)) (get nr (tg_key X)) (fst ch) (snd ch) = true /\
    (forall v, has (get (final_reqs st p nr chs) (tg_key X)) v = true -> List.In v (fst ch)) /\
    inlist (get (final_reqs st p nr chs) (tg_key X)).
Proof.
  intros [_ F2] IX. destruct (Forall2_In_l _ _ _ _ F2 IX) as [ch [Ic A]]. exists ch. split; [exact A|].
  assert (IK : List.In (tg_key X, fst ch) (krs_of (consulted (s_topo st) p nr) chs)).
  { unfold krs_of. apply in_map_iff. exists (X, ch). split; [reflexivity | exact Ic]. }
  split.
  - intros v H. unfold final_reqs in H. apply (proj2 (add_choices_has _ _ _ _ H)). exact IK.
  - unfold final_reqs. apply add_choices_inlist. right. apply in_map_iff. exists (tg_key X, fst ch). split; [reflexivity | exact IK].
Qed.

Definition recorded_into (inv : bool) (X : tgroup) (p : nat) (final : reqs) : Prop :=
  if inv then memn p (tg_owners X) = true else tg_sel X p && tg_filter X final = true.
Definition consults (inv : bool) (X : tgroup) (p : nat) (nr : reqs) : Prop :=
  if inv then tg_sel X p && tg_filter X nr = true else memn p (tg_owners X) = true.

Lemma consults_In st inv i X p nr : group_at st inv i = Some X -> consults inv X p nr ->
  List.In X (consulted (s_topo st) p nr).
Proof.
  unfold group_at, consults, consulted. intros H C. apply nth_error_In in H. apply in_app_iff.
  destruct inv; [right | left]; apply filter_In; split; assumption.
Qed.

(* anti-affinity commit: every domain the node may still end up in gets a positive counter *)
Lemma record_anti_effect st p n pd nr chs inv i X : wf (tg_g X) ->
  group_at st inv i = Some X -> gtype (tg_g X) = TAnti ->
  recorded_into inv X p (final_reqs st p nr chs) -> inlist (get (final_reqs st p nr chs) (tg_key X)) ->
  exists X', group_at (gapply st (GAdmit p n pd nr chs)) inv i = Some X' /\ later X X' /\
    forall v, has (get (final_reqs st p nr chs) (tg_key X)) v = true -> 0 < cnt (gdom (tg_g X')) v.
Proof.
  intros W H T R IL. unfold group_at in *. destruct inv; simpl in *; rewrite nth_error_map, H; simpl.
  - exists (rec_inv p (final_reqs st p nr chs) X). split; [reflexivity|]. split; [apply later_rec_inv|].
    intros v Hv. unfold rec_inv. unfold recorded_into in R. rewrite R. simpl.
    apply cnt_records_pos; [|apply (wf_nonneg _ W)]. rewrite (inlist_has _ _ IL) in Hv. apply mem_In. exact Hv.
  - exists (rec_fwd p (final_reqs st p nr chs) X). split; [reflexivity|]. split; [apply later_rec_fwd|].
    intros v Hv. unfold rec_fwd. unfold recorded_into in R. rewrite R, T. simpl.
    apply cnt_records_pos; [|apply (wf_nonneg _ W)]. rewrite (inlist_has _ _ IL) in Hv. apply mem_In. exact Hv.
Qed.

Lemma gwf_group st inv i X : gwf st -> group_at st inv i = Some X -> wf (tg_g X).
Proof.
  intros [F I] H. unfold group_at in H. apply nth_error_In in H.
  destruct inv; [rewrite Forall_forall in I; apply I | rewrite Forall_forall in F; apply F]; exact H.
Qed.

(* ================================================================ anti-affinity, globally *)
(* Core: pod p1 is committed and recorded into the anti-affinity group X (forward group: X selects p1;
   inverse group: p1 owns X) on a node whose requirement for X's key is in In [..] form; any number of steps
   later pod p2 is admitted and consults X (forward: p2 owns X; inverse: X selects p2). Then no domain is
   possible for both nodes — at the two admissions and in every later state. *)
Lemma anti_core st1 p1 n1 pd1 nr1 chs1 mid p2 n2 pd2 nr2 chs2 inv i X1 :
  gwf st1 ->
  gstep_ok st1 (GAdmit p1 n1 pd1 nr1 chs1) ->
  let st1' := gapply st1 (GAdmit p1 n1 pd1 nr1 chs1) in
  gtrace_ok st1' mid ->
  let st2 := grun st1' mid in
  gstep_ok st2 (GAdmit p2 n2 pd2 nr2 chs2) ->
  group_at st1 inv i = Some X1 -> gtype (tg_g X1) = TAnti ->
  recorded_into inv X1 p1 (final_reqs st1 p1 nr1 chs1) ->
  inlist (get (final_reqs st1 p1 nr1 chs1) (tg_key X1)) ->
  (forall X2, group_at st2 inv i = Some X2 -> consults inv X2 p2 nr2) ->
  forall v, has (get (final_reqs st1 p1 nr1 chs1) (tg_key X1)) v = true ->
            has (get (final_reqs st2 p2 nr2 chs2) (tg_key X1)) v = true -> False.
Proof.
  intros W1 OK1 st1' TM st2 OK2 H1 T R IL C v Hv1 Hv2.
  destruct (record_anti_effect st1 p1 n1 pd1 nr1 chs1 inv i X1 (gwf_group _ _ _ _ W1 H1) H1 T R IL) as [X1' [H1' [L1 P]]].
  destruct (group_at_run mid st1' inv i X1' H1') as [X2 [H2 L2]]. fold st2 in H2.
  assert (W2 : gwf st2) by (apply gwf_run; [apply gwf_apply; assumption | exact TM]).
  pose proof (later_trans _ _ _ L1 L2) as L12.
  destruct L12 as (K & _ & _ & TY & _ & _ & _ & _). destruct L2 as (_ & _ & _ & _ & _ & _ & _ & GE).
  destruct (consult_effect st2 p2 n2 pd2 nr2 chs2 X2 OK2 (consults_In _ _ _ _ _ _ H2 (C X2 H2))) as [ch [A [SUB _]]].
  rewrite K in Hv2. specialize (SUB v Hv2).
  unfold allowed_get in A. rewrite <- TY, T in A. apply andb_true_iff in A. destruct A as [A _].
  pose proof (anti_sound (tg_g X2) _ _ v (gwf_group _ _ _ _ W2 H2) (seteq_In _ _ _ A SUB)) as Z0.
  specialize (P v Hv1). specialize (GE v). lia.
Qed.

(* the two nodes' final requirements refine what they were at the admissions *)
Lemma final_refines st p n pd nr chs post : gstep_ok st (GAdmit p n pd nr chs) ->
  gtrace_ok (gapply st (GAdmit p n pd nr chs)) post ->
  refines (s_nodes (grun (gapply st (GAdmit p n pd nr chs)) post) n) (final_reqs st p nr chs).
Proof.
  intros OK T k v H. pose proof (nodes_run post _ T n k v H) as H'. simpl in H'. rewrite Nat.eqb_refl in H'. exact H'.
Qed.

Theorem anti_global_l : forall st0 pre p1 n1 pd1 nr1 chs1 mid p2 n2 pd2 nr2 chs2 post inv i X1,
  gwf st0 ->
  gtrace_ok st0 (pre ++ GAdmit p1 n1 pd1 nr1 chs1 :: mid ++ GAdmit p2 n2 pd2 nr2 chs2 :: post) ->
  let st1 := grun st0 pre in
  let st2 := grun (gapply st1 (GAdmit p1 n1 pd1 nr1 chs1)) mid in
  group_at st1 inv i = Some X1 -> gtype (tg_g X1) = TAnti ->
  recorded_into inv X1 p1 (final_reqs st1 p1 nr1 chs1) ->
  (exists Y, List.In Y (consulted (s_topo st1) p1 nr1) /\ tg_key Y = tg_key X1) ->
  (forall X2, group_at st2 inv i = Some X2 -> consults inv X2 p2 nr2) ->
  let stf := grun st0 (pre ++ GAdmit p1 n1 pd1 nr1 chs1 :: mid ++ GAdmit p2 n2 pd2 nr2 chs2 :: post) in
  forall v, has (get (s_nodes stf n1) (tg_key X1)) v = true -> has (get (s_nodes stf n2) (tg_key X1)) v = true -> False.
Proof.
  intros st0 pre p1 n1 pd1 nr1 chs1 mid p2 n2 pd2 nr2 chs2 post inv i X1 W0 T st1 st2 H1 TY R [Y [IY KY]] C stf v Hv1 Hv2.
  apply gtrace_ok_app in T. destruct T as [Tpre T]. fold st1 in T. simpl in T. destruct T as [OK1 T].
  apply gtrace_ok_app in T. destruct T as [Tmid T]. fold st2 in T. simpl in T. destruct T as [OK2 Tpost].
  assert (W1 : gwf st1) by (apply gwf_run; assumption).
  assert (E : stf = grun (gapply st2 (GAdmit p2 n2 pd2 nr2 chs2)) post).
  { unfold stf. rewrite grun_app. fold st1. simpl. change (fold_left gapply (mid ++ GAdmit p2 n2 pd2 nr2 chs2 :: post) (gapply st1 (GAdmit p1 n1 pd1 nr1 chs1)))
      with (grun (gapply st1 (GAdmit p1 n1 pd1 nr1 chs1)) (mid ++ GAdmit p2 n2 pd2 nr2 chs2 :: post)).
    rewrite grun_app. fold st2. reflexivity. }
  assert (IL : inlist (get (final_reqs st1 p1 nr1 chs1) (tg_key X1))).
  { rewrite <- KY. destruct (consult_effect st1 p1 n1 pd1 nr1 chs1 Y OK1 IY) as [ch [_ [_ IL]]]. exact IL. }
  apply (anti_core st1 p1 n1 pd1 nr1 chs1 mid p2 n2 pd2 nr2 chs2 inv i X1 W1 OK1 Tmid OK2 H1 TY R IL C v).
  - (* n1's final requirement refines what it was at p1's admission *)
    assert (T1 : gtrace_ok (gapply st1 (GAdmit p1 n1 pd1 nr1 chs1)) (mid ++ GAdmit p2 n2 pd2 nr2 chs2 :: post)).
    { apply gtrace_ok_app. split; [exact Tmid|]. simpl. split; assumption. }
    pose proof (final_refines st1 p1 n1 pd1 nr1 chs1 _ OK1 T1 (tg_key X1) v) as R1.
    apply R1. unfold stf in Hv1. rewrite grun_app in Hv1. exact Hv1.
  - rewrite E in Hv2. apply (final_refines st2 p2 n2 pd2 nr2 chs2 post OK2 Tpost). exact Hv2.
Qed.

(* ---- both directions for one required anti-affinity term: forward group F (owners = carriers of the term,
   counts the pods the term selects) and its inverse twin I (same key and selector, owners = carriers,
   consulted by the pods the term selects). Anti-affinity groups have no node filter. *)
Definition twin (F I : tgroup) : Prop :=
  tg_key F = tg_key I /\ tg_sel F = tg_sel I /\
  (forall r, tg_filter F r = true) /\ (forall r, tg_filter I r = true) /\
  gtype (tg_g F) = TAnti /\ gtype (tg_g I) = TAnti.

Lemma group_at_later st tr inv i X X2 : group_at st inv i = Some X -> group_at (grun st tr) inv i = Some X2 -> later X X2.
Proof. intros H H2. destruct (group_at_run tr st inv i X H) as [X' [H' L]]. rewrite H2 in H'. inversion H'; subst. exact L. Qed.

(* carrier p1 first, then a pod p2 the term selects *)
Theorem anti_owner_first_l : forall st0 pre p1 n1 pd1 nr1 chs1 mid p2 n2 pd2 nr2 chs2 post iF iI F I,
  gwf st0 ->
  gtrace_ok st0 (pre ++ GAdmit p1 n1 pd1 nr1 chs1 :: mid ++ GAdmit p2 n2 pd2 nr2 chs2 :: post) ->
  let st1 := grun st0 pre in
  group_at st1 false iF = Some F -> group_at st1 true iI = Some I -> twin F I ->
  memn p1 (tg_owners F) = true -> memn p1 (tg_owners I) = true -> tg_sel F p2 = true ->
  let stf := grun st0 (pre ++ GAdmit p1 n1 pd1 nr1 chs1 :: mid ++ GAdmit p2 n2 pd2 nr2 chs2 :: post) in
  forall v, has (get (s_nodes stf n1) (tg_key F)) v = true -> has (get (s_nodes stf n2) (tg_key F)) v = true -> False.
Proof.
  intros st0 pre p1 n1 pd1 nr1 chs1 mid p2 n2 pd2 nr2 chs2 post iF iI F I W0 T st1 HF HI (K & S & FF & FI & TF & TI) OF OI SEL stf v.
  rewrite K.
  apply (anti_global_l st0 pre p1 n1 pd1 nr1 chs1 mid p2 n2 pd2 nr2 chs2 post true iI I W0 T HI TI).
  - exact OI.
  - exists F. split; [|exact K]. apply (consults_In st1 false iF F p1 nr1 HF). exact OF.
  - intros X2 H2.
    assert (L : later I X2).
    { pose proof (group_at_apply st1 (GAdmit p1 n1 pd1 nr1 chs1) true iI I HI) as [I' [HI' L1]].
      pose proof (group_at_later _ mid true iI I' X2 HI' H2) as L2. eapply later_trans; eauto. }
    destruct L as (_ & SE & FE & _). unfold consults. rewrite <- SE, <- FE, <- S, SEL, FI. reflexivity.
Qed.

(* a selected pod p1 first, then a carrier p2 of the term *)
Theorem anti_selected_first_l : forall st0 pre p1 n1 pd1 nr1 chs1 mid p2 n2 pd2 nr2 chs2 post iF iI F I,
  gwf st0 ->
  gtrace_ok st0 (pre ++ GAdmit p1 n1 pd1 nr1 chs1 :: mid ++ GAdmit p2 n2 pd2 nr2 chs2 :: post) ->
  let st1 := grun st0 pre in
  let st2 := grun (gapply st1 (GAdmit p1 n1 pd1 nr1 chs1)) mid in
  group_at st1 false iF = Some F -> group_at st1 true iI = Some I -> twin F I ->
  tg_sel F p1 = true ->
  (forall F2, group_at st2 false iF = Some F2 -> memn p2 (tg_owners F2) = true) ->
  let stf := grun st0 (pre ++ GAdmit p1 n1 pd1 nr1 chs1 :: mid ++ GAdmit p2 n2 pd2 nr2 chs2 :: post) in
  forall v, has (get (s_nodes stf n1) (tg_key F)) v = true -> has (get (s_nodes stf n2) (tg_key F)) v = true -> False.
Proof.
  intros st0 pre p1 n1 pd1 nr1 chs1 mid p2 n2 pd2 nr2 chs2 post iF iI F I W0 T st1 st2 HF HI (K & S & FF & FI & TF & TI) SEL OWN stf v.
  apply (anti_global_l st0 pre p1 n1 pd1 nr1 chs1 mid p2 n2 pd2 nr2 chs2 post false iF F W0 T HF TF).
  - unfold recorded_into. rewrite SEL, FF. reflexivity.
  - exists I. split; [|symmetry; exact K]. apply (consults_In st1 true iI I p1 nr1 HI). unfold consults. rewrite <- S, SEL, FI. reflexivity.
  - intros X2 H2. unfold consults. apply OWN. exact H2.
Qed.

(* ================================================================ topology spread, globally *)
(* After the admission s1 of a self-selecting carrier of the spread group at position i into domain d:
   [quiet] says that no later step commits a pod counted by the group into d, that later counted commits go to
   domains the group knows (or the key is hostname), and that hostname registration only concerns groups
   whose counters are in hostname mode. These are facts about the trace, not about the code's decisions. *)
Fixpoint quiet (st : gstate) (tr : list gstep) (i : nat) (d : string) : Prop :=
  match tr with
  | [] => True
  | s :: t =>
      match group_at st false i with
      | Some G =>
          match s with
          | GAdmit p n pd nr chs =>
              let r := get (final_reqs st p nr chs) (tg_key G) in
              tg_sel G p && tg_filter G (final_reqs st p nr chs) = true -> compl r = false ->
              forall d', vals r = [d'] -> d' <> d /\ (lookup d' (gdom (tg_g G)) <> None \/ ghost (tg_g G) = true)
          | GRegHost h => tg_key G = hostname_key -> ghost (tg_g G) = true
          | GUpdate _ _ _ => True
          end
      | None => True
      end /\ quiet (gapply st s) t i d
  end.

Definition bound_holds (G : tgroup) (d : string) (pdk : req) : Prop :=
  cnt (gdom (tg_g G)) d - dmin (tg_g G) pdk <= gskew (tg_g G).

Lemma dmin_register1_host g h pd : ghost g = true -> dmin (register1 g h) pd = dmin g pd.
Proof. intros H. apply (dmin_registers_host g [h] pd H). Qed.

Lemma bound_step st s i d pdk G : gwf st -> group_at st false i = Some G -> gtype (tg_g G) = TSpread ->
  quiet st [s] i d -> bound_holds G d pdk ->
  exists G', group_at (gapply st s) false i = Some G' /\ gtype (tg_g G') = TSpread /\ bound_holds G' d pdk.
Proof.
  intros W H T Q B. simpl in Q. rewrite H in Q. destruct Q as [Q _].
  unfold group_at in *. destruct s as [p n pd nr chs|p own fresh|h]; simpl.
  - rewrite nth_error_map, H. simpl. eexists. split; [reflexivity|].
    unfold rec_fwd. destruct (tg_sel G p && tg_filter G (final_reqs st p nr chs)) eqn:C; [|split; assumption].
    rewrite T. destruct (compl (get (final_reqs st p nr chs) (tg_key G))) eqn:CP; [split; assumption|].
    destruct (vals (get (final_reqs st p nr chs) (tg_key G))) as [|d' [|e t]] eqn:V; try (split; assumption).
    destruct (Q eq_refl eq_refl d' eq_refl) as [N KN]. split; [exact T|].
    unfold bound_holds in *.
    change (cnt (gdom (record1 (tg_g G) d')) d - dmin (record1 (tg_g G) d') pdk <= gskew (tg_g G)).
    rewrite cnt_record1_other by congruence.
    pose proof (dmin_record1 (tg_g G) d' pdk KN) as M. lia.
  - destruct (reown_all_nth p _ own i G H) as [b Hb]. exists (reown p G b).
    split; [rewrite nth_error_app1; [exact Hb | apply nth_error_Some; congruence]|]. split; assumption.
  - rewrite nth_error_map, H. simpl. eexists. split; [reflexivity|]. unfold reg_host.
    destruct (String.eqb_spec (tg_key G) hostname_key) as [E|N]; [|split; assumption].
    destruct (static_register1 (tg_g G) h) as (A & _ & C & _). split; [simpl; congruence|].
    unfold bound_holds in *. simpl. rewrite cnt_register1, (dmin_register1_host _ _ _ (Q E)), C. exact B.
Qed.

Lemma bound_run : forall post st i d pdk G, gwf st -> gtrace_ok st post -> group_at st false i = Some G ->
  gtype (tg_g G) = TSpread -> quiet st post i d -> bound_holds G d pdk ->
  exists G', group_at (grun st post) false i = Some G' /\ bound_holds G' d pdk.
Proof.
  unfold grun. induction post as [|s t IH]; simpl; intros st i d pdk G W T H TY Q B; [exists G; split; assumption|].
  destruct T as [OK T]. destruct Q as [Q1 Q].
  destruct (bound_step st s i d pdk G W H TY (conj Q1 I) B) as [G' [H' [TY' B']]].
  apply (IH (gapply st s) i d pdk G' (gwf_apply _ _ W OK) T H' TY' Q B').
Qed.

Lemma allowed_spread_single g self pd nd res valid d : allowed_spread g self pd nd res valid = true -> List.In d res ->
  allowed_spread g self pd nd [d] valid = true.
Proof.
  unfold allowed_spread. destruct (host_single g nd) as [h|].
  - destruct (cnt (gdom g) h + inc self <=? gskew g); intros A I; apply andb_true_iff in A; destruct A as [A1 A2].
    + pose proof (seteq_In _ _ _ A1 I) as [<-|[]]. rewrite A2. unfold seteq. simpl. rewrite String.eqb_refl. reflexivity.
    + pose proof (seteq_In _ _ _ A1 I) as [].
  - intros A I. apply andb_true_iff in A. destruct A as [V R]. rewrite V. simpl.
    destruct res as [|r0 [|r1 rs]]; [destruct I | destruct I as [<-|[]]; exact R | discriminate].
Qed.

(* The carrier p1 (owner of the spread group at position i, selected by it, on a node the group's filter accepts)
   is admitted and its node collapses to domain d; if afterwards the trace is quiet for (i, d), then in the END
   state count(d) - min <= maxSkew for the group, with min over the domains p1 can use. *)
Theorem spread_global_l : forall st0 pre p1 n1 pd1 nr1 chs1 post i G d,
  gwf st0 ->
  gtrace_ok st0 (pre ++ GAdmit p1 n1 pd1 nr1 chs1 :: post) ->
  let st1 := grun st0 pre in
  group_at st1 false i = Some G -> gtype (tg_g G) = TSpread ->
  memn p1 (tg_owners G) = true -> tg_sel G p1 = true -> tg_filter G (final_reqs st1 p1 nr1 chs1) = true ->
  vals (get (final_reqs st1 p1 nr1 chs1) (tg_key G)) = [d] ->
  quiet (gapply st1 (GAdmit p1 n1 pd1 nr1 chs1)) post i d ->
  exists Gf, group_at (grun st0 (pre ++ GAdmit p1 n1 pd1 nr1 chs1 :: post)) false i = Some Gf /\
             bound_holds Gf d (get pd1 (tg_key G)).
Proof.
  intros st0 pre p1 n1 pd1 nr1 chs1 post i G d W0 T st1 H TY OWN SEL FIL V Q.
  apply gtrace_ok_app in T. destruct T as [Tpre T]. fold st1 in T. cbn [gtrace_ok] in T. destruct T as [OK1 Tpost].
  assert (W1 : gwf st1) by (apply gwf_run; assumption).
  pose proof (gwf_group _ _ _ _ W1 H) as WG.
  destruct (consult_effect st1 p1 n1 pd1 nr1 chs1 G OK1 (consults_In st1 false i G p1 nr1 H OWN)) as [ch [A [SUB IL]]].
  assert (HD : has (get (final_reqs st1 p1 nr1 chs1) (tg_key G)) d = true).
  { rewrite (inlist_has _ _ IL), V. simpl. rewrite String.eqb_refl. reflexivity. }
  unfold allowed_get in A. rewrite TY, SEL in A.
  pose proof (allowed_spread_single _ _ _ _ _ _ d A (SUB d HD)) as A1.
  pose proof (place_establishes (tg_g G) _ _ _ d WG A1) as B.
  rewrite grun_app. fold st1.
  change (grun st1 (GAdmit p1 n1 pd1 nr1 chs1 :: post)) with (grun (gapply st1 (GAdmit p1 n1 pd1 nr1 chs1)) post).
  apply (bound_run post _ i d (get pd1 (tg_key G)) (with_g G (record1 (tg_g G) d))); auto.
  - apply gwf_apply; assumption.
  - unfold group_at in *. simpl. rewrite nth_error_map, H. simpl. unfold rec_fwd. rewrite SEL, FIL, TY. simpl.
    destruct IL as (CP & _). rewrite CP, V. reflexivity.
Qed.

(* ================================================================ affinity, globally *)
(* some earlier step committed a pod the group counts on a node collapsed to exactly v *)
Definition commits_to (st : gstate) (tr : list gstep) (i : nat) (v : string) : Prop :=
  exists a q n pd nr chs b Ga, tr = a ++ GAdmit q n pd nr chs :: b /\
    group_at (grun st a) false i = Some Ga /\
    tg_sel Ga q && tg_filter Ga (final_reqs (grun st a) q nr chs) = true /\
    compl (get (final_reqs (grun st a) q nr chs) (tg_key Ga)) = false /\
    vals (get (final_reqs (grun st a) q nr chs) (tg_key Ga)) = [v].

Lemma commits_to_cons st s t i v : commits_to (gapply st s) t i v -> commits_to st (s :: t) i v.
Proof.
  intros (a & q & n & pd & nr & chs & b & Ga & E & H & C & CP & V).
  exists (s :: a), q, n, pd, nr, chs, b, Ga. subst t. repeat split; assumption.
Qed.

Lemma cnt_origin_step st s i G v : group_at st false i = Some G -> gtype (tg_g G) <> TAnti ->
  exists G', group_at (gapply st s) false i = Some G' /\ gtype (tg_g G') = gtype (tg_g G) /\
    (0 < cnt (gdom (tg_g G')) v -> 0 < cnt (gdom (tg_g G)) v \/ commits_to st [s] i v).
Proof.
  intros H NT. unfold group_at in *. destruct s as [p n pd nr chs|p own fresh|h]; simpl.
  - rewrite nth_error_map, H. simpl. eexists. split; [reflexivity|]. unfold rec_fwd.
    destruct (tg_sel G p && tg_filter G (final_reqs st p nr chs)) eqn:C; [|split; [reflexivity | tauto]].
    destruct (gtype (tg_g G)) eqn:T; [| | congruence];
      (destruct (compl (get (final_reqs st p nr chs) (tg_key G))) eqn:CP; [split; [exact T | tauto]|]);
      (destruct (vals (get (final_reqs st p nr chs) (tg_key G))) as [|d' [|e t]] eqn:V; try (split; [exact T | tauto]));
      (split; [exact T|]); simpl; intros P;
      (destruct (String.eqb_spec v d') as [->|N];
        [right; exists [], p, n, pd, nr, chs, [], G; repeat split; assumption
        | left; rewrite cnt_bump_other in P by exact N; exact P]).
  - destruct (reown_all_nth p _ own i G H) as [b Hb]. exists (reown p G b).
    split; [rewrite nth_error_app1; [exact Hb | apply nth_error_Some; congruence]|]. split; [reflexivity | simpl; tauto].
  - rewrite nth_error_map, H. simpl. eexists. split; [reflexivity|]. unfold reg_host.
    destruct (String.eqb (tg_key G) hostname_key); [|split; [reflexivity | tauto]].
    split; [apply static_register1|]. simpl. rewrite cnt_register1. tauto.
Qed.

Lemma cnt_origin : forall tr st i G v, group_at st false i = Some G -> gtype (tg_g G) <> TAnti ->
  exists Gf, group_at (grun st tr) false i = Some Gf /\
    (0 < cnt (gdom (tg_g Gf)) v -> 0 < cnt (gdom (tg_g G)) v \/ commits_to st tr i v).
Proof.
  unfold grun. induction tr as [|s t IH]; simpl; intros st i G v H NT; [exists G; split; [exact H | tauto]|].
  destruct (cnt_origin_step st s i G v H NT) as [G1 [H1 [T1 O1]]].
  destruct (IH (gapply st s) i G1 v H1 ltac:(congruence)) as [Gf [Hf Of]].
  exists Gf. split; [exact Hf|]. intros P. destruct (Of P) as [P1|CM]; [|right; apply commits_to_cons; exact CM].
  destruct (O1 P1) as [P0|(a & q & n & pd & nr & chs & b & Ga & E & Ha & C & CP & V)]; [left; exact P0|].
  right. destruct a as [|x a]; [|destruct a; discriminate]. simpl in E. inversion E; subst.
  exists [], q, n, pd, nr, chs, t, Ga. repeat split; assumption.
Qed.

(* A pod p with a required affinity term (owner of the affinity group at position i) is admitted. For every
   domain v its node may still end up in: a matching pod was counted in v before the pass (bound pod), or an
   earlier step of the pass committed a selected pod on a node collapsed to exactly v, or p selects itself
   and the group knows no match in any domain p can use. *)
Theorem affinity_global_l : forall st0 pre p n pd nr chs i G0,
  gwf st0 -> gtrace_ok st0 (pre ++ [GAdmit p n pd nr chs]) ->
  group_at st0 false i = Some G0 -> gtype (tg_g G0) = TAffinity ->
  (forall G, group_at (grun st0 pre) false i = Some G -> memn p (tg_owners G) = true) ->
  forall v, has (get (final_reqs (grun st0 pre) p nr chs) (tg_key G0)) v = true ->
    0 < cnt (gdom (tg_g G0)) v \/ commits_to st0 pre i v \/
    (tg_sel G0 p = true /\
     forall v', has (get pd (tg_key G0)) v' = true -> ~ 0 < cnt (gdom (tg_g G0)) v' /\ ~ commits_to st0 pre i v').
Proof.
  intros st0 pre p n pd nr chs i G0 W0 T H0 TY OWN v Hv.
  apply gtrace_ok_app in T. destruct T as [Tpre T]. cbn [gtrace_ok] in T. destruct T as [OK _].
  set (st1 := grun st0 pre) in *.
  destruct (group_at_run pre st0 false i G0 H0) as [G [H L]]. fold st1 in H.
  assert (W1 : gwf st1) by (apply gwf_run; assumption).
  destruct L as (K & SE & _ & TE & _ & _ & _ & GE).
  destruct (consult_effect st1 p n pd nr chs G OK (consults_In st1 false i G p nr H (OWN G H))) as [ch [A [SUB _]]].
  rewrite K in Hv. specialize (SUB v Hv).
  unfold allowed_get in A. rewrite <- TE, TY in A. apply andb_true_iff in A. destruct A as [A _].
  assert (ORI : forall x, 0 < cnt (gdom (tg_g G)) x -> 0 < cnt (gdom (tg_g G0)) x \/ commits_to st0 pre i x).
  { intros x P. destruct (cnt_origin pre st0 i G0 x H0 ltac:(congruence)) as [Gf [Hf O]].
    fold st1 in Hf. rewrite H in Hf. inversion Hf; subst. apply O. exact P. }
  destruct (affinity_sound (tg_g G) _ _ _ _ (gwf_group _ _ _ _ W1 H) A v SUB) as [P|[S N]].
  - destruct (ORI v P) as [P0|C]; [left; exact P0 | right; left; exact C].
  - right. right. rewrite SE. split; [exact S|]. intros v' Hp. rewrite K in Hp.
    assert (Z0 : ~ 0 < cnt (gdom (tg_g G)) v').
    { unfold cnt. destruct (lookup v' (gdom (tg_g G))) eqn:LK; [|lia]. apply lookup_In in LK.
      unfold no_usable_match in N. rewrite forallb_forall in N. specialize (N _ LK). simpl in N. rewrite Hp in N. simpl in N.
      apply Z.leb_le in N. lia. }
    split.
    + specialize (GE v'). lia.
    + intros (a & q & nq & pdq & nrq & chq & b & Ga & E & Ha & C & CP & V). apply Z0.
      (* the commit bumped the counter, and counters only grow *)
      subst pre. rewrite gtrace_ok_app in Tpre. destruct Tpre as [Ta Tb]. cbn [gtrace_ok] in Tb. destruct Tb as [OKq Tb].
      assert (Hq : group_at (gapply (grun st0 a) (GAdmit q nq pdq nrq chq)) false i = Some (with_g Ga (record1 (tg_g Ga) v'))).
      { unfold group_at in *. simpl. rewrite nth_error_map, Ha. simpl. unfold rec_fwd. rewrite C.
        assert (TA : gtype (tg_g Ga) = TAffinity).
        { pose proof (group_at_later st0 a false i G0 Ga H0 Ha) as (_ & _ & _ & TT & _). congruence. }
        rewrite TA, CP, V. reflexivity. }
      assert (L2 : later (with_g Ga (record1 (tg_g Ga) v')) G).
      { apply (group_at_later _ b false i _ G Hq). unfold st1 in H. rewrite grun_app in H. exact H. }
      destruct L2 as (_ & _ & _ & _ & _ & _ & _ & GE2). specialize (GE2 v'). simpl in GE2. rewrite cnt_bump_same in GE2.
      assert (0 <= cnt (gdom (tg_g Ga)) v').
      { assert (WA : gwf (grun st0 a)) by (apply gwf_run; assumption).
        pose proof (gwf_group _ _ _ _ WA Ha) as WGa. unfold cnt. destruct (lookup v' (gdom (tg_g Ga))) eqn:LK; [apply (wf_nonneg _ WGa _ _ LK) | lia]. }
      lia.
Qed.

(* ---- the collapsed-match guard, and the refuted unguarded variant (finding
   `self-affinity-bootstrap-leaves-node-undetermined`) at the Topology level *)
(* a pod the group selects was committed earlier on a node that may still end up in domain x *)
Definition selected_commit_in (st : gstate) (tr : list gstep) (i : nat) (x : string) : Prop :=
  exists a q n pd nr chs b Ga, tr = a ++ GAdmit q n pd nr chs :: b /\
    group_at (grun st a) false i = Some Ga /\
    tg_sel Ga q && tg_filter Ga (final_reqs (grun st a) q nr chs) = true /\
    has (get (final_reqs (grun st a) q nr chs) (tg_key Ga)) x = true.

Definition commits_collapsed (st : gstate) (tr : list gstep) (i : nat) : Prop :=
  forall a q n pd nr chs b Ga, tr = a ++ GAdmit q n pd nr chs :: b ->
    group_at (grun st a) false i = Some Ga ->
    tg_sel Ga q && tg_filter Ga (final_reqs (grun st a) q nr chs) = true ->
    inlist (get (final_reqs (grun st a) q nr chs) (tg_key Ga)) /\
    exists x, vals (get (final_reqs (grun st a) q nr chs) (tg_key Ga)) = [x].

(* full strength: a domain without a (possible) match may only be opened when no selected pod of the pass can
   be in any domain the pod may use *)
Definition strong_affinity_at (st0 : gstate) (pre : list gstep) (p : nat) (pd nr : reqs) (chs : list choice) (i : nat) (G0 : tgroup) : Prop :=
  forall v, has (get (final_reqs (grun st0 pre) p nr chs) (tg_key G0)) v = true ->
    0 < cnt (gdom (tg_g G0)) v \/ selected_commit_in st0 pre i v \/
    (tg_sel G0 p = true /\
     forall v', has (get pd (tg_key G0)) v' = true -> ~ 0 < cnt (gdom (tg_g G0)) v' /\ ~ selected_commit_in st0 pre i v').

Theorem affinity_global_guarded_l : forall st0 pre p n pd nr chs i G0,
  gwf st0 -> gtrace_ok st0 (pre ++ [GAdmit p n pd nr chs]) ->
  group_at st0 false i = Some G0 -> gtype (tg_g G0) = TAffinity ->
  (forall G, group_at (grun st0 pre) false i = Some G -> memn p (tg_owners G) = true) ->
  commits_collapsed st0 pre i ->
  strong_affinity_at st0 pre p pd nr chs i G0.
Proof.
  intros st0 pre p n pd nr chs i G0 W0 T H0 TY OWN CC v Hv.
  destruct (affinity_global_l st0 pre p n pd nr chs i G0 W0 T H0 TY OWN v Hv) as [P|[C|[S N]]].
  - left. exact P.
  - right. left. destruct C as (a & q & nq & pdq & nrq & chq & b & Ga & E & Ha & C & CP & V).
    exists a, q, nq, pdq, nrq, chq, b, Ga. repeat split; try assumption.
    destruct (CC a q nq pdq nrq chq b Ga E Ha C) as [IL _]. rewrite (inlist_has _ _ IL), V. simpl. rewrite String.eqb_refl. reflexivity.
  - right. right. split; [exact S|]. intros v' Hp. destruct (N v' Hp) as [N1 N2]. split; [exact N1|].
    intros (a & q & nq & pdq & nrq & chq & b & Ga & E & Ha & C & HX). apply N2.
    destruct (CC a q nq pdq nrq chq b Ga E Ha C) as [IL [x V]].
    exists a, q, nq, pdq, nrq, chq, b, Ga. repeat split; try assumption; [apply IL|].
    rewrite (inlist_has _ _ IL), V in HX. simpl in HX. rewrite orb_false_r in HX. apply String.eqb_eq in HX. subst. exact V.
Qed.

Open Scope string_scope.
Definition gw_group : tgroup :=
  mkTG "topology.kubernetes.io/zone" (new_group TAffinity false maxint32 None ["a"; "b"; "c"]) (fun _ => true) (fun _ => true) [1%nat; 2%nat].
Definition gw_state : gstate := mkS (mkT [gw_group] []) (fun _ => []) [].
Definition gw_pre : list gstep := [GAdmit 1 1 [] [] [(["a"; "b"], ["a"; "b"])]].   (* bootstrap returned two domains *)

Theorem affinity_topology_refuted_l :
  gwf gw_state /\ gtrace_ok gw_state (gw_pre ++ [GAdmit 2 2 [] [] [(["c"], ["c"])]]) /\
  group_at gw_state false 0 = Some gw_group /\
  ~ strong_affinity_at gw_state gw_pre 2 [] [] [(["c"], ["c"])] 0 gw_group.
Proof.
  split; [split; simpl; [constructor; [apply wf_new_group | constructor] | constructor]|].
  split.
  { simpl. repeat split; try (intros k v H; exact H); repeat constructor; vm_compute; reflexivity. }
  split; [reflexivity|].
  intros S. specialize (S "c" ltac:(vm_compute; reflexivity)). destruct S as [P|[C|[_ N]]].
  - vm_compute in P. discriminate.
  - destruct C as (a & q & n & pd & nr & chs & b & Ga & E & Ha & C & HX).
    destruct a as [|x a]; [|destruct a; discriminate]. inversion E; subst. simpl in Ha. inversion Ha; subst.
    vm_compute in HX. discriminate.
  - destruct (N "a" ltac:(vm_compute; reflexivity)) as [_ N2]. apply N2.
    exists [], 1%nat, 1%nat, [], [], [(["a"; "b"], ["a"; "b"])], [], gw_group. repeat split; vm_compute; reflexivity.
Qed.
