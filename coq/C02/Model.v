(* C02 — executable model of pkg/controllers/provisioning/scheduling/topologygroup.go
   (TopologyGroup: NewTopologyGroup / Register / Record / Unregister / Get with
   nextDomainTopologySpread / nextDomainAffinity / nextDomainAntiAffinity, domainMinCount,
   anyCompatiblePodDomain) and of the way topology.go drives it (AddRequirements narrows the
   node's domains with the requirement returned by Get; Record commits all possible domains
   for anti-affinity groups and only a collapsed domain for spread / affinity groups).

   Granularity: one method call = one step. Go map iteration order, `UnsortedList()` order
   and the two independent `for domain := range t.domains { ...; break }` loops of the
   affinity bootstrap are non-deterministic in the code; the model is relational there
   ([allowed_get] accepts every outcome the code may produce). int32 counters are modelled in
   Z without wrap-around (2^31 pods per domain are out of reach).                           *)
From KV Require Import Base.Req.
Open Scope Z_scope.

Inductive ttype := TSpread | TAffinity | TAnti.

(* t.domains as an association list with unique keys; t.emptyDomains as a duplicate-free list *)
Definition dmap := list (string * Z).

Record group := mkG {
  gtype : ttype;
  ghost : bool;            (* t.Key == corev1.LabelHostname *)
  gskew : Z;               (* maxSkew *)
  gmind : option Z;        (* minDomains *)
  gdom : dmap;             (* domains *)
  gempty : list string     (* emptyDomains *)
}.

Definition maxint32 : Z := 2147483647.

Fixpoint lookup (d : string) (m : dmap) : option Z :=
  match m with
  | [] => None
  | (k, c) :: t => if String.eqb d k then Some c else lookup d t
  end.

(* t.domains[d] with Go's zero value for a missing key *)
Definition cnt (m : dmap) (d : string) : Z := match lookup d m with Some c => c | None => 0 end.

Fixpoint bump (d : string) (m : dmap) : dmap :=          (* t.domains[d]++ *)
  match m with
  | [] => [(d, 1)]
  | (k, c) :: t => if String.eqb d k then (k, c + 1) :: t else (k, c) :: bump d t
  end.

Definition remove_key (d : string) (m : dmap) : dmap := filter (fun kc => negb (String.eqb d (fst kc))) m.
Definition sremove (d : string) (l : list string) : list string := filter (fun x => negb (String.eqb d x)) l.
Definition sinsert (d : string) (l : list string) : list string := if mem d l then l else l ++ [d].

Definition with_state (g : group) (m : dmap) (e : list string) : group :=
  mkG (gtype g) (ghost g) (gskew g) (gmind g) m e.

(* Register: only unknown domains are added, with count 0, and become empty domains *)
Definition register1 (g : group) (d : string) : group :=
  match lookup d (gdom g) with
  | Some _ => g
  | None => with_state g (gdom g ++ [(d, 0)]) (sinsert d (gempty g))
  end.
(* Record *)
Definition record1 (g : group) (d : string) : group :=
  with_state g (bump d (gdom g)) (sremove d (gempty g)).
(* Unregister (no production caller; modelled for the correspondence only) *)
Definition unregister1 (g : group) (d : string) : group :=
  with_state g (remove_key d (gdom g)) (sremove d (gempty g)).

(* NewTopologyGroup: every domain of the domain group starts at 0 and empty *)
Definition new_group (ty : ttype) (host : bool) (skew : Z) (mind : option Z) (ds : list string) : group :=
  fold_left register1 ds (mkG ty host skew mind [] []).

(* ---- domainMinCount ---- *)
Definition supported (m : dmap) (pd : req) : dmap := filter (fun kc => has pd (fst kc)) m.
Definition min_count (m : dmap) : Z := fold_left (fun a kc => Z.min a (snd kc)) m maxint32.
Definition dmin (g : group) (pd : req) : Z :=
  if ghost g then 0 else
  let sup := supported (gdom g) pd in
  match gmind g with
  | Some k => if Z.of_nat (length sup) <? k then 0 else min_count sup
  | None => min_count sup
  end.

Definition is_in (r : req) : bool := oper_eqb (operator r) In.
Definition inc (self : bool) : Z := if self then 1 else 0.

(* the hostname special case applies when t.Key is the hostname label and the node requirement
   lists exactly one value (Values() also lists the excluded values of a complement set) *)
Definition host_single (g : group) (nd : req) : option string :=
  if ghost g then match vals nd with [h] => Some h | _ => None end else None.

(* ---- nextDomainTopologySpread ---- *)
(* candidate domains (within maxSkew) with the count the new pod would produce there *)
Definition spread_cands (g : group) (self : bool) (pd nd : req) : dmap :=
  let mn := dmin g pd in
  let ok (c : Z) := (c + inc self - mn <=? gskew g) in
  if is_in nd then
    flat_map (fun d => match lookup d (gdom g) with
                       | Some c => if ok c then [(d, c + inc self)] else []
                       | None => [] end) (vals nd)
  else
    flat_map (fun kc : string * Z => let (d, c) := kc in
                if has nd d && ok c then [(d, c + inc self)] else []) (gdom g).

Definition is_argmin (cs : dmap) (d : string) : bool :=
  match lookup d cs with
  | Some c => (c <? maxint32) && forallb (fun kc : string * Z => c <=? snd kc) cs
  | None => false
  end.

Definition seteq (a b : list string) : bool :=
  forallb (fun x => mem x b) a && forallb (fun x => mem x a) b.

(* result = Values() of the returned requirement ([] = DoesNotExist); valid = validDomains *)
Definition allowed_spread (g : group) (self : bool) (pd nd : req) (result valid : list string) : bool :=
  match host_single g nd with
  | Some h =>
      if cnt (gdom g) h + inc self <=? gskew g
      then seteq result [h] && seteq valid [h]
      else seteq result [] && seteq valid []
  | None =>
      let cs := spread_cands g self pd nd in
      seteq valid (map fst cs) &&
      match result with
      | [] => (* no candidate below MaxInt32, or the chosen minimum is the domain "" *)
              negb (existsb (fun kc : string * Z => snd kc <? maxint32) cs) || is_argmin cs EmptyString
      | [d] => negb (String.eqb d EmptyString) && is_argmin cs d
      | _ => false
      end
  end.

(* ---- nextDomainAffinity ---- *)
Definition aff_opts (g : group) (pd nd : req) : list string :=
  if is_in nd then
    filter (fun d => has pd d && match lookup d (gdom g) with Some c => 0 <? c | None => false end) (vals nd)
  else
    map fst (filter (fun kc : string * Z => has pd (fst kc) && (0 <? snd kc) && has nd (fst kc)) (gdom g)).

Definition any_compat (g : group) (pd : req) : bool :=
  existsb (fun kc : string * Z => has pd (fst kc) && (0 <? snd kc)) (gdom g).

(* t.selects(pod) && (len(t.domains) == len(t.emptyDomains) || !t.anyCompatiblePodDomain(podDomains)) *)
Definition bootstrap_ok (g : group) (self : bool) (pd : req) : bool :=
  self && (Nat.eqb (length (gdom g)) (length (gempty g)) || negb (any_compat g pd)).

(* the two `range t.domains ... break` loops: each picks ANY matching domain, or none if there is none *)
Definition picks (P : string -> bool) (m : dmap) : list (list string) :=
  match filter P (map fst m) with
  | [] => [[]]
  | l => map (fun d => [d]) l
  end.

Definition boot_outcomes (g : group) (pd nd : req) : list (list string) :=
  flat_map (fun p1 => map (fun p2 => p1 ++ p2) (picks (has pd) (gdom g)))
           (picks (has (intersection pd nd)) (gdom g)).

Definition allowed_affinity (g : group) (self : bool) (pd nd : req) (result : list string) : bool :=
  match host_single g nd with
  | Some h =>
      if negb (has pd h) then seteq result []
      else if 0 <? cnt (gdom g) h then seteq result [h]
      else if bootstrap_ok g self pd then seteq result [h]
      else seteq result []
  | None =>
      match aff_opts g pd nd with
      | [] => if bootstrap_ok g self pd
              then existsb (seteq result) (boot_outcomes g pd nd)
              else seteq result []
      | o => seteq result o
      end
  end.

(* ---- nextDomainAntiAffinity (deterministic as a set) ---- *)
Definition anti_opts (g : group) (pd nd : req) : list string :=
  match host_single g nd with
  | Some h => if cnt (gdom g) h =? 0 then [h] else []
  | None =>
      if is_in nd && (rlen nd <? Z.of_nat (length (gempty g)))
      then filter (fun d => mem d (gempty g) && has pd d) (vals nd)
      else filter (fun d => has nd d && has pd d) (gempty g)
  end.

(* Get: for affinity / anti-affinity validDomains is the value set of the returned requirement *)
Definition allowed_get (g : group) (self : bool) (pd nd : req) (result valid : list string) : bool :=
  match gtype g with
  | TSpread => allowed_spread g self pd nd result valid
  | TAffinity => allowed_affinity g self pd nd result && seteq valid result
  | TAnti => seteq result (anti_opts g pd nd) && seteq valid result
  end.

(* ---- op sequences on one group ---- *)
Inductive op :=
| ORegister (ds : list string)
| ORecord (ds : list string)
| OUnregister (ds : list string)
| OGet (self : bool) (pd nd : req).

Definition step (g : group) (o : op) : group :=
  match o with
  | ORegister ds => fold_left register1 ds g
  | ORecord ds => fold_left record1 ds g
  | OUnregister ds => fold_left unregister1 ds g
  | OGet _ _ _ => g
  end.

Definition run (g : group) (ops : list op) : group := fold_left step ops g.

(* ---- how Topology.AddRequirements / Record use a group (topology.go) ----
   A node carries, for the group's key, the set of domains it may still end up in. Admission of
   a pod governed by the group narrows the node to [nd ∩ result]; committing a pod that the group
   counts records every possible domain for anti-affinity groups and only a collapsed domain
   for spread / affinity groups. *)
Definition narrow (nd result : list string) : list string := filter (fun d => mem d result) nd.

Definition commit (g : group) (node_domains : list string) : group :=
  match gtype g with
  | TAnti => fold_left record1 node_domains g
  | _ => match node_domains with [d] => record1 g d | _ => g end
  end.
