(* C02 — correspondence check and oracles, evaluated by vm_compute on what the Go harness
   observed on the real TopologyGroup (CaseG) and on the real Scheduler.Solve (CaseS). *)
From KV Require Import Base.Req C02.Model C02.Spec.
Open Scope string_scope.
Open Scope list_scope.
Open Scope Z_scope.

(* observation after one op on the real group: the requirement returned by Get (its Values()),
   validDomains, and the group's domains / emptyDomains (sorted by the harness) *)
Record gobs := mkObs { o_result : list string; o_valid : list string; o_dom : dmap; o_empty : list string }.

Inductive case :=
| CaseG (ty : ttype) (host : bool) (skew : Z) (mind : option Z) (init : list string)
        (o0 : gobs) (steps : list (op * gobs))
| CaseS (w : world).

Definition dmap_eq (a b : dmap) : bool :=
  Nat.eqb (length a) (length b) &&
  forallb (fun kc : string * Z => match lookup (fst kc) b with Some c => c =? snd kc | None => false end) a.

Definition state_eq (g : group) (o : gobs) : bool :=
  dmap_eq (o_dom o) (gdom g) && Nat.eqb (length (o_empty o)) (length (gempty g)) && seteq (o_empty o) (gempty g).

(* returns (state ok, get ok, oracle ok) *)
Fixpoint check_steps (g : group) (steps : list (op * gobs)) : bool * bool * bool :=
  match steps with
  | [] => (true, true, true)
  | (o, ob) :: rest =>
      let g' := step g o in
      let '(s, a, r) := check_steps g' rest in
      let '(a1, r1) :=
        match o with
        | OGet self pd nd =>
            (allowed_get g self pd nd (o_result ob) (o_valid ob),
             get_ok_b (gtype g) (ghost g) (gskew g) (gmind g) (o_dom ob) self pd (o_result ob) (o_valid ob))
        | _ => (true, true)
        end in
      (state_eq g' ob && s, a1 && a, r1 && r)
  end.

Definition check_case (c : case) : list string :=
  match c with
  | CaseG ty host skew mind init o0 steps =>
      let g0 := new_group ty host skew mind init in
      let '(s, a, r) := check_steps g0 steps in
      (if state_eq g0 o0 && s then [] else ["corr:group-state"]) ++
      (if a then [] else ["corr:get-not-allowed"]) ++
      (if r then [] else ["oracle:admission-rule"])
  | CaseS w =>
      (if anti_ok_b w then [] else ["oracle:anti-affinity"]) ++
      (if affinity_ok_b w then [] else ["oracle:affinity"]) ++
      (if spread_ok_b w then [] else ["oracle:spread"])
  end.

Definition check_all (cs : list (Z * case)) : list (Z * string) :=
  flat_map (fun ic => map (fun t => (fst ic, t)) (check_case (snd ic))) cs.
