(* C02 — specification side: the admission rule of one constraint (get_ok_b) and the
   final-state oracle of a scheduling pass (anti_ok_b / affinity_ok_b / spread_ok_b), written
   from the Kubernetes inter-pod semantics and the property text, not from Karpenter's code. *)
From KV Require Import Base.Req Base.K8s C02.Model.
Open Scope string_scope.
Open Scope list_scope.
Open Scope Z_scope.

(* ================================================================ admission rule of one constraint
   [dom] are the per-domain counts of matching pods the implementation reported. *)
Definition spec_min (host : bool) (mind : option Z) (dom : dmap) (pd : req) : option Z :=
  if host then Some 0 else
  let sup := filter (fun kc : string * Z => has pd (fst kc)) dom in
  match sup with
  | [] => None                                   (* no usable domain: nothing to compare with *)
  | _ =>
      let too_few := match mind with Some k => Z.of_nat (length sup) <? k | None => false end in
      if too_few then Some 0 else Some (fold_right (fun kc a => Z.min (snd kc) a) maxint32 sup)
  end.

Definition skew_ok (host : bool) (mind : option Z) (skew : Z) (dom : dmap) (self : bool) (pd : req) (d : string) : bool :=
  match spec_min host mind dom pd with
  | None => true
  | Some mn => cnt dom d + (if self then 1 else 0) - mn <=? skew
  end.

Definition no_usable_match (dom : dmap) (pd : req) : bool :=
  forallb (fun kc : string * Z => negb (has pd (fst kc)) || (snd kc <=? 0)) dom.

Definition get_ok_b (ty : ttype) (host : bool) (skew : Z) (mind : option Z) (dom : dmap)
           (self : bool) (pd : req) (result valid : list string) : bool :=
  match ty with
  | TAnti => forallb (fun d => cnt dom d =? 0) result
  | TAffinity => forallb (fun d => (0 <? cnt dom d) || (self && no_usable_match dom pd)) result
  | TSpread => forallb (skew_ok host mind skew dom self pd) result &&
               forallb (skew_ok host mind skew dom self pd) valid
  end.

(* ================================================================ final state of one pass *)
Definition labels := list (string * string).
Fixpoint lget (l : labels) (k : string) : option string :=
  match l with [] => None | (k', v) :: t => if String.eqb k k' then Some v else lget t k end.

(* a label selector: None = nil (selects nothing); matchLabels {k:v} is written k In [v] *)
Definition expr := (string * oper * list string)%type.
Definition selector := option (list expr).
Definition sel_match (s : selector) (l : labels) : bool :=
  match s with
  | None => false
  | Some es => forallb (fun e : expr => let '(k, o, vs) := e in k8s_match o vs (lget l k)) es
  end.

Record term := mkTerm { t_key : string; t_nss : list string; t_nssel : selector; t_sel : selector }.
Record spreadc := mkSpread { s_key : string; s_skew : Z; s_mind : option Z; s_sel : selector;
                             s_mlk : list string; s_taint_honor : bool; s_aff_honor : bool }.

Record pod := mkPod {
  p_name : string; p_ns : string; p_labels : labels; p_node : string; p_new : bool;
  p_reqs : reqs;                (* required node selector / node affinity of the pod *)
  p_tol : list string;          (* taint keys the pod tolerates *)
  p_anti : list term; p_aff : list term;          (* required terms only *)
  p_spread : list spreadc                         (* DoNotSchedule constraints only *)
}.

(* for every label key: the values the node may end up with (existing node: its label, [] if absent) *)
Record node := mkNode { n_name : string; n_new : bool; n_lab : list (string * list string); n_taints : list string }.

Record world := mkWorld {
  w_ns : list (string * labels);
  w_nodes : list node;
  w_pods : list pod;
  w_univ : list (string * list (string * list (list string)))   (* key -> provisionable domain -> taint sets of the pools offering it *)
}.

Definition hostname_key := "kubernetes.io/hostname".

Fixpoint assoc {A} (k : string) (l : list (string * A)) : option A :=
  match l with [] => None | (k', v) :: t => if String.eqb k k' then Some v else assoc k t end.

Definition node_of (w : world) (p : pod) : option node :=
  List.find (fun n => String.eqb (n_name n) (p_node p)) (w_nodes w).
Definition possible (n : node) (k : string) : list string :=
  match assoc k (n_lab n) with Some vs => vs | None => [] end.
Definition dom_of (w : world) (p : pod) (k : string) : list string :=
  match node_of w p with Some n => possible n k | None => [] end.

Definition same_pod (p q : pod) : bool := String.eqb (p_name p) (p_name q) && String.eqb (p_ns p) (p_ns q).
Definition disjoint (a b : list string) : bool := forallb (fun x => negb (mem x b)) a.
Definition usable (p : pod) (k d : string) : bool := has (get (p_reqs p) k) d.

(* namespaces a term applies to *)
Definition term_ns (w : world) (p : pod) (t : term) : list string :=
  match t_nss t, t_nssel t with
  | [], None => [p_ns p]
  | nss, None => nss
  | nss, sel => nss ++ map fst (filter (fun nl : string * labels => sel_match sel (snd nl)) (w_ns w))
  end.
Definition term_matches (w : world) (p : pod) (t : term) (q : pod) : bool :=
  mem (p_ns q) (term_ns w p t) && sel_match (t_sel t) (p_labels q).

(* ---------------------------------------------------------------- anti-affinity, both directions *)
Definition anti_pair_ok (w : world) (p : pod) (t : term) (q : pod) : bool :=
  same_pod p q || negb (p_new p || p_new q) || negb (term_matches w p t q) ||
  disjoint (dom_of w p (t_key t)) (dom_of w q (t_key t)).

Definition anti_ok_b (w : world) : bool :=
  forallb (fun p => forallb (fun t => forallb (anti_pair_ok w p t) (w_pods w)) (p_anti p)) (w_pods w).

(* ---------------------------------------------------------------- affinity *)
Definition expr_eqb (a b : expr) : bool :=
  let '(k1, o1, v1) := a in let '(k2, o2, v2) := b in
  String.eqb k1 k2 && oper_eqb o1 o2 && seteq v1 v2.
Definition sel_eqb (a b : selector) : bool :=
  match a, b with
  | None, None => true
  | Some x, Some y => Nat.eqb (length x) (length y) && forallb (fun e => existsb (expr_eqb e) y) x
  | _, _ => false
  end.

Definition supported (w : world) (p : pod) (t : term) (d : string) : bool :=
  existsb (fun q => negb (same_pod p q) && term_matches w p t q &&
                    (String.eqb (p_node q) (p_node p) || seteq (dom_of w q (t_key t)) [d] && Nat.eqb (length (dom_of w q (t_key t))) 1))
          (w_pods w).
Definition unsupported (w : world) (p : pod) (t : term) : list string :=
  filter (fun d => negb (supported w p t d)) (dom_of w p (t_key t)).

(* a bound pod that matches, in a domain p may use: p had no right to open a new domain *)
Definition bound_usable_match (w : world) (p : pod) (t : term) : bool :=
  existsb (fun q => negb (p_new q) && negb (same_pod p q) && term_matches w p t q &&
                    existsb (usable p (t_key t)) (dom_of w q (t_key t))) (w_pods w).

(* two pods of the pass that both opened a domain although each could have used the other's *)
Definition mutual_openers (w : world) (p : pod) (t : term) (d : string) : bool :=
  existsb (fun q => p_new q && negb (same_pod p q) && negb (String.eqb (p_node p) (p_node q)) &&
     existsb (fun t' => String.eqb (t_key t) (t_key t') && sel_eqb (t_sel t) (t_sel t') &&
                        seteq (term_ns w p t) (term_ns w q t') &&
                        term_matches w q t' q && usable q (t_key t) d &&
                        existsb (usable p (t_key t)) (unsupported w q t')) (p_aff q)) (w_pods w).

Definition aff_term_ok (w : world) (p : pod) (t : term) : bool :=
  let F := dom_of w p (t_key t) in
  (* a node without the topology label is in no domain: nothing to check here (kube-scheduler itself
     refuses such a node; the harness counts these placements) *)
  forallb (fun d => supported w p t d ||
                    (term_matches w p t p && negb (bound_usable_match w p t) && negb (mutual_openers w p t d))) F.

Definition affinity_ok_b (w : world) : bool :=
  forallb (fun p => negb (p_new p) || forallb (aff_term_ok w p) (p_aff p)) (w_pods w).

(* ---------------------------------------------------------------- DoNotSchedule topology spread *)
Definition spread_eqb (a b : spreadc) : bool :=
  String.eqb (s_key a) (s_key b) && (s_skew a =? s_skew b) &&
  match s_mind a, s_mind b with Some x, Some y => x =? y | None, None => true | _, _ => false end &&
  sel_eqb (s_sel a) (s_sel b) && seteq (s_mlk a) (s_mlk b) &&
  Bool.eqb (s_taint_honor a) (s_taint_honor b) && Bool.eqb (s_aff_honor a) (s_aff_honor b).

(* the selector with matchLabelKeys folded in *)
Definition spread_sel (p : pod) (c : spreadc) : selector :=
  match s_sel c with
  | None => None
  | Some es => Some (es ++ flat_map (fun k => match lget (p_labels p) k with Some v => [(k, In, [v])] | None => [] end) (s_mlk c))
  end.

Definition tolerates (p : pod) (taints : list string) : bool := forallb (fun t => mem t (p_tol p)) taints.
(* does the node satisfy the pod's required node selector, for every / for some label outcome *)
Definition node_sat (all : bool) (p : pod) (n : node) : bool :=
  forallb (fun kr : string * req =>
    match possible n (fst kr) with
    | [] => sat_undefined (snd kr)
    | vs => if all then forallb (has (snd kr)) vs else existsb (has (snd kr)) vs
    end) (p_reqs p).
Definition eligible (p : pod) (c : spreadc) (n : node) : bool :=
  (negb (s_aff_honor c) || node_sat true p n) && (negb (s_taint_honor c) || tolerates p (n_taints n)).
Definition ambiguous (p : pod) (c : spreadc) (n : node) : bool :=
  s_aff_honor c && negb (Bool.eqb (node_sat true p n) (node_sat false p n)).

Definition carries (q : pod) (c : spreadc) : bool := existsb (spread_eqb c) (p_spread q).
Definition sp_matches (p : pod) (c : spreadc) (q : pod) : bool :=
  String.eqb (p_ns q) (p_ns p) && sel_match (spread_sel p c) (p_labels q).

Definition determined (w : world) (q : pod) (k d : string) : bool :=
  match dom_of w q k with [x] => String.eqb x d | _ => false end.

Definition sp_count (w : world) (p : pod) (c : spreadc) (d : string) : Z :=
  Z.of_nat (length (filter (fun q =>
    sp_matches p c q && determined w q (s_key c) d &&
    match node_of w q with Some n => eligible p c n | None => false end) (w_pods w))).

Definition sp_universe (w : world) (p : pod) (c : spreadc) : list string :=
  let prov := match assoc (s_key c) (w_univ w) with Some l => l | None => [] end in
  let from_pools := map fst (filter (fun dt : string * list (list string) =>
                       negb (s_taint_honor c) || existsb (tolerates p) (snd dt)) prov) in
  let from_nodes := flat_map (fun n => if negb (n_new n) && eligible p c n
                                       then match possible n (s_key c) with [d] => [d] | _ => [] end else []) (w_nodes w) in
  filter (usable p (s_key c)) (dedup (from_pools ++ from_nodes)).

Definition sp_min (w : world) (p : pod) (c : spreadc) : option Z :=
  if String.eqb (s_key c) hostname_key then Some 0 else
  match sp_universe w p c with
  | [] => None
  | u => let too_few := match s_mind c with Some k => Z.of_nat (length u) <? k | None => false end in
         if too_few then Some 0 else Some (fold_right (fun d a => Z.min (sp_count w p c d) a) maxint32 u)
  end.

Definition sp_ok (w : world) (p : pod) (c : spreadc) (d : string) : bool :=
  match sp_min w p c with None => true | Some mn => sp_count w p c d - mn <=? s_skew c end.

(* Existential-last form with per-carrier views. Let S be the new pods that carry a constraint equal to c
   (same namespace) and sit in domain d. Whichever of them was placed last, say l, was admitted by the
   Kubernetes rule evaluated in l's OWN view (its node-affinity / taint eligibility, its usable domains):
   at that moment d held every bound pod and every member of S that l's view counts, and the minimum
   can only have grown since (counts only grow; the domain universe of a non-hostname key is fixed during a
   pass). New pods that match but do not carry the constraint may have arrived later and are therefore
   left out of the count for d (they still count for the minimum). A carrier whose view cannot be decided
   from the end state (a node it may or may not be eligible on) is accepted as witness. *)
Definition sp_count_carriers (w : world) (l : pod) (c : spreadc) (d : string) : Z :=
  Z.of_nat (length (filter (fun q =>
    sp_matches l c q && determined w q (s_key c) d && (negb (p_new q) || carries q c) &&
    match node_of w q with Some n => eligible l c n | None => false end) (w_pods w))).

Definition view_ambiguous (w : world) (l : pod) (c : spreadc) : bool :=
  existsb (fun q => sp_matches l c q &&
                    match node_of w q with Some n => ambiguous l c n | None => false end) (w_pods w).

Definition sp_ok_last (w : world) (l : pod) (c : spreadc) (d : string) : bool :=
  match sp_min w l c with None => true | Some mn => sp_count_carriers w l c d - mn <=? s_skew c end.

Definition in_domain (w : world) (p l : pod) (k d : string) : bool :=
  determined w l k d || String.eqb (p_node l) (p_node p).

Definition sp_witness (w : world) (p : pod) (c : spreadc) (d : string) (l : pod) : bool :=
  p_new l && String.eqb (p_ns l) (p_ns p) && carries l c && in_domain w p l (s_key c) d &&
  (view_ambiguous w l c || sp_ok_last w l c d).

Definition spread_c_ok (w : world) (p : pod) (c : spreadc) : bool :=
  forallb (fun d => existsb (sp_witness w p c d) (w_pods w)) (dom_of w p (s_key c)).

Definition spread_ok_b (w : world) : bool :=
  forallb (fun p => negb (p_new p) || forallb (spread_c_ok w p) (p_spread p)) (w_pods w).

Definition interpod_ok_b (w : world) : bool := anti_ok_b w && affinity_ok_b w && spread_ok_b w.
