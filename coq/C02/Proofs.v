(* C02 — proofs about the TopologyGroup model: representation invariant for every op sequence,
   soundness of every outcome Get may produce w.r.t. the Kubernetes admission rule, and the
   three trace invariants (anti-affinity, affinity, spread) of the admit / commit protocol that
   topology.go runs on a group. *)
From Coq Require Import Lia Setoid.
From KV Require Import Base.Req Base.ReqProofs C02.Model C02.Spec.
Open Scope Z_scope.

(* ================================================================ association-list facts *)
Lemma eqb_neq_sym (a b : string) : a <> b -> String.eqb b a = false.
Proof. intros H. apply String.eqb_neq. congruence. Qed.

Lemma lookup_bump_same d m : lookup d (bump d m) = Some (cnt m d + 1).
Proof.
  unfold cnt. induction m as [|[k c] t IH]; simpl.
  - rewrite String.eqb_refl. reflexivity.
  - destruct (String.eqb d k) eqn:E; simpl; rewrite E; [reflexivity | exact IH].
Qed.

Lemma lookup_bump_other d d' m : d' <> d -> lookup d' (bump d m) = lookup d' m.
Proof.
  intros N. induction m as [|[k c] t IH]; simpl.
  - rewrite (proj2 (String.eqb_neq d' d) N). reflexivity.
  - destruct (String.eqb d k) eqn:E; simpl.
    + apply String.eqb_eq in E. subst k. rewrite (proj2 (String.eqb_neq d' d) N). reflexivity.
    + destruct (String.eqb d' k); [reflexivity | exact IH].
Qed.

Lemma keys_bump d m : map fst (bump d m) = if mem d (map fst m) then map fst m else map fst m ++ [d].
Proof.
  induction m as [|[k c] t IH]; simpl; [reflexivity|].
  destruct (String.eqb d k) eqn:E; simpl; [reflexivity|]. rewrite IH.
  destruct (mem d (map fst t)); reflexivity.
Qed.

Lemma lookup_none_keys d m : lookup d m = None <-> ~ List.In d (map fst m).
Proof.
  induction m as [|[k c] t IH]; simpl; [tauto|].
  destruct (String.eqb d k) eqn:E.
  - apply String.eqb_eq in E. subst. split; [discriminate | intros H; exfalso; apply H; left; reflexivity].
  - apply String.eqb_neq in E. rewrite IH. split; [intros H [A|A]; [congruence | tauto] | tauto].
Qed.

Lemma lookup_In d c m : lookup d m = Some c -> List.In (d, c) m.
Proof.
  induction m as [|[k c'] t IH]; simpl; [discriminate|].
  destruct (String.eqb d k) eqn:E; [apply String.eqb_eq in E; subst; intros [= ->]; left; reflexivity | intros H; right; auto].
Qed.

Lemma In_lookup d c m : NoDup (map fst m) -> List.In (d, c) m -> lookup d m = Some c.
Proof.
  induction m as [|[k c'] t IH]; simpl; [tauto|]. intros ND [H|H].
  - inversion H; subst. rewrite String.eqb_refl. reflexivity.
  - inversion ND as [|? ? NI ND']; subst. destruct (String.eqb d k) eqn:E.
    + apply String.eqb_eq in E. subst. exfalso. apply NI. change k with (fst (k, c)). apply in_map. exact H.
    + auto.
Qed.

Lemma lookup_app d m m' : lookup d (m ++ m') = match lookup d m with Some c => Some c | None => lookup d m' end.
Proof. induction m as [|[k c] t IH]; simpl; [reflexivity|]. destruct (String.eqb d k); auto. Qed.

Lemma lookup_remove_same d m : lookup d (remove_key d m) = None.
Proof.
  unfold remove_key. induction m as [|[k c] t IH]; simpl; [reflexivity|].
  destruct (String.eqb d k) eqn:E; simpl; [exact IH | rewrite E; exact IH].
Qed.

Lemma lookup_remove_other d d' m : d' <> d -> lookup d' (remove_key d m) = lookup d' m.
Proof.
  intros N. unfold remove_key. induction m as [|[k c] t IH]; simpl; [reflexivity|].
  destruct (String.eqb d k) eqn:E; simpl.
  - apply String.eqb_eq in E. subst k. rewrite (proj2 (String.eqb_neq d' d) N). exact IH.
  - destruct (String.eqb d' k); [reflexivity | exact IH].
Qed.

Lemma mem_sremove x d l : mem x (sremove d l) = mem x l && negb (String.eqb d x).
Proof. unfold sremove. rewrite mem_filter. reflexivity. Qed.

Lemma mem_sinsert x d l : mem x (sinsert d l) = mem x l || String.eqb x d.
Proof.
  unfold sinsert. destruct (mem d l) eqn:E.
  - destruct (String.eqb x d) eqn:F; [apply String.eqb_eq in F; subst; rewrite E; reflexivity | rewrite orb_false_r; reflexivity].
  - rewrite mem_app. simpl. rewrite orb_false_r. reflexivity.
Qed.

Lemma NoDup_filter {A} (P : A -> bool) l : NoDup l -> NoDup (filter P l).
Proof.
  induction 1 as [|x l NI ND IH]; simpl; [constructor|].
  destruct (P x); [constructor; [rewrite filter_In; tauto | exact IH] | exact IH].
Qed.

Lemma NoDup_snoc {A} (x : A) l : NoDup l -> ~ List.In x l -> NoDup (l ++ [x]).
Proof.
  intros ND NI. induction ND as [|y l NI' ND IH]; simpl; [constructor; [tauto | constructor]|].
  constructor.
  - rewrite in_app_iff. simpl. intros [H|[H|[]]]; [tauto | subst; apply NI; left; reflexivity].
  - apply IH. intros H. apply NI. right. exact H.
Qed.

(* ================================================================ representation invariant *)
Record wf (g : group) : Prop := mkWf {
  wf_keys : NoDup (map fst (gdom g));
  wf_enodup : NoDup (gempty g);
  wf_empty : forall d, mem d (gempty g) = true <-> lookup d (gdom g) = Some 0;
  wf_nonneg : forall d c, lookup d (gdom g) = Some c -> 0 <= c
}.

Lemma wf_register1 g d : wf g -> wf (register1 g d).
Proof.
  intros [K E M N]. unfold register1. destruct (lookup d (gdom g)) eqn:L; [constructor; assumption|].
  assert (NK : ~ List.In d (map fst (gdom g))) by (apply lookup_none_keys; exact L).
  constructor; simpl.
  - rewrite map_app. simpl. apply NoDup_snoc; assumption.
  - unfold sinsert. destruct (mem d (gempty g)) eqn:X; [exact E|]. apply NoDup_snoc; [exact E|].
    intros H. apply mem_In in H. congruence.
  - intros x. rewrite mem_sinsert, lookup_app. simpl. destruct (String.eqb x d) eqn:F.
    + apply String.eqb_eq in F. subst x. rewrite L, orb_true_r. tauto.
    + rewrite orb_false_r. rewrite M. destruct (lookup x (gdom g)); tauto.
  - intros x c. rewrite lookup_app. simpl. destruct (lookup x (gdom g)) eqn:Lx; [intros [= <-]; eauto|].
    destruct (String.eqb x d); [intros [= <-]; lia | discriminate].
Qed.

Lemma wf_record1 g d : wf g -> wf (record1 g d).
Proof.
  intros [K E M N]. unfold record1. constructor; simpl.
  - rewrite keys_bump. destruct (mem d (map fst (gdom g))) eqn:X; [exact K|].
    apply NoDup_snoc; [exact K|]. intros H. apply mem_In in H. congruence.
  - apply NoDup_filter. exact E.
  - intros x. rewrite mem_sremove. destruct (String.eqb d x) eqn:F.
    + apply String.eqb_eq in F. subst x. rewrite andb_false_r, lookup_bump_same. split; [discriminate|].
      intros [= H]. unfold cnt in H. destruct (lookup d (gdom g)) eqn:L; [specialize (N _ _ L); lia | lia].
    + apply String.eqb_neq in F. rewrite andb_true_r, lookup_bump_other by congruence. apply M.
  - intros x c. destruct (String.eqb d x) eqn:F.
    + apply String.eqb_eq in F. subst x. rewrite lookup_bump_same. intros [= <-]. unfold cnt.
      destruct (lookup d (gdom g)) eqn:L; [specialize (N _ _ L); lia | lia].
    + apply String.eqb_neq in F. rewrite lookup_bump_other by congruence. apply N.
Qed.

Lemma wf_unregister1 g d : wf g -> wf (unregister1 g d).
Proof.
  intros [K E M N]. unfold unregister1. constructor; simpl.
  - unfold remove_key. clear -K. induction (gdom g) as [|[k c] t IH]; simpl; [constructor|].
    inversion K as [|? ? NI ND]; subst. destruct (negb (String.eqb d k)); [|apply IH; exact ND]. simpl.
    constructor; [|apply IH; exact ND]. intros H. apply NI. apply in_map_iff in H. destruct H as [[k' c'] [H1 H2]].
    apply filter_In in H2. simpl in H1. subst. apply in_map_iff. exists (k, c'). tauto.
  - apply NoDup_filter. exact E.
  - intros x. rewrite mem_sremove. destruct (String.eqb d x) eqn:F.
    + apply String.eqb_eq in F. subst x. rewrite andb_false_r, lookup_remove_same. split; discriminate.
    + apply String.eqb_neq in F. rewrite andb_true_r, lookup_remove_other by congruence. apply M.
  - intros x c. destruct (String.eqb d x) eqn:F.
    + apply String.eqb_eq in F. subst x. rewrite lookup_remove_same. discriminate.
    + apply String.eqb_neq in F. rewrite lookup_remove_other by congruence. apply N.
Qed.

Lemma wf_fold (f : group -> string -> group) : (forall g d, wf g -> wf (f g d)) ->
  forall ds g, wf g -> wf (fold_left f ds g).
Proof. intros H ds. induction ds as [|d t IH]; simpl; auto. Qed.

Lemma wf_step g o : wf g -> wf (step g o).
Proof.
  destruct o; simpl; intros W; [apply wf_fold; [apply wf_register1|] | apply wf_fold; [apply wf_record1|]
                               | apply wf_fold; [apply wf_unregister1|] | ]; exact W.
Qed.

Lemma wf_run_l : forall ops g, wf g -> wf (run g ops).
Proof. unfold run. induction ops as [|o t IH]; simpl; intros g W; [exact W | apply IH, wf_step, W]. Qed.

Lemma wf_blank ty host skew mind : wf (mkG ty host skew mind [] []).
Proof. constructor; simpl; try constructor; intros; try discriminate; try (split; discriminate). Qed.

Lemma wf_new_group ty host skew mind ds : wf (new_group ty host skew mind ds).
Proof. apply wf_fold; [apply wf_register1 | apply wf_blank]. Qed.

(* emptyDomains is exactly the set of zero-count domains after every op sequence on a new group *)
Lemma empty_inv_l : forall ty host skew mind ds ops,
  let g := run (new_group ty host skew mind ds) ops in
  forall d, mem d (gempty g) = true <-> lookup d (gdom g) = Some 0.
Proof. intros. apply wf_empty. apply wf_run_l, wf_new_group. Qed.

(* static fields never change *)
Lemma static_fold (f : group -> string -> group) : (forall g d, gtype (f g d) = gtype g /\ ghost (f g d) = ghost g /\ gskew (f g d) = gskew g /\ gmind (f g d) = gmind g) ->
  forall ds g, let g' := fold_left f ds g in gtype g' = gtype g /\ ghost g' = ghost g /\ gskew g' = gskew g /\ gmind g' = gmind g.
Proof.
  intros H ds. induction ds as [|d t IH]; simpl; intros g; [tauto|].
  destruct (IH (f g d)) as (A & B & C & D). destruct (H g d) as (A' & B' & C' & D'). simpl in *.
  repeat split; congruence.
Qed.
Lemma static_register1 g d : gtype (register1 g d) = gtype g /\ ghost (register1 g d) = ghost g /\ gskew (register1 g d) = gskew g /\ gmind (register1 g d) = gmind g.
Proof. unfold register1. destruct (lookup d (gdom g)); simpl; tauto. Qed.
Lemma static_record1 g d : gtype (record1 g d) = gtype g /\ ghost (record1 g d) = ghost g /\ gskew (record1 g d) = gskew g /\ gmind (record1 g d) = gmind g.
Proof. simpl; tauto. Qed.

(* ================================================================ counts under record / register *)
Lemma cnt_record1_same g d : cnt (gdom (record1 g d)) d = cnt (gdom g) d + 1.
Proof. unfold cnt at 1. simpl. rewrite lookup_bump_same. reflexivity. Qed.
Lemma cnt_record1_other g d x : x <> d -> cnt (gdom (record1 g d)) x = cnt (gdom g) x.
Proof. intros N. unfold cnt. simpl. rewrite lookup_bump_other by exact N. reflexivity. Qed.
Lemma cnt_record1_ge g d x : cnt (gdom g) x <= cnt (gdom (record1 g d)) x.
Proof.
  destruct (String.eqb x d) eqn:E; [apply String.eqb_eq in E; subst; rewrite cnt_record1_same; lia|].
  apply String.eqb_neq in E. rewrite cnt_record1_other by exact E. lia.
Qed.
Lemma cnt_register1 g d x : cnt (gdom (register1 g d)) x = cnt (gdom g) x.
Proof.
  unfold register1. destruct (lookup d (gdom g)) eqn:L; [reflexivity|]. unfold cnt. simpl. rewrite lookup_app.
  destruct (lookup x (gdom g)) eqn:Lx; [reflexivity|]. simpl. destruct (String.eqb x d); reflexivity.
Qed.
Lemma cnt_records_ge ds : forall g x, cnt (gdom g) x <= cnt (gdom (fold_left record1 ds g)) x.
Proof. induction ds as [|d t IH]; simpl; intros g x; [lia|]. specialize (IH (record1 g d) x). pose proof (cnt_record1_ge g d x). lia. Qed.
Lemma cnt_records_pos ds : forall g x, List.In x ds -> (forall y c, lookup y (gdom g) = Some c -> 0 <= c) ->
  0 < cnt (gdom (fold_left record1 ds g)) x.
Proof.
  induction ds as [|d t IH]; simpl; intros g x HI NN; [destruct HI | destruct HI as [H|H]].
  - subst. pose proof (cnt_records_ge t (record1 g x) x). rewrite cnt_record1_same in H.
    assert (0 <= cnt (gdom g) x) by (unfold cnt; destruct (lookup x (gdom g)) eqn:L; [eauto | lia]). lia.
  - apply IH; [exact H|]. intros y c. simpl. destruct (String.eqb d y) eqn:E.
    + apply String.eqb_eq in E. subst. rewrite lookup_bump_same. intros [= <-].
      assert (0 <= cnt (gdom g) y) by (unfold cnt; destruct (lookup y (gdom g)) eqn:L; [eauto | lia]). lia.
    + apply String.eqb_neq in E. rewrite lookup_bump_other by congruence. apply NN.
Qed.
Lemma cnt_registers ds : forall g x, cnt (gdom (fold_left register1 ds g)) x = cnt (gdom g) x.
Proof. induction ds as [|d t IH]; simpl; intros g x; [reflexivity|]. rewrite IH. apply cnt_register1. Qed.

(* ================================================================ Get is sound w.r.t. the admission rule *)
Lemma seteq_In a b x : seteq a b = true -> List.In x a -> List.In x b.
Proof.
  unfold seteq. intros H I. apply andb_true_iff in H. destruct H as [H _].
  rewrite forallb_forall in H. apply mem_In. apply H. exact I.
Qed.

Lemma cnt_of_lookup m d c : lookup d m = Some c -> cnt m d = c.
Proof. unfold cnt. intros ->. reflexivity. Qed.

Lemma anti_sound g pd nd d : wf g -> List.In d (anti_opts g pd nd) -> cnt (gdom g) d = 0.
Proof.
  intros W. unfold anti_opts. destruct (host_single g nd) as [h|].
  - destruct (cnt (gdom g) h =? 0) eqn:E; simpl; [intros [<-|[]]; lia | tauto].
  - assert (K : mem d (gempty g) = true -> cnt (gdom g) d = 0).
    { intros M. apply cnt_of_lookup. apply (wf_empty g W). exact M. }
    destruct (is_in nd && (rlen nd <? Z.of_nat (length (gempty g)))); rewrite filter_In.
    + intros [_ H]. apply andb_true_iff in H. tauto.
    + intros [H _]. apply K. apply mem_In. exact H.
Qed.

Lemma boot_no_match g self pd : wf g -> bootstrap_ok g self pd = true ->
  self = true /\ no_usable_match (gdom g) pd = true.
Proof.
  intros W. unfold bootstrap_ok. rewrite andb_true_iff, orb_true_iff. intros [S [L|A]]; split; try exact S.
  - apply Nat.eqb_eq in L. unfold no_usable_match. rewrite forallb_forall. intros [k c] I. simpl.
    assert (INC : incl (map fst (gdom g)) (gempty g)).
    { apply NoDup_length_incl; [apply (wf_enodup g W) | rewrite map_length; lia |].
      intros e He. apply mem_In in He. apply (wf_empty g W) in He. apply lookup_In in He.
      change e with (fst (e, 0)). apply in_map. exact He. }
    assert (Hk : mem k (gempty g) = true) by (apply mem_In, INC; change k with (fst (k, c)); apply in_map; exact I).
    apply (wf_empty g W) in Hk. rewrite (In_lookup k c _ (wf_keys g W) I) in Hk. inversion Hk. subst.
    rewrite orb_true_r. reflexivity.
  - unfold no_usable_match, any_compat in *. apply negb_true_iff in A. rewrite forallb_forall. intros [k c] I. simpl.
    destruct (has pd k) eqn:H; [|reflexivity]. simpl. destruct (c <=? 0) eqn:C; [reflexivity|]. exfalso.
    assert (X : existsb (fun kc : string * Z => has pd (fst kc) && (0 <? snd kc)) (gdom g) = true).
    { apply existsb_exists. exists (k, c). split; [exact I|]. simpl. rewrite H. simpl. apply Z.ltb_lt. apply Z.leb_gt in C. lia. }
    congruence.
Qed.

Lemma aff_opts_pos g pd nd d : wf g -> List.In d (aff_opts g pd nd) -> 0 < cnt (gdom g) d.
Proof.
  intros W. unfold aff_opts. destruct (is_in nd).
  - rewrite filter_In. intros [_ H]. apply andb_true_iff in H. destruct H as [_ H].
    destruct (lookup d (gdom g)) eqn:L; [|discriminate]. rewrite (cnt_of_lookup _ _ _ L). apply Z.ltb_lt. exact H.
  - rewrite in_map_iff. intros [[k c] [E H]]. simpl in E. subst k. apply filter_In in H. destruct H as [I H].
    simpl in H. rewrite !andb_true_iff in H. destruct H as [[_ P] _].
    rewrite (cnt_of_lookup _ _ _ (In_lookup d c _ (wf_keys g W) I)). apply Z.ltb_lt. exact P.
Qed.

Lemma affinity_sound g self pd nd result : wf g -> allowed_affinity g self pd nd result = true ->
  forall d, List.In d result -> 0 < cnt (gdom g) d \/ (self = true /\ no_usable_match (gdom g) pd = true).
Proof.
  intros W A d I. unfold allowed_affinity in A. destruct (host_single g nd) as [h|].
  - destruct (negb (has pd h)); [apply (seteq_In _ _ d A) in I; destruct I|].
    destruct (0 <? cnt (gdom g) h) eqn:P.
    + apply (seteq_In _ _ d A) in I. destruct I as [<-|[]]. left. apply Z.ltb_lt. exact P.
    + destruct (bootstrap_ok g self pd) eqn:B; [right; eapply boot_no_match; eauto | apply (seteq_In _ _ d A) in I; destruct I].
  - destruct (aff_opts g pd nd) as [|o0 os] eqn:O.
    + destruct (bootstrap_ok g self pd) eqn:B; [right; eapply boot_no_match; eauto | apply (seteq_In _ _ d A) in I; destruct I].
    + left. apply (aff_opts_pos g pd nd); [exact W|]. rewrite O. eapply seteq_In; eauto.
Qed.

Lemma min_fold_right_acc (l : dmap) a x :
  fold_right (fun kc b => Z.min (snd kc) b) (Z.min a x) l = Z.min x (fold_right (fun kc b => Z.min (snd kc) b) a l).
Proof. induction l as [|[k c] t IH]; simpl; [lia | rewrite IH; lia]. Qed.

Lemma min_count_fold_right (l : dmap) : forall a,
  fold_left (fun a kc => Z.min a (snd kc)) l a = fold_right (fun kc b => Z.min (snd kc) b) a l.
Proof.
  induction l as [|[k c] t IH]; simpl; intros a; [reflexivity|]. rewrite IH. apply min_fold_right_acc.
Qed.

Lemma spec_min_dmin g pd mn : spec_min (ghost g) (gmind g) (gdom g) pd = Some mn -> mn = dmin g pd.
Proof.
  unfold spec_min, dmin, Model.supported, min_count. destruct (ghost g); [intros [= <-]; reflexivity|].
  destruct (filter (fun kc : string * Z => has pd (fst kc)) (gdom g)) as [|s0 ss] eqn:F; [discriminate|].
  destruct (gmind g) as [k|].
  - destruct (Z.of_nat (length (s0 :: ss)) <? k); intros [= <-]; [reflexivity | symmetry; apply min_count_fold_right].
  - intros [= <-]. symmetry. apply min_count_fold_right.
Qed.

Lemma cands_sound g self pd nd d c' : wf g -> List.In (d, c') (spread_cands g self pd nd) ->
  c' = cnt (gdom g) d + inc self /\ c' - dmin g pd <= gskew g.
Proof.
  intros W. unfold spread_cands. destruct (is_in nd); rewrite in_flat_map.
  - intros [x [_ H]]. destruct (lookup x (gdom g)) eqn:L; [|destruct H].
    destruct (z + inc self - dmin g pd <=? gskew g) eqn:E; [|destruct H]. destruct H as [H|[]]. inversion H; subst.
    rewrite (cnt_of_lookup _ _ _ L). apply Z.leb_le in E. lia.
  - intros [[k c] [I H]]. destruct (has nd k && (c + inc self - dmin g pd <=? gskew g)) eqn:E; [|destruct H].
    destruct H as [H|[]]. inversion H; subst. apply andb_true_iff in E. destruct E as [_ E]. apply Z.leb_le in E.
    rewrite (cnt_of_lookup _ _ _ (In_lookup d c _ (wf_keys g W) I)). lia.
Qed.

Lemma skew_ok_of_cand g self pd nd d c' : wf g -> List.In (d, c') (spread_cands g self pd nd) ->
  skew_ok (ghost g) (gmind g) (gskew g) (gdom g) self pd d = true.
Proof.
  intros W I. destruct (cands_sound _ _ _ _ _ _ W I) as [E L]. unfold skew_ok.
  destruct (spec_min (ghost g) (gmind g) (gdom g) pd) as [mn|] eqn:S; [|reflexivity].
  apply spec_min_dmin in S. subst mn. apply Z.leb_le. unfold inc in *. lia.
Qed.

Lemma spread_sound g self pd nd result valid : wf g -> allowed_spread g self pd nd result valid = true ->
  forallb (skew_ok (ghost g) (gmind g) (gskew g) (gdom g) self pd) result = true /\
  forallb (skew_ok (ghost g) (gmind g) (gskew g) (gdom g) self pd) valid = true.
Proof.
  intros W A. unfold allowed_spread in A. destruct (host_single g nd) as [h|] eqn:HS.
  - assert (HG : ghost g = true) by (unfold host_single in HS; destruct (ghost g); [reflexivity | discriminate]).
    destruct (cnt (gdom g) h + inc self <=? gskew g) eqn:E; apply andb_true_iff in A; destruct A as [A1 A2];
      split; apply forallb_forall; intros d I.
    1,2: (eapply seteq_In in I; [|eassumption]); destruct I as [<-|[]]; unfold skew_ok, spec_min; rewrite HG;
         apply Z.leb_le; apply Z.leb_le in E; unfold inc in E; lia.
    1,2: (eapply seteq_In in I; [|eassumption]); destruct I.
  - apply andb_true_iff in A. destruct A as [V R]. split; apply forallb_forall; intros d I.
    + assert (AM : is_argmin (spread_cands g self pd nd) d = true).
      { destruct result as [|r0 [|r1 rs]]; [destruct I | | discriminate].
        destruct I as [<-|[]]. apply andb_true_iff in R. tauto. }
      unfold is_argmin in AM. destruct (lookup d (spread_cands g self pd nd)) eqn:L; [|discriminate].
      eapply skew_ok_of_cand; [exact W | apply lookup_In; exact L].
    + eapply seteq_In in I; [|exact V]. apply in_map_iff in I. destruct I as [[k c] [E I]]. simpl in E. subst k.
      eapply skew_ok_of_cand; eauto.
Qed.

(* every outcome the model allows (hence, by the correspondence check, every outcome of the real Get)
   satisfies the admission rule of the constraint, in every well-formed state *)
Lemma get_sound_l g self pd nd result valid : wf g -> allowed_get g self pd nd result valid = true ->
  get_ok_b (gtype g) (ghost g) (gskew g) (gmind g) (gdom g) self pd result valid = true.
Proof.
  intros W. unfold allowed_get, get_ok_b. destruct (gtype g).
  - intros A. apply andb_true_iff. apply spread_sound with (nd := nd); assumption.
  - intros A. apply andb_true_iff in A. destruct A as [A _]. apply forallb_forall. intros d I.
    destruct (affinity_sound _ _ _ _ _ W A d I) as [P|[S N]].
    + apply orb_true_iff. left. apply Z.ltb_lt. exact P.
    + rewrite S, N. apply orb_true_r.
  - intros A. apply andb_true_iff in A. destruct A as [A _]. apply forallb_forall. intros d I.
    apply Z.eqb_eq. apply (anti_sound g pd nd); [exact W | eapply seteq_In; eauto].
Qed.

Lemma get_sound_reachable : forall ty host skew mind ds ops self pd nd result valid,
  let g := run (new_group ty host skew mind ds) ops in
  allowed_get g self pd nd result valid = true ->
  get_ok_b (gtype g) (ghost g) (gskew g) (gmind g) (gdom g) self pd result valid = true.
Proof. intros. apply get_sound_l with (nd := nd); [apply wf_run_l, wf_new_group | assumption]. Qed.

(* ================================================================ anti-affinity: admit / commit traces
   One anti-affinity group. [AAdmit pd nd F]: a pod governed by the group is admitted to a node whose
   domains are narrowed to F (a subset of what Get returned). [ACommit D]: a pod counted by the group
   is committed on a node that may still end up in any domain of D (all of D is recorded).
   The same machine describes the direct group (owners admitted, selected pods committed) and the
   inverse group (selected pods admitted, owners committed). *)
Inductive aop := AAdmit (pd nd : req) (F : list string) | ACommit (D : list string) | ARegister (ds : list string).

Definition astep (g : group) (o : aop) : group :=
  match o with
  | AAdmit _ _ _ => g
  | ACommit D => fold_left record1 D g
  | ARegister ds => fold_left register1 ds g
  end.
Definition subset_b (a b : list string) : bool := forallb (fun x => mem x b) a.
Fixpoint atrace_ok (g : group) (tr : list aop) : Prop :=
  match tr with
  | [] => True
  | o :: t => match o with AAdmit pd nd F => subset_b F (anti_opts g pd nd) = true | _ => True end /\ atrace_ok (astep g o) t
  end.
Definition acommits (tr : list aop) : list (list string) :=
  flat_map (fun o => match o with ACommit D => [D] | _ => [] end) tr.
(* every domain a counted pod may be in has a positive counter *)
Definition covered (g : group) (pl : list (list string)) : Prop :=
  forall D d, List.In D pl -> List.In d D -> 0 < cnt (gdom g) d.

Lemma subset_b_In a b x : subset_b a b = true -> List.In x a -> List.In x b.
Proof. unfold subset_b. rewrite forallb_forall. intros H I. apply mem_In. apply H. exact I. Qed.

Lemma wf_astep g o : wf g -> wf (astep g o).
Proof. destruct o; simpl; intros W; [exact W | apply wf_fold; [apply wf_record1 | exact W] | apply wf_fold; [apply wf_register1 | exact W]]. Qed.

Lemma covered_astep g pl o : wf g -> covered g pl -> covered (astep g o) (acommits [o] ++ pl).
Proof.
  intros W C D d ID Id. destruct o as [pd nd F|D0|ds]; simpl in *.
  - eapply C; eauto.
  - destruct ID as [<-|ID].
    + apply cnt_records_pos; [exact Id | apply (wf_nonneg g W)].
    + pose proof (cnt_records_ge D0 g d). specialize (C D d ID Id). lia.
  - rewrite cnt_registers. eapply C; eauto.
Qed.

Lemma anti_inv_l : forall pre g0 pl0 pd nd F post, wf g0 -> covered g0 pl0 ->
  atrace_ok g0 (pre ++ AAdmit pd nd F :: post) ->
  forall D, List.In D (acommits pre ++ pl0) -> forall d, List.In d F -> ~ List.In d D.
Proof.
  induction pre as [|o pre IH]; simpl; intros g0 pl0 pd nd F post W C T D ID d IF Id.
  - destruct T as [S _]. pose proof (anti_sound g0 pd nd d W (subset_b_In _ _ _ S IF)) as Z0.
    specialize (C D d ID Id). lia.
  - destruct T as [_ T]. eapply (IH (astep g0 o) (acommits [o] ++ pl0)); eauto using wf_astep, covered_astep.
    unfold acommits in *. simpl in *. rewrite app_nil_r. rewrite <- app_assoc in ID.
    rewrite !in_app_iff in *. tauto.
Qed.

(* ================================================================ affinity *)
Inductive fop :=
| FAdmit (self : bool) (pd nd : req) (result F : list string)
| FCommit (D : list string)
| FRegister (ds : list string).

Definition fstep (g : group) (o : fop) : group :=
  match o with
  | FAdmit _ _ _ _ _ => g
  | FCommit [d] => record1 g d                  (* only a collapsed domain is recorded *)
  | FCommit _ => g
  | FRegister ds => fold_left register1 ds g
  end.
Fixpoint ftrace_ok (g : group) (tr : list fop) : Prop :=
  match tr with
  | [] => True
  | o :: t => match o with
              | FAdmit self pd nd result F => allowed_affinity g self pd nd result = true /\ subset_b F result = true
              | _ => True end /\ ftrace_ok (fstep g o) t
  end.
Definition fcommits (tr : list fop) : list (list string) :=
  flat_map (fun o => match o with FCommit D => [D] | _ => [] end) tr.
(* a positive counter means exactly: some counted pod is known to be in that domain *)
Definition matched (g : group) (ml : list (list string)) : Prop :=
  forall d, 0 < cnt (gdom g) d <-> List.In [d] ml.

Lemma cnt_bump_same m d : cnt (bump d m) d = cnt m d + 1.
Proof. unfold cnt at 1. rewrite lookup_bump_same. reflexivity. Qed.
Lemma cnt_bump_other m d x : x <> d -> cnt (bump d m) x = cnt m x.
Proof. intros N. unfold cnt. rewrite lookup_bump_other by exact N. reflexivity. Qed.

Lemma wf_fstep g o : wf g -> wf (fstep g o).
Proof.
  destruct o as [| D |ds]; simpl; intros W; [exact W | | apply wf_fold; [apply wf_register1 | exact W]].
  destruct D as [|d [|e t]]; [exact W | apply wf_record1; exact W | exact W].
Qed.

Lemma matched_fstep g ml o : wf g -> matched g ml -> matched (fstep g o) (fcommits [o] ++ ml).
Proof.
  intros W M x. unfold matched in M. destruct o as [| D |ds]; simpl.
  - apply M.
  - destruct D as [|d [|e t]]; simpl.
    + rewrite M. split; [tauto | intros [H|H]; [discriminate | exact H]].
    + destruct (String.eqb x d) eqn:E.
      * apply String.eqb_eq in E. subst. rewrite cnt_bump_same. split; [tauto|]. intros _.
        assert (0 <= cnt (gdom g) d) by (unfold cnt; destruct (lookup d (gdom g)) eqn:L; [apply (wf_nonneg g W _ _ L) | lia]). lia.
      * apply String.eqb_neq in E. rewrite cnt_bump_other by exact E. rewrite M.
        split; [tauto | intros [H|H]; [congruence | exact H]].
    + rewrite M. split; [tauto | intros [H|H]; [discriminate | exact H]].
  - rewrite cnt_registers. apply M.
Qed.

Lemma affinity_inv_l : forall pre g0 ml0 self pd nd result F post, wf g0 -> matched g0 ml0 ->
  ftrace_ok g0 (pre ++ FAdmit self pd nd result F :: post) ->
  forall d, List.In d F ->
    List.In [d] (fcommits pre ++ ml0) \/
    (self = true /\ forall d', List.In [d'] (fcommits pre ++ ml0) -> has pd d' = false).
Proof.
  induction pre as [|o pre IH]; simpl; intros g0 ml0 self pd nd result F post W M T d IF.
  - destruct T as [[A S] _]. destruct (affinity_sound _ _ _ _ _ W A d (subset_b_In _ _ _ S IF)) as [P|[Sf N]].
    + left. apply M. exact P.
    + right. split; [exact Sf|]. intros d' I. apply M in I. unfold cnt in I.
      destruct (lookup d' (gdom g0)) eqn:L; [|lia]. apply lookup_In in L.
      unfold no_usable_match in N. rewrite forallb_forall in N. specialize (N _ L). simpl in N.
      destruct (has pd d'); [|reflexivity]. simpl in N. apply Z.leb_le in N. lia.
  - destruct T as [_ T].
    assert (EQ : forall X, List.In X (fcommits (o :: pre) ++ ml0) <-> List.In X (fcommits pre ++ (fcommits [o] ++ ml0))).
    { intros X. unfold fcommits. simpl. rewrite app_nil_r. rewrite <- app_assoc. rewrite !in_app_iff. tauto. }
    destruct (IH (fstep g0 o) (fcommits [o] ++ ml0) self pd nd result F post (wf_fstep _ _ W) (matched_fstep _ _ _ W M) T d IF) as [H|[Sf H]].
    + left. apply EQ. exact H.
    + right. split; [exact Sf|]. intros d' I. apply H. apply EQ. exact I.
Qed.

(* the property text at full strength: a pod may open a domain only if no counted pod can be in ANY
   domain it may use — including pods on nodes whose domain is still undetermined *)
Definition strong_affinity (ml0 : list (list string)) (tr : list fop) : Prop :=
  forall pre self pd nd result F post, tr = pre ++ FAdmit self pd nd result F :: post ->
  forall d, List.In d F ->
    (exists D, List.In D (fcommits pre ++ ml0) /\ List.In d D) \/
    (self = true /\ forall D d', List.In D (fcommits pre ++ ml0) -> List.In d' D -> has pd d' = false).

Definition all_collapsed (l : list (list string)) : Prop := forall D, List.In D l -> exists x, D = [x].

Lemma affinity_partial_l : forall tr g0 ml0, wf g0 -> matched g0 ml0 -> ftrace_ok g0 tr ->
  all_collapsed (fcommits tr ++ ml0) -> strong_affinity ml0 tr.
Proof.
  intros tr g0 ml0 W M T AC pre self pd nd result F post -> d IF.
  destruct (affinity_inv_l pre g0 ml0 self pd nd result F post W M T d IF) as [H|[S H]].
  - left. exists [d]. split; [exact H | left; reflexivity].
  - right. split; [exact S|]. intros D d' ID Id.
    assert (ID' : List.In D (fcommits (pre ++ FAdmit self pd nd result F :: post) ++ ml0)).
    { unfold fcommits in *. rewrite flat_map_app, !in_app_iff in *. tauto. }
    destruct (AC D ID') as [x ->]. destruct Id as [<-|[]]. apply H. exact ID.
Qed.

Definition ex_exists : req := new_req Exists None [].
Definition aff_witness_group : group := new_group TAffinity false maxint32 None ["a"; "b"; "c"]%string.
Definition aff_witness_trace : list fop :=
  [FAdmit true ex_exists ex_exists ["a"; "b"]%string ["a"; "b"]%string;   (* bootstrap: the two loops pick a and b *)
   FCommit ["a"; "b"]%string;                                            (* not collapsed: nothing is recorded *)
   FAdmit true ex_exists ex_exists ["c"]%string ["c"]%string].           (* a second self-matching pod opens c *)

Lemma affinity_global_refuted_l :
  wf aff_witness_group /\ matched aff_witness_group [] /\ ftrace_ok aff_witness_group aff_witness_trace /\
  ~ strong_affinity [] aff_witness_trace.
Proof.
  split; [apply wf_new_group|]. split.
  { intros d. split; [|intros []]. unfold cnt, aff_witness_group. simpl.
    destruct (String.eqb d "a"); [lia|]. destruct (String.eqb d "b"); [lia|]. destruct (String.eqb d "c"); lia. }
  split; [vm_compute; tauto|].
  intros S.
  specialize (S [FAdmit true ex_exists ex_exists ["a"; "b"]%string ["a"; "b"]%string; FCommit ["a"; "b"]%string]
                true ex_exists ex_exists ["c"]%string ["c"]%string [] eq_refl "c"%string (or_introl eq_refl)).
  destruct S as [[D [ID Ic]]|[_ H]].
  - simpl in ID. destruct ID as [<-|[]]. simpl in Ic. destruct Ic as [E|[E|[]]]; discriminate.
  - specialize (H ["a"; "b"]%string "a"%string (or_introl eq_refl) (or_introl eq_refl)). vm_compute in H. discriminate.
Qed.

(* ================================================================ topology spread *)
Definition Rle (a b : string * Z) : Prop := fst a = fst b /\ snd a <= snd b.

Lemma Rle_refl_list (m : dmap) : Forall2 Rle m m.
Proof. induction m; constructor; [split; [reflexivity | lia] | assumption]. Qed.

Lemma bump_Rle d (m : dmap) : lookup d m <> None -> Forall2 Rle m (bump d m).
Proof.
  induction m as [|[k c] t IH]; simpl; [congruence|]. destruct (String.eqb d k) eqn:E; intros H.
  - constructor; [split; simpl; [reflexivity | lia] | apply Rle_refl_list].
  - constructor; [split; simpl; [reflexivity | lia] | apply IH; exact H].
Qed.

Lemma filter_Rle (P : string -> bool) (m m' : dmap) : Forall2 Rle m m' ->
  Forall2 Rle (filter (fun kc => P (fst kc)) m) (filter (fun kc => P (fst kc)) m').
Proof.
  induction 1 as [|a b l l' [E L] F IH]; simpl; [constructor|]. rewrite E.
  destruct (P (fst b)); [constructor; [split; assumption | exact IH] | exact IH].
Qed.

Lemma min_count_Rle (l l' : dmap) : Forall2 Rle l l' -> forall a a', a <= a' ->
  fold_left (fun a kc => Z.min a (snd kc)) l a <= fold_left (fun a kc => Z.min a (snd kc)) l' a'.
Proof. induction 1 as [|x y l l' [E L] F IH]; simpl; intros a a' H; [exact H | apply IH; lia]. Qed.

Lemma Forall2_len {A B} (R : A -> B -> Prop) l l' : Forall2 R l l' -> length l = length l'.
Proof. induction 1; simpl; congruence. Qed.

Lemma dmin_mono_Rle g g' pd : ghost g' = ghost g -> gmind g' = gmind g -> Forall2 Rle (gdom g) (gdom g') ->
  dmin g pd <= dmin g' pd.
Proof.
  intros H1 H2 F. unfold dmin. rewrite H1, H2. destruct (ghost g); [lia|].
  pose proof (filter_Rle (has pd) _ _ F) as FF. unfold Model.supported.
  rewrite <- (Forall2_len _ _ _ FF). unfold min_count.
  pose proof (min_count_Rle _ _ FF maxint32 maxint32 ltac:(lia)).
  destruct (gmind g) as [k|]; [destruct (_ <? k); lia | lia].
Qed.

Lemma dmin_record1 g d pd : lookup d (gdom g) <> None \/ ghost g = true -> dmin g pd <= dmin (record1 g d) pd.
Proof.
  intros [K|H].
  - apply dmin_mono_Rle; [reflexivity | reflexivity | simpl; apply bump_Rle; exact K].
  - unfold dmin. simpl. rewrite H. lia.
Qed.

Lemma dmin_registers_host g ds pd : ghost g = true -> dmin (fold_left register1 ds g) pd = dmin g pd.
Proof.
  intros H. unfold dmin. destruct (static_fold register1 static_register1 ds g) as (_ & B & _). simpl in B.
  rewrite B, H. reflexivity.
Qed.

(* [SPlace pd nd valid d]: a carrier that matches its own selector is admitted to domain d (Get returned
   In [d]) and committed there. [SRegister] only happens for the hostname key (Topology.Register). *)
Inductive sop := SPlace (pd nd : req) (valid : list string) (d : string) | SRegister (ds : list string).
Definition sstep (g : group) (o : sop) : group :=
  match o with SPlace _ _ _ d => record1 g d | SRegister ds => fold_left register1 ds g end.
Fixpoint strace_ok (g : group) (tr : list sop) : Prop :=
  match tr with
  | [] => True
  | o :: t => match o with
              | SPlace pd nd valid d => allowed_spread g true pd nd [d] valid = true
              | SRegister _ => ghost g = true end /\ strace_ok (sstep g o) t
  end.
Definition placed (o : sop) : option string := match o with SPlace _ _ _ d => Some d | _ => None end.

Lemma wf_sstep g o : wf g -> wf (sstep g o).
Proof. destruct o; simpl; intros W; [apply wf_record1; exact W | apply wf_fold; [apply wf_register1 | exact W]]. Qed.

Lemma cand_known g self pd nd d c : List.In (d, c) (spread_cands g self pd nd) -> lookup d (gdom g) <> None.
Proof.
  unfold spread_cands. destruct (is_in nd); rewrite in_flat_map.
  - intros [x [_ H]]. destruct (lookup x (gdom g)) eqn:L; [|destruct H].
    destruct (_ <=? _); [|destruct H]. destruct H as [H|[]]. inversion H; subst. congruence.
  - intros [[k c0] [I H]]. destruct (_ && _); [|destruct H]. destruct H as [H|[]]. inversion H; subst.
    intros N. apply lookup_none_keys in N. apply N. change d with (fst (d, c0)). apply in_map. exact I.
Qed.

Lemma place_known g pd nd valid d : allowed_spread g true pd nd [d] valid = true ->
  lookup d (gdom g) <> None \/ ghost g = true.
Proof.
  unfold allowed_spread. destruct (host_single g nd) eqn:HS.
  - intros _. right. unfold host_single in HS. destruct (ghost g); [reflexivity | discriminate].
  - intros A. left. apply andb_true_iff in A. destruct A as [_ A]. apply andb_true_iff in A. destruct A as [_ A].
    unfold is_argmin in A. destruct (lookup d (spread_cands g true pd nd)) eqn:L; [|discriminate].
    eapply cand_known. apply lookup_In. exact L.
Qed.

(* right after the commit the skew bound holds in the chosen domain *)
Lemma place_establishes g pd nd valid d : wf g -> allowed_spread g true pd nd [d] valid = true ->
  cnt (gdom (record1 g d)) d - dmin (record1 g d) pd <= gskew g.
Proof.
  intros W A. pose proof (dmin_record1 g d pd (place_known _ _ _ _ _ A)) as MONO. rewrite cnt_record1_same.
  unfold allowed_spread in A. destruct (host_single g nd) as [h|] eqn:HS.
  - assert (HG : ghost g = true) by (unfold host_single in HS; destruct (ghost g); [reflexivity | discriminate]).
    assert (D0 : dmin (record1 g d) pd = 0) by (unfold dmin; simpl; rewrite HG; reflexivity).
    destruct (cnt (gdom g) h + inc true <=? gskew g) eqn:E; apply andb_true_iff in A; destruct A as [A _].
    + assert (I : List.In d [h]) by (eapply seteq_In; [exact A | left; reflexivity]). destruct I as [<-|[]].
      apply Z.leb_le in E. simpl in E. lia.
    + assert (I : List.In d []) by (eapply seteq_In; [exact A | left; reflexivity]). destruct I.
  - apply andb_true_iff in A. destruct A as [_ A]. apply andb_true_iff in A. destruct A as [_ A].
    unfold is_argmin in A. destruct (lookup d (spread_cands g true pd nd)) eqn:L; [|discriminate].
    apply lookup_In in L. destruct (cands_sound _ _ _ _ _ _ W L) as [E LE]. simpl in E. lia.
Qed.

Lemma keep_bound g o d pd : wf g -> placed o <> Some d ->
  match o with SPlace pd' nd valid d' => allowed_spread g true pd' nd [d'] valid = true | SRegister _ => ghost g = true end ->
  cnt (gdom g) d - dmin g pd <= gskew g ->
  cnt (gdom (sstep g o)) d - dmin (sstep g o) pd <= gskew (sstep g o).
Proof.
  intros W NP OK B. destruct o as [pd' nd valid d'|ds]; simpl in *.
  - assert (N : d <> d') by congruence. rewrite cnt_bump_other by exact N.
    pose proof (dmin_record1 g d' pd (place_known _ _ _ _ _ OK)) as H. lia.
  - rewrite cnt_registers, (dmin_registers_host g ds pd OK).
    destruct (static_fold register1 static_register1 ds g) as (_ & _ & C & _). simpl in C. rewrite C. exact B.
Qed.

Definition srun (g : group) (tr : list sop) : group := fold_left sstep tr g.

Lemma keep_bound_run : forall post g d pd, wf g -> strace_ok g post ->
  (forall o, List.In o post -> placed o <> Some d) ->
  cnt (gdom g) d - dmin g pd <= gskew g ->
  cnt (gdom (srun g post)) d - dmin (srun g post) pd <= gskew (srun g post).
Proof.
  unfold srun. induction post as [|o t IH]; simpl; intros g d pd W T NP B; [exact B|].
  destruct T as [OK T]. apply IH; [apply wf_sstep; exact W | exact T | intros o' I; apply NP; right; exact I |].
  apply keep_bound; [exact W | apply NP; left; reflexivity | exact OK | exact B].
Qed.

Lemma spread_inv_l : forall pre g0 pd nd valid d post, wf g0 ->
  strace_ok g0 (pre ++ SPlace pd nd valid d :: post) ->
  (forall o, List.In o post -> placed o <> Some d) ->
  let gf := srun g0 (pre ++ SPlace pd nd valid d :: post) in
  cnt (gdom gf) d - dmin gf pd <= gskew gf.
Proof.
  induction pre as [|o pre IH]; simpl; intros g0 pd nd valid d post W T NP.
  - destruct T as [A T]. apply (keep_bound_run post (record1 g0 d) d pd); [apply wf_record1; exact W | exact T | exact NP |].
    apply (place_establishes g0 pd nd valid d W A).
  - destruct T as [_ T]. apply (IH (sstep g0 o) pd nd valid d post (wf_sstep _ _ W) T NP).
Qed.

(* ================================================================ boolean oracles reflect their Prop specs *)
Definition anti_ok (w : world) : Prop :=
  forall p t q, List.In p (w_pods w) -> List.In t (p_anti p) -> List.In q (w_pods w) ->
    same_pod p q = false -> (p_new p = true \/ p_new q = true) -> term_matches w p t q = true ->
    forall d, List.In d (dom_of w p (t_key t)) -> ~ List.In d (dom_of w q (t_key t)).

Lemma disjoint_spec a b : disjoint a b = true <-> forall d, List.In d a -> ~ List.In d b.
Proof.
  unfold disjoint. rewrite forallb_forall. split; intros H d I.
  - specialize (H d I). apply negb_true_iff in H. intros J. apply mem_In in J. congruence.
  - apply negb_true_iff. destruct (mem d b) eqn:M; [|reflexivity]. exfalso. apply (H d I). apply mem_In. exact M.
Qed.

Lemma anti_ok_iff w : anti_ok_b w = true <-> anti_ok w.
Proof.
  unfold anti_ok_b, anti_ok. rewrite forallb_forall. split.
  - intros H p t q Ip It Iq S N M. specialize (H p Ip). rewrite forallb_forall in H. specialize (H t It).
    rewrite forallb_forall in H. specialize (H q Iq). unfold anti_pair_ok in H. rewrite S, M in H. simpl in H.
    assert (X : negb (p_new p || p_new q) = false) by (destruct N as [-> | ->]; simpl; [reflexivity | rewrite orb_true_r; reflexivity]).
    rewrite X in H. simpl in H. apply disjoint_spec. exact H.
  - intros H p Ip. apply forallb_forall. intros t It. apply forallb_forall. intros q Iq. unfold anti_pair_ok.
    destruct (same_pod p q) eqn:S; [reflexivity|]. simpl.
    destruct (p_new p || p_new q) eqn:N; [|reflexivity]. simpl.
    destruct (term_matches w p t q) eqn:M; [|reflexivity]. simpl. apply disjoint_spec.
    apply (H p t q Ip It Iq S); [apply orb_true_iff in N; exact N | exact M].
Qed.

Definition affinity_ok (w : world) : Prop :=
  forall p t, List.In p (w_pods w) -> p_new p = true -> List.In t (p_aff p) ->
    forall d, List.In d (dom_of w p (t_key t)) ->
      supported w p t d = true \/
      (term_matches w p t p = true /\ bound_usable_match w p t = false /\ mutual_openers w p t d = false).

Lemma affinity_ok_iff w : affinity_ok_b w = true <-> affinity_ok w.
Proof.
  unfold affinity_ok_b, affinity_ok. rewrite forallb_forall. split.
  - intros H p t Ip N It. specialize (H p Ip). rewrite N in H. simpl in H. rewrite forallb_forall in H.
    specialize (H t It). unfold aff_term_ok in H.
    intros d Id. rewrite forallb_forall in H. specialize (H d Id). apply orb_true_iff in H. destruct H as [H|H]; [left; exact H|].
    right. rewrite !andb_true_iff, !negb_true_iff in H. tauto.
  - intros H p Ip. destruct (p_new p) eqn:N; [|reflexivity]. simpl. apply forallb_forall. intros t It.
    pose proof (H p t Ip N It) as A. unfold aff_term_ok.
    apply forallb_forall. intros d Id. destruct (A d Id) as [S|(M & B & O)]; [rewrite S; reflexivity|].
    rewrite M, B, O. apply orb_true_r.
Qed.

Definition spread_ok (w : world) : Prop :=
  forall p c, List.In p (w_pods w) -> p_new p = true -> List.In c (p_spread p) ->
    forall d, List.In d (dom_of w p (s_key c)) ->
      exists l, List.In l (w_pods w) /\ p_new l = true /\ p_ns l = p_ns p /\ carries l c = true /\
                in_domain w p l (s_key c) d = true /\
                (view_ambiguous w l c = true \/ sp_ok_last w l c d = true).

Lemma spread_ok_iff w : spread_ok_b w = true <-> spread_ok w.
Proof.
  unfold spread_ok_b, spread_ok. rewrite forallb_forall. split.
  - intros H p c Ip N Ic d Id. specialize (H p Ip). rewrite N in H. simpl in H. rewrite forallb_forall in H.
    specialize (H c Ic). unfold spread_c_ok in H. rewrite forallb_forall in H. specialize (H d Id).
    apply existsb_exists in H. destruct H as [l [Il W]]. unfold sp_witness in W.
    rewrite !andb_true_iff, orb_true_iff in W. destruct W as [[[[A B] C] D] E].
    exists l. apply String.eqb_eq in B. tauto.
  - intros H p Ip. destruct (p_new p) eqn:N; [|reflexivity]. simpl. apply forallb_forall. intros c Ic.
    unfold spread_c_ok. apply forallb_forall. intros d Id.
    destruct (H p c Ip N Ic d Id) as [l (Il & A & B & C & D & E)].
    apply existsb_exists. exists l. split; [exact Il|]. unfold sp_witness.
    rewrite A, C, D, B, String.eqb_refl. simpl. apply orb_true_iff. exact E.
Qed.

Definition interpod_ok (w : world) : Prop := anti_ok w /\ affinity_ok w /\ spread_ok w.
Lemma interpod_ok_iff w : interpod_ok_b w = true <-> interpod_ok w.
Proof.
  unfold interpod_ok_b, interpod_ok. rewrite !andb_true_iff, anti_ok_iff, affinity_ok_iff, spread_ok_iff. tauto.
Qed.

(* ================================================================ instances on freshly built groups *)
Lemma cnt_new_group ty host skew mind ds d : cnt (gdom (new_group ty host skew mind ds)) d = 0.
Proof. unfold new_group. rewrite cnt_registers. reflexivity. Qed.

Lemma covered_nil g : covered g [].
Proof. intros D d []. Qed.

Lemma matched_new_group ty host skew mind ds : matched (new_group ty host skew mind ds) [].
Proof. intros d. rewrite cnt_new_group. split; [lia | intros []]. Qed.

Lemma anti_inv_new : forall ty host skew mind ds pre pd nd F post,
  atrace_ok (new_group ty host skew mind ds) (pre ++ AAdmit pd nd F :: post) ->
  forall D, List.In D (acommits pre) -> forall d, List.In d F -> ~ List.In d D.
Proof.
  intros. eapply (anti_inv_l pre _ [] pd nd F post (wf_new_group _ _ _ _ _) (covered_nil _)); eauto.
  rewrite app_nil_r. assumption.
Qed.

Lemma affinity_inv_new : forall ty host skew mind ds pre self pd nd result F post,
  ftrace_ok (new_group ty host skew mind ds) (pre ++ FAdmit self pd nd result F :: post) ->
  forall d, List.In d F ->
    List.In [d] (fcommits pre) \/ (self = true /\ forall d', List.In [d'] (fcommits pre) -> has pd d' = false).
Proof.
  intros until post. intros T d I.
  pose proof (affinity_inv_l pre _ [] self pd nd result F post (wf_new_group _ _ _ _ _) (matched_new_group _ _ _ _ _) T d I) as H.
  rewrite app_nil_r in H. exact H.
Qed.

Lemma affinity_partial_new : forall ty host skew mind ds tr,
  ftrace_ok (new_group ty host skew mind ds) tr -> all_collapsed (fcommits tr) -> strong_affinity [] tr.
Proof.
  intros. eapply affinity_partial_l; eauto using wf_new_group, matched_new_group. rewrite app_nil_r. assumption.
Qed.

Lemma spread_inv_new : forall host skew mind ds pre pd nd valid d post,
  let g0 := new_group TSpread host skew mind ds in
  strace_ok g0 (pre ++ SPlace pd nd valid d :: post) ->
  (forall o, List.In o post -> placed o <> Some d) ->
  let gf := srun g0 (pre ++ SPlace pd nd valid d :: post) in
  cnt (gdom gf) d - dmin gf pd <= gskew gf.
Proof. intros. apply spread_inv_l; [apply wf_new_group | assumption | assumption]. Qed.

Lemma spread_inv_reachable : forall host skew mind ds ops pre pd nd valid d post,
  let g0 := run (new_group TSpread host skew mind ds) ops in
  strace_ok g0 (pre ++ SPlace pd nd valid d :: post) ->
  (forall o, List.In o post -> placed o <> Some d) ->
  let gf := srun g0 (pre ++ SPlace pd nd valid d :: post) in
  cnt (gdom gf) d - dmin gf pd <= gskew gf.
Proof. intros. apply spread_inv_l; [apply wf_run_l, wf_new_group | assumption | assumption]. Qed.
