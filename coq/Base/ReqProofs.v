(* Lemmas about the requirement algebra (Base/Req.v). *)
From Coq Require Import Lia.
From KV Require Import Base.Req.
Open Scope Z_scope.

(* ---------------- string sets ---------------- *)

Lemma mem_In x l : mem x l = true <-> List.In x l.
Proof.
  unfold mem. rewrite existsb_exists. split.
  - intros (y & Hy & E). apply String.eqb_eq in E. subst. exact Hy.
  - intros H. exists x. split; [exact H|apply String.eqb_refl].
Qed.

Lemma mem_app x a b : mem x (a ++ b) = mem x a || mem x b.
Proof. unfold mem. apply existsb_app. Qed.

Lemma mem_filter x (P : string -> bool) l : mem x (filter P l) = mem x l && P x.
Proof.
  induction l as [|y l IH]; simpl; [reflexivity|].
  destruct (P y) eqn:Py; simpl; rewrite IH.
  - destruct (String.eqb_spec x y) as [->|Hn]; simpl; [rewrite Py|]; 
      destruct (mem y l), (P y); try reflexivity; destruct (mem x l); reflexivity.
  - destruct (String.eqb_spec x y) as [->|Hn]; simpl; [rewrite Py|reflexivity].
    rewrite andb_false_r. reflexivity.
Qed.

Lemma mem_dedup x l : mem x (dedup l) = mem x l.
Proof.
  induction l as [|y l IH]; simpl; [reflexivity|].
  destruct (mem y l) eqn:My; simpl; rewrite IH.
  - destruct (String.eqb_spec x y) as [->|Hn]; simpl; [exact My|reflexivity].
  - reflexivity.
Qed.

Lemma mem_sunion x a b : mem x (sunion a b) = mem x a || mem x b.
Proof.
  unfold sunion. rewrite mem_app, mem_filter. destruct (mem x a), (mem x b); reflexivity.
Qed.
Lemma mem_sdiff x a b : mem x (sdiff a b) = mem x a && negb (mem x b).
Proof. unfold sdiff. apply mem_filter. Qed.
Lemma mem_sinter x a b : mem x (sinter a b) = mem x a && mem x b.
Proof. unfold sinter. apply mem_filter. Qed.

(* ---------------- bounds ---------------- *)

Ltac zb :=
  repeat match goal with
  | |- context [?a <=? ?b] => destruct (Z.leb_spec a b)
  | |- context [?a <? ?b] => destruct (Z.ltb_spec a b)
  | |- context [?a =? ?b] => destruct (Z.eqb_spec a b)
  end; simpl; try reflexivity; try lia.

Lemma within_merge v ga gb la lb :
  within v (max_opt ga gb) (min_opt la lb) = within v ga la && within v gb lb.
Proof.
  unfold within, max_opt, min_opt.
  destruct ga as [ga|], gb as [gb|], la as [la|], lb as [lb|]; destruct (atoi v) as [n|];
    try reflexivity; zb.
Qed.

Definition empty_bounds (g l : option Z) : bool :=
  match g, l with Some x, Some y => y <? x | _, _ => false end.

Lemma within_empty v g l : empty_bounds g l = true -> within v g l = false.
Proof.
  unfold empty_bounds, within. destruct g as [x|], l as [y|]; try discriminate.
  intros H. apply Z.ltb_lt in H. destruct (atoi v) as [n|]; [|reflexivity]. zb.
Qed.

(* ---------------- Has / Intersection ---------------- *)

Lemma has_intersection_admits a b v : has (intersection a b) v = has a v && has b v.
Proof.
  unfold intersection.
  fold (empty_bounds (max_opt (gte a) (gte b)) (min_opt (lte a) (lte b))).
  pose proof (within_merge v (gte a) (gte b) (lte a) (lte b)) as Hm.
  destruct (empty_bounds (max_opt (gte a) (gte b)) (min_opt (lte a) (lte b))) eqn:Eb.
  - apply (within_empty v) in Eb. rewrite Eb in Hm.
    unfold has at 1. simpl. unfold has.
    destruct (within v (gte a) (lte a)), (within v (gte b) (lte b)); try discriminate;
      rewrite ?andb_false_r; reflexivity.
  - unfold has.
    destruct (compl a), (compl b); cbn [andb compl vals gte lte];
      rewrite mem_filter, ?mem_sunion, ?mem_sdiff, ?mem_sinter, ?Hm;
      destruct (mem v (vals a)), (mem v (vals b)), (within v (gte a) (lte a)), (within v (gte b) (lte b));
      reflexivity.
Qed.

(* ---------------- well-formedness: bounds are int64 ---------------- *)

Definition bound_ok (o : option Z) : Prop := match o with Some z => in64 z = true | None => True end.
Definition wf (r : req) : Prop := bound_ok (gte r) /\ bound_ok (lte r).

Lemma max_opt_ok a b : bound_ok a -> bound_ok b -> bound_ok (max_opt a b).
Proof. destruct a, b; simpl; auto. destruct (_ <? _); auto. Qed.
Lemma min_opt_ok a b : bound_ok a -> bound_ok b -> bound_ok (min_opt a b).
Proof. destruct a, b; simpl; auto. destruct (_ <? _); auto. Qed.

Lemma wf_intersection a b : wf a -> wf b -> wf (intersection a b).
Proof.
  intros [Ha1 Ha2] [Hb1 Hb2]. unfold intersection.
  destruct (match max_opt (gte a) (gte b) with Some x => _ | None => false end).
  - split; exact I.
  - destruct (compl a && compl b); split; simpl; auto using max_opt_ok, min_opt_ok.
Qed.

Lemma atoi_in64 s n : atoi s = Some n -> in64 n = true.
Proof.
  unfold atoi. destruct (atoi_raw s) as [z|]; [|discriminate].
  destruct (in64 z) eqn:E; [|discriminate]. intros [= <-]. exact E.
Qed.

Lemma atoi_ignore_err_ok s n : atoi s = Some n -> atoi_ignore_err s = n.
Proof.
  unfold atoi, atoi_ignore_err. destruct (atoi_raw s) as [z|]; [|discriminate].
  destruct (in64 z) eqn:E; [|discriminate]. intros [= <-].
  unfold in64 in E. apply andb_prop in E as [E1 E2]. apply Z.leb_le in E1, E2.
  destruct (Z.ltb_spec z min64); [lia|]. destruct (Z.ltb_spec max64 z); [lia|]. reflexivity.
Qed.

(* ---------------- a fresh admitted value exists ---------------- *)

Fixpoint maxlen (l : list string) : nat :=
  match l with [] => O | x :: t => Nat.max (String.length x) (maxlen t) end.

Lemma mem_maxlen x l : mem x l = true -> (String.length x <= maxlen l)%nat.
Proof.
  induction l as [|y l IH]; simpl; [discriminate|].
  destruct (String.eqb_spec x y) as [->|Hn]; simpl; intros H; [lia|]. specialize (IH H). lia.
Qed.

Lemma fresh_numeral (excl : list string) (z : Z) : in64 z = true ->
  exists v, atoi v = Some z /\ mem v excl = false.
Proof.
  intros Hz. exists (padded (maxlen excl) z). split; [apply atoi_padded, Hz|].
  destruct (mem (padded (maxlen excl) z) excl) eqn:E; [|reflexivity].
  apply mem_maxlen in E. pose proof (length_padded (maxlen excl) z). lia.
Qed.

(* some value within non-empty int64 bounds that avoids a finite exclusion list *)
Lemma fresh_within (excl : list string) g l : bound_ok g -> bound_ok l -> empty_bounds g l = false ->
  exists v, mem v excl = false /\ within v g l = true.
Proof.
  intros Hg Hl He.
  destruct g as [x|].
  - destruct (fresh_numeral excl x Hg) as (v & Hv & Hm). exists v. split; [exact Hm|].
    unfold within. rewrite Hv. destruct l as [y|]; simpl in *.
    + apply Z.ltb_ge in He. rewrite Z.leb_refl. simpl. apply Z.leb_le. lia.
    + rewrite Z.leb_refl. reflexivity.
  - destruct l as [y|].
    + destruct (fresh_numeral excl y Hl) as (v & Hv & Hm). exists v. split; [exact Hm|].
      unfold within. rewrite Hv. simpl. apply Z.leb_refl.
    + destruct (fresh_numeral excl 0 eq_refl) as (v & Hv & Hm). exists v. split; [exact Hm|reflexivity].
Qed.

Lemma has_intersection_true_iff a b : wf a -> wf b ->
  (has_intersection a b = true <-> exists v, has a v = true /\ has b v = true).
Proof.
  intros [Ha1 Ha2] [Hb1 Hb2].
  assert (Hand : forall v, has a v = true /\ has b v = true <-> has (intersection a b) v = true).
  { intros v. rewrite has_intersection_admits, andb_true_iff. reflexivity. }
  unfold has_intersection.
  fold (empty_bounds (max_opt (gte a) (gte b)) (min_opt (lte a) (lte b))).
  set (g := max_opt (gte a) (gte b)). set (l := min_opt (lte a) (lte b)).
  destruct (empty_bounds g l) eqn:Eb.
  - split; [discriminate|]. intros (v & H1 & H2).
    pose proof (within_empty v g l Eb) as Hw. unfold g, l in Hw. rewrite within_merge in Hw.
    unfold has in H1, H2. apply andb_prop in H1 as [_ H1]. apply andb_prop in H2 as [_ H2].
    rewrite H1, H2 in Hw. discriminate.
  - assert (Hmerge : forall v, within v g l = within v (gte a) (lte a) && within v (gte b) (lte b))
      by (intros; apply within_merge).
    destruct (compl a) eqn:Ca, (compl b) eqn:Cb; cbn [andb].
    + split; [intros _|reflexivity].
      destruct (fresh_within (vals a ++ vals b) g l) as (v & Hm & Hw);
        [apply max_opt_ok; assumption | apply min_opt_ok; assumption | exact Eb |].
      rewrite mem_app in Hm. apply orb_false_elim in Hm as [Hma Hmb].
      rewrite Hmerge in Hw. apply andb_prop in Hw as [Hwa Hwb].
      exists v. unfold has. rewrite Ca, Cb, Hma, Hmb, Hwa, Hwb. split; reflexivity.
    + rewrite existsb_exists. split.
      * intros (v & Hin & Hv). apply andb_prop in Hv as [Hn Hw]. rewrite Hmerge in Hw.
        apply andb_prop in Hw as [Hwa Hwb]. apply mem_In in Hin.
        exists v. unfold has. rewrite Ca, Cb, Hn, Hin, Hwa, Hwb. split; reflexivity.
      * intros (v & H1 & H2). unfold has in H1, H2. rewrite Ca in H1. rewrite Cb in H2.
        apply andb_prop in H1 as [H1 H1w]. apply andb_prop in H2 as [H2 H2w].
        exists v. split; [apply mem_In, H2|]. rewrite H1, Hmerge, H1w, H2w. reflexivity.
    + rewrite existsb_exists. split.
      * intros (v & Hin & Hv). apply andb_prop in Hv as [Hn Hw]. rewrite Hmerge in Hw.
        apply andb_prop in Hw as [Hwa Hwb]. apply mem_In in Hin.
        exists v. unfold has. rewrite Ca, Cb, Hn, Hin, Hwa, Hwb. split; reflexivity.
      * intros (v & H1 & H2). unfold has in H1, H2. rewrite Ca in H1. rewrite Cb in H2.
        apply andb_prop in H1 as [H1 H1w]. apply andb_prop in H2 as [H2 H2w].
        exists v. split; [apply mem_In, H1|]. rewrite H2, Hmerge, H1w, H2w. reflexivity.
    + rewrite existsb_exists. split.
      * intros (v & Hin & Hv). apply andb_prop in Hv as [Hn Hw]. rewrite Hmerge in Hw.
        apply andb_prop in Hw as [Hwa Hwb]. apply mem_In in Hin.
        exists v. unfold has. rewrite Ca, Cb, Hn, Hin, Hwa, Hwb. split; reflexivity.
      * intros (v & H1 & H2). unfold has in H1, H2. rewrite Ca in H1. rewrite Cb in H2.
        apply andb_prop in H1 as [H1 H1w]. apply andb_prop in H2 as [H2 H2w].
        exists v. split; [apply mem_In, H1|]. rewrite H2, Hmerge, H1w, H2w. reflexivity.
Qed.

(* ---------------- constructor vs Kubernetes semantics ---------------- *)
From KV Require Import Base.K8s.

Lemma has_new_req o mv vs v : valid_args o vs = true ->
  has (new_req o mv vs) v = k8s_match o vs (Some v).
Proof.
  intros Hv. destruct o; simpl in *.
  - unfold has; simpl. rewrite mem_dedup, andb_true_r. reflexivity.
  - unfold has; simpl. rewrite mem_dedup, andb_true_r. reflexivity.
  - reflexivity.
  - reflexivity.
  - destruct vs as [|b [|? ?]]; try discriminate. destruct (atoi b) as [m|] eqn:Eb; [|discriminate].
    simpl. rewrite (atoi_ignore_err_ok b m Eb). unfold cmp_match. rewrite Eb.
    pose proof (atoi_in64 b m Eb) as Hm. unfold in64 in Hm. apply andb_prop in Hm as [Hm1 Hm2].
    apply Z.leb_le in Hm1, Hm2.
    destruct (Z.eqb_spec m max64) as [->|Hne].
    + unfold has; simpl. destruct (atoi v) as [n|] eqn:En; [|reflexivity].
      pose proof (atoi_in64 v n En) as Hn. unfold in64 in Hn. apply andb_prop in Hn as [_ Hn].
      apply Z.leb_le in Hn. symmetry. apply Z.ltb_ge. exact Hn.
    + unfold has, within; simpl. destruct (atoi v) as [n|]; [|reflexivity].
      rewrite andb_true_r. zb.
  - destruct vs as [|b [|? ?]]; try discriminate. destruct (atoi b) as [m|] eqn:Eb; [|discriminate].
    simpl. rewrite (atoi_ignore_err_ok b m Eb). unfold cmp_match. rewrite Eb.
    destruct (Z.eqb_spec m min64) as [->|Hne].
    + unfold has; simpl. destruct (atoi v) as [n|] eqn:En; [|reflexivity].
      pose proof (atoi_in64 v n En) as Hn. unfold in64 in Hn. apply andb_prop in Hn as [Hn _].
      apply Z.leb_le in Hn. symmetry. apply Z.ltb_ge. exact Hn.
    + unfold has, within; simpl. destruct (atoi v) as [n|]; [|reflexivity]. zb.
  - destruct vs as [|b [|? ?]]; try discriminate. destruct (atoi b) as [m|] eqn:Eb; [|discriminate].
    simpl. rewrite (atoi_ignore_err_ok b m Eb). unfold cmp_match, has, within; simpl. rewrite Eb.
    destruct (atoi v) as [n|]; [|reflexivity]. rewrite andb_true_r. reflexivity.
  - destruct vs as [|b [|? ?]]; try discriminate. destruct (atoi b) as [m|] eqn:Eb; [|discriminate].
    simpl. rewrite (atoi_ignore_err_ok b m Eb). unfold cmp_match, has, within; simpl. rewrite Eb.
    destruct (atoi v) as [n|]; reflexivity.
Qed.

Lemma dedup_nonempty vs : vs <> [] -> dedup vs <> [].
Proof.
  intros H E. destruct vs as [|x t]; [congruence|].
  assert (M : mem x (dedup (x :: t)) = true).
  { rewrite mem_dedup. simpl. rewrite String.eqb_refl. reflexivity. }
  rewrite E in M. discriminate.
Qed.

Lemma rlen_compl_lt (l : list string) : l <> [] -> (max64 - Z.of_nat (List.length l) <? max64) = true.
Proof. intros H. apply Z.ltb_lt. destruct l; [congruence|]. simpl length. lia. Qed.

(* Gt MaxInt64 / Lt MinInt64 admit no value; the algebra represents the empty value set as
   DoesNotExist, which an absent label satisfies. They are excluded here (see DESIGN.md). *)
Definition not_extreme (o : oper) (vs : list string) : bool :=
  match o with
  | Gt => negb (atoi_ignore_err (hd EmptyString vs) =? max64)
  | Lt => negb (atoi_ignore_err (hd EmptyString vs) =? min64)
  | _ => true
  end.

Lemma sat_undefined_new_req o mv vs : valid_args o vs = true -> not_extreme o vs = true ->
  sat_undefined (new_req o mv vs) = k8s_match o vs None.
Proof.
  intros Hv Hx. destruct o; simpl in *.
  - destruct vs as [|x t]; [discriminate|].
    assert (Hd : dedup (x :: t) <> []) by (apply dedup_nonempty; discriminate).
    unfold new_req, sat_undefined, operator, rlen. cbn [compl vals gte lte].
    destruct (dedup (x :: t)) as [|y u]; [congruence|]. reflexivity.
  - destruct vs as [|x t]; [discriminate|].
    assert (Hd : dedup (x :: t) <> []) by (apply dedup_nonempty; discriminate).
    unfold new_req, sat_undefined, operator, rlen. cbn [compl vals gte lte].
    rewrite rlen_compl_lt by exact Hd. reflexivity.
  - reflexivity.
  - reflexivity.
  - apply negb_true_iff in Hx. rewrite Hx. reflexivity.
  - apply negb_true_iff in Hx. rewrite Hx. reflexivity.
  - reflexivity.
  - reflexivity.
Qed.

Lemma wf_new_req o mv vs : valid_args o vs = true -> wf (new_req o mv vs).
Proof.
  intros Hv. destruct o; simpl in *; try (split; exact I);
  destruct vs as [|b [|? ?]]; try discriminate; destruct (atoi b) as [m|] eqn:Eb; try discriminate;
  simpl; rewrite (atoi_ignore_err_ok b m Eb);
  pose proof (atoi_in64 b m Eb) as Hm; pose proof Hm as Hm'; unfold in64 in Hm'; apply andb_prop in Hm' as [Hm1 Hm2];
  apply Z.leb_le in Hm1, Hm2.
  - destruct (Z.eqb_spec m max64); [split; exact I|]. split; simpl; [|exact I].
    unfold in64, min64, max64 in *. apply andb_true_intro. split; apply Z.leb_le; lia.
  - destruct (Z.eqb_spec m min64); [split; exact I|]. split; simpl; [exact I|].
    unfold in64, min64, max64 in *. apply andb_true_intro. split; apply Z.leb_le; lia.
  - split; simpl; [exact Hm|exact I].
  - split; simpl; [exact I|exact Hm].
Qed.

(* ---------------- algebraic laws on admitted sets ---------------- *)

Lemma inter_comm a b v : has (intersection a b) v = has (intersection b a) v.
Proof. rewrite !has_intersection_admits. apply andb_comm. Qed.
Lemma inter_assoc a b c v :
  has (intersection (intersection a b) c) v = has (intersection a (intersection b c)) v.
Proof. rewrite !has_intersection_admits. symmetry. apply andb_assoc. Qed.
Lemma inter_idem a v : has (intersection a a) v = has a v.
Proof. rewrite has_intersection_admits. apply andb_diag. Qed.

Lemma has_intersection_comm a b : wf a -> wf b -> has_intersection a b = has_intersection b a.
Proof.
  intros Ha Hb. apply eq_true_iff_eq.
  rewrite (has_intersection_true_iff a b Ha Hb), (has_intersection_true_iff b a Hb Ha).
  split; intros (v & H1 & H2); exists v; split; assumption.
Qed.

Lemma has_intersection_nonempty a b : wf a -> wf b ->
  (has_intersection a b = true <-> exists v, has (intersection a b) v = true).
Proof.
  intros Ha Hb. rewrite (has_intersection_true_iff a b Ha Hb).
  split; intros (v & H); exists v; rewrite has_intersection_admits, andb_true_iff in *; exact H.
Qed.

(* ---------------- Requirements: Compatible ---------------- *)

(* per-key meaning of compatibility: for every key of [b],
   - if [a] defines it: some label state (a value, or absence) is admitted by both;
   - if [a] does not: the key is allowed to be undefined, or absence satisfies [b]'s requirement. *)
Definition key_compatible (allow : list string) (a : reqs) (k : string) (rb : req) : Prop :=
  match find k a with
  | Some ra => exists lbl, admits ra lbl = true /\ admits rb lbl = true
  | None => mem k allow = true \/ admits rb None = true
  end.

Definition wf_reqs (m : reqs) : Prop := forall k r, List.In (k, r) m -> wf r.
Definition nodup_keys (m : reqs) : Prop := NoDup (map fst m).

Lemma find_In k r m : find k m = Some r -> List.In (k, r) m.
Proof.
  induction m as [|[k' r'] m IH]; simpl; [discriminate|].
  destruct (String.eqb_spec k k') as [->|Hn]; [intros [= ->]; left; reflexivity|].
  intros H. right. apply IH, H.
Qed.

Lemma In_find k r m : nodup_keys m -> List.In (k, r) m -> find k m = Some r.
Proof.
  unfold nodup_keys. induction m as [|[k' r'] m IH]; simpl; [tauto|].
  intros Hnd [E|Hin].
  - inversion E; subst. rewrite String.eqb_refl. reflexivity.
  - inversion Hnd as [|? ? Hnot Hnd']; subst.
    destruct (String.eqb_spec k k') as [->|Hn].
    + exfalso. apply Hnot. apply in_map_iff. exists (k', r). split; [reflexivity|exact Hin].
    + apply IH; assumption.
Qed.

Lemma pair_admits ra rb : wf ra -> wf rb ->
  (has_intersection ra rb || (sat_undefined rb && sat_undefined ra) = true <->
   exists lbl, admits ra lbl = true /\ admits rb lbl = true).
Proof.
  intros Ha Hb. rewrite orb_true_iff, (has_intersection_true_iff ra rb Ha Hb), andb_true_iff. split.
  - intros [(v & H1 & H2)|[H1 H2]]; [exists (Some v)|exists None]; split; assumption.
  - intros ([v|] & H1 & H2); [left; exists v; split; assumption|right; split; assumption].
Qed.

Lemma compatible_iff allow a b : wf_reqs a -> wf_reqs b -> nodup_keys a -> nodup_keys b ->
  (compatible allow a b = true <-> forall k rb, find k b = Some rb -> key_compatible allow a k rb).
Proof.
  intros Wa Wb Na Nb. unfold compatible, intersects. rewrite andb_true_iff, !forallb_forall. split.
  - intros [H1 H2] k rb Hf. unfold key_compatible.
    pose proof (find_In _ _ _ Hf) as Hin.
    destruct (find k a) as [ra|] eqn:Fa.
    + specialize (H2 (k, ra) (find_In _ _ _ Fa)). simpl in H2. rewrite Hf in H2.
      apply pair_admits; [apply (Wa k), find_In, Fa|apply (Wb k), Hin|exact H2].
    + specialize (H1 (k, rb) Hin). simpl in H1. unfold has_key in H1. rewrite Fa in H1.
      rewrite orb_false_r in H1. apply orb_true_iff in H1. exact H1.
  - intros H. split.
    + intros [k rb] Hin. pose proof (In_find _ _ _ Nb Hin) as Hf. specialize (H k rb Hf).
      unfold key_compatible in H. unfold has_key. destruct (find k a); [rewrite orb_true_r; reflexivity|].
      rewrite orb_false_r. apply orb_true_iff. exact H.
    + intros [k ra] Hin. pose proof (In_find _ _ _ Na Hin) as Fa.
      destruct (find k b) as [rb|] eqn:Fb; [|reflexivity].
      specialize (H k rb Fb). unfold key_compatible in H. rewrite Fa in H.
      apply pair_admits; [apply (Wa k), Hin|apply (Wb k), find_In, Fb|exact H].
Qed.

(* ---------------- Requirements.Add keeps the representation invariants ---------------- *)

Lemma set_keys k r m : map fst (set k r m) = if has_key m k then map fst m else map fst m ++ [k].
Proof.
  unfold has_key. induction m as [|[k' r'] m IH]; simpl; [reflexivity|].
  destruct (String.eqb_spec k k') as [->|Hn]; simpl; [reflexivity|].
  rewrite IH. destruct (find k m); reflexivity.
Qed.

Lemma find_none_notin k m : find k m = None -> ~ List.In k (map fst m).
Proof.
  induction m as [|[k' r'] m IH]; simpl; [tauto|].
  destruct (String.eqb_spec k k') as [->|Hn]; [discriminate|].
  intros H [E|Hin]; [congruence|]. apply (IH H Hin).
Qed.

Lemma nodup_set k r m : nodup_keys m -> nodup_keys (set k r m).
Proof.
  unfold nodup_keys. intros H. rewrite set_keys. unfold has_key.
  destruct (find k m) eqn:F; [exact H|].
  pose proof (find_none_notin _ _ F) as Hnot.
  induction (map fst m) as [|x l IHl]; simpl.
  - repeat constructor. simpl. tauto.
  - inversion H as [|? ? Hx Hl]; subst. constructor.
    + rewrite in_app_iff. intros [Hi|[E|[]]]; [exact (Hx Hi)|]. apply Hnot. left. symmetry. exact E.
    + apply IHl; [exact Hl|]. intros Hi. apply Hnot. right. exact Hi.
Qed.

Lemma In_set k r m k0 r0 : List.In (k0, r0) (set k r m) -> (k0, r0) = (k, r) \/ List.In (k0, r0) m.
Proof.
  induction m as [|[k' r'] m IH]; simpl.
  - intros [E|[]]. left. symmetry. exact E.
  - destruct (String.eqb_spec k k') as [->|Hn]; simpl.
    + intros [E|H]; [left; symmetry; exact E|right; right; exact H].
    + intros [E|H]; [right; left; exact E|]. destruct (IH H); [left|right; right]; assumption.
Qed.

Lemma wf_set k r m : wf r -> wf_reqs m -> wf_reqs (set k r m).
Proof.
  intros Hr Hm k0 r0 Hin. apply In_set in Hin as [E|Hin]; [inversion E; subst; exact Hr|apply (Hm k0), Hin].
Qed.

Lemma add1_inv m kr : wf (snd kr) -> wf_reqs m /\ nodup_keys m ->
  wf_reqs (add1 m kr) /\ nodup_keys (add1 m kr).
Proof.
  destruct kr as [k r]; simpl. intros Hr [Hw Hn]. unfold add1.
  destruct (find k m) as [ex|] eqn:F.
  - split; [apply wf_set; [apply wf_intersection; [exact Hr|apply (Hw k), find_In, F]|exact Hw]|apply nodup_set, Hn].
  - split; [apply wf_set; assumption|apply nodup_set, Hn].
Qed.

Lemma add_inv rs : forall m, Forall (fun kr => wf (snd kr)) rs -> wf_reqs m /\ nodup_keys m ->
  wf_reqs (add m rs) /\ nodup_keys (add m rs).
Proof.
  induction rs as [|kr rs IH]; intros m Hall Hm; simpl; [exact Hm|].
  inversion Hall; subst. apply IH; [assumption|]. apply add1_inv; assumption.
Qed.

Lemma empty_inv : wf_reqs [] /\ nodup_keys [].
Proof. split; [intros ? ? []|constructor]. Qed.

(* Add narrows: the stored requirement for a key admits exactly what all added ones admit *)
Lemma find_set_same k r m : find k (set k r m) = Some r.
Proof.
  induction m as [|[k' r'] m IH]; simpl; [rewrite String.eqb_refl; reflexivity|].
  destruct (String.eqb_spec k k') as [->|Hn]; simpl; [rewrite String.eqb_refl; reflexivity|].
  destruct (String.eqb_spec k k'); [congruence|exact IH].
Qed.

Lemma find_set_other k k0 r m : k0 <> k -> find k0 (set k r m) = find k0 m.
Proof.
  intros Hne. induction m as [|[k' r'] m IH]; simpl.
  - destruct (String.eqb_spec k0 k); [congruence|reflexivity].
  - destruct (String.eqb_spec k k') as [->|Hn]; simpl.
    + destruct (String.eqb_spec k0 k'); [congruence|reflexivity].
    + destruct (String.eqb_spec k0 k'); [reflexivity|exact IH].
Qed.

Lemma get_add1 m k r k0 v :
  has (get (add1 m (k, r)) k0) v = if String.eqb k0 k then has r v && has (get m k0) v else has (get m k0) v.
Proof.
  unfold add1, get. destruct (String.eqb_spec k0 k) as [->|Hne].
  - destruct (find k m) as [ex|] eqn:F; rewrite find_set_same.
    + apply has_intersection_admits.
    + unfold has at 3. simpl. rewrite andb_true_r. reflexivity.
  - destruct (find k m); rewrite find_set_other by exact Hne; reflexivity.
Qed.
