(* Model of pkg/scheduling/requirement.go and requirements.go (executable definitions only). *)
From Coq Require Export ZArith String List Bool.
From KV Require Export Base.Atoi.
Export ListNotations.
Open Scope Z_scope.

(* ---- string sets as duplicate-free lists ---- *)
Definition mem (x : string) (l : list string) : bool := existsb (String.eqb x) l.
Fixpoint dedup (l : list string) : list string :=
  match l with
  | [] => []
  | x :: t => if mem x t then dedup t else x :: dedup t
  end.
Definition sunion (a b : list string) : list string := a ++ filter (fun x => negb (mem x a)) b.
Definition sdiff (a b : list string) : list string := filter (fun x => negb (mem x b)) a.
Definition sinter (a b : list string) : list string := filter (fun x => mem x b) a.

(* ---- operators: corev1 In/NotIn/Exists/DoesNotExist/Gt/Lt + karpenter Gte/Lte ---- *)
Inductive oper := In | NotIn | Exists | DoesNotExist | Gt | Lt | Gte | Lte.

Definition oper_eqb (a b : oper) : bool :=
  match a, b with
  | In, In | NotIn, NotIn | Exists, Exists | DoesNotExist, DoesNotExist
  | Gt, Gt | Lt, Lt | Gte, Gte | Lte, Lte => true
  | _, _ => false
  end.

(* scheduling.Requirement without its Key *)
Record req := mkReq {
  compl : bool;
  vals : list string;
  gte : option Z;
  lte : option Z;
  minv : option Z
}.

Definition max_opt (a b : option Z) : option Z :=
  match a, b with
  | None, _ => b
  | _, None => a
  | Some x, Some y => if y <? x then a else b      (* maxIntPtr: *a > *b ? a : b *)
  end.
Definition min_opt (a b : option Z) : option Z :=
  match a, b with
  | None, _ => b
  | _, None => a
  | Some x, Some y => if x <? y then a else b      (* minIntPtr *)
  end.

(* withinBounds *)
Definition within (v : string) (g l : option Z) : bool :=
  match g, l with
  | None, None => true
  | _, _ =>
      match atoi v with
      | None => false
      | Some n =>
          (match g with Some a => a <=? n | None => true end) &&
          (match l with Some b => n <=? b | None => true end)
      end
  end.

(* Requirement.Has *)
Definition has (r : req) (v : string) : bool :=
  (if compl r then negb (mem v (vals r)) else mem v (vals r)) && within v (gte r) (lte r).

Definition req_dne (mv : option Z) : req := mkReq false [] None None mv.

(* NewRequirementWithFlexibility (value normalisation is applied by the caller, see [norm_vals]) *)
Definition new_req (o : oper) (mv : option Z) (vs : list string) : req :=
  match o with
  | In => mkReq false (dedup vs) None None mv
  | NotIn => mkReq true (dedup vs) None None mv
  | Exists => mkReq true [] None None mv
  | DoesNotExist => mkReq false [] None None mv
  | Gt =>
      let v := atoi_ignore_err (hd EmptyString vs) in
      if v =? max64 then req_dne None            (* NewRequirement(key, DoesNotExist): minValues dropped *)
      else mkReq true [] (Some (v + 1)) None mv
  | Lt =>
      let v := atoi_ignore_err (hd EmptyString vs) in
      if v =? min64 then req_dne None
      else mkReq true [] None (Some (v - 1)) mv
  | Gte => mkReq true [] (Some (atoi_ignore_err (hd EmptyString vs))) None mv
  | Lte => mkReq true [] None (Some (atoi_ignore_err (hd EmptyString vs))) mv
  end.

(* r.Intersection(requirement) with r = a, requirement = b *)
Definition intersection (a b : req) : req :=
  let c := compl a && compl b in
  let g := max_opt (gte a) (gte b) in
  let l := min_opt (lte a) (lte b) in
  let mv := max_opt (minv a) (minv b) in
  let empty_bounds := match g, l with Some x, Some y => y <? x | _, _ => false end in
  if empty_bounds then req_dne mv
  else
    let values :=
      if compl a then (if compl b then sunion (vals a) (vals b) else sdiff (vals b) (vals a))
      else (if compl b then sdiff (vals a) (vals b) else sinter (vals a) (vals b)) in
    let values := filter (fun v => within v g l) values in
    if c then mkReq c values g l mv else mkReq c values None None mv.

(* HasIntersection *)
Definition has_intersection (a b : req) : bool :=
  let g := max_opt (gte a) (gte b) in
  let l := min_opt (lte a) (lte b) in
  let empty_bounds := match g, l with Some x, Some y => y <? x | _, _ => false end in
  if empty_bounds then false
  else if compl a && compl b then true
  else if compl a then existsb (fun v => negb (mem v (vals a)) && within v g l) (vals b)
  else if compl b then existsb (fun v => negb (mem v (vals b)) && within v g l) (vals a)
  else existsb (fun v => mem v (vals b) && within v g l) (vals a).

(* Len; math.MaxInt64 - len(values) *)
Definition rlen (r : req) : Z :=
  if compl r then max64 - Z.of_nat (length (vals r)) else Z.of_nat (length (vals r)).

(* Operator *)
Definition operator (r : req) : oper :=
  if compl r then (if rlen r <? max64 then NotIn else Exists)
  else (if 0 <? rlen r then In else DoesNotExist).

(* satisfiedWhenUndefined *)
Definition sat_undefined (r : req) : bool :=
  match operator r with
  | NotIn | DoesNotExist => match gte r, lte r with None, None => true | _, _ => false end
  | _ => false
  end.

(* ---- Requirements: map key -> Requirement, as an association list ---- *)
Definition reqs := list (string * req).

Fixpoint find (k : string) (m : reqs) : option req :=
  match m with
  | [] => None
  | (k', r) :: t => if String.eqb k k' then Some r else find k t
  end.

Fixpoint set (k : string) (r : req) (m : reqs) : reqs :=
  match m with
  | [] => [(k, r)]
  | (k', r') :: t => if String.eqb k k' then (k, r) :: t else (k', r') :: set k r t
  end.

Definition has_key (m : reqs) (k : string) : bool := match find k m with Some _ => true | None => false end.

(* Requirements.Get: undefined keys read as Exists *)
Definition get (m : reqs) (k : string) : req :=
  match find k m with Some r => r | None => new_req Exists None [] end.

(* Requirements.Add for one requirement: requirement.Intersection(existing) *)
Definition add1 (m : reqs) (kr : string * req) : reqs :=
  let (k, r) := kr in
  match find k m with
  | Some ex => set k (intersection r ex) m
  | None => set k r m
  end.
Definition add (m : reqs) (rs : list (string * req)) : reqs := fold_left add1 rs m.

(* key / value normalisation tables (v1.NormalizedLabels, v1.NormalizedLabelValues), read from the code *)
Definition norm_key (tbl : list (string * string)) (k : string) : string :=
  match List.find (fun p => String.eqb k (fst p)) tbl with Some p => snd p | None => k end.

(* Requirements.Intersects: None = nil error *)
Definition intersects (a b : reqs) : bool :=
  forallb (fun kr : string * req =>
    let (k, existing) := kr in
    match find k b with
    | None => true
    | Some incoming =>
        has_intersection existing incoming || (sat_undefined incoming && sat_undefined existing)
    end) a.

(* Requirements.Compatible: true = nil error. allow = opts.AllowUndefined *)
Definition compatible (allow : list string) (a b : reqs) : bool :=
  forallb (fun kr : string * req =>
    let (k, rb) := kr in
    mem k allow || has_key a k || sat_undefined rb) b
  && intersects a b.
