(* Go's strconv.Atoi / strconv.FormatInt(.,10) on 64-bit ints, over Coq strings.
   atoi: optional single sign, at least one decimal digit, nothing else (no underscores,
   no spaces), value within int64; leading zeros accepted. *)
From Coq Require Import ZArith String Ascii List Bool Lia DecimalString DecimalZ DecimalPos DecimalN.
Import ListNotations.
Open Scope Z_scope.

Definition min64 : Z := -9223372036854775808.
Definition max64 : Z := 9223372036854775807.
Definition in64 (z : Z) : bool := (min64 <=? z) && (z <=? max64).

(* unsigned decimal: non-empty string of digits *)
Definition udec (s : string) : option Z :=
  match s with
  | EmptyString => None
  | _ => option_map Z.of_uint (NilEmpty.uint_of_string s)
  end.

Definition atoi_raw (s : string) : option Z :=
  match s with
  | EmptyString => None
  | String c r =>
      if Ascii.eqb c "+" then udec r
      else if Ascii.eqb c "-" then option_map Z.opp (udec r)
      else udec s
  end.

(* value, err == nil *)
Definition atoi (s : string) : option Z :=
  match atoi_raw s with
  | Some z => if in64 z then Some z else None
  | None => None
  end.

(* the value strconv.Atoi returns when the error is ignored (`v, _ := strconv.Atoi(s)`):
   0 on a syntax error, the nearest int64 on a range error *)
Definition atoi_ignore_err (s : string) : Z :=
  match atoi_raw s with
  | None => 0
  | Some z => if z <? min64 then min64 else if max64 <? z then max64 else z
  end.

(* Go int arithmetic wraps *)
Definition wrap64 (z : Z) : Z := (z + 9223372036854775808) mod 18446744073709551616 - 9223372036854775808.

(* strconv.FormatInt(z, 10) / fmt.Sprint(int) *)
Definition itoa (z : Z) : string := NilEmpty.string_of_int (Z.to_int z).

(* k zeros in front of a digit string *)
Fixpoint zeros (k : nat) (s : string) : string :=
  match k with O => s | S k' => String "0" (zeros k' s) end.

(* ---------------------------------------------------------------- lemmas *)

Lemma wrap64_id z : in64 z = true -> wrap64 z = z.
Proof.
  unfold in64, wrap64, min64, max64. intros H. apply andb_prop in H as [H1 H2].
  apply Z.leb_le in H1, H2. rewrite Z.mod_small; lia.
Qed.

Lemma string_of_uint_nonempty d : d <> Decimal.Nil -> NilEmpty.string_of_uint d <> EmptyString.
Proof. destruct d; simpl; congruence. Qed.

Lemma udec_string_of_uint d : d <> Decimal.Nil ->
  udec (NilEmpty.string_of_uint d) = Some (Z.of_uint d).
Proof.
  intros Hd. unfold udec.
  destruct (NilEmpty.string_of_uint d) eqn:E.
  - exfalso. apply (string_of_uint_nonempty d Hd E).
  - rewrite <- E, NilEmpty.usu. reflexivity.
Qed.

Lemma pos_to_uint_nonnil p : Pos.to_uint p <> Decimal.Nil.
Proof.
  intros E. pose proof (DecimalPos.Unsigned.of_to p) as H. rewrite E in H. discriminate.
Qed.

Lemma head_digit d : d <> Decimal.Nil ->
  exists c r, NilEmpty.string_of_uint d = String c r /\ Ascii.eqb c "+" = false /\ Ascii.eqb c "-" = false.
Proof.
  destruct d; intros H; try congruence; simpl; eexists _, _; repeat split; reflexivity.
Qed.

Lemma of_uint_pos p : Z.of_uint (Pos.to_uint p) = Z.pos p.
Proof.
  unfold Z.of_uint. rewrite DecimalPos.Unsigned.of_to. reflexivity.
Qed.

Lemma atoi_raw_itoa z : atoi_raw (itoa z) = Some z.
Proof.
  unfold itoa. destruct z as [|p|p]; simpl.
  - reflexivity.
  - destruct (head_digit _ (pos_to_uint_nonnil p)) as (c & r & E & Hp & Hm).
    unfold atoi_raw. rewrite E, Hp, Hm. rewrite <- E.
    rewrite udec_string_of_uint by apply pos_to_uint_nonnil.
    rewrite of_uint_pos. reflexivity.
  - unfold atoi_raw. change (Ascii.eqb "-" "+") with false. change (Ascii.eqb "-" "-") with true.
    cbv iota. rewrite udec_string_of_uint by apply pos_to_uint_nonnil.
    rewrite of_uint_pos. reflexivity.
Qed.

Lemma atoi_itoa z : in64 z = true -> atoi (itoa z) = Some z.
Proof. intros H. unfold atoi. rewrite atoi_raw_itoa, H. reflexivity. Qed.

(* leading zeros do not change the value *)
Lemma udec_zero s : s <> EmptyString -> udec (String "0" s) = udec s.
Proof.
  intros Hs. unfold udec. destruct s as [|c r]; [congruence|].
  cbn [NilEmpty.uint_of_string].
  destruct (uint_of_char c (NilEmpty.uint_of_string r)) as [d|]; reflexivity.
Qed.

Lemma zeros_nonempty k s : s <> EmptyString -> zeros k s <> EmptyString.
Proof. destruct k; simpl; [auto|discriminate]. Qed.

Lemma udec_zeros k s : s <> EmptyString -> udec (zeros k s) = udec s.
Proof.
  intros Hs. induction k as [|k IH]; cbn [zeros]; [reflexivity|].
  rewrite udec_zero by (apply zeros_nonempty, Hs). exact IH.
Qed.

Lemma length_zeros k s : String.length (zeros k s) = (k + String.length s)%nat.
Proof. induction k; simpl; [reflexivity|]. rewrite IHk. reflexivity. Qed.

(* a numeral for z that is longer than n characters *)
Definition padded (n : nat) (z : Z) : string :=
  match Z.to_int z with
  | Decimal.Pos d => zeros (S n) (NilEmpty.string_of_uint d)
  | Decimal.Neg d => String "-" (zeros (S n) (NilEmpty.string_of_uint d))
  end.

Lemma to_int_nonnil z : match Z.to_int z with Decimal.Pos d | Decimal.Neg d => d <> Decimal.Nil end.
Proof.
  destruct z; simpl; try apply pos_to_uint_nonnil. discriminate.
Qed.

Lemma atoi_raw_padded n z : atoi_raw (padded n z) = Some z.
Proof.
  pose proof (atoi_raw_itoa z) as H. pose proof (to_int_nonnil z) as Hn.
  unfold itoa, padded in *. destruct (Z.to_int z) as [d|d]; simpl in H.
  - assert (Hs : NilEmpty.string_of_uint d <> EmptyString) by apply string_of_uint_nonempty, Hn.
    destruct (head_digit d Hn) as (c & r & E & Hp & Hm).
    unfold atoi_raw in H. rewrite E, Hp, Hm in H. rewrite <- E in H.
    cbn [zeros atoi_raw]. change (Ascii.eqb "0" "+") with false. change (Ascii.eqb "0" "-") with false.
    cbv iota. change (String "0" (zeros n (NilEmpty.string_of_uint d))) with (zeros (S n) (NilEmpty.string_of_uint d)).
    rewrite udec_zeros by exact Hs. exact H.
  - assert (Hs : NilEmpty.string_of_uint d <> EmptyString) by apply string_of_uint_nonempty, Hn.
    unfold atoi_raw in *. change (Ascii.eqb "-" "+") with false in *. change (Ascii.eqb "-" "-") with true in *.
    cbv iota in *. rewrite udec_zeros by exact Hs. exact H.
Qed.

Lemma atoi_padded n z : in64 z = true -> atoi (padded n z) = Some z.
Proof. intros H. unfold atoi. rewrite atoi_raw_padded, H. reflexivity. Qed.

Lemma length_padded n z : (n < String.length (padded n z))%nat.
Proof.
  unfold padded. destruct (Z.to_int z); simpl; rewrite ?length_zeros; lia.
Qed.
