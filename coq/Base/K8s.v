(* Kubernetes node-selector-requirement semantics (k8s.io/component-helpers nodeaffinity /
   apimachinery labels.Requirement.Matches), extended with Karpenter's Gte / Lte. Written
   from the documented semantics, not from Karpenter's code: this is the specification side. *)
From KV Require Import Base.Req.
Open Scope Z_scope.

Definition cmp_match (cmp : Z -> Z -> bool) (vs : list string) (v : string) : bool :=
  match vs with
  | [b] => match atoi v, atoi b with Some n, Some m => cmp n m | _, _ => false end
  | _ => false
  end.

(* does a node whose label (for the requirement's key) is [lbl] satisfy `key op vs`? *)
Definition k8s_match (o : oper) (vs : list string) (lbl : option string) : bool :=
  match lbl with
  | Some v =>
      match o with
      | In => mem v vs
      | NotIn => negb (mem v vs)
      | Exists => true
      | DoesNotExist => false
      | Gt => cmp_match (fun n m => m <? n) vs v
      | Lt => cmp_match (fun n m => n <? m) vs v
      | Gte => cmp_match (fun n m => m <=? n) vs v
      | Lte => cmp_match (fun n m => n <=? m) vs v
      end
  | None =>
      match o with
      | NotIn | DoesNotExist => true
      | _ => false
      end
  end.

(* what the API accepts ("prevalidated" in the code's words): In/NotIn carry at least one value,
   the comparison operators exactly one int64 numeral *)
Definition valid_args (o : oper) (vs : list string) : bool :=
  match o with
  | In | NotIn => match vs with [] => false | _ => true end
  | Exists | DoesNotExist => true
  | Gt | Lt | Gte | Lte => match vs with [b] => match atoi b with Some _ => true | None => false end | _ => false end
  end.

(* what a requirement admits for a label that may be absent *)
Definition admits (r : req) (lbl : option string) : bool :=
  match lbl with Some v => has r v | None => sat_undefined r end.
