(* C10 — the node termination controller around the drain model: how one reconcile of a deleting node
   (termination.Controller.finalize) computes the deadline it hands to Terminator.Drain (nodeTerminationTime: the
   NodeClaim's karpenter.sh/nodeclaim-termination-timestamp annotation) and how awaitDrain maintains the NodeClaim's
   Drained condition (Unknown "Draining" -> True once no pod is waiting and MinDrainTime has passed).
   The steps before (NodeClaim delete, instance check for not-ready nodes, taint) and after (volume detachment,
   instance termination, finalizer) belong to C09 and are not modelled here. *)
From KV Require Import C10.Model C10.Proofs.
Open Scope string_scope.
Open Scope Z_scope.
Open Scope list_scope.

(* the annotation: absent | not RFC3339 | parsed instant *)
Inductive ann := AnnNone | AnnBad | AnnTime (t : Z).

(* the NodeClaim's Drained condition; the transition time is stored with second precision *)
Inductive dcond := CAbsent | CUnknown (since : Z) | CTrue.

Inductive nres := NError | NRequeue | NDrained.

(* nodeTerminationTime; None = error (the reconcile stops before the drain) *)
Definition claim_deadline (has_claim : bool) (a : ann) : option (option Z) :=
  if has_claim then
    match a with AnnNone => Some None | AnnBad => None | AnnTime t => Some (Some t) end
  else Some None.

Definition min_drain : Z := 5 * sec.
Definition floor_sec (t : Z) : Z := t / sec * sec.

(* awaitDrain *)
Definition await_drain (q : queue) (has_claim : bool) (c : dcond) (now : Z) (dl : option Z) (pods : list pod)
  : queue * dcond * nres * dout :=
  let fresh := match c with CAbsent => has_claim | _ => false end in
  let c0 := if fresh then CUnknown (floor_sec now) else c in
  let '(q', d) := drain q now dl pods in
  match d_err d with
  | DOk =>
      if has_claim then
        match c0 with
        | CUnknown s => if fresh || (now - s <? min_drain) then (q', c0, NRequeue, d) else (q', CTrue, NDrained, d)
        | CTrue => (q', CTrue, NDrained, d)
        | CAbsent => (q', c0, NRequeue, d)
        end
      else (q', c0, NDrained, d)
  | _ => (q', c0, NRequeue, d)
  end.

(* [deleting] = the NodeClaim already carried a deletionTimestamp when the pass started. If not, finalize deletes it
   first, which bumps its resourceVersion; the status patch at the end of the pass (optimistic lock, built from the
   object read before the delete) then conflicts, the new Drained condition is not persisted and the pass requeues.
   The drain itself has happened by then. *)
Definition node_pass (q : queue) (has_claim deleting : bool) (a : ann) (c : dcond) (now : Z) (pods : list pod)
  : queue * dcond * nres * option dout :=
  match claim_deadline has_claim a with
  | None => (q, c, NError, None)
  | Some dl =>
      let '(q', c', r, d) := await_drain q has_claim c now dl pods in
      if has_claim && negb deleting && match c with CAbsent => true | _ => false end
      then (q', c, NRequeue, Some d)
      else (q', c', r, Some d)
  end.

(* ------------------------------------------------------------------ proofs *)

Lemma await_drain_queue : forall q hc c now dl pods,
  fst (fst (fst (await_drain q hc c now dl pods))) = fst (drain q now dl pods) /\
  snd (await_drain q hc c now dl pods) = snd (drain q now dl pods).
Proof.
  intros. unfold await_drain. destruct (drain q now dl pods) as [q' d]. cbn.
  destruct (d_err d); [|split; reflexivity|split; reflexivity].
  destruct hc; [|split; reflexivity].
  destruct c as [|s|]; cbn; try (split; reflexivity).
  match goal with |- context [if ?b then _ else _] => destruct b end; split; reflexivity.
Qed.

(* the deadline handed to the queue is the NodeClaim's termination timestamp: the pass is a drain pass under
   exactly that deadline (no NodeClaim or no annotation = no deadline), or no drain pass at all *)
Lemma node_pass_is_drain_under_claim_deadline_l : forall q hc del a c now pods,
  match claim_deadline hc a with
  | Some dl => fst (fst (fst (node_pass q hc del a c now pods))) = fst (drain q now dl pods) /\
               snd (node_pass q hc del a c now pods) = Some (snd (drain q now dl pods))
  | None => node_pass q hc del a c now pods = (q, c, NError, None)
  end.
Proof.
  intros. unfold node_pass. destruct (claim_deadline hc a) as [dl|]; [|reflexivity].
  pose proof (await_drain_queue q hc c now dl pods) as [H1 H2].
  destruct (await_drain q hc c now dl pods) as [[[q' c'] r] d]. cbn in H1, H2. subst.
  destruct (hc && negb del && match c with CAbsent => true | _ => false end); split; reflexivity.
Qed.

(* ... never later: every pod the pass selects is afterwards queued under a deadline no later than the
   NodeClaim's termination timestamp t *)
Lemma node_deadline_never_later_l : forall q del a c now pods t k,
  a = AnnTime t -> In k (selected_keys now (Some t) pods) ->
  exists d, qget k (fst (fst (fst (node_pass q true del a c now pods)))) = Some d /\ dl_le d (Some t).
Proof.
  intros q del a c now pods t k Ha Hk. subst a.
  pose proof (node_pass_is_drain_under_claim_deadline_l q true del (AnnTime t) c now pods) as H.
  change (claim_deadline true (AnnTime t)) with (Some (Some t)) in H.
  destruct H as [H _]. rewrite H.
  pose proof (drain_selected_bound q now (Some t) pods k Hk) as B. cbn [step] in B.
  destruct (drain q now (Some t) pods) as [q' x]. exact B.
Qed.

(* a direct delete after node-level passes only: the deadline in the queue is some pass's claim timestamp
   (from queue_entry_provenance, since every node pass is a drain pass under claim_deadline) *)

(* Drained is reported only when no pod is waiting and, with a NodeClaim, only after MinDrainTime since the
   condition went Unknown (or it already was True) *)
Lemma node_drained_only_if_l : forall q hc del a c now pods,
  snd (fst (node_pass q hc del a c now pods)) = NDrained ->
  (forall p, In p pods -> ~ waiting now p) /\
  (hc = true -> c = CTrue \/ exists s, c = CUnknown s /\ min_drain <= now - s).
Proof.
  intros q hc del a c now pods H. unfold node_pass in H.
  destruct (claim_deadline hc a) as [dl|]; [|discriminate].
  unfold await_drain in H.
  pose proof (drain_done_iff_l q now dl pods) as Hd.
  destruct (drain q now dl pods) as [q' d]. cbn in Hd, H.
  destruct (d_err d) eqn:E.
  2:{ destruct hc, del, c; cbn in H; discriminate. }
  2:{ destruct hc, del, c; cbn in H; discriminate. }
  split; [apply Hd; reflexivity|]. intros Hc. subst hc.
  destruct c as [|s|].
  - destruct del; cbn in H; discriminate.
  - rewrite andb_false_r in H. cbn in H.
    destruct (Z.ltb_spec (now - s) 5000000000); cbn in H; [discriminate|].
    right. exists s. split; [reflexivity | unfold min_drain, sec; lia].
  - left. reflexivity.
Qed.
