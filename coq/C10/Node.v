(* C10 — the node termination controller around the drain model: how one reconcile of a deleting node
   (termination.Controller.finalize) computes the deadline it hands to Terminator.Drain (nodeTerminationTime: the
   NodeClaim's karpenter.sh/nodeclaim-termination-timestamp annotation) and how awaitDrain maintains the NodeClaim's
   Drained condition (Unknown "Draining" -> True once no pod is waiting and MinDrainTime has passed).
   The steps before (NodeClaim delete, instance check for not-ready nodes, taint) and after (volume detachment,
   instance termination, finalizer) belong to C09 and are not modelled here. *)
From KV Require Import C10.Model C10.Proofs.
Open Scope string_scope.
Open Scope Z_scope.
Open Scope list_scope.

(* the annotation: absent | not RFC3339 | parsed instant *)
Inductive ann := AnnNone | AnnBad | AnnTime (t : Z).

(* the NodeClaim's Drained condition; the transition time is stored with second precision *)
Inductive dcond := CAbsent | CUnknown (since : Z) | CTrue.

Inductive nres := NError | NRequeue | NDrained | NSkip | NGone.

(* what happens around the drain in one reconcile of the node (everything else: GRun) *)
Inductive gate :=
| GRun
| GSkip             (* node not deleting / without the karpenter finalizer / not managed: nothing happens *)
| GEarlyError       (* NodeClaim lookup or delete fails, or the instance lookup of a not-ready node fails *)
| GInstanceGone     (* node not ready and the provider reports the instance gone: finalizer removed, no drain *)
| GTaintConflict    (* the taint patch conflicts: requeue before the drain *)
| GTaintError       (* the taint patch fails otherwise *)
| GPodListFails     (* the List call of Terminator.Drain fails *)
| GStatusPatchFails. (* the NodeClaim status patch after the drain fails (not a conflict) *)

(* nodeTerminationTime; None = error (the reconcile stops before the drain) *)
Definition claim_deadline (has_claim : bool) (a : ann) : option (option Z) :=
  if has_claim then
    match a with AnnNone => Some None | AnnBad => None | AnnTime t => Some (Some t) end
  else Some None.

Definition min_drain : Z := 5 * sec.
Definition floor_sec (t : Z) : Z := t / sec * sec.

Definition fresh_cond (has_claim : bool) (c : dcond) : bool := match c with CAbsent => has_claim | _ => false end.

(* awaitDrain; without a NodeClaim a drained node loses its finalizer in the same reconcile (NGone) *)
Definition await_drain (q : queue) (has_claim : bool) (c : dcond) (now : Z) (dl : option Z) (pods : list pod)
  : queue * dcond * nres * dout :=
  let fresh := fresh_cond has_claim c in
  let c0 := if fresh then CUnknown (floor_sec now) else c in
  let '(q', d) := drain q now dl pods in
  match d_err d with
  | DOk =>
      if has_claim then
        match c0 with
        | CUnknown s => if fresh || (now - s <? min_drain) then (q', c0, NRequeue, d) else (q', CTrue, NDrained, d)
        | CTrue => (q', CTrue, NDrained, d)
        | CAbsent => (q', c0, NRequeue, d)
        end
      else (q', c0, NGone, d)
  | _ => (q', c0, NRequeue, d)
  end.

Definition dcond_same (a b : dcond) : bool :=
  match a, b with
  | CAbsent, CAbsent | CTrue, CTrue => true
  | CUnknown s, CUnknown s' => s =? s'
  | _, _ => false
  end.

(* [deleting] = the NodeClaim already carried a deletionTimestamp when the pass started. If not, finalize deletes it
   first, which bumps its resourceVersion; the status patch at the end of the pass (optimistic lock, built from the
   object read before the delete) then conflicts, the new Drained condition is not persisted and the pass requeues.
   The drain itself has happened by then. *)
Definition node_pass (g : gate) (q : queue) (has_claim deleting : bool) (a : ann) (c : dcond) (now : Z) (pods : list pod)
  : queue * dcond * nres * option dout :=
  match g with
  | GSkip => (q, c, NSkip, None)
  | GEarlyError => (q, c, NError, None)
  | GInstanceGone => (q, c, NGone, None)
  | _ =>
    match claim_deadline has_claim a with
    | None => (q, c, NError, None)
    | Some dl =>
        let conflict := has_claim && negb deleting && fresh_cond has_claim c in
        match g with
        | GTaintConflict => (q, c, NRequeue, None)
        | GTaintError => (q, c, NError, None)
        | GPodListFails =>
            (* the condition set before the drain is still patched; the list error is returned after the patch *)
            if conflict then (q, c, NRequeue, None)
            else (q, (if fresh_cond has_claim c then CUnknown (floor_sec now) else c), NError, None)
        | _ =>
            let '(q', c', r, d) := await_drain q has_claim c now dl pods in
            let patched := has_claim && (negb (dcond_same c' c) || match r with NDrained => true | _ => false end) in
            match g with
            | GStatusPatchFails => if patched then (q', c, NError, Some d) else (q', c', r, Some d)
            | _ => if conflict then (q', c, NRequeue, Some d) else (q', c', r, Some d)
            end
        end
    end
  end.

(* ------------------------------------------------------------------ proofs *)

Lemma await_drain_queue : forall q hc c now dl pods,
  fst (fst (fst (await_drain q hc c now dl pods))) = fst (drain q now dl pods) /\
  snd (await_drain q hc c now dl pods) = snd (drain q now dl pods).
Proof.
  intros. unfold await_drain. destruct (drain q now dl pods) as [q' d]. cbn.
  destruct (d_err d); [|split; reflexivity|split; reflexivity].
  destruct hc; [|split; reflexivity].
  destruct c as [|s|]; cbn; try (split; reflexivity).
  match goal with |- context [if ?b then _ else _] => destruct b end; split; reflexivity.
Qed.

(* whatever happens around it, the queue after one reconcile of the node is either untouched or the result of a
   drain pass under exactly the NodeClaim's termination timestamp *)
Lemma node_pass_queue_l : forall g q hc del a c now pods,
  fst (fst (fst (node_pass g q hc del a c now pods))) = q \/
  exists dl, claim_deadline hc a = Some dl /\
             fst (fst (fst (node_pass g q hc del a c now pods))) = fst (drain q now dl pods).
Proof.
  intros. unfold node_pass.
  destruct (claim_deadline hc a) as [dl|] eqn:E.
  2:{ destruct g; left; reflexivity. }
  pose proof (await_drain_queue q hc c now dl pods) as [H1 _].
  destruct (await_drain q hc c now dl pods) as [[[q' c'] r] d]. cbn in H1. subst q'.
  destruct g; try (left; reflexivity).
  - right. exists dl. split; [reflexivity|].
    destruct (hc && negb del && fresh_cond hc c); reflexivity.
  - destruct (hc && negb del && fresh_cond hc c); left; reflexivity.
  - right. exists dl. split; [reflexivity|].
    destruct (hc && (negb (dcond_same c' c) || match r with NDrained => true | _ => false end)); reflexivity.
Qed.

(* the undisturbed reconcile is a drain pass under claim_deadline, or no drain at all when the annotation does not parse *)
Lemma node_pass_is_drain_under_claim_deadline_l : forall q hc del a c now pods,
  match claim_deadline hc a with
  | Some dl => fst (fst (fst (node_pass GRun q hc del a c now pods))) = fst (drain q now dl pods) /\
               snd (node_pass GRun q hc del a c now pods) = Some (snd (drain q now dl pods))
  | None => node_pass GRun q hc del a c now pods = (q, c, NError, None)
  end.
Proof.
  intros. unfold node_pass. destruct (claim_deadline hc a) as [dl|]; [|reflexivity].
  pose proof (await_drain_queue q hc c now dl pods) as [H1 H2].
  destruct (await_drain q hc c now dl pods) as [[[q' c'] r] d]. cbn in H1, H2. subst.
  destruct (hc && negb del && fresh_cond hc c); split; reflexivity.
Qed.

Lemma node_deadline_never_later_l : forall q del a c now pods t k,
  a = AnnTime t -> In k (selected_keys now (Some t) pods) ->
  exists d, qget k (fst (fst (fst (node_pass GRun q true del a c now pods)))) = Some d /\ dl_le d (Some t).
Proof.
  intros q del a c now pods t k Ha Hk. subst a.
  pose proof (node_pass_is_drain_under_claim_deadline_l q true del (AnnTime t) c now pods) as H.
  change (claim_deadline true (AnnTime t)) with (Some (Some t)) in H.
  destruct H as [H _]. rewrite H.
  pose proof (drain_selected_bound q now (Some t) pods k Hk) as B. cbn [step] in B.
  destruct (drain q now (Some t) pods) as [q' x]. exact B.
Qed.

(* Drained (or, without a NodeClaim, the finalizer removed after a drain) only when no pod is waiting and, with a
   NodeClaim, only MinDrainTime after the condition went Unknown (or it already was True); for every gate except the
   vanished instance *)
Lemma node_drained_only_if_l : forall g q hc del a c now pods,
  g <> GInstanceGone ->
  (snd (fst (node_pass g q hc del a c now pods)) = NDrained \/ snd (fst (node_pass g q hc del a c now pods)) = NGone) ->
  (forall p, In p pods -> ~ waiting now p) /\
  (hc = true -> c = CTrue \/ exists s, c = CUnknown s /\ min_drain <= now - s).
Proof.
  intros g q hc del a c now pods Hg H. unfold node_pass in H.
  assert (Core : forall dl, let x := await_drain q hc c now dl pods in
            (snd (fst x) = NDrained \/ snd (fst x) = NGone) ->
            (forall p, In p pods -> ~ waiting now p) /\
            (hc = true -> c = CTrue \/ exists s, c = CUnknown s /\ min_drain <= now - s)).
  { intros dl x Hx. subst x. unfold await_drain in Hx.
    pose proof (drain_done_iff_l q now dl pods) as Hd.
    destruct (drain q now dl pods) as [q' d]. cbn in Hd, Hx.
    destruct (d_err d) eqn:E.
    2:{ destruct Hx as [Hx|Hx]; cbn in Hx; discriminate. }
    2:{ destruct Hx as [Hx|Hx]; cbn in Hx; discriminate. }
    split; [apply Hd; reflexivity|]. intros Hc. subst hc.
    destruct c as [|s|]; cbn in Hx.
    - destruct Hx as [Hx|Hx]; discriminate.
    - destruct (Z.ltb_spec (now - s) 5000000000); cbn in Hx; [destruct Hx as [Hx|Hx]; discriminate|].
      right. exists s. split; [reflexivity | unfold min_drain, sec; lia].
    - left. reflexivity. }
  destruct (claim_deadline hc a) as [dl|].
  2:{ destruct g; cbn in H; destruct H as [H|H]; try discriminate; congruence. }
  specialize (Core dl). cbn zeta in Core.
  destruct (await_drain q hc c now dl pods) as [[[q' c'] r] d]. cbn in Core.
  destruct g; cbn in H; try (destruct H as [H|H]; discriminate); try congruence.
  - destruct (hc && negb del && fresh_cond hc c); cbn in H; [destruct H as [H|H]; discriminate | apply Core; exact H].
  - destruct (hc && negb del && fresh_cond hc c); cbn in H; destruct H as [H|H]; discriminate.
  - destruct (hc && (negb (dcond_same c' c) || match r with NDrained => true | _ => false end)); cbn in H;
      [destruct H as [H|H]; discriminate | apply Core; exact H].
Qed.
