(* C10 — the window inside one Queue.Reconcile.
   Queue.Reconcile reads Queue.items[key] under the mutex, releases it, decides and calls the API without the
   mutex, and finally takes the mutex again in complete() to drop the entry. Drain passes (Queue.Add) and the
   complete() of other reconciles can run in between. Here the reconcile is split accordingly:
       Read      r := items[key]                      (mutex)
       Act       decide r now pod api                 (no mutex; does not look at the queue again)
       Complete  delete(items, key) if Act says so    (mutex)
   [decide] is a function of the value read, so every interleaving of one reconcile with other queue users is:
   read after a history [pre], any further history [mid], then the action computed from the value read, then
   the entry dropped from whatever the queue is by then. Other in-flight reconciles touch the queue only through
   their own complete(), which is the extra environment op XComplete. *)
From KV Require Import C10.Model C10.Proofs.
Open Scope string_scope.
Open Scope Z_scope.
Open Scope list_scope.

(* Act: output and whether complete(pod) follows *)
Definition decide_rest (now : Z) (p : pod) (api : apires) (node_ok : bool) : rout * bool :=
  if negb (is_active p) then (mkR None RDone, true)
  else if negb (is_evictable now p) then (mkR None RRequeue, false)
  else match api with
       | AOk | ANotFound | AConflict => (mkR (Some Evict) RDone, true)
       | ATooMany | AMultiPDB => (mkR (Some Evict) (if node_ok then RRequeue else RErr), false)
       | AOther => (mkR (Some Evict) RErr, false)
       end.

Definition decide (r : option (option Z)) (now : Z) (p : pod) (api : apires) (node_ok : bool) : rout * bool :=
  match r with
  | None => (mkR None RDone, false)
  | Some dl =>
      match dl with
      | Some t =>
          if nfd now p dl then
            match api with
            | AOk | ANotFound => (mkR (Some (Delete (clamp_grace now t))) RDone, true)
            | _ => (mkR (Some (Delete (clamp_grace now t))) RErr, false)
            end
          else decide_rest now p api node_ok
      | None => decide_rest now p api node_ok
      end
  end.

Definition complete (q : queue) (p : pod) (c : bool) : queue := if c then qdel (pkey p) q else q.

(* the atomic reconcile of Model.v is Read; Act; Complete without anything in between *)
Lemma reconcile_is_read_act_complete : forall q now p api nok,
  reconcile q now p api nok =
  (complete q p (snd (decide (qget (pkey p) q) now p api nok)), fst (decide (qget (pkey p) q) now p api nok)).
Proof.
  intros q now p api nok. unfold reconcile, decide, complete, rest_of_reconcile, decide_rest, force_delete, evict.
  destruct (qget (pkey p) q) as [[t|]|]; [| |reflexivity].
  - destruct (nfd now p (Some t)).
    + destruct api; reflexivity.
    + destruct (negb (is_active p)); [reflexivity|]. destruct (negb (is_evictable now p)); [reflexivity|].
      destruct api; reflexivity.
  - destruct (negb (is_active p)); [reflexivity|]. destruct (negb (is_evictable now p)); [reflexivity|].
    destruct api; reflexivity.
Qed.

(* histories with the complete() of other reconciles as an environment op *)
Inductive xop := XBase (o : op) | XComplete (k : key).

Definition xstep (q : queue) (o : xop) : queue :=
  match o with
  | XBase o => fst (step q o)
  | XComplete k => qdel k q
  end.

Fixpoint xrun_from (q : queue) (ops : list xop) : queue :=
  match ops with
  | [] => q
  | o :: t => xrun_from (xstep q o) t
  end.
Definition xrun (ops : list xop) : queue := xrun_from [] ops.

Lemma xrun_from_app : forall a b q, xrun_from q (a ++ b) = xrun_from (xrun_from q a) b.
Proof. intros a. induction a as [|o t IH]; intros b q; cbn; [reflexivity | apply IH]. Qed.

Lemma xrun_snoc : forall ops o, xrun (ops ++ [o]) = xstep (xrun ops) o.
Proof. intros. unfold xrun. rewrite xrun_from_app. reflexivity. Qed.

Lemma xstep_mono : forall q o k d d', qget k q = Some d -> qget k (xstep q o) = Some d' -> dl_le d' d.
Proof.
  intros q [o|k0] k d d' G G'; cbn in G'.
  - eapply step_mono; eauto.
  - rewrite qget_qdel in G'. destruct (key_eqb k0 k); [discriminate|]. rewrite G in G'. inversion G'. apply dl_le_refl.
Qed.

Lemma xstep_provenance : forall q o k d,
  qget k (xstep q o) = Some d ->
  qget k q = Some d \/ exists now pods, o = XBase (ODrain now d pods) /\ In k (selected_keys now d pods).
Proof.
  intros q [o|k0] k d G'; cbn in G'.
  - apply step_provenance in G'. destruct G' as [G|[now [pods [E H]]]]; [left; exact G|].
    right. exists now, pods. subst o. auto.
  - rewrite qget_qdel in G'. destruct (key_eqb k0 k); [discriminate | left; exact G'].
Qed.

Lemma xqueue_entry_provenance : forall ops k d,
  qget k (xrun ops) = Some d ->
  exists pre now pods post, ops = pre ++ XBase (ODrain now d pods) :: post /\ In k (selected_keys now d pods).
Proof.
  intros ops. induction ops as [|o m IH] using rev_ind; intros k d G.
  - discriminate.
  - rewrite xrun_snoc in G. apply xstep_provenance in G. destruct G as [G|[now [pods [E Hk]]]].
    + destruct (IH _ _ G) as [pre [now [pods [post [E Hk]]]]].
      exists pre, now, pods, (post ++ [o]). split; [|exact Hk]. rewrite E, <- app_assoc. reflexivity.
    + exists m, now, pods, []. subst o. auto.
Qed.

(* ---- what holds in every interleaving: the action is justified by the value read ---- *)

Lemma decide_spec : forall r now p api nok,
  let x := fst (decide r now p api nok) in
  (r_act x = Some Evict -> may_evict now p /\ r <> None) /\
  (forall g, r_act x = Some (Delete g) ->
     exists t, r = Some (Some t) /\ delete_due now p t /\ 1 <= g /\ g = clamp_grace now t /\ g * sec <= Z.max (t - now) sec).
Proof.
  intros r now p api nok.
  assert (Rest : let x := fst (decide_rest now p api nok) in
                 (r_act x = Some Evict -> may_evict now p) /\ (forall g, r_act x = Some (Delete g) -> False)).
  { unfold decide_rest. destruct (is_active p); cbn; [|split; [discriminate | intros g H; discriminate]].
    destruct (is_evictable now p) eqn:Ev; cbn; [|split; [discriminate | intros g H; discriminate]].
    destruct api; cbn; (split; [intros _; apply is_evictable_spec; exact Ev | intros g H; discriminate]). }
  unfold decide. destruct r as [[t|]|].
  - destruct (nfd now p (Some t)) eqn:N.
    + apply nfd_spec in N.
      destruct api; cbn; (split; [discriminate|]); intros g Hg; inversion Hg; subst g; exists t;
        (split; [reflexivity|]); (split; [exact N|]); (split; [apply clamp_grace_ge1|]);
        (split; [reflexivity | apply clamp_grace_within]).
    + destruct Rest as [R1 R2]. split; [intros H; split; [apply R1; exact H | discriminate]|].
      intros g Hg. destruct (R2 g Hg).
  - destruct Rest as [R1 R2]. split; [intros H; split; [apply R1; exact H | discriminate]|].
    intros g Hg. destruct (R2 g Hg).
  - cbn. split; [discriminate | intros g Hg; discriminate].
Qed.

(* delete_only_with_deadline holds for the split reconcile: [pre] is everything before the Read, [now] is the
   clock at the action, however much later and whatever happened to the queue in between *)
Lemma split_delete_only_with_deadline_l : forall (pre : list xop) now p api nok g,
  r_act (fst (decide (qget (pkey p) (xrun pre)) now p api nok)) = Some (Delete g) ->
  exists t,
    qget (pkey p) (xrun pre) = Some (Some t) /\
    delete_due now p t /\ 1 <= g /\ g = clamp_grace now t /\ g * sec <= Z.max (t - now) sec /\
    exists pre1 now' pods pre2, pre = pre1 ++ XBase (ODrain now' (Some t) pods) :: pre2 /\
                                In (pkey p) (selected_keys now' (Some t) pods).
Proof.
  intros pre now p api nok g H. destruct (decide_spec (qget (pkey p) (xrun pre)) now p api nok) as [_ H2].
  destruct (H2 g H) as [t [G [Hd [Hg1 [Hg2 Hg3]]]]]. exists t. repeat (split; [assumption|]).
  destruct (xqueue_entry_provenance _ _ _ G) as [pre1 [now' [pods [pre2 [E Hk]]]]]. eauto 10.
Qed.

Lemma split_evict_only_evictable_l : forall (pre : list xop) now p api nok,
  r_act (fst (decide (qget (pkey p) (xrun pre)) now p api nok)) = Some Evict ->
  may_evict now p /\
  exists pre1 now' dl pods pre2, pre = pre1 ++ XBase (ODrain now' dl pods) :: pre2 /\
                                 In (pkey p) (selected_keys now' dl pods).
Proof.
  intros pre now p api nok H. destruct (decide_spec (qget (pkey p) (xrun pre)) now p api nok) as [H1 _].
  destruct (H1 H) as [Hm Hq]. split; [exact Hm|].
  destruct (qget (pkey p) (xrun pre)) as [d|] eqn:G; [|congruence].
  destruct (xqueue_entry_provenance _ _ _ G) as [pre1 [now' [pods [pre2 [E Hk]]]]]. eauto 10.
Qed.

(* deadline_never_later, linearised at the Read: the value a reconcile reads (and then acts under) is no later
   than the deadline of any drain pass that queued the pod before the Read, provided it stayed queued *)
Lemma split_deadline_never_later_at_read_l : forall q0 now dl pods k (mid : list xop),
  In k (selected_keys now dl pods) ->
  (forall m1 m2, mid = m1 ++ m2 -> qget k (xrun_from (fst (step q0 (ODrain now dl pods))) m1) <> None) ->
  exists d, qget k (xrun_from (fst (step q0 (ODrain now dl pods))) mid) = Some d /\ dl_le d dl.
Proof.
  intros q0 now dl pods k mid Hk. set (q1 := fst (step q0 (ODrain now dl pods))).
  induction mid as [|o m IH] using rev_ind; intros Hstay.
  - cbn. apply drain_selected_bound. exact Hk.
  - destruct IH as [d [Gd Hd]].
    { intros m1 m2 E. apply (Hstay m1 (m2 ++ [o])). rewrite E, app_assoc. reflexivity. }
    rewrite xrun_from_app. cbn.
    destruct (qget k (xstep (xrun_from q1 m) o)) as [d'|] eqn:G'.
    + exists d'. split; [reflexivity|]. apply (dl_le_trans d' d dl); [exact (xstep_mono _ _ _ _ _ Gd G') | exact Hd].
    + exfalso. apply (Hstay (m ++ [o]) []); [rewrite app_nil_r; reflexivity|].
      rewrite xrun_from_app. cbn. exact G'.
Qed.

(* ---- what fails: relative to drain passes that run between the Read and the action ---- *)

Definition victim : pod := P 1 1 false None (Some 30) [] [("apps/v1", "ReplicaSet")] "" DndTrue (Some 0).

(* The pod is queued under deadline 300s. A reconcile reads the entry. A drain pass with the tightened deadline
   120s (e.g. the node health controller moved the NodeClaim's termination timestamp to now) re-queues the pod, so
   the entry is 120s and stays queued. The reconcile then acts at 280s under the deadline it read: it deletes the
   pod with 20s of grace, although under the deadline in force since the later pass only the 1s floor is left;
   its complete() then drops the tightened entry. *)
Lemma split_deadline_never_later_refuted_l :
  exists (pre mid : list xop) now dl pods p api nok tnow g,
    In (pkey p) (selected_keys now dl pods) /\
    mid = [XBase (ODrain now dl pods)] /\
    (* queued under dl by a pass after the Read, and still queued when the reconcile acts *)
    qget (pkey p) (xrun_from (xrun pre) mid) = Some dl /\
    (* the action taken from the value read before that pass *)
    r_act (fst (decide (qget (pkey p) (xrun pre)) tnow p api nok)) = Some (Delete g) /\
    (* is a delete under a deadline later than dl: its grace ends after dl and after the 1s floor *)
    (exists t, dl = Some t /\ Z.max (t - tnow) sec < g * sec) /\
    (* and complete() forgets the tightened entry *)
    qget (pkey p) (complete (xrun_from (xrun pre) mid) p (snd (decide (qget (pkey p) (xrun pre)) tnow p api nok))) = None.
Proof.
  exists [XBase (ODrain 0 (Some (300 * sec)) [victim])], [XBase (ODrain (100 * sec) (Some (120 * sec)) [victim])],
    (100 * sec), (Some (120 * sec)), [victim], victim, AOk, true, (280 * sec), 20.
  split; [vm_compute; left; reflexivity|].
  split; [reflexivity|].
  split; [vm_compute; reflexivity|].
  split; [vm_compute; reflexivity|].
  split; [exists (120 * sec); split; [reflexivity | vm_compute; reflexivity]|].
  vm_compute. reflexivity.
Qed.

(* the same window with "no deadline" read: the pod is due under the deadline queued meanwhile, but the in-flight
   reconcile takes the graceful path once more (here: requeue because of do-not-disrupt) *)
Example split_nil_read_takes_graceful_path :
  let pre := [XBase (ODrain 0 None [victim])] in
  let mid := [XBase (ODrain sec (Some (20 * sec)) [victim])] in
  qget (pkey victim) (xrun_from (xrun pre) mid) = Some (Some (20 * sec)) /\
  nfd (2 * sec) victim (Some (20 * sec)) = true /\
  decide (qget (pkey victim) (xrun pre)) (2 * sec) victim AOk true = (mkR None RRequeue, false).
Proof. vm_compute. repeat split; reflexivity. Qed.
