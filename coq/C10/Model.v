(* C10 — model of node drain:
     pkg/utils/pod/scheduling.go            (pod predicates)
     pkg/controllers/node/termination/terminator/terminator.go  (Terminator.Drain, groupPodsByPriority)
     pkg/controllers/node/termination/terminator/eviction.go    (Queue.Add, earlier, Queue.Reconcile,
                                                                 needsForceDelete, evict, forceDelete, complete)
   Granularity: one op = one call of Terminator.Drain or Queue.Reconcile (both serialise on the queue mutex for
   every access to Queue.items, so interleavings of the two controllers are op sequences). The API server is the
   environment: every Drain op carries the pod list the List call returned, every Reconcile op carries the pod
   object handed to the reconciler and the answer of the API call it makes (if it makes one). No consistency
   between successive pod lists is assumed, so theorems over all op lists cover every pod/PDB/clock evolution.
   Time is Z nanoseconds (any origin); grace periods are Z seconds.
   Not modelled: the window inside one Reconcile between reading Queue.items (mutex released) and acting on it —
   a concurrent Add that tightens the deadline in that window is seen by the next reconcile only; integer
   overflow of Duration arithmetic (grace periods >= 2^33 s) and float rounding of Duration.Seconds() for
   differences >= 2^23 s; metrics, events and log output.
   Executable definitions and the specification predicates only; proofs are in C10/Proofs.v. *)
From Coq Require Export ZArith List Bool String Lia.
Export ListNotations.
Open Scope string_scope.
Open Scope Z_scope.

Definition sec : Z := 1000000000.
Definition minute : Z := 60 * sec.

(* ------------------------------------------------------------------ pods *)

Record tol := T { t_key : string; t_op : string; t_val : string; t_eff : string }.

(* the karpenter.sh/do-not-disrupt annotation after time.ParseDuration:
   absent | "true" | unparsable | parsed duration in ns (sign not yet checked) *)
Inductive dnd := DndNone | DndTrue | DndBad | DndDur (d : Z).

Definition owner := (string * string)%type.      (* ownerReference (apiVersion, kind) *)

Record pod := P {
  p_name : Z; p_uid : Z;                (* namespace/name and UID: the queue key *)
  p_terminal : bool;                    (* status.phase is Failed or Succeeded *)
  p_del : option Z;                     (* metadata.deletionTimestamp *)
  p_grace : option Z;                   (* spec.terminationGracePeriodSeconds *)
  p_tols : list tol;
  p_owners : list owner;
  p_prio : string;                      (* spec.priorityClassName *)
  p_dnd : dnd;
  p_start : option Z }.                 (* status.startTime *)

Definition is_some {A} (o : option A) : bool := match o with Some _ => true | None => false end.

Definition is_terminal (p : pod) : bool := p_terminal p.
Definition is_terminating (p : pod) : bool := is_some (p_del p).
Definition is_active (p : pod) : bool := negb (is_terminal p) && negb (is_terminating p).

Definition owner_eqb (a b : owner) : bool := String.eqb (fst a) (fst b) && String.eqb (snd a) (snd b).
Definition owned_by (p : pod) (o : owner) : bool := existsb (owner_eqb o) (p_owners p).
Definition node_owner : owner := ("v1", "Node").
Definition daemonset_owner : owner := ("apps/v1", "DaemonSet").
Definition is_owned_by_node (p : pod) : bool := owned_by p node_owner.
Definition is_owned_by_daemonset (p : pod) : bool := owned_by p daemonset_owner.

(* corev1.Toleration.ToleratesTaint against {Key: karpenter.sh/disrupted, Effect: NoSchedule, Value: ""};
   Lt/Gt never match because the taint value "" is not a decimal integer. *)
Definition disrupted_key : string := "karpenter.sh/disrupted".
Definition tol_matches (t : tol) : bool :=
  if negb (String.eqb (t_eff t) "") && negb (String.eqb (t_eff t) "NoSchedule") then false
  else if negb (String.eqb (t_key t) "") && negb (String.eqb (t_key t) disrupted_key) then false
  else if String.eqb (t_op t) "" || String.eqb (t_op t) "Equal" then String.eqb (t_val t) ""
  else if String.eqb (t_op t) "Exists" then true
  else false.
Definition tolerates (p : pod) : bool := existsb tol_matches (p_tols p).

(* IsDoNotDisruptActive *)
Definition dnd_active (now : Z) (p : pod) : bool :=
  match p_dnd p with
  | DndNone => false
  | DndTrue => true
  | DndBad => false
  | DndDur d =>
      if d <=? 0 then false
      else match p_start p with
           | None => true
           | Some s => now - s <? d
           end
  end.

Definition is_stuck_terminating (now : Z) (p : pod) : bool :=
  match p_del p with
  | Some d => minute <? now - d
  | None => false
  end.

Definition is_drainable (now : Z) (p : pod) : bool :=
  negb (tolerates p) && negb (is_stuck_terminating now p) && negb (is_owned_by_node p).

Definition is_waiting_eviction (now : Z) (p : pod) : bool :=
  negb (is_terminal p) && is_drainable now p.

Definition is_evictable (now : Z) (p : pod) : bool :=
  is_active p && negb (tolerates p) && negb (is_owned_by_node p) && negb (dnd_active now p).

(* IsPodEligibleForForcedEviction *)
Definition eligible_forced (p : pod) (dl : option Z) : bool :=
  match dl, p_del p with
  | Some t, Some d => t <? d
  | _, _ => false
  end.

(* needsForceDelete *)
Definition nfd (now : Z) (p : pod) (dl : option Z) : bool :=
  match dl with
  | None => false
  | Some t =>
      if is_terminating p then eligible_forced p dl
      else match p_grace p with
           | None => false
           | Some g => t - g * sec <? now
           end
  end.

(* ------------------------------------------------------------------ eviction queue *)

Definition key := (Z * Z)%type.
Definition pkey (p : pod) : key := (p_name p, p_uid p).
Definition key_eqb (a b : key) : bool := (fst a =? fst b) && (snd a =? snd b).
Definition key_ltb (a b : key) : bool := (fst a <? fst b) || ((fst a =? fst b) && (snd a <? snd b)).

(* Queue.items: pod key -> deadline (None = nil pointer = no deadline); kept sorted by key *)
Definition queue := list (key * option Z).

Fixpoint qget (k : key) (q : queue) : option (option Z) :=
  match q with
  | [] => None
  | (k', v) :: t => if key_eqb k k' then Some v else qget k t
  end.

Fixpoint qset (k : key) (v : option Z) (q : queue) : queue :=
  match q with
  | [] => [(k, v)]
  | (k', v') :: t =>
      if key_eqb k k' then (k, v) :: t
      else if key_ltb k k' then (k, v) :: (k', v') :: t
      else (k', v') :: qset k v t
  end.

Definition qdel (k : key) (q : queue) : queue := filter (fun e => negb (key_eqb k (fst e))) q.

(* earlier(a, b): nil = +infinity *)
Definition earlier (a b : option Z) : option Z :=
  match a, b with
  | None, _ => b
  | _, None => a
  | Some x, Some y => if x <? y then a else b
  end.

(* one iteration of Queue.Add's loop; returns the queue and whether the pod was signalled to the controller *)
Definition qadd1 (dl : option Z) (q : queue) (p : pod) : queue * bool :=
  match qget (pkey p) q with
  | Some e => (qset (pkey p) (earlier e dl) q, false)
  | None => (qset (pkey p) (earlier None dl) q, true)
  end.

Fixpoint qadd (dl : option Z) (q : queue) (evs : list key) (ps : list pod) : queue * list key :=
  match ps with
  | [] => (q, evs)
  | p :: t => let '(q', fresh) := qadd1 dl q p in
              qadd dl q' (if fresh then evs ++ [pkey p] else evs) t
  end.

(* ------------------------------------------------------------------ Terminator.Drain *)

Definition is_critical (p : pod) : bool :=
  String.eqb (p_prio p) "system-cluster-critical" || String.eqb (p_prio p) "system-node-critical".

(* groupPodsByPriority *)
Definition groups (ps : list pod) : list (list pod) :=
  [ filter (fun p => negb (is_critical p) && negb (is_owned_by_daemonset p)) ps;
    filter (fun p => negb (is_critical p) && is_owned_by_daemonset p) ps;
    filter (fun p => is_critical p && negb (is_owned_by_daemonset p)) ps;
    filter (fun p => is_critical p && is_owned_by_daemonset p) ps ].

Fixpoint first_nonempty (gs : list (list pod)) : option (list pod) :=
  match gs with
  | [] => None
  | [] :: t => first_nonempty t
  | g :: _ => Some g
  end.

Definition nonempty {A} (l : list A) : bool := match l with [] => false | _ => true end.

Inductive derr := DOk | DWaiting (n : Z) | DOther.

Record dout := mkD { d_err : derr; d_events : list key }.

Definition waiting_of (now : Z) (pods : list pod) : list pod := filter (is_waiting_eviction now) pods.
Definition delete_eligible (now : Z) (dl : option Z) (pods : list pod) : list pod :=
  filter (fun p => nfd now p dl) (waiting_of now pods).
Definition graceful (now : Z) (dl : option Z) (pods : list pod) : list pod :=
  filter (fun p => negb (nfd now p dl)) (waiting_of now pods).

(* the pods one Drain pass hands to Queue.Add, in the order it does *)
Definition selected (now : Z) (dl : option Z) (pods : list pod) : list pod :=
  delete_eligible now dl pods ++
  match first_nonempty (groups (graceful now dl pods)) with Some g => g | None => [] end.

Definition drain (q : queue) (now : Z) (dl : option Z) (pods : list pod) : queue * dout :=
  let waiting := waiting_of now pods in
  let del := delete_eligible now dl pods in
  let n := Z.of_nat (List.length waiting) in
  let '(q1, ev1) := if nonempty del then qadd dl q [] del else (q, []) in
  match first_nonempty (groups (graceful now dl pods)) with
  | Some g => let '(q2, ev2) := qadd dl q1 ev1 g in (q2, mkD (DWaiting n) ev2)
  | None => if nonempty del then (q1, mkD (DWaiting n) ev1) else (q1, mkD DOk ev1)
  end.

(* ------------------------------------------------------------------ Queue.Reconcile *)

(* answer of the API server to the one call a reconcile makes *)
Inductive apires := AOk | ANotFound | AConflict | ATooMany | AMultiPDB | AOther.

Inductive act := Evict | Delete (g : Z).      (* eviction sub-resource create | pod Delete with grace seconds *)
Inductive rres := RDone | RRequeue | RErr.
Record rout := mkR { r_act : option act; r_res : rres }.

(* forceDelete's grace: max(int64(deadline.Sub(now).Seconds()), 1); int64() truncates toward zero.
   Exact while |deadline - now| < 2^23 s (the float64 sum in Duration.Seconds is then exact to < 1ns). *)
Definition clamp_grace (now t : Z) : Z := Z.max (Z.quot (t - now) sec) 1.

Definition force_delete (q : queue) (now : Z) (p : pod) (t : Z) (api : apires) : queue * rout :=
  let a := Some (Delete (clamp_grace now t)) in
  match api with
  | AOk | ANotFound => (qdel (pkey p) q, mkR a RDone)
  | _ => (q, mkR a RErr)
  end.

(* evict; node_ok = the pod's node can be read (NodeForPod) when a 429 is reported *)
Definition evict (q : queue) (p : pod) (api : apires) (node_ok : bool) : queue * rout :=
  match api with
  | AOk | ANotFound | AConflict => (qdel (pkey p) q, mkR (Some Evict) RDone)
  | ATooMany | AMultiPDB => (q, mkR (Some Evict) (if node_ok then RRequeue else RErr))
  | AOther => (q, mkR (Some Evict) RErr)
  end.

Definition rest_of_reconcile (q : queue) (now : Z) (p : pod) (api : apires) (node_ok : bool) : queue * rout :=
  if negb (is_active p) then (qdel (pkey p) q, mkR None RDone)
  else if negb (is_evictable now p) then (q, mkR None RRequeue)
  else evict q p api node_ok.

Definition reconcile (q : queue) (now : Z) (p : pod) (api : apires) (node_ok : bool) : queue * rout :=
  match qget (pkey p) q with
  | None => (q, mkR None RDone)
  | Some dl =>
      match dl with
      | Some t => if nfd now p dl then force_delete q now p t api
                  else rest_of_reconcile q now p api node_ok
      | None => rest_of_reconcile q now p api node_ok
      end
  end.

(* ------------------------------------------------------------------ histories *)

Inductive op :=
| ODrain (now : Z) (dl : option Z) (pods : list pod)     (* Terminator.Drain; pods = result of the List call *)
| ODrainListFails                                        (* Terminator.Drain whose List call fails *)
| ORec (now : Z) (p : pod) (api : apires) (node_ok : bool)   (* Queue.Reconcile *)
| ORestart.                                              (* process restart: Queue.items is lost *)

Inductive out := OutD (d : dout) | OutR (r : rout) | OutNone.

Definition step (q : queue) (o : op) : queue * out :=
  match o with
  | ODrain now dl pods => let '(q', d) := drain q now dl pods in (q', OutD d)
  | ODrainListFails => (q, OutD (mkD DOther []))
  | ORec now p api nok => let '(q', r) := reconcile q now p api nok in (q', OutR r)
  | ORestart => ([], OutNone)
  end.

(* what happened at one point of a history: queue before, op, output, queue after *)
Record entry := mkE { e_before : queue; e_op : op; e_out : out; e_after : queue }.

Fixpoint trace_from (q : queue) (ops : list op) : list entry :=
  match ops with
  | [] => []
  | o :: t => let '(q', x) := step q o in mkE q o x q' :: trace_from q' t
  end.

Definition trace (ops : list op) : list entry := trace_from [] ops.

Fixpoint run_from (q : queue) (ops : list op) : queue :=
  match ops with
  | [] => q
  | o :: t => run_from (fst (step q o)) t
  end.
Definition run (ops : list op) : queue := run_from [] ops.

(* ================================================================== specification
   Written against the property text and Kubernetes semantics, not against the code above. *)

Definition static_pod (p : pod) : Prop := In ("v1", "Node") (p_owners p).
Definition daemon_pod (p : pod) : Prop := In ("apps/v1", "DaemonSet") (p_owners p).

(* a toleration that covers the taint karpenter.sh/disrupted:NoSchedule (empty value) *)
Definition tol_covers (t : tol) : Prop :=
  (t_eff t = "" \/ t_eff t = "NoSchedule") /\
  (t_key t = "" \/ t_key t = "karpenter.sh/disrupted") /\
  (t_op t = "Exists" \/ ((t_op t = "" \/ t_op t = "Equal") /\ t_val t = "")).
Definition tolerates_disruption (p : pod) : Prop := exists t, In t (p_tols p) /\ tol_covers t.

(* the do-not-disrupt annotation protects the pod at instant now *)
Definition dnd_protected (now : Z) (p : pod) : Prop :=
  match p_dnd p with
  | DndTrue => True
  | DndDur d => 0 < d /\ match p_start p with None => True | Some s => now - s < d end
  | DndNone | DndBad => False
  end.

(* pods Karpenter may hand to the eviction API *)
Definition may_evict (now : Z) (p : pod) : Prop :=
  p_terminal p = false /\ p_del p = None /\
  ~ dnd_protected now p /\ ~ static_pod p /\ ~ tolerates_disruption p.

(* a direct delete under node deadline t is due: the pod's own grace period no longer fits before t,
   or the pod is already terminating with a deletion time beyond t *)
Definition delete_due (now : Z) (p : pod) (t : Z) : Prop :=
  match p_del p with
  | Some d => t < d
  | None => exists g, p_grace p = Some g /\ t - g * sec < now
  end.

Definition critical_pod (p : pod) : Prop :=
  p_prio p = "system-cluster-critical" \/ p_prio p = "system-node-critical".

(* shutdown tier: 0 = non-critical non-daemon, 1 = non-critical daemon, 2 = critical non-daemon, 3 = critical daemon *)
Definition tier (p : pod) : Z :=
  (if is_critical p then 2 else 0) + (if is_owned_by_daemonset p then 1 else 0).

(* pods the drain is still waiting for: not finished, not static, not tolerating, not stuck terminating *)
Definition waiting (now : Z) (p : pod) : Prop :=
  p_terminal p = false /\ ~ static_pod p /\ ~ tolerates_disruption p /\
  match p_del p with Some d => now - d <= minute | None => True end.

(* deadline order with None = +infinity *)
Definition dl_le (a b : option Z) : Prop :=
  match a, b with
  | _, None => True
  | None, Some _ => False
  | Some x, Some y => x <= y
  end.

(* ---- boolean forms (the oracle); equivalences are proved in Proofs.v ---- *)

Definition delete_due_b (now : Z) (p : pod) (t : Z) : bool :=
  match p_del p with
  | Some d => t <? d
  | None => match p_grace p with Some g => t - g * sec <? now | None => false end
  end.

Definition may_evict_b (now : Z) (p : pod) : bool :=
  negb (p_terminal p) && negb (is_some (p_del p)) && negb (dnd_active now p) &&
  negb (owned_by p node_owner) && negb (tolerates p).

Definition waiting_b (now : Z) (p : pod) : bool :=
  negb (p_terminal p) && negb (owned_by p node_owner) && negb (tolerates p) &&
  match p_del p with Some d => now - d <=? minute | None => true end.

Definition dl_leb (a b : option Z) : bool :=
  match a, b with
  | _, None => true
  | None, Some _ => false
  | Some x, Some y => x <=? y
  end.

Definition dl_eqb (a b : option Z) : bool :=
  match a, b with
  | None, None => true
  | Some x, Some y => x =? y
  | _, _ => false
  end.

(* ---- the specification of one point of a history (queue before, op, output, queue after) ---- *)

Definition due_under (now : Z) (p : pod) (dl : option Z) : Prop :=
  match dl with Some t => delete_due now p t | None => False end.
Definition due_under_b (now : Z) (p : pod) (dl : option Z) : bool :=
  match dl with Some t => delete_due_b now p t | None => false end.

(* p may be handed to the queue by a drain pass over pods: it is waiting, and it is either due for a direct
   delete or no waiting pod that is not yet due belongs to an earlier shutdown tier *)
Definition selectable (now : Z) (dl : option Z) (pods : list pod) (p : pod) : Prop :=
  waiting now p /\
  (due_under now p dl \/
   forall p', In p' pods -> waiting now p' -> ~ due_under now p' dl -> tier p <= tier p').
Definition selectable_b (now : Z) (dl : option Z) (pods : list pod) (p : pod) : bool :=
  waiting_b now p &&
  (due_under_b now p dl ||
   forallb (fun p' => negb (waiting_b now p') || due_under_b now p' dl || (tier p <=? tier p')) pods).

Definition drain_spec (qb : queue) (now : Z) (dl : option Z) (pods : list pod) (d : dout) (qa : queue) : Prop :=
  (* deadlines of queued pods never move later, and only to this pass's deadline; new entries carry this
     pass's deadline and belong to selectable pods *)
  (forall k v, qget k qa = Some v ->
     (exists v0, qget k qb = Some v0 /\ dl_le v v0 /\ (v = v0 \/ v = dl)) \/
     (qget k qb = None /\ v = dl /\ exists p, In p pods /\ pkey p = k /\ selectable now dl pods p)) /\
  (* a drain pass never drops a queue entry *)
  (forall k, qget k qb <> None -> qget k qa <> None) /\
  (* the pass reports the node drained exactly when no pod is waiting *)
  (d_err d = DOk <-> forall p, In p pods -> ~ waiting now p) /\
  (d_err d <> DOther).
Definition drain_entry_b (qb : queue) (now : Z) (dl : option Z) (pods : list pod) (k : key) (v : option Z) : bool :=
  match qget k qb with
  | Some v0 => dl_leb v v0 && (dl_eqb v v0 || dl_eqb v dl)
  | None => dl_eqb v dl && existsb (fun p => key_eqb (pkey p) k && selectable_b now dl pods p) pods
  end.
Definition drain_spec_b (qb : queue) (now : Z) (dl : option Z) (pods : list pod) (d : dout) (qa : queue) : bool :=
  forallb (fun e : key * option Z =>
     match qget (fst e) qa with Some v => drain_entry_b qb now dl pods (fst e) v | None => false end) qa &&
  forallb (fun e0 : key * option Z => is_some (qget (fst e0) qa)) qb &&
  match d_err d with
  | DOk => forallb (fun p => negb (waiting_b now p)) pods
  | DWaiting _ => existsb (waiting_b now) pods
  | DOther => false
  end.

Definition rec_spec (qb : queue) (now : Z) (p : pod) (r : rout) (qa : queue) : Prop :=
  (* eviction API only for evictable pods that a drain pass queued *)
  (r_act r = Some Evict -> may_evict now p /\ qget (pkey p) qb <> None) /\
  (* direct delete only under a node deadline, only when due, never with grace < 1s, never beyond the deadline
     except for the 1s floor *)
  (forall g, r_act r = Some (Delete g) ->
     exists t, qget (pkey p) qb = Some (Some t) /\ delete_due now p t /\ 1 <= g /\ g * sec <= Z.max (t - now) sec) /\
  (* a reconcile never adds an entry and never changes a deadline *)
  (forall k v, qget k qa = Some v -> qget k qb = Some v).
Definition opt_dl_eqb (a b : option (option Z)) : bool :=
  match a, b with
  | None, None => true
  | Some x, Some y => dl_eqb x y
  | _, _ => false
  end.
Definition rec_spec_b (qb : queue) (now : Z) (p : pod) (r : rout) (qa : queue) : bool :=
  match r_act r with
  | None => true
  | Some Evict => may_evict_b now p && is_some (qget (pkey p) qb)
  | Some (Delete g) =>
      match qget (pkey p) qb with
      | Some (Some t) => delete_due_b now p t && (1 <=? g) && (g * sec <=? Z.max (t - now) sec)
      | _ => false
      end
  end && forallb (fun e : key * option Z => opt_dl_eqb (qget (fst e) qa) (qget (fst e) qb)) qa.

Definition entry_ok (e : entry) : Prop :=
  match e_op e, e_out e with
  | ODrain now dl pods, OutD d => drain_spec (e_before e) now dl pods d (e_after e)
  | ODrainListFails, OutD d => e_after e = e_before e /\ d_err d <> DOk
  | ORec now p _ _, OutR r => rec_spec (e_before e) now p r (e_after e)
  | ORestart, OutNone => e_after e = []
  | _, _ => False
  end.
Fixpoint queue_eqb (a b : queue) : bool :=
  match a, b with
  | [], [] => true
  | (k, v) :: a', (k', v') :: b' => key_eqb k k' && dl_eqb v v' && queue_eqb a' b'
  | _, _ => false
  end.
Definition derr_is_ok (d : derr) : bool := match d with DOk => true | _ => false end.
Definition entry_ok_b (e : entry) : bool :=
  match e_op e, e_out e with
  | ODrain now dl pods, OutD d => drain_spec_b (e_before e) now dl pods d (e_after e)
  | ODrainListFails, OutD d => queue_eqb (e_after e) (e_before e) && negb (derr_is_ok (d_err d))
  | ORec now p _ _, OutR r => rec_spec_b (e_before e) now p r (e_after e)
  | ORestart, OutNone => match e_after e with [] => true | _ => false end
  | _, _ => false
  end.
