(* C10 — correspondence check and oracle, evaluated by vm_compute on what the Go harness observed when it ran
   the real Terminator.Drain and Queue.Reconcile. A case is a table of pod versions and an op list; every op
   carries what the implementation did (returned error class, signalled pods, API calls, result) and the content of
   Queue.items after the op. Each step is validated from the implementation's own queue (the observed queue
   after the previous op), so one divergence does not cascade. *)
From KV Require Import C10.Model.
Open Scope string_scope.
Open Scope Z_scope.
Open Scope list_scope.

(* short names used by the emitter *)
Definition oNode : owner := ("v1", "Node").
Definition oDS : owner := ("apps/v1", "DaemonSet").
Definition oRS : owner := ("apps/v1", "ReplicaSet").
Definition oSTS : owner := ("apps/v1", "StatefulSet").
Definition oNodeApps : owner := ("apps/v1", "Node").            (* wrong group: not a static pod *)
Definition oDSBeta : owner := ("apps/v1beta1", "DaemonSet").    (* wrong version: not a daemon pod *)
Definition oDSCore : owner := ("v1", "DaemonSet").

Inductive iop :=
| IDrain (now : Z) (dl : option Z) (idx : list Z) (err : derr) (events : list key) (qafter : queue)
| IDrainFail (err : derr) (events : list key) (qafter : queue)
| IRec (now : Z) (idx : Z) (api : apires) (node_ok : bool) (a : option act) (res : rres) (qafter : queue)
| IRestart (qafter : queue).

Record case := Case { c_pods : list pod; c_ops : list iop }.

Definition dummy : pod := P (-1) (-1) true None None [] [] "" DndNone None.
Definition lookup (tbl : list pod) (i : Z) : pod := nth (Z.to_nat i) tbl dummy.
Definition valid_idx (tbl : list pod) (i : Z) : bool := (0 <=? i) && (i <? Z.of_nat (List.length tbl)).

Definition act_eqb (a b : option act) : bool :=
  match a, b with
  | None, None => true
  | Some Evict, Some Evict => true
  | Some (Delete g), Some (Delete g') => g =? g'
  | _, _ => false
  end.
Definition rres_eqb (a b : rres) : bool :=
  match a, b with RDone, RDone | RRequeue, RRequeue | RErr, RErr => true | _, _ => false end.
Definition derr_eqb (a b : derr) : bool :=
  match a, b with
  | DOk, DOk | DOther, DOther => true
  | DWaiting n, DWaiting m => n =? m
  | _, _ => false
  end.

(* signalled pods are compared as sets: the order depends on the order of the List result *)
Fixpoint kinsert (k : key) (l : list key) : list key :=
  match l with
  | [] => [k]
  | h :: t => if key_ltb k h then k :: l else h :: kinsert k t
  end.
Definition ksort (l : list key) : list key := fold_right kinsert [] l.
Fixpoint keys_eqb (a b : list key) : bool :=
  match a, b with
  | [], [] => true
  | x :: a', y :: b' => key_eqb x y && keys_eqb a' b'
  | _, _ => false
  end.

Definition tag (b : bool) (t : string) : list string := if b then [] else [t].

(* one step: the op as the model sees it, the implementation's output and queue after *)
Definition check_step (tbl : list pod) (qo : queue) (o : iop) : list string * queue :=
  match o with
  | IDrain now dl idx err evs qa =>
      let pods := map (lookup tbl) idx in
      let '(qm, d) := drain qo now dl pods in
      (tag (forallb (valid_idx tbl) idx) "corr:bad-index" ++
       tag (derr_eqb (d_err d) err) "corr:drain-error" ++
       tag (keys_eqb (ksort (d_events d)) evs) "corr:drain-signalled" ++
       tag (queue_eqb qm qa) "corr:drain-queue" ++
       tag (entry_ok_b (mkE qo (ODrain now dl pods) (OutD (mkD err evs)) qa)) "oracle:drain", qa)
  | IDrainFail err evs qa =>
      let '(qm, x) := step qo ODrainListFails in
      (tag (match x with OutD d => derr_eqb (d_err d) err && keys_eqb (d_events d) evs | _ => false end) "corr:drainfail-output" ++
       tag (queue_eqb qm qa) "corr:drainfail-queue" ++
       tag (entry_ok_b (mkE qo ODrainListFails (OutD (mkD err evs)) qa)) "oracle:drainfail", qa)
  | IRec now i api nok a res qa =>
      let p := lookup tbl i in
      let '(qm, r) := reconcile qo now p api nok in
      (tag (valid_idx tbl i) "corr:bad-index" ++
       tag (act_eqb (r_act r) a) "corr:reconcile-action" ++
       tag (rres_eqb (r_res r) res) "corr:reconcile-result" ++
       tag (queue_eqb qm qa) "corr:reconcile-queue" ++
       tag (entry_ok_b (mkE qo (ORec now p api nok) (OutR (mkR a res)) qa)) "oracle:reconcile", qa)
  | IRestart qa =>
      (tag (queue_eqb (fst (step qo ORestart)) qa) "corr:restart-queue" ++
       tag (entry_ok_b (mkE qo ORestart OutNone qa)) "oracle:restart", qa)
  end.

Fixpoint check_ops (tbl : list pod) (qo : queue) (ops : list iop) : list string :=
  match ops with
  | [] => []
  | o :: t => let '(tags, qa) := check_step tbl qo o in tags ++ check_ops tbl qa t
  end.

Fixpoint dedup (l : list string) : list string :=
  match l with
  | [] => []
  | h :: t => if existsb (String.eqb h) t then dedup t else h :: dedup t
  end.

Definition check_case (c : case) : list string := dedup (check_ops (c_pods c) [] (c_ops c)).

Definition check_all (cs : list (Z * case)) : list (Z * string) :=
  flat_map (fun ic => map (fun t => (fst ic, t)) (check_case (snd ic))) cs.
