(* C10 — correspondence check and oracle, evaluated by vm_compute on what the Go harness observed when it ran
   the real Terminator.Drain and Queue.Reconcile. A case is a table of pod versions and an op list; every op
   carries what the implementation did (returned error class, signalled pods, API calls, result) and the content of
   Queue.items after the op. Each step is validated from the implementation's own queue (the observed queue
   after the previous op), so one divergence does not cascade. *)
From KV Require Import C10.Model C10.Split C10.Node.
Open Scope string_scope.
Open Scope Z_scope.
Open Scope list_scope.

(* short names used by the emitter *)
Definition oNode : owner := ("v1", "Node").
Definition oDS : owner := ("apps/v1", "DaemonSet").
Definition oRS : owner := ("apps/v1", "ReplicaSet").
Definition oSTS : owner := ("apps/v1", "StatefulSet").
Definition oNodeApps : owner := ("apps/v1", "Node").            (* wrong group: not a static pod *)
Definition oDSBeta : owner := ("apps/v1beta1", "DaemonSet").    (* wrong version: not a daemon pod *)
Definition oDSCore : owner := ("v1", "DaemonSet").

Inductive iop :=
| IDrain (now : Z) (dl : option Z) (idx : list Z) (err : derr) (events : list key) (qafter : queue)
| IDrainFail (err : derr) (events : list key) (qafter : queue)
| IRec (now : Z) (idx : Z) (api : apires) (node_ok : bool) (a : option act) (res : rres) (qafter : queue)
| IRestart (qafter : queue)
(* one reconcile of the deleting node by the real termination controller: NodeClaim present?, its termination
   timestamp annotation, its Drained condition before, clock, listed pods [observed: result class, Drained
   condition after, signalled pods, queue after] *)
| INode (g : gate) (has_claim deleting : bool) (a : ann) (c : dcond) (now : Z) (idx : list Z)
        (res : nres) (cafter : dcond) (evs : list key) (qafter : queue)
(* one reconcile with a drain pass inside its unlocked window: the reconcile of pod idx reads its queue entry, then
   a complete Drain pass (dnow, ddl, didx) runs [observed: derr, devs, queue qmid], then the reconcile continues at
   clock anow with API answer api [observed: a, res] and the queue ends as qafter *)
| IRace (idx : Z) (api : apires) (node_ok : bool)
        (dnow : Z) (ddl : option Z) (didx : list Z) (derr : derr) (devs : list key) (qmid : queue)
        (anow : Z) (a : option act) (res : rres) (qafter : queue).

Record case := Case { c_pods : list pod; c_ops : list iop }.

Definition dummy : pod := P (-1) (-1) true None None [] [] "" DndNone None.
Definition lookup (tbl : list pod) (i : Z) : pod := nth (Z.to_nat i) tbl dummy.
Definition valid_idx (tbl : list pod) (i : Z) : bool := (0 <=? i) && (i <? Z.of_nat (List.length tbl)).

Definition act_eqb (a b : option act) : bool :=
  match a, b with
  | None, None => true
  | Some Evict, Some Evict => true
  | Some (Delete g), Some (Delete g') => g =? g'
  | _, _ => false
  end.
Definition rres_eqb (a b : rres) : bool :=
  match a, b with RDone, RDone | RRequeue, RRequeue | RErr, RErr => true | _, _ => false end.
Definition derr_eqb (a b : derr) : bool :=
  match a, b with
  | DOk, DOk | DOther, DOther => true
  | DWaiting n, DWaiting m => n =? m
  | _, _ => false
  end.

(* signalled pods are compared as sets: the order depends on the order of the List result *)
Fixpoint kinsert (k : key) (l : list key) : list key :=
  match l with
  | [] => [k]
  | h :: t => if key_ltb k h then k :: l else h :: kinsert k t
  end.
Definition ksort (l : list key) : list key := fold_right kinsert [] l.
Fixpoint keys_eqb (a b : list key) : bool :=
  match a, b with
  | [], [] => true
  | x :: a', y :: b' => key_eqb x y && keys_eqb a' b'
  | _, _ => false
  end.

Definition dcond_eqb (a b : dcond) : bool :=
  match a, b with
  | CAbsent, CAbsent | CTrue, CTrue => true
  | CUnknown s, CUnknown s' => s =? s'
  | _, _ => false
  end.
Definition nres_eqb (a b : nres) : bool :=
  match a, b with
  | NError, NError | NRequeue, NRequeue | NDrained, NDrained | NSkip, NSkip | NGone, NGone => true
  | _, _ => false
  end.

Definition tag (b : bool) (t : string) : list string := if b then [] else [t].

(* one step: the op as the model sees it, the implementation's output and queue after *)
Definition check_step (tbl : list pod) (qo : queue) (o : iop) : list string * queue :=
  match o with
  | IDrain now dl idx err evs qa =>
      let pods := map (lookup tbl) idx in
      let '(qm, d) := drain qo now dl pods in
      (tag (forallb (valid_idx tbl) idx) "corr:bad-index" ++
       tag (derr_eqb (d_err d) err) "corr:drain-error" ++
       tag (keys_eqb (ksort (d_events d)) evs) "corr:drain-signalled" ++
       tag (queue_eqb qm qa) "corr:drain-queue" ++
       tag (entry_ok_b (mkE qo (ODrain now dl pods) (OutD (mkD err evs)) qa)) "oracle:drain", qa)
  | IDrainFail err evs qa =>
      let '(qm, x) := step qo ODrainListFails in
      (tag (match x with OutD d => derr_eqb (d_err d) err && keys_eqb (d_events d) evs | _ => false end) "corr:drainfail-output" ++
       tag (queue_eqb qm qa) "corr:drainfail-queue" ++
       tag (entry_ok_b (mkE qo ODrainListFails (OutD (mkD err evs)) qa)) "oracle:drainfail", qa)
  | IRec now i api nok a res qa =>
      let p := lookup tbl i in
      let '(qm, r) := reconcile qo now p api nok in
      (tag (valid_idx tbl i) "corr:bad-index" ++
       tag (act_eqb (r_act r) a) "corr:reconcile-action" ++
       tag (rres_eqb (r_res r) res) "corr:reconcile-result" ++
       tag (queue_eqb qm qa) "corr:reconcile-queue" ++
       tag (entry_ok_b (mkE qo (ORec now p api nok) (OutR (mkR a res)) qa)) "oracle:reconcile", qa)
  | IRace i api nok dnow ddl didx derr devs qmid anow a res qa =>
      let p := lookup tbl i in
      let pods := map (lookup tbl) didx in
      let r := qget (pkey p) qo in                       (* Read *)
      let '(q1, d) := drain qo dnow ddl pods in          (* the pass in the window *)
      let '(ro, c) := decide r anow p api nok in         (* Act, from the value read *)
      let qm := complete q1 p c in                       (* Complete *)
      let qread := match r with Some dl => [(pkey p, dl)] | None => [] end in
      (tag (valid_idx tbl i && forallb (valid_idx tbl) didx) "corr:bad-index" ++
       tag (derr_eqb (d_err d) derr) "corr:race-drain-error" ++
       tag (keys_eqb (ksort (d_events d)) devs) "corr:race-drain-signalled" ++
       tag (queue_eqb q1 qmid) "corr:race-drain-queue" ++
       tag (act_eqb (r_act ro) a) "corr:race-action" ++
       tag (rres_eqb (r_res ro) res) "corr:race-result" ++
       tag (queue_eqb qm qa) "corr:race-queue" ++
       tag (entry_ok_b (mkE qo (ODrain dnow ddl pods) (OutD (mkD derr devs)) qmid)) "oracle:race-drain" ++
       (* the action is justified by the value read (what holds in every interleaving) *)
       tag (entry_ok_b (mkE qread (ORec anow p api nok) (OutR (mkR a res)) [])) "oracle:race-action" ++
       (* the action honours the deadline in force when it is taken (refuted: Split.split_deadline_never_later_refuted_l) *)
       tag (match r, qget (pkey p) qmid with
            | Some _, Some (Some t') =>
                if delete_due_b anow p t'
                then match a with Some (Delete g) => g * sec <=? Z.max (t' - anow) sec | _ => false end
                else true
            | _, _ => true
            end) "oracle:race-stale-deadline", qa)
  | INode g hc del a c now idx res cafter evs qa =>
      let pods := map (lookup tbl) idx in
      let '(qm, cm, rm, dm) := node_pass g qo hc del a c now pods in
      (tag (forallb (valid_idx tbl) idx) "corr:bad-index" ++
       tag (nres_eqb rm res) "corr:node-result" ++
       tag (dcond_eqb cm cafter) "corr:node-drained-condition" ++
       tag (keys_eqb (ksort (match dm with Some d => d_events d | None => [] end)) evs) "corr:node-signalled" ++
       tag (queue_eqb qm qa) "corr:node-queue" ++
       (* the queue changed as under a drain pass with the NodeClaim's termination timestamp (no claim / no
          annotation: no deadline); unparsable annotation: the queue is untouched *)
       (* the queue is untouched, or changed as under a drain pass with the NodeClaim's termination timestamp
          (no claim / no annotation: no deadline) *)
       tag (queue_eqb qa qo ||
            match claim_deadline hc a with
            | Some dl =>
                let n := Z.of_nat (List.length (filter (waiting_b now) pods)) in
                entry_ok_b (mkE qo (ODrain now dl pods) (OutD (mkD (if (n =? 0) then DOk else DWaiting n) evs)) qa)
            | None => false
            end) "oracle:node-deadline" ++
       (* Drained / finalizer removed only when nothing is waiting and MinDrainTime has passed (unless the instance is gone) *)
       tag (match res, g with
            | NGone, GInstanceGone => true
            | NDrained, _ | NGone, _ =>
                forallb (fun p => negb (waiting_b now p)) pods &&
                (negb hc || match c with CTrue => true | CUnknown s => min_drain <=? now - s | CAbsent => false end)
            | _, _ => true
            end) "oracle:node-drained-early", qa)
  | IRestart qa =>
      (tag (queue_eqb (fst (step qo ORestart)) qa) "corr:restart-queue" ++
       tag (entry_ok_b (mkE qo ORestart OutNone qa)) "oracle:restart", qa)
  end.

Fixpoint check_ops (tbl : list pod) (qo : queue) (ops : list iop) : list string :=
  match ops with
  | [] => []
  | o :: t => let '(tags, qa) := check_step tbl qo o in tags ++ check_ops tbl qa t
  end.

Fixpoint dedup (l : list string) : list string :=
  match l with
  | [] => []
  | h :: t => if existsb (String.eqb h) t then dedup t else h :: dedup t
  end.

Definition check_case (c : case) : list string := dedup (check_ops (c_pods c) [] (c_ops c)).

Definition check_all (cs : list (Z * case)) : list (Z * string) :=
  flat_map (fun ic => map (fun t => (fst ic, t)) (check_case (snd ic))) cs.
