(* C10 — proofs about the drain model (C10/Model.v). No axioms, no admits. *)
From KV Require Import C10.Model.
Open Scope string_scope.
Open Scope Z_scope.
Open Scope list_scope.

(* ------------------------------------------------------------------ reflection of the basic tests *)

Lemma key_eqb_eq : forall a b : key, key_eqb a b = true <-> a = b.
Proof.
  intros [a1 a2] [b1 b2]. unfold key_eqb. cbn. rewrite andb_true_iff, !Z.eqb_eq.
  split; [intros [H1 H2]; subst; reflexivity | intros H; inversion H; auto].
Qed.

Lemma key_eqb_refl : forall a, key_eqb a a = true.
Proof. intros a. apply key_eqb_eq. reflexivity. Qed.

Lemma key_eqb_neq : forall a b : key, key_eqb a b = false <-> a <> b.
Proof.
  intros a b. split.
  - intros H E. apply key_eqb_eq in E. congruence.
  - intros H. destruct (key_eqb a b) eqn:E; [apply key_eqb_eq in E; contradiction | reflexivity].
Qed.

Lemma key_eqb_sym : forall a b, key_eqb a b = key_eqb b a.
Proof.
  intros a b. destruct (key_eqb a b) eqn:E.
  - apply key_eqb_eq in E. subst. symmetry. apply key_eqb_refl.
  - symmetry. apply key_eqb_neq. apply key_eqb_neq in E. congruence.
Qed.

Lemma owner_eqb_eq : forall a b : owner, owner_eqb a b = true <-> a = b.
Proof.
  intros [a1 a2] [b1 b2]. unfold owner_eqb. cbn. rewrite andb_true_iff, !String.eqb_eq.
  split; [intros [H1 H2]; subst; reflexivity | intros H; inversion H; auto].
Qed.

Lemma owned_by_spec : forall p o, owned_by p o = true <-> In o (p_owners p).
Proof.
  intros p o. unfold owned_by. rewrite existsb_exists. split.
  - intros [x [Hin He]]. apply owner_eqb_eq in He. subst. exact Hin.
  - intros Hin. exists o. split; [exact Hin | apply owner_eqb_eq; reflexivity].
Qed.

Lemma static_spec : forall p, is_owned_by_node p = true <-> static_pod p.
Proof. intros p. apply owned_by_spec. Qed.

Lemma tol_matches_spec : forall t, tol_matches t = true <-> tol_covers t.
Proof.
  intros t. unfold tol_matches, tol_covers, disrupted_key.
  destruct (String.eqb_spec (t_eff t) ""), (String.eqb_spec (t_eff t) "NoSchedule"),
    (String.eqb_spec (t_key t) ""), (String.eqb_spec (t_key t) "karpenter.sh/disrupted"),
    (String.eqb_spec (t_op t) ""), (String.eqb_spec (t_op t) "Equal"), (String.eqb_spec (t_op t) "Exists"),
    (String.eqb_spec (t_val t) ""); cbn; split; intros H; try discriminate; try tauto; try congruence;
    try (exfalso; intuition congruence).
Qed.

Lemma tolerates_spec : forall p, tolerates p = true <-> tolerates_disruption p.
Proof.
  intros p. unfold tolerates, tolerates_disruption. rewrite existsb_exists.
  split; intros [t [Hin Ht]]; exists t; (split; [exact Hin | apply tol_matches_spec; exact Ht]).
Qed.

Lemma dnd_active_spec : forall now p, dnd_active now p = true <-> dnd_protected now p.
Proof.
  intros now p. unfold dnd_active, dnd_protected. destruct (p_dnd p) as [| | |d]; try (split; [discriminate | tauto]).
  - split; auto.
  - destruct (Z.leb_spec d 0).
    + split; [discriminate | intros [H1 _]; lia].
    + destruct (p_start p) as [s|].
      * rewrite Z.ltb_lt. split; [intros; split; lia | intros [_ H2]; exact H2].
      * split; auto.
Qed.

Lemma not_true_false : forall b, b <> true <-> b = false.
Proof. intros []; split; congruence. Qed.

Lemma negb_true_not : forall b (P : Prop), (b = true <-> P) -> (negb b = true <-> ~ P).
Proof. intros [] P [H1 H2]; cbn; split; intros H; try discriminate; try tauto. intros HP. apply H2 in HP. discriminate. Qed.

Lemma may_evict_b_spec : forall now p, may_evict_b now p = true <-> may_evict now p.
Proof.
  intros now p. unfold may_evict_b, may_evict. rewrite !andb_true_iff.
  rewrite (negb_true_not _ _ (dnd_active_spec now p)).
  rewrite (negb_true_not _ _ (owned_by_spec p node_owner)).
  rewrite (negb_true_not _ _ (tolerates_spec p)).
  unfold static_pod, node_owner.
  destruct (p_terminal p), (p_del p); cbn; split; intros H; try tauto; intuition congruence.
Qed.

(* the model's IsEvictable is the specification's may_evict *)
Lemma is_evictable_spec : forall now p, is_evictable now p = true <-> may_evict now p.
Proof.
  intros now p. rewrite <- may_evict_b_spec. unfold is_evictable, may_evict_b, is_active, is_terminal, is_terminating, is_owned_by_node.
  destruct (p_terminal p), (is_some (p_del p)), (tolerates p), (owned_by p node_owner), (dnd_active now p); cbn; tauto.
Qed.

Lemma delete_due_b_spec : forall now p t, delete_due_b now p t = true <-> delete_due now p t.
Proof.
  intros now p t. unfold delete_due_b, delete_due. destruct (p_del p) as [d|].
  - apply Z.ltb_lt.
  - destruct (p_grace p) as [g|].
    + rewrite Z.ltb_lt. split; [intros H; exists g; auto | intros [g' [E H]]; inversion E; subst; exact H].
    + split; [discriminate | intros [g' [E _]]; discriminate].
Qed.

(* the model's needsForceDelete under a deadline is the specification's delete_due *)
Lemma nfd_spec : forall now p t, nfd now p (Some t) = true <-> delete_due now p t.
Proof.
  intros now p t. rewrite <- delete_due_b_spec. unfold nfd, delete_due_b, eligible_forced, is_terminating.
  destruct (p_del p); cbn; tauto.
Qed.

Lemma nfd_none : forall now p, nfd now p None = false.
Proof. reflexivity. Qed.

Lemma due_under_b_spec : forall now p dl, due_under_b now p dl = true <-> due_under now p dl.
Proof. intros now p [t|]; cbn; [apply delete_due_b_spec | split; [discriminate | tauto]]. Qed.

Lemma nfd_due_under : forall now p dl, nfd now p dl = true <-> due_under now p dl.
Proof. intros now p [t|]; [apply nfd_spec | cbn; split; [discriminate | tauto]]. Qed.

Lemma waiting_b_spec : forall now p, waiting_b now p = true <-> waiting now p.
Proof.
  intros now p. unfold waiting_b, waiting. rewrite !andb_true_iff.
  rewrite (negb_true_not _ _ (owned_by_spec p node_owner)).
  rewrite (negb_true_not _ _ (tolerates_spec p)).
  unfold static_pod, node_owner.
  destruct (p_terminal p); cbn; destruct (p_del p) as [d|]; rewrite ?Z.leb_le; split; intros H; try tauto; intuition congruence.
Qed.

Lemma is_waiting_eviction_spec : forall now p, is_waiting_eviction now p = true <-> waiting now p.
Proof.
  intros now p. rewrite <- waiting_b_spec.
  unfold is_waiting_eviction, is_drainable, waiting_b, is_terminal, is_stuck_terminating, is_owned_by_node.
  destruct (p_del p) as [d|].
  - destruct (Z.ltb_spec minute (now - d)), (Z.leb_spec (now - d) minute); try lia;
      destruct (p_terminal p), (tolerates p), (owned_by p node_owner); cbn; tauto.
  - destruct (p_terminal p), (tolerates p), (owned_by p node_owner); cbn; tauto.
Qed.

Lemma dl_leb_spec : forall a b, dl_leb a b = true <-> dl_le a b.
Proof. intros [x|] [y|]; cbn; rewrite ?Z.leb_le; split; auto; try discriminate; tauto. Qed.

Lemma dl_eqb_spec : forall a b, dl_eqb a b = true <-> a = b.
Proof.
  intros [x|] [y|]; cbn; rewrite ?Z.eqb_eq; split; intros H; try discriminate; try congruence; auto.
Qed.

Lemma dl_le_refl : forall a, dl_le a a.
Proof. intros [x|]; cbn; auto; lia. Qed.

Lemma dl_le_trans : forall a b c, dl_le a b -> dl_le b c -> dl_le a c.
Proof. intros [x|] [y|] [z|]; cbn; intros; auto; try lia; try tauto. Qed.

Lemma earlier_le_l : forall a b, dl_le (earlier a b) a.
Proof. intros [x|] [y|]; cbn; auto; try lia. destruct (Z.ltb_spec x y); cbn; lia. Qed.

Lemma earlier_le_r : forall a b, dl_le (earlier a b) b.
Proof. intros [x|] [y|]; cbn; auto; try lia. destruct (Z.ltb_spec x y); cbn; lia. Qed.

Lemma earlier_cases : forall a b, earlier a b = a \/ earlier a b = b.
Proof. intros [x|] [y|]; cbn; auto. destruct (x <? y); auto. Qed.

Lemma earlier_idem : forall a b, earlier (earlier a b) b = earlier a b.
Proof.
  intros [x|] [y|]; cbn; auto.
  - destruct (Z.ltb_spec x y) as [H|H]; cbn; [destruct (Z.ltb_spec x y); [reflexivity | lia] | rewrite Z.ltb_irrefl; reflexivity].
  - rewrite Z.ltb_irrefl. reflexivity.
Qed.

(* greatest lower bound: the queue deadline is the minimum of the deadlines it was built from *)
Lemma earlier_glb : forall a b c, dl_le c a -> dl_le c b -> dl_le c (earlier a b).
Proof. intros a b c Ha Hb. destruct (earlier_cases a b) as [E|E]; rewrite E; assumption. Qed.

(* ------------------------------------------------------------------ queue algebra (no invariant needed) *)

Lemma qget_qset : forall k k' v q, qget k (qset k' v q) = if key_eqb k k' then Some v else qget k q.
Proof.
  intros k k' v q. induction q as [|[k1 v1] t IH]; cbn.
  - destruct (key_eqb k k'); reflexivity.
  - destruct (key_eqb k' k1) eqn:E1.
    + apply key_eqb_eq in E1. subst k1. cbn. destruct (key_eqb k k'); reflexivity.
    + destruct (key_ltb k' k1); cbn.
      * destruct (key_eqb k k'); reflexivity.
      * rewrite IH. destruct (key_eqb k k1) eqn:E2; [|reflexivity].
        apply key_eqb_eq in E2. subst k1. rewrite key_eqb_sym, E1. reflexivity.
Qed.

Lemma qget_qdel : forall k k' q, qget k (qdel k' q) = if key_eqb k' k then None else qget k q.
Proof.
  intros k k' q. unfold qdel. induction q as [|[k1 v1] t IH]; cbn.
  - destruct (key_eqb k' k); reflexivity.
  - destruct (key_eqb k' k1) eqn:E1; cbn.
    + rewrite IH. apply key_eqb_eq in E1. subst k1. rewrite (key_eqb_sym k k').
      destruct (key_eqb k' k); reflexivity.
    + rewrite IH. destruct (key_eqb k k1) eqn:E2; [|reflexivity].
      apply key_eqb_eq in E2. subst k1. rewrite E1. reflexivity.
Qed.

Lemma qget_In : forall k v q, qget k q = Some v -> In (k, v) q.
Proof.
  intros k v q. induction q as [|[k1 v1] t IH]; cbn; [discriminate|].
  destruct (key_eqb k k1) eqn:E.
  - apply key_eqb_eq in E. subst. intros H. inversion H. auto.
  - auto.
Qed.

Lemma In_qget_some : forall k v q, In (k, v) q -> exists v', qget k q = Some v'.
Proof.
  intros k v q. induction q as [|[k1 v1] t IH]; cbn; [tauto|].
  intros [H|H].
  - inversion H. subst. rewrite key_eqb_refl. eauto.
  - destruct (key_eqb k k1); eauto.
Qed.

Definition dflt (o : option (option Z)) : option Z := match o with Some e => e | None => None end.

Lemma qadd1_get : forall dl q p k,
  qget k (fst (qadd1 dl q p)) = if key_eqb k (pkey p) then Some (earlier (dflt (qget (pkey p) q)) dl) else qget k q.
Proof.
  intros dl q p k. unfold qadd1. destruct (qget (pkey p) q) as [e|] eqn:E; cbn; rewrite qget_qset; reflexivity.
Qed.

Lemma qadd_get : forall dl ps q evs k,
  qget k (fst (qadd dl q evs ps)) =
  if existsb (fun p => key_eqb k (pkey p)) ps then Some (earlier (dflt (qget k q)) dl) else qget k q.
Proof.
  intros dl ps. induction ps as [|p t IH]; intros q evs k; cbn; [reflexivity|].
  destruct (qadd1 dl q p) as [q' fresh] eqn:E1.
  rewrite IH. assert (Hq' : q' = fst (qadd1 dl q p)) by (rewrite E1; reflexivity).
  rewrite Hq', qadd1_get.
  destruct (key_eqb k (pkey p)) eqn:Ek; cbn.
  - apply key_eqb_eq in Ek. subst k.
    destruct (existsb _ t); cbn; [rewrite earlier_idem|]; reflexivity.
  - reflexivity.
Qed.

Lemma qadd_nil : forall dl q evs, qadd dl q evs [] = (q, evs).
Proof. reflexivity. Qed.

Lemma qadd_app : forall dl a b q evs,
  qadd dl q evs (a ++ b) = let '(q1, e1) := qadd dl q evs a in qadd dl q1 e1 b.
Proof.
  intros dl a. induction a as [|p t IH]; intros b q evs; cbn; [reflexivity|].
  destruct (qadd1 dl q p) as [q' fresh]. apply IH.
Qed.

(* ------------------------------------------------------------------ priority tiers *)

Lemma filter_nil_all : forall {A} (f : A -> bool) l, filter f l = [] -> forall x, In x l -> f x = false.
Proof.
  intros A f l. induction l as [|h t IH]; cbn; [tauto|].
  destruct (f h) eqn:E; [discriminate|]. intros H x [Hx|Hx]; [subst; exact E | auto].
Qed.

Lemma first_nonempty_groups : forall gr g p,
  first_nonempty (groups gr) = Some g -> In p g ->
  In p gr /\ forall p', In p' gr -> tier p <= tier p'.
Proof.
  intros gr g p H Hin. unfold groups in H. cbn in H. unfold tier.
  destruct (filter (fun p0 => negb (is_critical p0) && negb (is_owned_by_daemonset p0)) gr) as [|x0 l0] eqn:F0.
  2:{ inversion H. subst g. rewrite <- F0 in Hin. apply filter_In in Hin. destruct Hin as [Hin Hf]. split; [exact Hin|].
      intros p' _. destruct (is_critical p), (is_owned_by_daemonset p); cbn in Hf; try discriminate.
      destruct (is_critical p'), (is_owned_by_daemonset p'); lia. }
  destruct (filter (fun p0 => negb (is_critical p0) && is_owned_by_daemonset p0) gr) as [|x1 l1] eqn:F1.
  2:{ inversion H. subst g. rewrite <- F1 in Hin. apply filter_In in Hin. destruct Hin as [Hin Hf]. split; [exact Hin|].
      intros p' Hp'. pose proof (filter_nil_all _ _ F0 p' Hp') as N0. cbn in N0.
      destruct (is_critical p), (is_owned_by_daemonset p); cbn in Hf; try discriminate.
      destruct (is_critical p'), (is_owned_by_daemonset p'); cbn in N0; try discriminate; lia. }
  destruct (filter (fun p0 => is_critical p0 && negb (is_owned_by_daemonset p0)) gr) as [|x2 l2] eqn:F2.
  2:{ inversion H. subst g. rewrite <- F2 in Hin. apply filter_In in Hin. destruct Hin as [Hin Hf]. split; [exact Hin|].
      intros p' Hp'. pose proof (filter_nil_all _ _ F0 p' Hp') as N0. pose proof (filter_nil_all _ _ F1 p' Hp') as N1.
      cbn in N0, N1.
      destruct (is_critical p), (is_owned_by_daemonset p); cbn in Hf; try discriminate.
      destruct (is_critical p'), (is_owned_by_daemonset p'); cbn in N0, N1; try discriminate; lia. }
  destruct (filter (fun p0 => is_critical p0 && is_owned_by_daemonset p0) gr) as [|x3 l3] eqn:F3.
  { discriminate. }
  inversion H. subst g. rewrite <- F3 in Hin. apply filter_In in Hin. destruct Hin as [Hin Hf]. split; [exact Hin|].
  intros p' Hp'. pose proof (filter_nil_all _ _ F0 p' Hp') as N0. pose proof (filter_nil_all _ _ F1 p' Hp') as N1.
  pose proof (filter_nil_all _ _ F2 p' Hp') as N2. cbn in N0, N1, N2.
  destruct (is_critical p), (is_owned_by_daemonset p); cbn in Hf; try discriminate.
  destruct (is_critical p'), (is_owned_by_daemonset p'); cbn in N0, N1, N2; try discriminate; lia.
Qed.

(* when no group is non-empty there is no graceful candidate at all *)
Lemma first_nonempty_none : forall gr, first_nonempty (groups gr) = None -> gr = [].
Proof.
  intros gr H. destruct gr as [|p t]; [reflexivity|]. exfalso.
  unfold groups in H. cbn in H.
  destruct (is_critical p) eqn:C, (is_owned_by_daemonset p) eqn:D; cbn in H;
  repeat match type of H with
  | context [match ?l with [] => _ | _ :: _ => _ end] => destruct l
  end; try discriminate.
Qed.

(* ------------------------------------------------------------------ Terminator.Drain *)

Lemma waiting_of_In : forall now pods p, In p (waiting_of now pods) <-> In p pods /\ waiting now p.
Proof. intros. unfold waiting_of. rewrite filter_In, is_waiting_eviction_spec. tauto. Qed.

Lemma delete_eligible_In : forall now dl pods p,
  In p (delete_eligible now dl pods) <-> In p pods /\ waiting now p /\ due_under now p dl.
Proof. intros. unfold delete_eligible. rewrite filter_In, waiting_of_In, nfd_due_under. tauto. Qed.

Lemma graceful_In : forall now dl pods p,
  In p (graceful now dl pods) <-> In p pods /\ waiting now p /\ ~ due_under now p dl.
Proof.
  intros. unfold graceful. rewrite filter_In, waiting_of_In.
  rewrite (negb_true_not _ _ (nfd_due_under now p dl)). tauto.
Qed.

(* tier order: what a drain pass hands to the queue *)
Lemma selected_selectable : forall now dl pods p,
  In p (selected now dl pods) -> In p pods /\ selectable now dl pods p.
Proof.
  intros now dl pods p H. unfold selected in H. apply in_app_or in H. destruct H as [H|H].
  - apply delete_eligible_In in H. destruct H as [H1 [H2 H3]]. split; [exact H1|]. split; [exact H2 | left; exact H3].
  - destruct (first_nonempty (groups (graceful now dl pods))) as [g|] eqn:E; [|destruct H].
    destruct (first_nonempty_groups _ _ _ E H) as [Hin Hmin].
    apply graceful_In in Hin. destruct Hin as [H1 [H2 H3]]. split; [exact H1|]. split; [exact H2|].
    right. intros p' Hp' Hw Hnd. apply Hmin. apply graceful_In. tauto.
Qed.

(* nothing waiting is left out entirely unless a lower tier is still occupied: the pass selects something
   whenever something is waiting *)
Lemma selected_nonempty : forall now dl pods p,
  In p pods -> waiting now p -> selected now dl pods <> [].
Proof.
  intros now dl pods p Hin Hw Hnil. unfold selected in Hnil. apply app_eq_nil in Hnil. destruct Hnil as [Hd Hg].
  destruct (first_nonempty (groups (graceful now dl pods))) as [g|] eqn:E.
  - subst g. clear - E. unfold groups in E. cbn in E.
    repeat match type of E with
    | context [match ?l with [] => _ | _ :: _ => _ end] => destruct l
    end; discriminate.
  - apply first_nonempty_none in E.
    destruct (nfd now p dl) eqn:N.
    + assert (In p (delete_eligible now dl pods)) by (apply delete_eligible_In; rewrite <- nfd_due_under; tauto).
      rewrite Hd in H. destruct H.
    + assert (In p (graceful now dl pods)).
      { apply graceful_In. split; [exact Hin|]. split; [exact Hw|]. rewrite <- nfd_due_under. congruence. }
      rewrite E in H. destruct H.
Qed.

Lemma nonempty_false : forall {A} (l : list A), nonempty l = false -> l = [].
Proof. intros A [|h t]; cbn; [reflexivity | discriminate]. Qed.

(* the queue after a pass is Queue.Add of the selected pods *)
Lemma drain_queue : forall q now dl pods,
  fst (drain q now dl pods) = fst (qadd dl q [] (selected now dl pods)).
Proof.
  intros q now dl pods. unfold drain, selected.
  rewrite qadd_app.
  set (fg := first_nonempty (groups (graceful now dl pods))).
  destruct (nonempty (delete_eligible now dl pods)) eqn:Ne.
  - destruct (qadd dl q [] (delete_eligible now dl pods)) as [q1 e1].
    destruct fg as [g|].
    + destruct (qadd dl q1 e1 g) as [q2 e2]. reflexivity.
    + reflexivity.
  - apply nonempty_false in Ne. rewrite Ne. rewrite qadd_nil.
    destruct fg as [g|].
    + destruct (qadd dl q [] g) as [q2 e2]. reflexivity.
    + reflexivity.
Qed.

Lemma drain_err_ok : forall q now dl pods,
  d_err (snd (drain q now dl pods)) = DOk <-> waiting_of now pods = [].
Proof.
  intros q now dl pods. unfold drain.
  destruct (if nonempty (delete_eligible now dl pods) then qadd dl q [] (delete_eligible now dl pods) else (q, [])) as [q1 e1].
  destruct (first_nonempty (groups (graceful now dl pods))) as [g|] eqn:E.
  - destruct (qadd dl q1 e1 g) as [q2 e2]. cbn. split; [discriminate|].
    intros Hn. exfalso. assert (Hg : graceful now dl pods = []) by (unfold graceful; rewrite Hn; reflexivity).
    rewrite Hg in E. cbn in E. discriminate.
  - apply first_nonempty_none in E.
    destruct (nonempty (delete_eligible now dl pods)) eqn:Ne; cbn.
    + split; [discriminate|]. intros Hn. unfold delete_eligible in Ne. rewrite Hn in Ne. discriminate.
    + split; [|reflexivity]. intros _. apply nonempty_false in Ne.
      destruct (waiting_of now pods) as [|p t] eqn:W; [reflexivity|]. exfalso.
      assert (Hp : In p (waiting_of now pods)) by (rewrite W; left; reflexivity).
      destruct (nfd now p dl) eqn:N.
      * assert (In p (delete_eligible now dl pods)) by (unfold delete_eligible; apply filter_In; tauto).
        rewrite Ne in H. destruct H.
      * assert (In p (graceful now dl pods)) by (unfold graceful; apply filter_In; rewrite N; tauto).
        rewrite E in H. destruct H.
Qed.

Lemma drain_err_not_other : forall q now dl pods, d_err (snd (drain q now dl pods)) <> DOther.
Proof.
  intros q now dl pods. unfold drain.
  destruct (if nonempty (delete_eligible now dl pods) then qadd dl q [] (delete_eligible now dl pods) else (q, [])) as [q1 e1].
  destruct (first_nonempty (groups (graceful now dl pods))) as [g|].
  - destruct (qadd dl q1 e1 g) as [q2 e2]. cbn. discriminate.
  - destruct (nonempty (delete_eligible now dl pods)); cbn; discriminate.
Qed.

Lemma existsb_key_In : forall k ps, existsb (fun p => key_eqb k (pkey p)) ps = true <-> exists p, In p ps /\ pkey p = k.
Proof.
  intros k ps. rewrite existsb_exists. split; intros [p [H1 H2]]; exists p; split; auto.
  - apply key_eqb_eq in H2. auto.
  - apply key_eqb_eq. auto.
Qed.

(* the model's drain pass satisfies the specification of a drain pass, from every queue *)
Lemma drain_meets_spec : forall q now dl pods,
  drain_spec q now dl pods (snd (drain q now dl pods)) (fst (drain q now dl pods)).
Proof.
  intros q now dl pods. unfold drain_spec. rewrite drain_queue. repeat split.
  - intros k v H. rewrite qadd_get in H.
    destruct (existsb (fun p => key_eqb k (pkey p)) (selected now dl pods)) eqn:Ex.
    + inversion H as [Hv]. clear H. apply existsb_key_In in Ex. destruct Ex as [p [Hp Hk]].
      destruct (qget k q) as [v0|] eqn:G; cbn.
      * left. exists v0. split; [reflexivity|]. split; [apply earlier_le_l|].
        destruct (earlier_cases v0 dl); auto.
      * right. split; [reflexivity|]. split; [reflexivity|]. exists p.
        destruct (selected_selectable _ _ _ _ Hp). auto.
    + left. exists v. split; [exact H|]. split; [apply dl_le_refl | auto].
  - intros k Hk. rewrite qadd_get. destruct (existsb _ _); [discriminate | exact Hk].
  - intros Hok p Hin Hw. apply drain_err_ok in Hok.
    assert (In p (waiting_of now pods)) by (apply waiting_of_In; auto). rewrite Hok in H. destruct H.
  - intros Hall. apply drain_err_ok. destruct (waiting_of now pods) as [|p t] eqn:W; [reflexivity|]. exfalso.
    assert (Hp : In p (waiting_of now pods)) by (rewrite W; left; reflexivity).
    apply waiting_of_In in Hp. destruct Hp. eapply Hall; eauto.
  - apply drain_err_not_other.
Qed.

(* ------------------------------------------------------------------ Queue.Reconcile *)

Lemma clamp_grace_ge1 : forall now t, 1 <= clamp_grace now t.
Proof. intros. unfold clamp_grace. lia. Qed.

Lemma clamp_grace_within : forall now t, clamp_grace now t * sec <= Z.max (t - now) sec.
Proof. intros now t. unfold clamp_grace, sec. Z.quot_rem_to_equations. lia. Qed.

Lemma reconcile_meets_spec : forall q now p api nok,
  rec_spec q now p (snd (reconcile q now p api nok)) (fst (reconcile q now p api nok)).
Proof.
  intros q now p api nok. unfold rec_spec, reconcile.
  assert (Rest : forall dl0, qget (pkey p) q = Some dl0 ->
    let x := rest_of_reconcile q now p api nok in
    (r_act (snd x) = Some Evict -> may_evict now p /\ qget (pkey p) q <> None) /\
    (forall g, r_act (snd x) = Some (Delete g) -> False) /\
    (forall k v, qget k (fst x) = Some v -> qget k q = Some v)).
  { intros dl0 G. unfold rest_of_reconcile.
    destruct (is_active p) eqn:A; cbn.
    - destruct (is_evictable now p) eqn:Ev; cbn.
      + unfold evict. destruct api; cbn; (split; [intros _; split; [apply is_evictable_spec; exact Ev | congruence]|]);
          (split; [intros g Hg; discriminate|]); intros k v; rewrite ?qget_qdel;
          try (destruct (key_eqb (pkey p) k); [discriminate | auto]); auto.
      + split; [discriminate|]. split; [intros g Hg; discriminate | auto].
    - split; [discriminate|]. split; [intros g Hg; discriminate|].
      intros k v. rewrite qget_qdel. destruct (key_eqb (pkey p) k); [discriminate | auto]. }
  destruct (qget (pkey p) q) as [dl0|] eqn:G.
  2:{ cbn. split; [discriminate|]. split; [intros g Hg; discriminate | auto]. }
  destruct dl0 as [t|].
  - destruct (nfd now p (Some t)) eqn:N.
    + apply nfd_spec in N. unfold force_delete.
      assert (forall g, Some (Delete (clamp_grace now t)) = Some (Delete g) ->
              exists t0, Some (Some t) = Some (Some t0) /\ delete_due now p t0 /\ 1 <= g /\ g * sec <= Z.max (t0 - now) sec).
      { intros g Hg. inversion Hg. subst g. exists t. split; [reflexivity|]. split; [exact N|].
        split; [apply clamp_grace_ge1 | apply clamp_grace_within]. }
      destruct api; cbn; (split; [discriminate|]); (split; [exact H|]); intros k v; rewrite ?qget_qdel;
        try (destruct (key_eqb (pkey p) k); [discriminate | auto]); auto.
    + destruct (Rest _ eq_refl) as [R1 [R2 R3]]. split; [exact R1|]. split; [|exact R3].
      intros g Hg. destruct (R2 g Hg).
  - destruct (Rest _ eq_refl) as [R1 [R2 R3]]. split; [exact R1|]. split; [|exact R3].
    intros g Hg. destruct (R2 g Hg).
Qed.

(* ------------------------------------------------------------------ every point of every history meets the specification *)

Lemma step_meets_spec : forall q o, entry_ok (mkE q o (snd (step q o)) (fst (step q o))).
Proof.
  intros q o. unfold entry_ok. destruct o as [now dl pods| |now p api nok|]; cbn.
  - pose proof (drain_meets_spec q now dl pods) as H. destruct (drain q now dl pods) as [q' d]. exact H.
  - split; [reflexivity | discriminate].
  - pose proof (reconcile_meets_spec q now p api nok) as H. destruct (reconcile q now p api nok) as [q' r]. exact H.
  - reflexivity.
Qed.

Lemma trace_from_ok : forall ops q, Forall entry_ok (trace_from q ops).
Proof.
  intros ops. induction ops as [|o t IH]; intros q; cbn; [constructor|].
  pose proof (step_meets_spec q o) as H. destruct (step q o) as [q' x]. constructor; [exact H | apply IH].
Qed.

Lemma history_meets_spec_l : forall ops, Forall entry_ok (trace ops).
Proof. intros ops. apply trace_from_ok. Qed.

Lemma run_from_app : forall a b q, run_from q (a ++ b) = run_from (run_from q a) b.
Proof. intros a. induction a as [|o t IH]; intros b q; cbn; [reflexivity | apply IH]. Qed.

Lemma run_snoc : forall ops o, run (ops ++ [o]) = fst (step (run ops) o).
Proof. intros. unfold run. rewrite run_from_app. reflexivity. Qed.

(* ------------------------------------------------------------------ the oracle is the specification *)

Lemma selectable_b_spec : forall now dl pods p, selectable_b now dl pods p = true <-> selectable now dl pods p.
Proof.
  intros now dl pods p. unfold selectable_b, selectable.
  rewrite andb_true_iff, orb_true_iff, waiting_b_spec, due_under_b_spec, forallb_forall.
  split; intros [Hw H]; (split; [exact Hw|]); (destruct H as [H|H]; [left; exact H | right]).
  - intros p' Hin Hw' Hnd. specialize (H p' Hin). rewrite !orb_true_iff in H.
    destruct H as [[H|H]|H].
    + apply (negb_true_not _ _ (waiting_b_spec now p')) in H. contradiction.
    + apply due_under_b_spec in H. contradiction.
    + apply Z.leb_le. exact H.
  - intros p' Hin. rewrite !orb_true_iff.
    destruct (waiting_b now p') eqn:W; [|left; left; reflexivity].
    destruct (due_under_b now p' dl) eqn:D; [left; right; reflexivity|].
    right. apply Z.leb_le. apply H; [exact Hin | apply waiting_b_spec; exact W|].
    intros Hd. apply due_under_b_spec in Hd. congruence.
Qed.

Lemma drain_entry_b_spec : forall qb now dl pods k v,
  drain_entry_b qb now dl pods k v = true <->
  ((exists v0, qget k qb = Some v0 /\ dl_le v v0 /\ (v = v0 \/ v = dl)) \/
   (qget k qb = None /\ v = dl /\ exists p, In p pods /\ pkey p = k /\ selectable now dl pods p)).
Proof.
  intros qb now dl pods k v. unfold drain_entry_b. destruct (qget k qb) as [v0|].
  - rewrite andb_true_iff, orb_true_iff, dl_leb_spec, !dl_eqb_spec. split.
    + intros [H1 H2]. left. exists v0. auto.
    + intros [[v1 [E [H1 H2]]]|[E _]]; [inversion E; subst; auto | discriminate].
  - rewrite andb_true_iff, dl_eqb_spec, existsb_exists. split.
    + intros [H1 [p [Hin Hp]]]. right. apply andb_true_iff in Hp. destruct Hp as [Hk Hs].
      apply key_eqb_eq in Hk. apply selectable_b_spec in Hs. split; [reflexivity|]. split; [exact H1|]. exists p. auto.
    + intros [[v1 [E _]]|[_ [H1 [p [Hin [Hk Hs]]]]]]; [discriminate|]. split; [exact H1|].
      exists p. split; [exact Hin|]. apply andb_true_iff. split; [apply key_eqb_eq; exact Hk | apply selectable_b_spec; exact Hs].
Qed.

Lemma forall_entries : forall (q : queue) (f : key -> option Z -> bool),
  forallb (fun e : key * option Z => match qget (fst e) q with Some v => f (fst e) v | None => false end) q = true <->
  (forall k v, qget k q = Some v -> f k v = true).
Proof.
  intros q f. rewrite forallb_forall. split.
  - intros H k v G. specialize (H (k, v) (qget_In _ _ _ G)). cbn in H. rewrite G in H. exact H.
  - intros H [k v] Hin. cbn. destruct (In_qget_some _ _ _ Hin) as [v' G]. rewrite G. apply H. exact G.
Qed.

Lemma forall_keys_present : forall (qb qa : queue),
  forallb (fun e0 : key * option Z => is_some (qget (fst e0) qa)) qb = true <->
  (forall k, qget k qb <> None -> qget k qa <> None).
Proof.
  intros qb qa. rewrite forallb_forall. split.
  - intros H k Hk. destruct (qget k qb) as [v|] eqn:G; [|congruence].
    specialize (H (k, v) (qget_In _ _ _ G)). cbn in H. destruct (qget k qa); [discriminate | discriminate].
  - intros H [k v] Hin. cbn. destruct (In_qget_some _ _ _ Hin) as [v' G].
    assert (qget k qa <> None) by (apply H; congruence). destruct (qget k qa); [reflexivity | congruence].
Qed.

Lemma drain_spec_b_spec : forall qb now dl pods d qa,
  drain_spec_b qb now dl pods d qa = true <-> drain_spec qb now dl pods d qa.
Proof.
  intros qb now dl pods d qa. unfold drain_spec_b, drain_spec.
  rewrite !andb_true_iff, (forall_entries qa (drain_entry_b qb now dl pods)), forall_keys_present.
  assert (E1 : (forall k v, qget k qa = Some v -> drain_entry_b qb now dl pods k v = true) <->
          (forall k v, qget k qa = Some v ->
            (exists v0, qget k qb = Some v0 /\ dl_le v v0 /\ (v = v0 \/ v = dl)) \/
            (qget k qb = None /\ v = dl /\ exists p, In p pods /\ pkey p = k /\ selectable now dl pods p))).
  { split; intros H k v G; apply drain_entry_b_spec; apply H; exact G. }
  rewrite E1. clear E1.
  assert (E3 : match d_err d with
               | DOk => forallb (fun p => negb (waiting_b now p)) pods
               | DWaiting _ => existsb (waiting_b now) pods
               | DOther => false
               end = true <->
               ((d_err d = DOk <-> forall p, In p pods -> ~ waiting now p) /\ d_err d <> DOther)).
  { destruct (d_err d) as [|n|].
    - rewrite forallb_forall. split.
      + intros H. split; [|discriminate]. split; [|reflexivity]. intros _ p Hin.
        apply (negb_true_not _ _ (waiting_b_spec now p)). apply H. exact Hin.
      + intros [[H _] _] p Hin. apply (negb_true_not _ _ (waiting_b_spec now p)). apply H; [reflexivity | exact Hin].
    - rewrite existsb_exists. split.
      + intros [p [Hin Hw]]. split; [|discriminate]. split; [discriminate|].
        intros H. exfalso. apply (H p Hin). apply waiting_b_spec. exact Hw.
      + intros [[_ H] _]. destruct (existsb (waiting_b now) pods) eqn:Ex.
        * apply existsb_exists in Ex. exact Ex.
        * exfalso. assert (DWaiting n = DOk); [|discriminate]. apply H. intros p Hin Hw.
          apply waiting_b_spec in Hw. assert (existsb (waiting_b now) pods = true); [|congruence].
          apply existsb_exists. exists p. auto.
    - split; [discriminate | intros [_ H]; congruence]. }
  rewrite E3. tauto.
Qed.

Lemma opt_dl_eqb_spec : forall a b, opt_dl_eqb a b = true <-> a = b.
Proof.
  intros [x|] [y|]; cbn; rewrite ?dl_eqb_spec; split; intros H; try discriminate; try congruence; auto.
Qed.

Lemma rec_spec_b_spec : forall qb now p r qa,
  rec_spec_b qb now p r qa = true <-> rec_spec qb now p r qa.
Proof.
  intros qb now p r qa. unfold rec_spec_b, rec_spec. rewrite andb_true_iff.
  assert (E3 : forallb (fun e : key * option Z => opt_dl_eqb (qget (fst e) qa) (qget (fst e) qb)) qa = true <->
               (forall k v, qget k qa = Some v -> qget k qb = Some v)).
  { rewrite forallb_forall. split.
    - intros H k v G. specialize (H (k, v) (qget_In _ _ _ G)). cbn in H. apply opt_dl_eqb_spec in H. congruence.
    - intros H [k v] Hin. cbn. apply opt_dl_eqb_spec. destruct (In_qget_some _ _ _ Hin) as [v' G].
      rewrite G. symmetry. apply H. exact G. }
  rewrite E3. clear E3.
  destruct (r_act r) as [[|g]|].
  - rewrite andb_true_iff, may_evict_b_spec. split.
    + intros [[H1 H2] H3]. split; [|split; [intros g Hg; discriminate | exact H3]].
      intros _. split; [exact H1|]. destruct (qget (pkey p) qb); [discriminate | discriminate].
    + intros [H1 [_ H3]]. destruct (H1 eq_refl) as [Hm Hq]. split; [|exact H3]. split; [exact Hm|].
      destruct (qget (pkey p) qb); [reflexivity | congruence].
  - split.
    + intros [H1 H3]. split; [discriminate|]. split; [|exact H3]. intros g' Hg. inversion Hg. subst g'.
      destruct (qget (pkey p) qb) as [[t|]|]; try discriminate.
      rewrite !andb_true_iff, delete_due_b_spec, !Z.leb_le in H1. exists t. tauto.
    + intros [_ [H2 H3]]. split; [|exact H3]. destruct (H2 g eq_refl) as [t [G [Hd [Hg1 Hg2]]]].
      rewrite G, !andb_true_iff, delete_due_b_spec, !Z.leb_le. tauto.
  - split.
    + intros [_ H3]. split; [discriminate|]. split; [intros g Hg; discriminate | exact H3].
    + intros [_ [_ H3]]. split; [reflexivity | exact H3].
Qed.

Lemma queue_eqb_eq : forall a b, queue_eqb a b = true <-> a = b.
Proof.
  intros a. induction a as [|[k v] t IH]; intros [|[k' v'] t']; cbn; try (split; [discriminate | intros H; discriminate]).
  - split; auto.
  - rewrite !andb_true_iff, key_eqb_eq, dl_eqb_spec, IH. split.
    + intros [[H1 H2] H3]. subst. reflexivity.
    + intros H. inversion H. auto.
Qed.

Lemma entry_ok_b_spec_l : forall e, entry_ok_b e = true <-> entry_ok e.
Proof.
  intros e. unfold entry_ok_b, entry_ok.
  destruct (e_op e) as [now dl pods| |now p api nok|]; destruct (e_out e) as [d|r|]; try (split; [discriminate | tauto]).
  - apply drain_spec_b_spec.
  - rewrite andb_true_iff, queue_eqb_eq. destruct (d_err d); cbn; split; intros [H1 H2]; split; auto; try discriminate; congruence.
  - apply rec_spec_b_spec.
  - destruct (e_after e); split; auto; discriminate.
Qed.

(* ------------------------------------------------------------------ deadlines along histories *)

Definition selected_keys (now : Z) (dl : option Z) (pods : list pod) : list key := map pkey (selected now dl pods).

Lemma selected_keys_In : forall k now dl pods,
  In k (selected_keys now dl pods) <-> existsb (fun p => key_eqb k (pkey p)) (selected now dl pods) = true.
Proof.
  intros. unfold selected_keys. rewrite in_map_iff, existsb_key_In. split; intros [p [H1 H2]]; exists p; tauto.
Qed.

(* one step: a key that stays queued keeps its deadline or gets an earlier one *)
Lemma step_mono : forall q o k d d',
  qget k q = Some d -> qget k (fst (step q o)) = Some d' -> dl_le d' d.
Proof.
  intros q o k d d' G G'. destruct o as [now dl pods| |now p api nok|]; cbn in G'.
  - pose proof (drain_queue q now dl pods) as Hq. destruct (drain q now dl pods) as [q' x]. cbn in Hq, G'. subst q'.
    rewrite qadd_get, G in G'. destruct (existsb _ _).
    + inversion G'. cbn. apply earlier_le_l.
    + inversion G'. apply dl_le_refl.
  - rewrite G in G'. inversion G'. apply dl_le_refl.
  - pose proof (reconcile_meets_spec q now p api nok) as [_ [_ H]].
    destruct (reconcile q now p api nok) as [q' r]. cbn in H, G'. apply H in G'. rewrite G in G'. inversion G'. apply dl_le_refl.
  - discriminate.
Qed.

(* a drain pass that selects a key leaves it queued under a deadline no later than the pass's own *)
Lemma drain_selected_bound : forall q now dl pods k,
  In k (selected_keys now dl pods) ->
  exists d, qget k (fst (step q (ODrain now dl pods))) = Some d /\ dl_le d dl.
Proof.
  intros q now dl pods k Hk. cbn.
  pose proof (drain_queue q now dl pods) as Hq. destruct (drain q now dl pods) as [q' x]. cbn in Hq |- *. subst q'.
  rewrite qadd_get. apply selected_keys_In in Hk. rewrite Hk. eexists. split; [reflexivity | apply earlier_le_r].
Qed.

(* ... and exactly the minimum of the previous entry and the pass's deadline *)
Lemma drain_selected_min : forall q now dl pods k,
  In k (selected_keys now dl pods) ->
  qget k (fst (step q (ODrain now dl pods))) = Some (earlier (dflt (qget k q)) dl).
Proof.
  intros q now dl pods k Hk. cbn.
  pose proof (drain_queue q now dl pods) as Hq. destruct (drain q now dl pods) as [q' x]. cbn in Hq |- *. subst q'.
  rewrite qadd_get. apply selected_keys_In in Hk. rewrite Hk. reflexivity.
Qed.

(* deadline_never_later: after a drain pass queued k under dl, for as long as k stays queued (whatever drain
   passes with other deadlines, reconciles, API answers happen in between), the deadline in force for k is
   no later than dl. [mid] is any continuation; the hypothesis says k is queued after every prefix of it. *)
Lemma deadline_never_later_l : forall q0 now dl pods k mid,
  In k (selected_keys now dl pods) ->
  (forall m1 m2, mid = m1 ++ m2 -> qget k (run_from (fst (step q0 (ODrain now dl pods))) m1) <> None) ->
  exists d, qget k (run_from (fst (step q0 (ODrain now dl pods))) mid) = Some d /\ dl_le d dl.
Proof.
  intros q0 now dl pods k mid Hk. set (q1 := fst (step q0 (ODrain now dl pods))).
  induction mid as [|o m IH] using rev_ind; intros Hstay.
  - cbn. apply drain_selected_bound. exact Hk.
  - destruct IH as [d [Gd Hd]].
    { intros m1 m2 E. apply (Hstay m1 (m2 ++ [o])). rewrite E, app_assoc. reflexivity. }
    rewrite run_from_app. cbn.
    destruct (qget k (fst (step (run_from q1 m) o))) as [d'|] eqn:G'.
    + exists d'. split; [reflexivity|]. apply (dl_le_trans d' d dl); [exact (step_mono _ _ _ _ _ Gd G') | exact Hd].
    + exfalso. apply (Hstay (m ++ [o]) []); [rewrite app_nil_r; reflexivity|].
      rewrite run_from_app. cbn. exact G'.
Qed.

(* provenance: a key is in the queue only because a drain pass of the history selected it, and the deadline it
   is queued under is the deadline of such a pass *)
Lemma step_provenance : forall q o k d,
  qget k (fst (step q o)) = Some d ->
  qget k q = Some d \/ exists now pods, o = ODrain now d pods /\ In k (selected_keys now d pods).
Proof.
  intros q o k d G'. destruct o as [now dl pods| |now p api nok|]; cbn in G'.
  - pose proof (drain_queue q now dl pods) as Hq. destruct (drain q now dl pods) as [q' x]. cbn in Hq, G'. subst q'.
    rewrite qadd_get in G'. destruct (existsb _ _) eqn:Ex; [|left; exact G'].
    inversion G' as [Hd]. destruct (qget k q) as [e|] eqn:G; cbn in *.
    + destruct (earlier_cases e dl) as [E|E].
      * left. rewrite E. reflexivity.
      * right. rewrite E. exists now, pods. split; [reflexivity|]. apply selected_keys_In. exact Ex.
    + right. exists now, pods. split; [reflexivity|]. apply selected_keys_In. exact Ex.
  - left. exact G'.
  - pose proof (reconcile_meets_spec q now p api nok) as [_ [_ H]].
    destruct (reconcile q now p api nok) as [q' r]. cbn in H, G'. left. apply H. exact G'.
  - discriminate.
Qed.

Lemma queue_entry_provenance_l : forall ops k d,
  qget k (run ops) = Some d ->
  exists pre now pods post, ops = pre ++ ODrain now d pods :: post /\ In k (selected_keys now d pods).
Proof.
  intros ops. induction ops as [|o m IH] using rev_ind; intros k d G.
  - discriminate.
  - rewrite run_snoc in G. apply step_provenance in G. destruct G as [G|[now [pods [E Hk]]]].
    + destruct (IH _ _ G) as [pre [now [pods [post [E Hk]]]]].
      exists pre, now, pods, (post ++ [o]). split; [|exact Hk]. rewrite E, <- app_assoc. reflexivity.
    + exists m, now, pods, []. subst o. auto.
Qed.

(* ------------------------------------------------------------------ the named properties, over all histories *)

Lemma evict_only_evictable_l : forall pre now p api nok,
  r_act (snd (reconcile (run pre) now p api nok)) = Some Evict ->
  may_evict now p /\
  exists pre1 now' dl pods pre2, pre = pre1 ++ ODrain now' dl pods :: pre2 /\ In (pkey p) (selected_keys now' dl pods).
Proof.
  intros pre now p api nok H. destruct (reconcile_meets_spec (run pre) now p api nok) as [H1 _].
  destruct (H1 H) as [Hm Hq]. split; [exact Hm|].
  destruct (qget (pkey p) (run pre)) as [d|] eqn:G; [|congruence].
  destruct (queue_entry_provenance_l _ _ _ G) as [pre1 [now' [pods [pre2 [E Hk]]]]]. eauto 10.
Qed.

Lemma delete_only_with_deadline_l : forall pre now p api nok g,
  r_act (snd (reconcile (run pre) now p api nok)) = Some (Delete g) ->
  exists t,
    qget (pkey p) (run pre) = Some (Some t) /\
    delete_due now p t /\ 1 <= g /\ g = clamp_grace now t /\ g * sec <= Z.max (t - now) sec /\
    exists pre1 now' pods pre2, pre = pre1 ++ ODrain now' (Some t) pods :: pre2 /\ In (pkey p) (selected_keys now' (Some t) pods).
Proof.
  intros pre now p api nok g H. destruct (reconcile_meets_spec (run pre) now p api nok) as [_ [H2 _]].
  destruct (H2 g H) as [t [G [Hd [Hg1 Hg2]]]]. exists t. split; [exact G|]. split; [exact Hd|]. split; [exact Hg1|].
  split.
  - unfold reconcile in H. rewrite G in H. destruct (nfd now p (Some t)).
    + unfold force_delete in H. destruct api; cbn in H; inversion H; reflexivity.
    + unfold rest_of_reconcile in H. destruct (is_active p); cbn in H; [|discriminate].
      destruct (is_evictable now p); cbn in H; [|discriminate]. unfold evict in H. destruct api; cbn in H; discriminate.
  - split; [exact Hg2|]. destruct (queue_entry_provenance_l _ _ _ G) as [pre1 [now' [pods [pre2 [E Hk]]]]]. eauto 10.
Qed.

(* no action at all on a pod that is not queued (a replaced pod with the same name, a restart) *)
Lemma no_action_unless_queued_l : forall q now p api nok,
  qget (pkey p) q = None -> reconcile q now p api nok = (q, mkR None RDone).
Proof. intros q now p api nok G. unfold reconcile. rewrite G. reflexivity. Qed.

Lemma tier_order_l : forall now dl pods p,
  In p (selected now dl pods) ->
  In p pods /\ waiting now p /\
  (due_under now p dl \/ forall p', In p' pods -> waiting now p' -> ~ due_under now p' dl -> tier p <= tier p').
Proof. intros now dl pods p H. destruct (selected_selectable _ _ _ _ H) as [H1 [H2 H3]]. auto. Qed.

(* a drain pass only ever touches the queue entries of the pods it selected *)
Lemma drain_touches_selected_only_l : forall q now dl pods k,
  ~ In k (selected_keys now dl pods) -> qget k (fst (step q (ODrain now dl pods))) = qget k q.
Proof.
  intros q now dl pods k Hk. cbn.
  pose proof (drain_queue q now dl pods) as Hq. destruct (drain q now dl pods) as [q' x]. cbn in Hq |- *. subst q'.
  rewrite qadd_get. destruct (existsb _ _) eqn:Ex; [|reflexivity]. exfalso. apply Hk. apply selected_keys_In. exact Ex.
Qed.

Lemma drain_done_iff_l : forall q now dl pods,
  d_err (snd (drain q now dl pods)) = DOk <-> forall p, In p pods -> ~ waiting now p.
Proof. intros q now dl pods. destruct (drain_meets_spec q now dl pods) as [_ [_ [H _]]]. exact H. Qed.

(* the tier of a pod in terms of the specification's predicates *)
Lemma tier_spec : forall p,
  (tier p = 0 <-> ~ critical_pod p /\ ~ daemon_pod p) /\ (tier p = 1 <-> ~ critical_pod p /\ daemon_pod p) /\
  (tier p = 2 <-> critical_pod p /\ ~ daemon_pod p) /\ (tier p = 3 <-> critical_pod p /\ daemon_pod p).
Proof.
  intros p. unfold tier, critical_pod, daemon_pod, is_critical, is_owned_by_daemonset.
  pose proof (owned_by_spec p daemonset_owner) as HD. unfold daemonset_owner in *.
  destruct (String.eqb_spec (p_prio p) "system-cluster-critical"), (String.eqb_spec (p_prio p) "system-node-critical"),
    (owned_by p ("apps/v1", "DaemonSet")); cbn;
    repeat split; intros; try lia; try tauto; try discriminate;
    try (destruct HD as [HD1 HD2]; try (specialize (HD1 eq_refl)); intuition (try congruence; try discriminate)).
Qed.
