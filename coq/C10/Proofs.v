(* C10 — proofs about the drain model (C10/Model.v). No axioms, no admits. *)
From KV Require Import C10.Model.
Open Scope string_scope.
Open Scope Z_scope.
Open Scope list_scope.

(* ------------------------------------------------------------------ reflection of the basic tests *)

Lemma key_eqb_eq : forall a b : key, key_eqb a b = true <-> a = b.
Proof.
  intros [a1 a2] [b1 b2]. unfold key_eqb. cbn. rewrite andb_true_iff, !Z.eqb_eq.
  split; [intros [H1 H2]; subst; reflexivity | intros H; inversion H; auto].
Qed.

Lemma key_eqb_refl : forall a, key_eqb a a = true.
Proof. intros a. apply key_eqb_eq. reflexivity. Qed.

Lemma key_eqb_neq : forall a b : key, key_eqb a b = false <-> a <> b.
Proof.
  intros a b. split.
  - intros H E. apply key_eqb_eq in E. congruence.
  - intros H. destruct (key_eqb a b) eqn:E; [apply key_eqb_eq in E; contradiction | reflexivity].
Qed.

Lemma key_eqb_sym : forall a b, key_eqb a b = key_eqb b a.
Proof.
  intros a b. destruct (key_eqb a b) eqn:E.
  - apply key_eqb_eq in E. subst. symmetry. apply key_eqb_refl.
  - symmetry. apply key_eqb_neq. apply key_eqb_neq in E. congruence.
Qed.

Lemma owner_eqb_eq : forall a b : owner, owner_eqb a b = true <-> a = b.
Proof.
  intros [a1 a2] [b1 b2]. unfold owner_eqb. cbn. rewrite andb_true_iff, !String.eqb_eq.
  split; [intros [H1 H2]; subst; reflexivity | intros H; inversion H; auto].
Qed.

Lemma owned_by_spec : forall p o, owned_by p o = true <-> In o (p_owners p).
Proof.
  intros p o. unfold owned_by. rewrite existsb_exists. split.
  - intros [x [Hin He]]. apply owner_eqb_eq in He. subst. exact Hin.
  - intros Hin. exists o. split; [exact Hin | apply owner_eqb_eq; reflexivity].
Qed.

Lemma static_spec : forall p, is_owned_by_node p = true <-> static_pod p.
Proof. intros p. apply owned_by_spec. Qed.

Lemma tol_matches_spec : forall t, tol_matches t = true <-> tol_covers t.
Proof.
  intros t. unfold tol_matches, tol_covers, disrupted_key.
  destruct (String.eqb_spec (t_eff t) ""), (String.eqb_spec (t_eff t) "NoSchedule"),
    (String.eqb_spec (t_key t) ""), (String.eqb_spec (t_key t) "karpenter.sh/disrupted"),
    (String.eqb_spec (t_op t) ""), (String.eqb_spec (t_op t) "Equal"), (String.eqb_spec (t_op t) "Exists"),
    (String.eqb_spec (t_val t) ""); cbn; split; intros H; try discriminate; try tauto; try congruence;
    try (exfalso; intuition congruence).
Qed.

Lemma tolerates_spec : forall p, tolerates p = true <-> tolerates_disruption p.
Proof.
  intros p. unfold tolerates, tolerates_disruption. rewrite existsb_exists.
  split; intros [t [Hin Ht]]; exists t; (split; [exact Hin | apply tol_matches_spec; exact Ht]).
Qed.

Lemma dnd_active_spec : forall now p, dnd_active now p = true <-> dnd_protected now p.
Proof.
  intros now p. unfold dnd_active, dnd_protected. destruct (p_dnd p) as [| | |d]; try (split; [discriminate | tauto]).
  - split; auto.
  - destruct (Z.leb_spec d 0).
    + split; [discriminate | intros [H1 _]; lia].
    + destruct (p_start p) as [s|].
      * rewrite Z.ltb_lt. split; [intros; split; lia | intros [_ H2]; exact H2].
      * split; auto.
Qed.

Lemma not_true_false : forall b, b <> true <-> b = false.
Proof. intros []; split; congruence. Qed.

Lemma negb_true_not : forall b (P : Prop), (b = true <-> P) -> (negb b = true <-> ~ P).
Proof. intros [] P [H1 H2]; cbn; split; intros H; try discriminate; try tauto. intros HP. apply H2 in HP. discriminate. Qed.

Lemma may_evict_b_spec : forall now p, may_evict_b now p = true <-> may_evict now p.
Proof.
  intros now p. unfold may_evict_b, may_evict. rewrite !andb_true_iff.
  rewrite (negb_true_not _ _ (dnd_active_spec now p)).
  rewrite (negb_true_not _ _ (owned_by_spec p node_owner)).
  rewrite (negb_true_not _ _ (tolerates_spec p)).
  unfold static_pod, node_owner.
  destruct (p_terminal p), (p_del p); cbn; split; intros H; try tauto; intuition congruence.
Qed.

(* the model's IsEvictable is the specification's may_evict *)
Lemma is_evictable_spec : forall now p, is_evictable now p = true <-> may_evict now p.
Proof.
  intros now p. rewrite <- may_evict_b_spec. unfold is_evictable, may_evict_b, is_active, is_terminal, is_terminating, is_owned_by_node.
  destruct (p_terminal p), (is_some (p_del p)), (tolerates p), (owned_by p node_owner), (dnd_active now p); cbn; tauto.
Qed.

Lemma delete_due_b_spec : forall now p t, delete_due_b now p t = true <-> delete_due now p t.
Proof.
  intros now p t. unfold delete_due_b, delete_due. destruct (p_del p) as [d|].
  - apply Z.ltb_lt.
  - destruct (p_grace p) as [g|].
    + rewrite Z.ltb_lt. split; [intros H; exists g; auto | intros [g' [E H]]; inversion E; subst; exact H].
    + split; [discriminate | intros [g' [E _]]; discriminate].
Qed.

(* the model's needsForceDelete under a deadline is the specification's delete_due *)
Lemma nfd_spec : forall now p t, nfd now p (Some t) = true <-> delete_due now p t.
Proof.
  intros now p t. rewrite <- delete_due_b_spec. unfold nfd, delete_due_b, eligible_forced, is_terminating.
  destruct (p_del p); cbn; tauto.
Qed.

Lemma nfd_none : forall now p, nfd now p None = false.
Proof. reflexivity. Qed.

Lemma due_under_b_spec : forall now p dl, due_under_b now p dl = true <-> due_under now p dl.
Proof. intros now p [t|]; cbn; [apply delete_due_b_spec | split; [discriminate | tauto]]. Qed.

Lemma nfd_due_under : forall now p dl, nfd now p dl = true <-> due_under now p dl.
Proof. intros now p [t|]; [apply nfd_spec | cbn; split; [discriminate | tauto]]. Qed.

Lemma waiting_b_spec : forall now p, waiting_b now p = true <-> waiting now p.
Proof.
  intros now p. unfold waiting_b, waiting. rewrite !andb_true_iff.
  rewrite (negb_true_not _ _ (owned_by_spec p node_owner)).
  rewrite (negb_true_not _ _ (tolerates_spec p)).
  unfold static_pod, node_owner.
  destruct (p_terminal p); cbn; destruct (p_del p) as [d|]; rewrite ?Z.leb_le; split; intros H; try tauto; intuition congruence.
Qed.

Lemma is_waiting_eviction_spec : forall now p, is_waiting_eviction now p = true <-> waiting now p.
Proof.
  intros now p. rewrite <- waiting_b_spec.
  unfold is_waiting_eviction, is_drainable, waiting_b, is_terminal, is_stuck_terminating, is_owned_by_node.
  destruct (p_del p) as [d|].
  - destruct (Z.ltb_spec minute (now - d)), (Z.leb_spec (now - d) minute); try lia;
      destruct (p_terminal p), (tolerates p), (owned_by p node_owner); cbn; tauto.
  - destruct (p_terminal p), (tolerates p), (owned_by p node_owner); cbn; tauto.
Qed.

Lemma dl_leb_spec : forall a b, dl_leb a b = true <-> dl_le a b.
Proof. intros [x|] [y|]; cbn; rewrite ?Z.leb_le; split; auto; try discriminate; tauto. Qed.

Lemma dl_eqb_spec : forall a b, dl_eqb a b = true <-> a = b.
Proof.
  intros [x|] [y|]; cbn; rewrite ?Z.eqb_eq; split; intros H; try discriminate; try congruence; auto.
Qed.

Lemma dl_le_refl : forall a, dl_le a a.
Proof. intros [x|]; cbn; auto; lia. Qed.

Lemma dl_le_trans : forall a b c, dl_le a b -> dl_le b c -> dl_le a c.
Proof. intros [x|] [y|] [z|]; cbn; intros; auto; try lia; try tauto. Qed.

Lemma earlier_le_l : forall a b, dl_le (earlier a b) a.
Proof. intros [x|] [y|]; cbn; auto; try lia. destruct (Z.ltb_spec x y); cbn; lia. Qed.

Lemma earlier_le_r : forall a b, dl_le (earlier a b) b.
Proof. intros [x|] [y|]; cbn; auto; try lia. destruct (Z.ltb_spec x y); cbn; lia. Qed.

Lemma earlier_cases : forall a b, earlier a b = a \/ earlier a b = b.
Proof. intros [x|] [y|]; cbn; auto. destruct (x <? y); auto. Qed.

Lemma earlier_idem : forall a b, earlier (earlier a b) b = earlier a b.
Proof.
  intros [x|] [y|]; cbn; auto.
  - destruct (Z.ltb_spec x y) as [H|H]; cbn; [destruct (Z.ltb_spec x y); [reflexivity | lia] | rewrite Z.ltb_irrefl; reflexivity].
  - rewrite Z.ltb_irrefl. reflexivity.
Qed.

(* greatest lower bound: the queue deadline is the minimum of the deadlines it was built from *)
Lemma earlier_glb : forall a b c, dl_le c a -> dl_le c b -> dl_le c (earlier a b).
Proof. intros a b c Ha Hb. destruct (earlier_cases a b) as [E|E]; rewrite E; assumption. Qed.
