(* C17 — model of the exclusive-device bookkeeping of pkg/scheduling/dynamicresources/allocationtracker.go
   (Commit, ReleaseInstanceTypes, IsAllocated) for allocations that carry no shared counters and no consumable
   capacity. The allocator's search that proposes allocations is not modelled. *)
From KV Require Import C17.Model.
Open Scope string_scope.
Open Scope Z_scope.

Record dev := mkDev { d_name : string; d_template : bool }.
Definition ncid := string.
Definition ity := string.

Record tracker := mkT {
  t_pre : list string;                               (* PreallocatedDevices *)
  t_meta : string -> option (ncid * list ity);       (* InflightClusterAllocations: device -> (NodeClaim, instance types) *)
  t_bync : ncid -> ity -> list string;               (* InflightClusterAllocationsByNodeClaim *)
  t_tmpl : ncid -> ity -> list string                (* InflightTemplateAllocations *)
}.

Definition dinit (pre : list string) : tracker :=
  mkT pre (fun _ => None) (fun _ _ => []) (fun _ _ => []).

Definition set2 (f : ncid -> ity -> list string) (n : ncid) (it : ity) (v : list string) : ncid -> ity -> list string :=
  fun n' it' => if String.eqb n' n && String.eqb it' it then v else f n' it'.

(* one device of Commit; None = one of the "already allocated" panics *)
Definition dcommit1 (t : tracker) (n : ncid) (it : ity) (d : dev) : option tracker :=
  let x := d_name d in
  if d_template d then
    if mem x (t_tmpl t n it) then None
    else Some (mkT (t_pre t) (t_meta t) (t_bync t) (set2 (t_tmpl t) n it (x :: t_tmpl t n it)))
  else
    if mem x (t_bync t n it) then None
    else
      let by' := set2 (t_bync t) n it (x :: t_bync t n it) in
      match t_meta t x with
      | Some (n', its) =>
          if negb (String.eqb n' n) then None
          else if mem it its then None
          else Some (mkT (t_pre t) (upd (t_meta t) x (Some (n, it :: its))) by' (t_tmpl t))
      | None => Some (mkT (t_pre t) (upd (t_meta t) x (Some (n, [it]))) by' (t_tmpl t))
      end.

Definition flatten (its : list (ity * list dev)) : list (ity * dev) :=
  flat_map (fun p => map (fun d => (fst p, d)) (snd p)) its.

Fixpoint dcommit_l (t : tracker) (n : ncid) (l : list (ity * dev)) : option tracker :=
  match l with
  | [] => Some t
  | (it, d) :: r => match dcommit1 t n it d with None => None | Some t' => dcommit_l t' n r end
  end.

Definition dcommit (t : tracker) (n : ncid) (its : list (ity * list dev)) : option tracker :=
  dcommit_l t n (flatten its).

Definition remove_s (x : string) (l : list string) : list string := filter (fun y => negb (String.eqb y x)) l.

(* the per-device part of ReleaseInstanceTypes for instance type it; None = a "missing reference" panic *)
Fixpoint drelease_devs (meta : string -> option (ncid * list ity)) (it : ity) (ds : list string)
  : option (string -> option (ncid * list ity)) :=
  match ds with
  | [] => Some meta
  | x :: r =>
      match meta x with
      | None => None
      | Some (n', its) =>
          if negb (mem it its) then None
          else let its' := remove_s it its in
               drelease_devs (upd meta x (if is_nil its' then None else Some (n', its'))) it r
      end
  end.

Definition drelease1 (t : tracker) (n : ncid) (it : ity) : option tracker :=
  match drelease_devs (t_meta t) it (t_bync t n it) with
  | None => None
  | Some meta' => Some (mkT (t_pre t) meta' (set2 (t_bync t) n it []) (set2 (t_tmpl t) n it []))
  end.

Fixpoint drelease (t : tracker) (n : ncid) (its : list ity) : option tracker :=
  match its with
  | [] => Some t
  | it :: r => match drelease1 t n it with None => None | Some t' => drelease t' n r end
  end.

Definition dis_allocated (t : tracker) (d : dev) (n : ncid) (it : ity) : bool :=
  if d_template d then mem (d_name d) (t_tmpl t n it)
  else if mem (d_name d) (t_pre t) then true
  else match t_meta t (d_name d) with
       | Some (n', its) => if negb (String.eqb n' n) then true else mem it its
       | None => false
       end.

Inductive dop :=
| DCommit (n : ncid) (its : list (ity * list dev))
| DRelease (n : ncid) (its : list ity)
| DIsAlloc (d : dev) (n : ncid) (it : ity).

Inductive dout := DUnit | DBool (b : bool) | DPanic.

Definition dstep (t : tracker) (o : dop) : option tracker * dout :=
  match o with
  | DCommit n its => match dcommit t n its with Some t' => (Some t', DUnit) | None => (None, DPanic) end
  | DRelease n its => match drelease t n its with Some t' => (Some t', DUnit) | None => (None, DPanic) end
  | DIsAlloc d n it => (Some t, DBool (dis_allocated t d n it))
  end.

Fixpoint drun (t : tracker) (ops : list dop) : option tracker :=
  match ops with
  | [] => Some t
  | o :: r => match fst (dstep t o) with None => None | Some t' => drun t' r end
  end.

(* the allocator's guard: every device of the proposal is reported free for its (NodeClaim, instance type), no
   device twice under one instance type, no instance type twice *)
Fixpoint guarded_l (t : tracker) (n : ncid) (l : list (ity * dev)) : bool :=
  match l with
  | [] => true
  | (it, d) :: r =>
      negb (dis_allocated t d n it) &&
      negb (existsb (fun q => String.eqb (fst q) it && String.eqb (d_name (snd q)) (d_name d) &&
                              Bool.eqb (d_template (snd q)) (d_template d)) r) &&
      guarded_l t n r
  end.

Definition guarded (t : tracker) (n : ncid) (its : list (ity * list dev)) : bool := guarded_l t n (flatten its).

(* ---- observation used by the correspondence check: IsAllocated over a fixed universe ---- *)
Definition u_devs : list string := ["d1"; "d2"; "d3"; "d4"].
Definition u_ncs : list ncid := ["n1"; "n2"; "n3"].
Definition u_its : list ity := ["a"; "b"; "c"].

Definition observe (t : tracker) : list bool :=
  flat_map (fun d => flat_map (fun tm => flat_map (fun n => map (fun it => dis_allocated t (mkDev d tm) n it) u_its) u_ncs)
                              [false; true]) u_devs.

Definition dobs := (dout * list bool * list (string * list string))%type.

Definition dout_eqb (a b : dout) : bool :=
  match a, b with
  | DUnit, DUnit | DPanic, DPanic => true
  | DBool x, DBool y => Bool.eqb x y
  | _, _ => false
  end.

Definition bools_eqb (a b : list bool) : bool :=
  (length a =? length b)%nat && forallb (fun p => Bool.eqb (fst p) (snd p)) (combine a b).

(* oracle on the implementation's maps: every in-cluster device has at most one owner *)
Definition single_owner_b (owners : list (string * list string)) : bool :=
  forallb (fun p => (length (snd p) <=? 1)%nat) owners.

Fixpoint checkT_go (t : option tracker) (ops : list dop) (obs : list dobs) : bool * bool :=
  match ops, obs with
  | [], [] => (true, true)
  | o :: ops', (out, bits, owners) :: obs' =>
      match t with
      | None => (false, true)
      | Some t0 =>
          let '(t', out') := dstep t0 o in
          let here := dout_eqb out out' &&
                      match t' with Some t1 => bools_eqb bits (observe t1) | None => true end in
          let '(c, r) := checkT_go t' ops' obs' in
          (here && c, single_owner_b owners && r)
      end
  | _, _ => (false, true)
  end.

Definition checkT (pre : list string) (ops : list dop) (obs : list dobs) : bool * bool :=
  checkT_go (Some (dinit pre)) ops obs.
