(* C17 — model of the exclusive-device bookkeeping of pkg/scheduling/dynamicresources/allocationtracker.go
   (Commit, ReleaseInstanceTypes, IsAllocated) for allocations that carry no shared counters and no consumable
   capacity. The allocator's search that proposes allocations is not modelled. *)
From KV Require Import C17.Model.
Open Scope string_scope.
Open Scope Z_scope.

Record dev := mkDev { d_name : string; d_template : bool }.
Definition ncid := string.
Definition ity := string.

Record tracker := mkT {
  t_pre : list string;                               (* PreallocatedDevices *)
  t_meta : string -> option (ncid * list ity);       (* InflightClusterAllocations: device -> (NodeClaim, instance types) *)
  t_bync : ncid -> ity -> list string;               (* InflightClusterAllocationsByNodeClaim *)
  t_tmpl : ncid -> ity -> list string                (* InflightTemplateAllocations *)
}.

Definition dinit (pre : list string) : tracker :=
  mkT pre (fun _ => None) (fun _ _ => []) (fun _ _ => []).

Definition set2 (f : ncid -> ity -> list string) (n : ncid) (it : ity) (v : list string) : ncid -> ity -> list string :=
  fun n' it' => if String.eqb n' n && String.eqb it' it then v else f n' it'.

(* one device of Commit; None = one of the "already allocated" panics *)
Definition dcommit1 (t : tracker) (n : ncid) (it : ity) (d : dev) : option tracker :=
  let x := d_name d in
  if d_template d then
    if mem x (t_tmpl t n it) then None
    else Some (mkT (t_pre t) (t_meta t) (t_bync t) (set2 (t_tmpl t) n it (x :: t_tmpl t n it)))
  else
    if mem x (t_bync t n it) then None
    else
      let by' := set2 (t_bync t) n it (x :: t_bync t n it) in
      match t_meta t x with
      | Some (n', its) =>
          if negb (String.eqb n' n) then None
          else if mem it its then None
          else Some (mkT (t_pre t) (upd (t_meta t) x (Some (n, it :: its))) by' (t_tmpl t))
      | None => Some (mkT (t_pre t) (upd (t_meta t) x (Some (n, [it]))) by' (t_tmpl t))
      end.

Definition flatten (its : list (ity * list dev)) : list (ity * dev) :=
  flat_map (fun p => map (fun d => (fst p, d)) (snd p)) its.

Fixpoint dcommit_l (t : tracker) (n : ncid) (l : list (ity * dev)) : option tracker :=
  match l with
  | [] => Some t
  | (it, d) :: r => match dcommit1 t n it d with None => None | Some t' => dcommit_l t' n r end
  end.

Definition dcommit (t : tracker) (n : ncid) (its : list (ity * list dev)) : option tracker :=
  dcommit_l t n (flatten its).

Definition remove_s (x : string) (l : list string) : list string := filter (fun y => negb (String.eqb y x)) l.

(* the per-device part of ReleaseInstanceTypes for instance type it; None = a "missing reference" panic *)
Fixpoint drelease_devs (meta : string -> option (ncid * list ity)) (it : ity) (ds : list string)
  : option (string -> option (ncid * list ity)) :=
  match ds with
  | [] => Some meta
  | x :: r =>
      match meta x with
      | None => None
      | Some (n', its) =>
          if negb (mem it its) then None
          else let its' := remove_s it its in
               drelease_devs (upd meta x (if is_nil its' then None else Some (n', its'))) it r
      end
  end.

Definition drelease1 (t : tracker) (n : ncid) (it : ity) : option tracker :=
  match drelease_devs (t_meta t) it (t_bync t n it) with
  | None => None
  | Some meta' => Some (mkT (t_pre t) meta' (set2 (t_bync t) n it []) (set2 (t_tmpl t) n it []))
  end.

Fixpoint drelease (t : tracker) (n : ncid) (its : list ity) : option tracker :=
  match its with
  | [] => Some t
  | it :: r => match drelease1 t n it with None => None | Some t' => drelease t' n r end
  end.

Definition dis_allocated (t : tracker) (d : dev) (n : ncid) (it : ity) : bool :=
  if d_template d then mem (d_name d) (t_tmpl t n it)
  else if mem (d_name d) (t_pre t) then true
  else match t_meta t (d_name d) with
       | Some (n', its) => if negb (String.eqb n' n) then true else mem it its
       | None => false
       end.

Inductive dop :=
| DCommit (n : ncid) (its : list (ity * list dev))
| DRelease (n : ncid) (its : list ity)
| DIsAlloc (d : dev) (n : ncid) (it : ity).

Inductive dout := DUnit | DBool (b : bool) | DPanic.

Definition dstep (t : tracker) (o : dop) : option tracker * dout :=
  match o with
  | DCommit n its => match dcommit t n its with Some t' => (Some t', DUnit) | None => (None, DPanic) end
  | DRelease n its => match drelease t n its with Some t' => (Some t', DUnit) | None => (None, DPanic) end
  | DIsAlloc d n it => (Some t, DBool (dis_allocated t d n it))
  end.

Fixpoint drun (t : tracker) (ops : list dop) : option tracker :=
  match ops with
  | [] => Some t
  | o :: r => match fst (dstep t o) with None => None | Some t' => drun t' r end
  end.

(* the allocator's guard: every device of the proposal is reported free for its (NodeClaim, instance type), no
   device twice under one instance type, no instance type twice *)
Fixpoint guarded_l (t : tracker) (n : ncid) (l : list (ity * dev)) : bool :=
  match l with
  | [] => true
  | (it, d) :: r =>
      negb (dis_allocated t d n it) &&
      negb (existsb (fun q => String.eqb (fst q) it && String.eqb (d_name (snd q)) (d_name d) &&
                              Bool.eqb (d_template (snd q)) (d_template d)) r) &&
      guarded_l t n r
  end.

Definition guarded (t : tracker) (n : ncid) (its : list (ity * list dev)) : bool := guarded_l t n (flatten its).

(* ---- observation used by the correspondence check: IsAllocated over a fixed universe ---- *)
Definition u_devs : list string := ["d1"; "d2"; "d3"; "d4"].
Definition u_ncs : list ncid := ["n1"; "n2"; "n3"].
Definition u_its : list ity := ["a"; "b"; "c"].

Definition observe (t : tracker) : list bool :=
  flat_map (fun d => flat_map (fun tm => flat_map (fun n => map (fun it => dis_allocated t (mkDev d tm) n it) u_its) u_ncs)
                              [false; true]) u_devs.

Definition dobs := (dout * list bool * list (string * list string))%type.

Definition dout_eqb (a b : dout) : bool :=
  match a, b with
  | DUnit, DUnit | DPanic, DPanic => true
  | DBool x, DBool y => Bool.eqb x y
  | _, _ => false
  end.

Definition bools_eqb (a b : list bool) : bool :=
  (length a =? length b)%nat && forallb (fun p => Bool.eqb (fst p) (snd p)) (combine a b).

(* oracle on the implementation's maps: every in-cluster device has at most one owner *)
Definition single_owner_b (owners : list (string * list string)) : bool :=
  forallb (fun p => (length (snd p) <=? 1)%nat) owners.

Fixpoint checkT_go (t : option tracker) (ops : list dop) (obs : list dobs) : bool * bool :=
  match ops, obs with
  | [], [] => (true, true)
  | o :: ops', (out, bits, owners) :: obs' =>
      match t with
      | None => (false, true)
      | Some t0 =>
          let '(t', out') := dstep t0 o in
          let here := dout_eqb out out' &&
                      match t' with Some t1 => bools_eqb bits (observe t1) | None => true end in
          let '(c, r) := checkT_go t' ops' obs' in
          (here && c, single_owner_b owners && r)
      end
  | _, _ => (false, true)
  end.

Definition checkT (pre : list string) (ops : list dop) (obs : list dobs) : bool * bool :=
  checkT_go (Some (dinit pre)) ops obs.

(* ====================================================================================================
   Shared counters (partitionable devices) and consumable capacity (allowMultipleAllocations devices).
   partitionable_devices.go / consumable_capacity.go keep, for in-cluster pools and devices, the cumulative
   consumption per (NodeClaim, instance type) and charge the shared budget with the pessimistic maximum over the
   NodeClaim's instance types (a NodeClaim collapses to one of them): commit charges max'-max, release refunds
   max-max'. A budget key is "pool/counterSet/counter" or "device/dimension". Template (potential) pools and devices
   are private to a (NodeClaim, instance type) and are charged directly. Consumptions are non-negative.
   ==================================================================================================== *)
Definition key := string.
Definition cons := list (key * Z).

Fixpoint look (k : key) (c : cons) : Z :=
  match c with [] => 0 | (k', v) :: t => if String.eqb k k' then v else look k t end.

Definition posd (d : Z) : Z := if 0 <? d then d else 0.

Fixpoint pmaxl (f : ity -> Z) (its : list ity) : Z :=
  match its with [] => 0 | it :: r => Z.max (f it) (pmaxl f r) end.

Record ledger := mkL {
  l_its : ncid -> list ity;                 (* instance types with an entry for the NodeClaim *)
  l_stored : ncid -> ity -> key -> Z;       (* countersByNodeClaimIT / consumedCapacityByNodeClaimIT *)
  l_used : key -> Z                         (* total charged: InflightConsumedCapacity, or initial - RemainingCounters *)
}.

Definition linit : ledger := mkL (fun _ => []) (fun _ _ _ => 0) (fun _ => 0).

Definition pmax (l : ledger) (n : ncid) (k : key) : Z := pmaxl (fun it => l_stored l n it k) (l_its l n).

Definition find_cons (it : ity) (new : list (ity * cons)) : option cons :=
  match find (fun p => String.eqb (fst p) it) new with Some p => Some (snd p) | None => None end.

Definition add_its (new : list (ity * cons)) (its : list ity) : list ity :=
  fold_left (fun acc p => if mem (fst p) acc then acc else app acc [fst p]) new its.

(* commitCounters / commitCapacity *)
Definition lcommit (l : ledger) (n : ncid) (new : list (ity * cons)) : ledger :=
  if is_nil new then l else
  let stored' := fun n' it k =>
        if String.eqb n' n then
          match find_cons it new with Some c => l_stored l n' it k + look k c | None => l_stored l n' it k end
        else l_stored l n' it k in
  let its' := fun n' => if String.eqb n' n then add_its new (l_its l n) else l_its l n' in
  let l1 := mkL its' stored' (l_used l) in
  mkL its' stored' (fun k => l_used l k + posd (pmax l1 n k - pmax l n k)).

(* releaseCounters / releaseCapacity *)
Definition lrelease (l : ledger) (n : ncid) (its : list ity) : ledger :=
  let stored' := fun n' it k => if String.eqb n' n && mem it its then 0 else l_stored l n' it k in
  let its' := fun n' => if String.eqb n' n then filter (fun it => negb (mem it its)) (l_its l n) else l_its l n' in
  let l1 := mkL its' stored' (l_used l) in
  mkL its' stored' (fun k => l_used l k - posd (pmax l n k - pmax l1 n k)).

(* the allocator's check, per instance type of the proposal: what is charged so far plus this instance type's new
   consumption stays within the budget (checkCounters: remaining - allocating >= need; checkCapacity:
   preallocated + inflight + allocating + new <= capacity) *)
Definition lguard (budget : key -> Z) (l : ledger) (new : list (ity * cons)) : Prop :=
  NoDup (map fst new) /\
  forall it c, In (it, c) new -> forall k, 0 <= look k c /\ l_used l k + look k c <= budget k.

Fixpoint nodup_b (l : list string) : bool :=
  match l with [] => true | x :: t => negb (mem x t) && nodup_b t end.

(* the same check over a finite list of keys (the keys the case mentions) *)
Definition lguard_b (budget : key -> Z) (ks : list key) (l : ledger) (new : list (ity * cons)) : bool :=
  nodup_b (map fst new) &&
  forallb (fun p => forallb (fun k => (0 <=? look k (snd p)) && (l_used l k + look k (snd p) <=? budget k)) ks) new.

(* template pools / devices: private to (NodeClaim, instance type) *)
Definition tledger := ncid -> ity -> key -> Z.

Definition tcommit (t : tledger) (n : ncid) (new : list (ity * cons)) : tledger :=
  fun n' it k => if String.eqb n' n then
                   match find_cons it new with Some c => t n' it k + look k c | None => t n' it k end
                 else t n' it k.

Definition trelease (t : tledger) (n : ncid) (its : list ity) : tledger :=
  fun n' it k => if String.eqb n' n && mem it its then 0 else t n' it k.

(* ---- the whole tracker ---- *)
Record xtracker := mkX { x_excl : tracker; x_cnt : ledger; x_cap : ledger; x_tmpl : tledger }.

Definition xinit (pre : list string) : xtracker := mkX (dinit pre) linit linit (fun _ _ _ => 0).

Inductive xop :=
| XCommit (n : ncid) (devs : list (ity * list dev)) (cnt cap tmpl : list (ity * cons))
| XRelease (n : ncid) (its : list ity)
| XIsAlloc (d : dev) (n : ncid) (it : ity).

Definition xstep (x : xtracker) (o : xop) : option xtracker * dout :=
  match o with
  | XCommit n devs cnt cap tmpl =>
      match dcommit (x_excl x) n devs with
      | None => (None, DPanic)
      | Some t' => (Some (mkX t' (lcommit (x_cnt x) n cnt) (lcommit (x_cap x) n cap) (tcommit (x_tmpl x) n tmpl)), DUnit)
      end
  | XRelease n its =>
      match drelease (x_excl x) n its with
      | None => (None, DPanic)
      | Some t' => (Some (mkX t' (lrelease (x_cnt x) n its) (lrelease (x_cap x) n its) (trelease (x_tmpl x) n its)), DUnit)
      end
  | XIsAlloc d n it => (Some x, DBool (dis_allocated (x_excl x) d n it))
  end.

Fixpoint xrun (x : xtracker) (ops : list xop) : option xtracker :=
  match ops with
  | [] => Some x
  | o :: r => match fst (xstep x o) with None => None | Some x' => xrun x' r end
  end.

(* ---- consumable capacity request policy (calculateConsumedCapacity + violatesPolicy), integral quantities ---- *)
Record policy := mkPol {
  p_default : option Z;
  p_range : option (option Z * option Z * option Z);   (* ValidRange: Min, Max, Step *)
  p_values : list Z                                   (* ValidValues, ascending; [] = nil *)
}.

Definition round_up_range (req mn : Z) (step : option Z) : Z :=
  if req <? mn then mn
  else match step with
       | None => req
       | Some s => let added := req - mn in
                   let n := Z.quot added s in
                   mn + s * (if Z.rem added s =? 0 then n else n + 1)
       end.

Fixpoint round_up_values (req : Z) (vs : list Z) : Z :=
  match vs with [] => req | v :: t => if req <=? v then v else round_up_values req t end.

(* total = DeviceCapacity.Value; None = no RequestPolicy *)
Definition consumed_capacity (req : option Z) (total : Z) (pol : option policy) : Z :=
  match req with
  | None => match pol with
            | Some p => match p_default p with Some d => d | None => total end
            | None => total
            end
  | Some r =>
      match pol with
      | None => r
      | Some p =>
          match p_range p with
          | Some (Some mn, _, step) => round_up_range r mn step
          | _ => match p_values p with [] => r | vs => round_up_values r vs end
          end
      end
  end.

Definition violates_policy (c : Z) (pol : option policy) : bool :=
  match pol with
  | None => false
  | Some p =>
      if match p_default p with Some d => c =? d | None => false end then false
      else match p_range p with
           | Some (mn, mx, step) =>
               (match mx with Some m => m <? c | None => false end) ||
               (match step, mn with
                | Some s, Some m => negb (Z.rem (c - m) s =? 0)
                | _, _ => false
                end)
           | None => match p_values p with
                     | [] => false
                     | vs => negb (existsb (fun v => c =? v) vs)
                     end
           end
  end.

(* ---- Allocator.ClassifyClaims, per claim: allocated on the API server? reserved only by pods that are being
   deleted? already allocated by an earlier pod of this pass (in-memory metadata)? ---- *)
Inductive cls := CUnalloc | CInCluster | CInMemory.

Definition classify (alloc only_deleting in_memory : bool) : cls :=
  let reallocate := alloc && only_deleting in
  if reallocate && negb in_memory then CUnalloc
  else if alloc && negb reallocate then CInCluster
  else if in_memory then CInMemory
  else CUnalloc.

(* the order of the tests before commit 4c084d0ce: the deleting-pods test came first *)
Definition classify_before_fix (alloc only_deleting in_memory : bool) : cls :=
  if alloc && only_deleting then CUnalloc
  else if alloc then CInCluster
  else if in_memory then CInMemory
  else CUnalloc.

Definition cls_eqb (a b : cls) : bool :=
  match a, b with CUnalloc, CUnalloc | CInCluster, CInCluster | CInMemory, CInMemory => true | _, _ => false end.
