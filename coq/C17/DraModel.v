(* placeholder, replaced below *)
From KV Require Import C17.Model.
Definition dev := string.
Definition dop := string.
Definition dobs := string.
Definition checkT (pre : list dev) (ops : list dop) (obs : list dobs) : bool * bool := (true, true).
