(* C17 — the DRA half of the property as a specification over the final allocation records of a scheduling pass
   (Results.DRAClaimAllocationMetadata: per ResourceClaim, per instance type of its NodeClaim, the devices and the
   capacity consumed), written against the property text. A NodeClaim is a superposition of instance types and
   collapses to one of them, so shared budgets are judged in the worst case over each NodeClaim's instance types;
   template devices and pools exist once per (NodeClaim, instance type). *)
From KV Require Import C17.Model C17.Spec C17.DraModel.
Open Scope string_scope.
Open Scope Z_scope.

Record arec := mkRec {
  r_claim : string; r_nc : ncid; r_it : ity; r_dev : string;
  r_tmpl : bool;        (* template (potential) device *)
  r_excl : bool;        (* not allowMultipleAllocations *)
  r_uses : cons         (* budget keys charged: "device#dimension" capacity, "driver|pool|set|counter" counters *)
}.

Definition same_slot (a b : arec) : bool :=
  String.eqb (r_nc a) (r_nc b) && String.eqb (r_it a) (r_it b) && String.eqb (r_dev a) (r_dev b) && Bool.eqb (r_tmpl a) (r_tmpl b).

Definition count_slot (a : arec) (recs : list arec) : nat := length (filter (same_slot a) recs).

Definition sum_use (k : key) (rs : list arec) : Z := fold_right (fun r acc => look k (r_uses r) + acc) 0 rs.

Definition sel (n : ncid) (it : ity) (tmpl : bool) (recs : list arec) : list arec :=
  filter (fun r => String.eqb (r_nc r) n && String.eqb (r_it r) it && Bool.eqb (r_tmpl r) tmpl) recs.

Definition ncs_of (recs : list arec) : list ncid := dedup (map r_nc recs).
Definition its_of (recs : list arec) : list ity := dedup (map r_it recs).

(* worst-case charge of an in-cluster budget: every NodeClaim collapses to its most consuming instance type *)
Definition worst (k : key) (recs : list arec) : Z :=
  fold_right (fun n acc => pmaxl (fun it => sum_use k (sel n it false recs)) (its_of recs) + acc) 0 (ncs_of recs).

Definition final_ok (pre : list string) (budgets tbudgets : list (key * Z)) (recs : list arec) : Prop :=
  (* an exclusive in-cluster device serves one NodeClaim only *)
  (forall a b, In a recs -> In b recs -> r_excl a = true -> r_tmpl a = false -> r_tmpl b = false ->
               r_dev a = r_dev b -> r_nc a = r_nc b) /\
  (* within one (NodeClaim, instance type) an exclusive device is assigned once: never to two claims *)
  (forall a, In a recs -> r_excl a = true -> count_slot a recs = 1%nat) /\
  (* a device allocated on the API server is not handed out again *)
  (forall a, In a recs -> r_excl a = true -> r_tmpl a = false -> ~ In (r_dev a) pre) /\
  (* shared in-cluster capacity and counters are not over-consumed in any collapse *)
  (forall k b, In (k, b) budgets -> worst k recs <= b) /\
  (* template capacity and counters are not over-consumed on any (NodeClaim, instance type) *)
  (forall k b n it, In (k, b) tbudgets -> In n (ncs_of recs) -> In it (its_of recs) -> sum_use k (sel n it true recs) <= b).

Definition final_ok_b (pre : list string) (budgets tbudgets : list (key * Z)) (recs : list arec) : bool :=
  forallb (fun a => forallb (fun b => negb (r_excl a && negb (r_tmpl a) && negb (r_tmpl b) && String.eqb (r_dev a) (r_dev b))
                                      || String.eqb (r_nc a) (r_nc b)) recs) recs &&
  forallb (fun a => negb (r_excl a) || (count_slot a recs =? 1)%nat) recs &&
  forallb (fun a => negb (r_excl a && negb (r_tmpl a)) || negb (mem (r_dev a) pre)) recs &&
  forallb (fun kb => worst (fst kb) recs <=? snd kb) budgets &&
  forallb (fun kb => forallb (fun n => forallb (fun it => sum_use (fst kb) (sel n it true recs) <=? snd kb) (its_of recs)) (ncs_of recs)) tbudgets.

(* observed budget state of the tracker after an operation *)
Definition budgets_ok (rem : list (key * Z)) (infl capb : list (key * Z)) (tused : list (ncid * ity * key * Z)) (tb : list (key * Z)) : Prop :=
  (forall k v, In (k, v) rem -> 0 <= v) /\
  (forall k v, In (k, v) infl -> match assoc k capb with Some b => v <= b | None => False end) /\
  (forall n it k v, In (n, it, k, v) tused -> match assoc k tb with Some b => v <= b | None => False end).

Definition budgets_ok_b (rem : list (key * Z)) (infl capb : list (key * Z)) (tused : list (ncid * ity * key * Z)) (tb : list (key * Z)) : bool :=
  forallb (fun kv => 0 <=? snd kv) rem &&
  forallb (fun kv => match assoc (fst kv) capb with Some b => snd kv <=? b | None => false end) infl &&
  forallb (fun e => match assoc (snd (fst e)) tb with Some b => snd e <=? b | None => false end) tused.
