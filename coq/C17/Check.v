(* C17 — correspondence check and oracle, evaluated by vm_compute on what the Go harness observed on the real
   ReservationManager, NodeClaim.CanAdd/Add/FinalizeScheduling, Scheduler.Solve and AllocationTracker. *)
From KV Require Import C17.Model C17.Spec C17.DraModel C17.DraSpec.
Open Scope string_scope.
Open Scope Z_scope.
Open Scope list_scope.

Definition xobs := (dout * list bool * list (key * Z) * list (key * Z) * list (ncid * ity * key * Z))%type.

Inductive nobs :=
| NPlaced (ofs : list rid) (remaining : list string) (cands : list rid)
| NDeferred | NIncompatible | NPanic.

Inductive case :=
| CaseM (offs : list (string * rid * Z)) (ops : list mop) (obs : list (mout * snapshot))
| CaseN (gate : bool) (md : mode) (tpls : list (freq * list itype)) (ops : list (host * option Z * freq))
        (obs : list (nobs * snapshot)) (fin : list (host * option (list rid) * bool))
| CaseS (md : mode) (offs : list (string * rid * Z)) (claims : list fclaim) (snap : snapshot)
| CaseC (outs : list tres) (chosen : option Z) (roe : bool)
| CaseT (pre : list string) (ops : list dop) (obs : list dobs)
| CaseX (pre udevs : list string) (uncs : list ncid) (uits : list ity) (ks : list key)
        (rem0 capb tb : list (key * Z)) (validate : bool) (ops : list xop) (obs : list xobs)
| CaseF (pre : list string) (budgets tbudgets : list (key * Z)) (recs : list arec)
| CaseP (req : option Z) (total : Z) (pol : option policy) (obs : option Z)
| CaseK (alloc only_deleting in_memory : bool) (searched : bool).

(* ---- model state against a snapshot, over the finite universe of names the case mentions ---- *)
Definition snap_matches (m : mgr) (hs : list host) (rs : list rid) (s : snapshot) : bool :=
  forallb (fun r => match cap m r, assoc r (fst s) with
                    | Some c, Some c' => c =? c'
                    | None, None => true
                    | _, _ => false
                    end) rs &&
  forallb (fun h => forallb (fun r => Bool.eqb (holds m h r) (pair_mem h r (snd s))) rs) hs.

Definition snap_rids (s : snapshot) : list rid := map fst (fst s) ++ map snd (snd s).
Definition snap_hosts (s : snapshot) : list host := map fst (snd s).

Definition mout_eqb (a b : mout) : bool :=
  match a, b with
  | OBool x, OBool y => Bool.eqb x y
  | OZ x, OZ y => x =? y
  | OUnit, OUnit | OPanic, OPanic => true
  | _, _ => false
  end.

Definition mop_rids (o : mop) : list rid :=
  match o with MCan _ r | MHas _ r | MRemaining r => [r] | MReserve _ rs | MRelease _ rs => rs end.

(* (correspondence ok, oracle ok) *)
Fixpoint checkM (offs : list (string * rid * Z)) (hs : list host) (rs : list rid) (m : option mgr)
         (ops : list mop) (obs : list (mout * snapshot)) : bool * bool :=
  match ops, obs with
  | [], [] => (true, true)
  | o :: ops', (out, s) :: obs' =>
      match m with
      | None => (false, true)                       (* the implementation went on after a panic *)
      | Some m0 =>
          let '(m', out') := mstep m0 o in
          let here := mout_eqb out out' &&
                      match m' with Some m1 => snap_matches m1 hs (rs ++ snap_rids s) s | None => true end in
          let orc := match out with OPanic => true | _ => snap_holds_b offs s end in
          let '(c, r) := checkM offs hs rs m' ops' obs' in
          (here && c, orc && r)
      end
  | _, _ => (false, true)
  end.

Definition list_eqb (a b : list string) : bool :=
  (length a =? length b)%nat && forallb (fun p => String.eqb (fst p) (snd p)) (combine a b).

Definition nobs_matches (o : nobs) (f : option fout) : bool :=
  match o, f with
  | NPlaced ofs rem cands, Some (FPlaced ofs' rem' cands') => list_eqb ofs ofs' && list_eqb rem rem' && list_eqb cands cands'
  | NDeferred, Some FDeferred => true
  | NIncompatible, Some FIncompatible => true
  | NPanic, None => true
  | _, _ => false
  end.

Fixpoint checkN (gate : bool) (md : mode) (offs : list (string * rid * Z)) (tpls : list (freq * list itype))
         (hs : list host) (rs : list rid) (s : option fsys)
         (ops : list (host * option Z * freq)) (obs : list (nobs * snapshot)) : bool * bool * option fsys :=
  match ops, obs with
  | [], [] => (true, true, s)
  | (h, fresh, pod) :: ops', (o, sn) :: obs' =>
      match s with
      | None => (false, false, None)
      | Some s0 =>
          let tpl := match fresh with
                     | Some t => nth_error tpls (Z.to_nat t)
                     | None => None
                     end in
          let ok_fresh := match fresh, tpl with Some _, None => false | _, _ => true end in
          let r := fstep gate md s0 h tpl pod in
          let s1 := match r with Some (s', _) => Some s' | None => None end in
          let here := ok_fresh && nobs_matches o (match r with Some (_, f) => Some f | None => None end) &&
                      match s1 with
                      | Some s' => snap_matches (s_mgr (fs_core s')) (hs ++ snap_hosts sn) (rs ++ snap_rids sn) sn
                      | None => true
                      end in
          let orc := match o with
                     | NPanic => false
                     | NPlaced ofs _ cands => (negb gate || placed_ok_b md ofs cands) && snap_holds_b offs sn
                     | _ => snap_holds_b offs sn
                     end in
          let '(c, q, sf) := checkN gate md offs tpls hs rs s1 ops' obs' in
          (here && c, orc && q, sf)
      end
  | _, _ => (false, true, None)
  end.

Definition opt_set_eqb (a b : option (list rid)) : bool :=
  match a, b with
  | Some x, Some y => set_eqb x y
  | None, None => true
  | _, _ => false
  end.

Definition last_snap (obs : list (nobs * snapshot)) : snapshot :=
  match rev obs with (_, s) :: _ => s | [] => ([], []) end.

Definition tpl_offs (tpls : list (freq * list itype)) : list (string * rid * Z) :=
  flat_map (fun t => catalog_offs (snd t)) tpls.

(* ---- DRA tracker with budgets ---- *)

Definition observeU (t : tracker) (udevs : list string) (uncs : list ncid) (uits : list ity) : list bool :=
  flat_map (fun d => flat_map (fun tm => flat_map (fun n => map (fun it => dis_allocated t (mkDev d tm) n it) uits) uncs)
                              [false; true]) udevs.

Definition assoc0 (k : key) (l : list (key * Z)) : Z := match assoc k l with Some v => v | None => 0 end.

Fixpoint tassoc0 (n : ncid) (it : ity) (k : key) (l : list (ncid * ity * key * Z)) : Z :=
  match l with
  | [] => 0
  | (n', it', k', v) :: t => if String.eqb n n' && String.eqb it it' && String.eqb k k' then v else tassoc0 n it k t
  end.

Definition xmatches (x : xtracker) (udevs : list string) (uncs : list ncid) (uits : list ity) (ks : list key)
           (rem0 : list (key * Z)) (o : xobs) : bool :=
  let '(_, bits, rem, infl, tused) := o in
  bools_eqb bits (observeU (x_excl x) udevs uncs uits) &&
  forallb (fun kv => snd kv =? assoc0 (fst kv) rem0 - l_used (x_cnt x) (fst kv)) rem &&
  forallb (fun kv => match assoc (fst kv) rem with Some _ => true | None => false end) rem0 &&
  forallb (fun k => assoc0 k infl =? l_used (x_cap x) k) ks &&
  forallb (fun n => forallb (fun it => forallb (fun k => tassoc0 n it k tused =? x_tmpl x n it k) ks) uits) uncs.

(* the allocator's proposal judged against the tracker model: guarded exclusive devices, counters, capacity *)
Definition proposal_ok (x : xtracker) (ks : list key) (rem0 capb tb : list (key * Z)) (o : xop) : bool :=
  match o with
  | XCommit n devs cnt cap tmpl =>
      guarded (x_excl x) n devs &&
      lguard_b (fun k => assoc0 k rem0) ks (x_cnt x) cnt &&
      lguard_b (fun k => assoc0 k capb) ks (x_cap x) cap &&
      nodup_b (map fst tmpl) &&
      forallb (fun p => forallb (fun k => (0 <=? look k (snd p)) && (x_tmpl x n (fst p) k + look k (snd p) <=? assoc0 k tb)) ks) tmpl
  | _ => true
  end.

Fixpoint checkX (udevs : list string) (uncs : list ncid) (uits : list ity) (ks : list key) (rem0 capb tb : list (key * Z))
         (validate : bool) (x : option xtracker) (ops : list xop) (obs : list xobs) : bool * bool :=
  match ops, obs with
  | [], [] => (true, true)
  | o :: ops', ob :: obs' =>
      match x with
      | None => (false, true)
      | Some x0 =>
          let '(out, _, rem, infl, tused) := ob in
          let '(x', out') := xstep x0 o in
          let here := dout_eqb out out' &&
                      match x' with Some x1 => xmatches x1 udevs uncs uits ks rem0 ob | None => true end in
          let orc := (negb validate || proposal_ok x0 ks rem0 capb tb o) &&
                     match out with DPanic => negb validate | _ => budgets_ok_b rem infl capb tused tb end in
          let '(c, r) := checkX udevs uncs uits ks rem0 capb tb validate x' ops' obs' in
          (here && c, orc && r)
      end
  | _, _ => (false, true)
  end.

Definition opt_eqb (a b : option Z) : bool :=
  match a, b with Some x, Some y => x =? y | None, None => true | _, _ => false end.

Definition check_case (c : case) : list string :=
  match c with
  | CaseM offs ops obs =>
      let hs := flat_map mop_hosts ops in
      let rs := offs_ids offs ++ flat_map mop_rids ops in
      let '(corr, orc) := checkM offs hs rs (Some (new_manager offs)) ops obs in
      (if corr then [] else ["corr:manager"]) ++ (if orc then [] else ["oracle:holders-exceed-capacity"])
  | CaseN gate md tpls ops obs fin =>
      let offs := tpl_offs tpls in
      let hs := map (fun o => fst (fst o)) ops in
      let rs := offs_ids offs in
      let '(corr, orc, sf) := checkN gate md offs tpls hs rs (Some (mkFS (init_sys offs) (fun _ => mkF None None None RAny) (fun _ => []))) ops obs in
      let fin_corr := match sf with
                      | Some s => forallb (fun f => let '(h, pinned, ctonly) := f in
                                                    let held := s_res (fs_core s) h in
                                                    let fr := final_rids (fs_req s h) held in
                                                    opt_set_eqb pinned (match fr with RAny => None | _ => Some (filter (radmits fr) (offs_ids (filter (fun o => String.eqb (fst (fst o)) reserved_ct) offs))) end) &&
                                                    (is_nil held || ctonly)) fin &&
                                  (length fin =? length (s_hosts (fs_core s)))%nat
                      | None => true
                      end in
      let held := snd (last_snap obs) in
      let fin_orc := forallb (fun f => let '(h, pinned, ctonly) := f in pinned_ok_b held (h, pinned, ctonly, [])) fin in
      (if corr then [] else ["corr:nodeclaim-step"]) ++ (if fin_corr then [] else ["corr:finalize-pinning"]) ++
      (if orc then [] else ["oracle:step-overcommit-or-silent-fallback"]) ++
      (if fin_orc || is_nil obs then [] else ["oracle:final-pinning-or-overcommit"])
  | CaseS md offs claims snap =>
      let caps0 := new_caps offs (fun _ => None) in
      let corr := forallb (fun r => match caps0 r, assoc r (fst snap) with
                                    | Some c0, Some c => c =? c0 - held_count (snd snap) r
                                    | None, None => true
                                    | _, _ => false end) (offs_ids offs ++ snap_rids snap) in
      (if corr then [] else ["corr:solve-capacity-equation"]) ++
      (if solve_ok_b md offs claims snap then [] else ["oracle:solve-overcommit-pinning-or-fallback"])
  | CaseC outs chosen roe =>
      let m := choose_template outs 0 in
      let corr := match m, chosen with
                  | Some j, Some z => Z.of_nat j =? z
                  | None, None => true
                  | _, _ => false
                  end &&
                  Bool.eqb roe (match m with
                                | Some _ => false
                                | None => existsb (fun x => tres_eqb x TReserved) outs
                                end) in
      (if corr then [] else ["corr:template-choice"]) ++
      (if choice_ok_b outs (match chosen with Some z => Some (Z.to_nat z) | None => None end) then []
       else ["oracle:lower-weight-fallback"])
  | CaseT pre ops obs =>
      let '(corr, orc) := checkT pre ops obs in
      (if corr then [] else ["corr:allocation-tracker"]) ++ (if orc then [] else ["oracle:exclusive-device-two-owners"])
  | CaseX pre udevs uncs uits ks rem0 capb tb validate ops obs =>
      let '(corr, orc) := checkX udevs uncs uits ks rem0 capb tb validate (Some (xinit pre)) ops obs in
      (if corr then [] else ["corr:tracker-budgets"]) ++ (if orc then [] else ["oracle:counters-or-capacity-overconsumed"])
  | CaseF pre budgets tbudgets recs =>
      if final_ok_b pre budgets tbudgets recs then [] else ["oracle:final-allocation-overcommits-a-device"]
  | CaseP req total pol obs =>
      let c := consumed_capacity req total pol in
      if opt_eqb obs (if violates_policy c pol then None else Some c) then [] else ["corr:capacity-request-policy"]
  | CaseK alloc only_deleting in_memory searched =>
      (if Bool.eqb searched (cls_eqb (classify alloc only_deleting in_memory) CUnalloc) then [] else ["corr:classify-claims"]) ++
      (if in_memory && searched then ["oracle:claim-allocated-twice-in-one-pass"] else [])
  end.

Definition check_all (cs : list (Z * case)) : list (Z * string) :=
  flat_map (fun ic => map (fun t => (fst ic, t)) (check_case (snd ic))) cs.
