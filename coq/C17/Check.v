(* C17 — correspondence check and oracle, evaluated by vm_compute on what the Go harness observed on the real
   ReservationManager, NodeClaim.CanAdd/Add/FinalizeScheduling, Scheduler.Solve and AllocationTracker. *)
From KV Require Import C17.Model C17.Spec C17.DraModel.
Open Scope string_scope.
Open Scope Z_scope.
Open Scope list_scope.

Inductive nobs :=
| NPlaced (ofs : list rid) (remaining : list string) (cands : list rid)
| NDeferred | NIncompatible | NPanic.

Inductive case :=
| CaseM (offs : list (string * rid * Z)) (ops : list mop) (obs : list (mout * snapshot))
| CaseN (gate : bool) (md : mode) (tpls : list (freq * list itype)) (ops : list (host * option Z * freq))
        (obs : list (nobs * snapshot)) (fin : list (host * option (list rid) * bool))
| CaseS (md : mode) (offs : list (string * rid * Z)) (claims : list fclaim) (snap : snapshot)
| CaseC (outs : list tres) (chosen : option Z) (roe : bool)
| CaseT (pre : list string) (ops : list dop) (obs : list dobs).

(* ---- model state against a snapshot, over the finite universe of names the case mentions ---- *)
Definition snap_matches (m : mgr) (hs : list host) (rs : list rid) (s : snapshot) : bool :=
  forallb (fun r => match cap m r, assoc r (fst s) with
                    | Some c, Some c' => c =? c'
                    | None, None => true
                    | _, _ => false
                    end) rs &&
  forallb (fun h => forallb (fun r => Bool.eqb (holds m h r) (pair_mem h r (snd s))) rs) hs.

Definition snap_rids (s : snapshot) : list rid := map fst (fst s) ++ map snd (snd s).
Definition snap_hosts (s : snapshot) : list host := map fst (snd s).

Definition mout_eqb (a b : mout) : bool :=
  match a, b with
  | OBool x, OBool y => Bool.eqb x y
  | OZ x, OZ y => x =? y
  | OUnit, OUnit | OPanic, OPanic => true
  | _, _ => false
  end.

Definition mop_rids (o : mop) : list rid :=
  match o with MCan _ r | MHas _ r | MRemaining r => [r] | MReserve _ rs | MRelease _ rs => rs end.

(* (correspondence ok, oracle ok) *)
Fixpoint checkM (offs : list (string * rid * Z)) (hs : list host) (rs : list rid) (m : option mgr)
         (ops : list mop) (obs : list (mout * snapshot)) : bool * bool :=
  match ops, obs with
  | [], [] => (true, true)
  | o :: ops', (out, s) :: obs' =>
      match m with
      | None => (false, true)                       (* the implementation went on after a panic *)
      | Some m0 =>
          let '(m', out') := mstep m0 o in
          let here := mout_eqb out out' &&
                      match m' with Some m1 => snap_matches m1 hs (rs ++ snap_rids s) s | None => true end in
          let orc := match out with OPanic => true | _ => snap_holds_b offs s end in
          let '(c, r) := checkM offs hs rs m' ops' obs' in
          (here && c, orc && r)
      end
  | _, _ => (false, true)
  end.

Definition list_eqb (a b : list string) : bool :=
  (length a =? length b)%nat && forallb (fun p => String.eqb (fst p) (snd p)) (combine a b).

Definition nobs_matches (o : nobs) (f : option fout) : bool :=
  match o, f with
  | NPlaced ofs rem cands, Some (FPlaced ofs' rem' cands') => list_eqb ofs ofs' && list_eqb rem rem' && list_eqb cands cands'
  | NDeferred, Some FDeferred => true
  | NIncompatible, Some FIncompatible => true
  | NPanic, None => true
  | _, _ => false
  end.

Fixpoint checkN (gate : bool) (md : mode) (offs : list (string * rid * Z)) (tpls : list (freq * list itype))
         (hs : list host) (rs : list rid) (s : option fsys)
         (ops : list (host * option Z * freq)) (obs : list (nobs * snapshot)) : bool * bool * option fsys :=
  match ops, obs with
  | [], [] => (true, true, s)
  | (h, fresh, pod) :: ops', (o, sn) :: obs' =>
      match s with
      | None => (false, false, None)
      | Some s0 =>
          let tpl := match fresh with
                     | Some t => nth_error tpls (Z.to_nat t)
                     | None => None
                     end in
          let ok_fresh := match fresh, tpl with Some _, None => false | _, _ => true end in
          let r := fstep gate md s0 h tpl pod in
          let s1 := match r with Some (s', _) => Some s' | None => None end in
          let here := ok_fresh && nobs_matches o (match r with Some (_, f) => Some f | None => None end) &&
                      match s1 with
                      | Some s' => snap_matches (s_mgr (fs_core s')) (hs ++ snap_hosts sn) (rs ++ snap_rids sn) sn
                      | None => true
                      end in
          let orc := match o with
                     | NPanic => false
                     | NPlaced ofs _ cands => (negb gate || placed_ok_b md ofs cands) && snap_holds_b offs sn
                     | _ => snap_holds_b offs sn
                     end in
          let '(c, q, sf) := checkN gate md offs tpls hs rs s1 ops' obs' in
          (here && c, orc && q, sf)
      end
  | _, _ => (false, true, None)
  end.

Definition opt_set_eqb (a b : option (list rid)) : bool :=
  match a, b with
  | Some x, Some y => set_eqb x y
  | None, None => true
  | _, _ => false
  end.

Definition last_snap (obs : list (nobs * snapshot)) : snapshot :=
  match rev obs with (_, s) :: _ => s | [] => ([], []) end.

Definition tpl_offs (tpls : list (freq * list itype)) : list (string * rid * Z) :=
  flat_map (fun t => catalog_offs (snd t)) tpls.

Definition check_case (c : case) : list string :=
  match c with
  | CaseM offs ops obs =>
      let hs := flat_map mop_hosts ops in
      let rs := offs_ids offs ++ flat_map mop_rids ops in
      let '(corr, orc) := checkM offs hs rs (Some (new_manager offs)) ops obs in
      (if corr then [] else ["corr:manager"]) ++ (if orc then [] else ["oracle:holders-exceed-capacity"])
  | CaseN gate md tpls ops obs fin =>
      let offs := tpl_offs tpls in
      let hs := map (fun o => fst (fst o)) ops in
      let rs := offs_ids offs in
      let '(corr, orc, sf) := checkN gate md offs tpls hs rs (Some (mkFS (init_sys offs) (fun _ => mkF None None None) (fun _ => []))) ops obs in
      let fin_corr := match sf with
                      | Some s => forallb (fun f => let '(h, pinned, ctonly) := f in
                                                    opt_set_eqb pinned (pin (fs_core s) h) &&
                                                    (match pin (fs_core s) h with Some _ => ctonly | None => true end)) fin &&
                                  (length fin =? length (s_hosts (fs_core s)))%nat
                      | None => true
                      end in
      let held := snd (last_snap obs) in
      let fin_orc := forallb (fun f => let '(h, pinned, ctonly) := f in pinned_ok_b held (h, pinned, ctonly, [])) fin &&
                     forallb (fun r => match spec_cap offs r with
                                       | Some c0 => if 0 <=? c0 then pinned_count (map (fun f => (f, @nil rid)) fin) r <=? c0 else true
                                       | None => true end) rs in
      (if corr then [] else ["corr:nodeclaim-step"]) ++ (if fin_corr then [] else ["corr:finalize-pinning"]) ++
      (if orc then [] else ["oracle:step-overcommit-or-silent-fallback"]) ++
      (if fin_orc || is_nil obs then [] else ["oracle:final-pinning-or-overcommit"])
  | CaseS md offs claims snap =>
      let caps0 := new_caps offs (fun _ => None) in
      let corr := forallb (fun r => match caps0 r, assoc r (fst snap) with
                                    | Some c0, Some c => c =? c0 - pinned_count claims r
                                    | None, None => true
                                    | _, _ => false end) (offs_ids offs ++ snap_rids snap) in
      (if corr then [] else ["corr:solve-capacity-equation"]) ++
      (if solve_ok_b md offs claims snap then [] else ["oracle:solve-overcommit-pinning-or-fallback"])
  | CaseC outs chosen roe =>
      let m := choose_template outs 0 in
      let corr := match m, chosen with
                  | Some j, Some z => Z.of_nat j =? z
                  | None, None => true
                  | _, _ => false
                  end &&
                  Bool.eqb roe (match m with
                                | Some _ => false
                                | None => existsb (fun x => tres_eqb x TReserved) outs
                                end) in
      (if corr then [] else ["corr:template-choice"]) ++
      (if choice_ok_b outs (match chosen with Some z => Some (Z.to_nat z) | None => None end) then []
       else ["oracle:lower-weight-fallback"])
  | CaseT pre ops obs =>
      let '(corr, orc) := checkT pre ops obs in
      (if corr then [] else ["corr:allocation-tracker"]) ++ (if orc then [] else ["oracle:exclusive-device-two-owners"])
  end.

Definition check_all (cs : list (Z * case)) : list (Z * string) :=
  flat_map (fun ic => map (fun t => (fst ic, t)) (check_case (snd ic))) cs.
