(* C17 — model of pkg/controllers/provisioning/scheduling/reservationmanager.go and of the
   reservation logic of nodeclaim.go (offeringsToReserve, Add, releaseReservedOfferings,
   FinalizeScheduling) plus the template choice of Scheduler.addToNewNodeClaim.
   Executable definitions only; proofs are in C17/Proofs.v.

   Granularity: one [step] = one successful-or-failed NodeClaim.CanAdd + NodeClaim.Add for one pod on one
   NodeClaim (identified by its placeholder hostname). The requirement filtering that precedes
   offeringsToReserve is abstracted as the list [cands] of reservation ids of the offerings that are
   reserved, available and compatible, in iteration order; the theorems quantify over every such list.
   The "fragment" part at the end computes [cands] for In-requirements on zone / capacity type /
   instance type and is what the claim-level correspondence check runs against the real CanAdd/Add. *)
From Coq Require Export ZArith String List Bool Lia.
Export ListNotations.
Open Scope string_scope.
Open Scope Z_scope.

Definition rid := string.      (* reservation id *)
Definition host := string.     (* NodeClaim placeholder hostname *)

Definition mem (x : string) (l : list string) : bool := existsb (String.eqb x) l.
Definition is_nil {A} (l : list A) : bool := match l with [] => true | _ => false end.

Definition upd {A} (f : string -> A) (k : string) (v : A) : string -> A :=
  fun x => if String.eqb x k then v else f x.
Definition upd2 (f : host -> rid -> bool) (h : host) (r : rid) (v : bool) : host -> rid -> bool :=
  fun h' r' => if String.eqb h' h && String.eqb r' r then v else f h' r'.

(* ReservationManager: capacity (absent key = None) and reservations (hostname -> set of ids). *)
Record mgr := mkMgr { cap : rid -> option Z; holds : host -> rid -> bool }.

Definition reserved_ct : string := "reserved".

(* NewReservationManager: over every offering of every instance type of every pool; only
   capacity type "reserved"; duplicates of an id keep the least capacity. *)
Fixpoint new_caps (offs : list (string * rid * Z)) (c : rid -> option Z) : rid -> option Z :=
  match offs with
  | [] => c
  | (ct, r, n) :: t =>
      new_caps t
        (if String.eqb ct reserved_ct then
           match c r with
           | Some cur => if n <? cur then upd c r (Some n) else c
           | None => upd c r (Some n)
           end
         else c)
  end.

Definition new_manager (offs : list (string * rid * Z)) : mgr :=
  mkMgr (new_caps offs (fun _ => None)) (fun _ _ => false).

Definition cap_or0 (m : mgr) (r : rid) : Z := match cap m r with Some c => c | None => 0 end.

(* CanReserve; None = the "non-existent offering" panic *)
Definition can_reserve (m : mgr) (h : host) (r : rid) : option bool :=
  if holds m h r then Some true
  else match cap m r with
       | None => None
       | Some c => Some (negb (c =? 0))
       end.

(* one iteration of Reserve; None = the "over-reserve" panic *)
Definition reserve1 (m : mgr) (h : host) (r : rid) : option mgr :=
  if holds m h r then Some m
  else let c := cap_or0 m r - 1 in
       if c <? 0 then None
       else Some (mkMgr (upd (cap m) r (Some c)) (upd2 (holds m) h r true)).

Fixpoint reserve (m : mgr) (h : host) (rs : list rid) : option mgr :=
  match rs with
  | [] => Some m
  | r :: t => match reserve1 m h r with None => None | Some m' => reserve m' h t end
  end.

Definition release1 (m : mgr) (h : host) (r : rid) : mgr :=
  if holds m h r then mkMgr (upd (cap m) r (Some (cap_or0 m r + 1))) (upd2 (holds m) h r false)
  else m.

Definition release (m : mgr) (h : host) (rs : list rid) : mgr :=
  fold_left (fun m r => release1 m h r) rs m.

Definition has_reservation (m : mgr) (h : host) (r : rid) : bool := holds m h r.
Definition remaining_capacity (m : mgr) (r : rid) : Z := cap_or0 m r.

(* ---- the manager as a state machine (unit-level differential) ---- *)
Inductive mop :=
| MCan (h : host) (r : rid)
| MReserve (h : host) (rs : list rid)
| MRelease (h : host) (rs : list rid)
| MHas (h : host) (r : rid)
| MRemaining (r : rid).

Inductive mout := OBool (b : bool) | OZ (z : Z) | OUnit | OPanic.

Definition mstep (m : mgr) (o : mop) : option mgr * mout :=
  match o with
  | MCan h r => match can_reserve m h r with Some b => (Some m, OBool b) | None => (None, OPanic) end
  | MReserve h rs => match reserve m h rs with Some m' => (Some m', OUnit) | None => (None, OPanic) end
  | MRelease h rs => (Some (release m h rs), OUnit)
  | MHas h r => (Some m, OBool (has_reservation m h r))
  | MRemaining r => (Some m, OZ (remaining_capacity m r))
  end.

(* run until the first panic *)
Fixpoint mrun (m : mgr) (ops : list mop) : option mgr :=
  match ops with
  | [] => Some m
  | o :: t => match fst (mstep m o) with None => None | Some m' => mrun m' t end
  end.

Definition mop_hosts (o : mop) : list host :=
  match o with MCan h _ | MReserve h _ | MRelease h _ | MHas h _ => [h] | MRemaining _ => [] end.

(* ---- NodeClaim level ---- *)
Inductive mode := Fallback | Strict.
Inductive outcome :=
| Placed (ofs : list rid)   (* CanAdd succeeded with these offerings to reserve; Add was executed *)
| Deferred.                 (* ReservedOfferingError *)

(* the loop of offeringsToReserve over the compatible reserved offerings *)
Fixpoint reservable (m : mgr) (h : host) (cands : list rid) : option (list rid) :=
  match cands with
  | [] => Some []
  | r :: t =>
      match can_reserve m h r, reservable m h t with
      | Some b, Some l => Some (if b then r :: l else l)
      | _, _ => None
      end
  end.

(* offeringsToReserve; gate = FeatureGates.ReservedCapacity; prev = n.reservedOfferings *)
Definition offerings_to_reserve (gate : bool) (md : mode) (m : mgr) (h : host) (prev cands : list rid)
  : option outcome :=
  if negb gate then Some (Placed [])
  else match reservable m h cands with
       | None => None
       | Some rs =>
           match md with
           | Strict =>
               if negb (is_nil cands) && is_nil rs then Some Deferred
               else if negb (is_nil prev) && is_nil rs then Some Deferred
               else Some (Placed rs)
           | Fallback => Some (Placed rs)
           end
       end.

(* releaseReservedOfferings(current, updated) *)
Definition release_dropped (m : mgr) (h : host) (current updated : list rid) : mgr :=
  fold_left (fun m r => if mem r updated then m else release1 m h r) current m.

(* the reservation part of NodeClaim.Add *)
Definition claim_add (m : mgr) (h : host) (prev ofs : list rid) : option mgr :=
  match reserve m h ofs with
  | None => None
  | Some m1 => Some (release_dropped m1 h prev ofs)
  end.

(* the scheduler's view: manager, the NodeClaims created so far, their reservedOfferings *)
Record sys := mkSys { s_mgr : mgr; s_hosts : list host; s_res : host -> list rid }.

Definition init_sys (offs : list (string * rid * Z)) : sys :=
  mkSys (new_manager offs) [] (fun _ => []).

Definition add_host (h : host) (hs : list host) : list host := if mem h hs then hs else hs ++ [h].

(* one pod tried on NodeClaim h (new when h is not yet in s_hosts); None = a panic branch was reached *)
Definition step (gate : bool) (md : mode) (s : sys) (h : host) (cands : list rid) : option (sys * outcome) :=
  match offerings_to_reserve gate md (s_mgr s) h (s_res s h) cands with
  | None => None
  | Some Deferred => Some (s, Deferred)
  | Some (Placed ofs) =>
      match claim_add (s_mgr s) h (s_res s h) ofs with
      | None => None
      | Some m' => Some (mkSys m' (add_host h (s_hosts s)) (upd (s_res s) h ofs), Placed ofs)
      end
  end.

Fixpoint run (gate : bool) (md : mode) (s : sys) (ops : list (host * list rid)) : option sys :=
  match ops with
  | [] => Some s
  | (h, cands) :: t =>
      match step gate md s h cands with
      | None => None
      | Some (s', _) => run gate md s' t
      end
  end.

(* FinalizeScheduling: None = requirements untouched; Some ids = capacity-type In [reserved] and
   reservation-id In ids *)
Definition pin (s : sys) (h : host) : option (list rid) :=
  match s_res s h with [] => None | l => Some l end.

(* number of NodeClaims that hold reservation r *)
Fixpoint cnt (f : host -> bool) (hs : list host) : Z :=
  match hs with [] => 0 | h :: t => (if f h then 1 else 0) + cnt f t end.

Definition holders (s : sys) (r : rid) : Z := cnt (fun h => mem r (s_res s h)) (s_hosts s).
Definition mholders (m : mgr) (hs : list host) (r : rid) : Z := cnt (fun h => holds m h r) hs.

(* ---- Scheduler.addToNewNodeClaim: outcome per NodeClaimTemplate in weight order; the lowest index that
   is a success or a reserved-offering error decides ---- *)
Inductive tres := TOk | TReserved | TOther.

Fixpoint choose_template (rs : list tres) (i : nat) : option nat :=
  match rs with
  | [] => None
  | TOk :: _ => Some i
  | TReserved :: _ => None
  | TOther :: t => choose_template t (S i)
  end.

(* ---- requirement fragment: In-requirements on zone, capacity type and instance type ---- *)
Record offering := mkO { o_ct : string; o_zone : string; o_rid : rid; o_avail : bool; o_cap : Z }.
Record itype := mkIT { it_name : string; it_offs : list offering }.
(* the reservation-id key may be constrained by pods and NodePools too: absent, In l, or a complement set
   (NotIn l; Exists = NotIn []), as scheduling.Requirement represents them *)
Inductive rreq := RAny | RIn (l : list string) | RNotIn (l : list string).

(* None = key not constrained *)
Record freq := mkF { f_zones : option (list string); f_cts : option (list string); f_its : option (list string);
                     f_rids : rreq }.

Definition radmits (q : rreq) (r : string) : bool :=
  match q with RAny => true | RIn l => mem r l | RNotIn l => negb (mem r l) end.

(* Requirement.Intersection *)
Definition rinter (a b : rreq) : rreq :=
  match a, b with
  | RAny, x => x
  | x, RAny => x
  | RIn l, RIn k => RIn (filter (fun v => mem v k) l)
  | RIn l, RNotIn k => RIn (filter (fun v => negb (mem v k)) l)
  | RNotIn k, RIn l => RIn (filter (fun v => negb (mem v k)) l)
  | RNotIn l, RNotIn k => RNotIn (l ++ filter (fun v => negb (mem v l)) k)
  end.

Definition rnonempty (q : rreq) : bool := match q with RIn [] => false | _ => true end.

Definition allows (o : option (list string)) (v : string) : bool :=
  match o with None => true | Some l => mem v l end.

Definition inter1 (a b : option (list string)) : option (list string) :=
  match a, b with
  | None, x => x
  | x, None => x
  | Some l, Some k => Some (filter (fun v => mem v k) l)
  end.

Definition finter (a b : freq) : freq :=
  mkF (inter1 (f_zones a) (f_zones b)) (inter1 (f_cts a) (f_cts b)) (inter1 (f_its a) (f_its b))
      (rinter (f_rids a) (f_rids b)).

Definition nonempty1 (a : option (list string)) : bool :=
  match a with Some [] => false | _ => true end.

(* Requirements.Compatible on the fragment: every key constrained on both sides must intersect *)
Definition fcompat (a b : freq) : bool :=
  let c := finter a b in nonempty1 (f_zones c) && nonempty1 (f_cts c) && nonempty1 (f_its c) && rnonempty (f_rids c).

(* only reserved offerings carry a reservation-id requirement (In [id]) *)
Definition off_compat (q : freq) (o : offering) : bool :=
  allows (f_zones q) (o_zone o) && allows (f_cts q) (o_ct o) &&
  (negb (String.eqb (o_ct o) reserved_ct) || radmits (f_rids q) (o_rid o)).

(* the reservation-id requirement FinalizeScheduling leaves on the NodeClaim: the held ids are intersected into
   whatever pods and the NodePool required *)
Definition final_rids (q : freq) (held : list rid) : rreq :=
  match held with [] => f_rids q | _ => rinter (f_rids q) (RIn held) end.

(* filterInstanceTypesByRequirements with requests that always fit and no minValues *)
Definition it_ok (q : freq) (it : itype) : bool :=
  allows (f_its q) (it_name it) && existsb (fun o => o_avail o && off_compat q o) (it_offs it).

Definition cands_of (q : freq) (its : list itype) : list rid :=
  flat_map (fun it => map o_rid (filter (fun o => String.eqb (o_ct o) reserved_ct && o_avail o && off_compat q o)
                                        (it_offs it))) its.

Definition catalog_offs (its : list itype) : list (string * rid * Z) :=
  flat_map (fun it => map (fun o => (o_ct o, o_rid o, o_cap o)) (it_offs it)) its.

(* a NodeClaim of the fragment: accumulated requirements and remaining instance types *)
Record fsys := mkFS { fs_core : sys; fs_req : host -> freq; fs_its : host -> list itype }.

Inductive fout := FPlaced (ofs : list rid) (remaining : list string) (cands : list rid) | FDeferred | FIncompatible.

(* [fresh] = (template requirements, template instance types) when the NodeClaim is created by this op *)
Definition fstep (gate : bool) (md : mode) (s : fsys) (h : host) (fresh : option (freq * list itype)) (pod : freq)
  : option (fsys * fout) :=
  let '(q0, its0) := match fresh with Some x => x | None => (fs_req s h, fs_its s h) end in
  if negb (fcompat q0 pod) then Some (s, FIncompatible)
  else
    let q := finter q0 pod in
    let remaining := filter (it_ok q) its0 in
    if is_nil remaining then Some (s, FIncompatible)
    else let cands := cands_of q remaining in
         match step gate md (fs_core s) h cands with
         | None => None
         | Some (_, Deferred) => Some (s, FDeferred)
         | Some (c', Placed ofs) =>
             Some (mkFS c' (upd (fs_req s) h q) (upd (fs_its s) h remaining),
                   FPlaced ofs (map it_name remaining) cands)
         end.
