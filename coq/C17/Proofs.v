(* C17 — proofs about the reservation manager, the NodeClaim reservation step and the template choice.
   Everything is for arbitrary op sequences (induction over the op list with an invariant). *)
From KV Require Import C17.Model C17.Spec.
Open Scope string_scope.
Open Scope Z_scope.

(* ------------------------------------------------------------------ basics *)
Lemma mem_In : forall x l, mem x l = true <-> In x l.
Proof.
  intros x l. unfold mem. rewrite existsb_exists. split.
  - intros [y [Hy He]]. apply String.eqb_eq in He. subst. exact Hy.
  - intros H. exists x. split; [exact H | apply String.eqb_refl].
Qed.

Lemma mem_false : forall x l, mem x l = false <-> ~ In x l.
Proof.
  intros x l. split.
  - intros H Hin. apply mem_In in Hin. congruence.
  - intros H. destruct (mem x l) eqn:E; [apply mem_In in E; contradiction | reflexivity].
Qed.

Lemma is_nil_spec : forall A (l : list A), is_nil l = true <-> l = [].
Proof. intros A l. destruct l; simpl; split; congruence. Qed.

Lemma upd_same : forall A (f : string -> A) k v, upd f k v k = v.
Proof. intros. unfold upd. rewrite String.eqb_refl. reflexivity. Qed.

Lemma upd_other : forall A (f : string -> A) k v x, x <> k -> upd f k v x = f x.
Proof. intros A f k v x H. unfold upd. apply String.eqb_neq in H. rewrite H. reflexivity. Qed.

Lemma upd2_same : forall f h r v, upd2 f h r v h r = v.
Proof. intros. unfold upd2. rewrite !String.eqb_refl. reflexivity. Qed.

Lemma upd2_other : forall f h r v h' r', (h' <> h \/ r' <> r) -> upd2 f h r v h' r' = f h' r'.
Proof.
  intros f h r v h' r' H. unfold upd2.
  destruct (String.eqb_spec h' h); destruct (String.eqb_spec r' r); simpl; try reflexivity.
  destruct H; contradiction.
Qed.

(* ------------------------------------------------------------------ counting *)
Lemma cnt_ext : forall f g hs, (forall h, In h hs -> f h = g h) -> cnt f hs = cnt g hs.
Proof.
  intros f g hs. induction hs as [|a t IH]; intros H; simpl; [reflexivity|].
  rewrite (H a (or_introl eq_refl)). rewrite IH; [reflexivity|]. intros h Hh. apply H. right. exact Hh.
Qed.

Lemma cnt_nonneg : forall f hs, 0 <= cnt f hs.
Proof. intros f hs. induction hs as [|a t IH]; simpl; [lia|]. destruct (f a); lia. Qed.

Lemma cnt_app : forall f a b, cnt f (a ++ b) = cnt f a + cnt f b.
Proof. intros f a b. induction a as [|x t IH]; simpl; [reflexivity|]. rewrite IH. lia. Qed.

Lemma cnt_set : forall f hs h v, NoDup hs -> In h hs ->
  cnt (fun x => if String.eqb x h then v else f x) hs
  = cnt f hs - (if f h then 1 else 0) + (if v then 1 else 0).
Proof.
  intros f hs h v. induction hs as [|a t IH]; intros Hnd Hin; [destruct Hin|].
  inversion Hnd as [|a' t' Hna Hnd']; subst. simpl.
  destruct (String.eqb_spec a h) as [E|E].
  - subst a. assert (Ht : cnt (fun x => if String.eqb x h then v else f x) t = cnt f t).
    { apply cnt_ext. intros x Hx. destruct (String.eqb_spec x h); [subst; contradiction | reflexivity]. }
    rewrite Ht. lia.
  - destruct Hin as [Hin|Hin]; [congruence|]. rewrite (IH Hnd' Hin). lia.
Qed.

Lemma cnt_none : forall f hs, (forall h, In h hs -> f h = false) -> cnt f hs = 0.
Proof.
  intros f hs. induction hs as [|a t IH]; intros H; simpl; [reflexivity|].
  rewrite (H a (or_introl eq_refl)). rewrite IH; [reflexivity|]. intros h Hh. apply H. right. exact Hh.
Qed.

(* ------------------------------------------------------------------ NewReservationManager *)
Definition omin (a b : option Z) : option Z :=
  match a, b with
  | None, x => x
  | x, None => x
  | Some x, Some y => Some (Z.min x y)
  end.

Lemma new_caps_gen : forall offs c r, new_caps offs c r = omin (c r) (spec_cap offs r).
Proof.
  induction offs as [|[[ct r'] n] t IH]; intros c r; simpl.
  - destruct (c r); reflexivity.
  - rewrite IH. destruct (String.eqb ct reserved_ct); simpl; [|reflexivity].
    destruct (String.eqb_spec r' r) as [E|E].
    + subst r'. destruct (c r) as [cur|] eqn:Ec.
      * destruct (n <? cur) eqn:Hlt.
        -- rewrite upd_same. apply Z.ltb_lt in Hlt. destruct (spec_cap t r); simpl; f_equal; lia.
        -- rewrite Ec. apply Z.ltb_ge in Hlt. destruct (spec_cap t r); simpl; f_equal; lia.
      * rewrite upd_same. destruct (spec_cap t r); simpl; reflexivity.
    + assert (Hr : r <> r') by congruence.
      destruct (c r') as [cur|]; [destruct (n <? cur)|]; try rewrite (upd_other _ _ _ _ _ Hr); reflexivity.
Qed.

(* the manager starts with the least reported capacity per reservation id *)
Lemma new_caps_spec : forall offs r, cap (new_manager offs) r = spec_cap offs r.
Proof. intros. unfold new_manager. simpl. rewrite new_caps_gen. reflexivity. Qed.

Lemma spec_cap_in : forall offs r c, spec_cap offs r = Some c -> In r (offs_ids offs).
Proof.
  induction offs as [|[[ct r'] n] t IH]; intros r c H; simpl in *; [discriminate|].
  destruct (String.eqb ct reserved_ct && String.eqb r' r) eqn:E.
  - apply andb_prop in E. destruct E as [_ E]. apply String.eqb_eq in E. left. exact E.
  - right. eapply IH. exact H.
Qed.

(* ------------------------------------------------------------------ manager invariant *)
Section Manager.
  Variable cap0 : rid -> option Z.

  (* per id: capacity map and holders add up to the initial capacity; unknown ids are never held *)
  Definition RInv (hs : list host) (m : mgr) (r : rid) : Prop :=
    match cap0 r with
    | Some c0 => exists c, cap m r = Some c /\ c0 = c + mholders m hs r /\ (0 <= c0 -> 0 <= c)
    | None => cap m r = None /\ forall h, holds m h r = false
    end.

  Definition MInv (hs : list host) (m : mgr) : Prop :=
    NoDup hs /\ (forall h r, holds m h r = true -> In h hs) /\ forall r, RInv hs m r.

  Lemma mholders_upd2 : forall m hs h r v r', NoDup hs -> In h hs ->
    cnt (fun x => upd2 (holds m) h r v x r') hs
    = if String.eqb r' r then mholders m hs r - (if holds m h r then 1 else 0) + (if v then 1 else 0)
      else mholders m hs r'.
  Proof.
    intros m hs h r v r' Hnd Hin. unfold mholders. destruct (String.eqb_spec r' r) as [E|E].
    - subst r'. rewrite <- (cnt_set (fun x => holds m x r) hs h v Hnd Hin). apply cnt_ext. intros x _.
      unfold upd2. rewrite String.eqb_refl, andb_true_r. reflexivity.
    - apply cnt_ext. intros x _. apply upd2_other. right. exact E.
  Qed.

  Lemma reserve1_inv : forall hs m h r m', MInv hs m -> In h hs -> reserve1 m h r = Some m' -> MInv hs m'.
  Proof.
    intros hs m h r m' [Hnd [Hin Hr]] Hh H. unfold reserve1 in H.
    destruct (holds m h r) eqn:Hheld; [inversion H; subst; repeat split; assumption|].
    destruct (cap_or0 m r - 1 <? 0) eqn:Hlt; [discriminate|]. apply Z.ltb_ge in Hlt.
    inversion H; subst m'; clear H. split; [exact Hnd|]. split.
    - intros h' r' Hx. simpl in Hx. unfold upd2 in Hx.
      destruct (String.eqb_spec h' h); destruct (String.eqb_spec r' r); simpl in Hx; subst; auto; eapply Hin; eauto.
    - intros r'. specialize (Hr r') as Hr'. unfold RInv in *. simpl. unfold mholders. simpl.
      rewrite (mholders_upd2 m hs h r true r' Hnd Hh). destruct (String.eqb_spec r' r) as [E|E].
      + subst r'. rewrite upd_same. rewrite Hheld. unfold cap_or0 in Hlt. destruct (cap0 r) as [c0|].
        * destruct Hr' as [c [Hc [Hsum Hpos]]]. rewrite Hc in Hlt. exists (c - 1). repeat split; [f_equal; unfold cap_or0; rewrite Hc; reflexivity | lia | lia].
        * destruct Hr' as [Hc _]. rewrite Hc in Hlt. lia.
      + rewrite (upd_other _ _ _ _ _ E). destruct (cap0 r') as [c0|].
        * exact Hr'.
        * destruct Hr' as [Hc Hno]. split; [exact Hc|]. intros h'. rewrite upd2_other; [apply Hno | right; exact E].
  Qed.

  Lemma release1_inv : forall hs m h r, MInv hs m -> MInv hs (release1 m h r).
  Proof.
    intros hs m h r [Hnd [Hin Hr]]. unfold release1. destruct (holds m h r) eqn:Hheld; [|repeat split; assumption].
    assert (Hh : In h hs) by (eapply Hin; eauto).
    split; [exact Hnd|]. split.
    - intros h' r' Hx. simpl in Hx. unfold upd2 in Hx.
      destruct (String.eqb h' h && String.eqb r' r); [discriminate | eapply Hin; eauto].
    - intros r'. specialize (Hr r') as Hr'. unfold RInv in *. simpl. unfold mholders. simpl.
      rewrite (mholders_upd2 m hs h r false r' Hnd Hh). destruct (String.eqb_spec r' r) as [E|E].
      + subst r'. rewrite upd_same, Hheld. destruct (cap0 r) as [c0|].
        * destruct Hr' as [c [Hc [Hsum Hpos]]]. unfold cap_or0. rewrite Hc. exists (c + 1). repeat split; lia.
        * destruct Hr' as [_ Hno]. rewrite Hno in Hheld. discriminate.
      + rewrite (upd_other _ _ _ _ _ E). destruct (cap0 r') as [c0|].
        * exact Hr'.
        * destruct Hr' as [Hc Hno]. split; [exact Hc|]. intros h'. rewrite upd2_other; [apply Hno | right; exact E].
  Qed.

  Lemma reserve_inv : forall hs rs m h m', MInv hs m -> In h hs -> reserve m h rs = Some m' -> MInv hs m'.
  Proof.
    intros hs rs. induction rs as [|r t IH]; intros m h m' Hinv Hh H; simpl in H.
    - inversion H; subst; exact Hinv.
    - destruct (reserve1 m h r) as [m1|] eqn:E; [|discriminate]. eapply IH; [eapply reserve1_inv; eauto | exact Hh | exact H].
  Qed.

  Lemma release_inv : forall hs rs m h, MInv hs m -> MInv hs (release m h rs).
  Proof.
    intros hs rs. unfold release. induction rs as [|r t IH]; intros m h Hinv; simpl; [exact Hinv|].
    apply IH. apply release1_inv. exact Hinv.
  Qed.

  Lemma mstep_inv : forall hs m o m', MInv hs m -> (forall h, In h (mop_hosts o) -> In h hs) ->
    fst (mstep m o) = Some m' -> MInv hs m'.
  Proof.
    intros hs m o m' Hinv Hh H. destruct o as [h r|h rs|h rs|h r|r]; simpl in H.
    - destruct (can_reserve m h r); simpl in H; [inversion H; subst; exact Hinv | discriminate].
    - destruct (reserve m h rs) eqn:E; simpl in H; [|discriminate]. inversion H; subst.
      eapply reserve_inv; eauto. apply Hh. simpl. left. reflexivity.
    - inversion H; subst. apply release_inv. exact Hinv.
    - inversion H; subst. exact Hinv.
    - inversion H; subst. exact Hinv.
  Qed.

  Lemma mrun_inv : forall hs ops m m', MInv hs m -> (forall o h, In o ops -> In h (mop_hosts o) -> In h hs) ->
    mrun m ops = Some m' -> MInv hs m'.
  Proof.
    intros hs ops. induction ops as [|o t IH]; intros m m' Hinv Hh H; simpl in H.
    - inversion H; subst; exact Hinv.
    - destruct (fst (mstep m o)) as [m1|] eqn:E; [|discriminate].
      eapply IH; [eapply mstep_inv; eauto | | exact H].
      + intros h Hx. eapply Hh; [left; reflexivity | exact Hx].
      + intros o' h Ho Hx. eapply Hh; [right; exact Ho | exact Hx].
  Qed.

  (* extending the set of NodeClaims by one that holds nothing *)
  Lemma MInv_extend : forall hs m h, MInv hs m -> ~ In h hs -> MInv (hs ++ [h]) m.
  Proof.
    intros hs m h [Hnd [Hin Hr]] Hn.
    assert (Hfree : forall r, holds m h r = false).
    { intros r. destruct (holds m h r) eqn:E; [|reflexivity]. exfalso. apply Hn. eapply Hin; eauto. }
    split.
    - apply NoDup_rev in Hnd. rewrite <- (rev_involutive (hs ++ [h])). apply NoDup_rev. rewrite rev_app_distr. simpl.
      constructor; [rewrite <- in_rev; exact Hn | exact Hnd].
    - split.
      + intros h' r' Hx. apply in_or_app. left. eapply Hin; eauto.
      + intros r. specialize (Hr r). unfold RInv in *. unfold mholders in *. rewrite cnt_app. simpl. rewrite Hfree.
        destruct (cap0 r); [|exact Hr]. destruct Hr as [c [Hc [Hs Hp]]]. exists c. repeat split; [exact Hc | lia | exact Hp].
  Qed.
End Manager.

Lemma new_manager_inv : forall offs hs, NoDup hs -> MInv (spec_cap offs) hs (new_manager offs).
Proof.
  intros offs hs Hnd. split; [exact Hnd|]. split.
  - intros h r H. simpl in H. discriminate.
  - intros r. unfold RInv. rewrite <- new_caps_spec. destruct (cap (new_manager offs) r) as [c|] eqn:E.
    + exists c. split; [reflexivity|]. unfold mholders. rewrite cnt_none; [split; lia | intros; reflexivity].
    + split; [reflexivity | intros; reflexivity].
Qed.

(* Manager level, all op sequences (guarded or not) that did not run into a panic: holders never exceed the
   capacity and the capacity map is capacity0 - holders. hs: any duplicate-free list covering the hostnames used. *)
Lemma mgr_holders_le_capacity_l : forall offs ops hs m,
  NoDup hs -> (forall o h, In o ops -> In h (mop_hosts o) -> In h hs) ->
  mrun (new_manager offs) ops = Some m ->
  (forall h r, holds m h r = true -> In h hs) /\
  forall r c0, spec_cap offs r = Some c0 -> 0 <= c0 ->
    mholders m hs r <= c0 /\ cap m r = Some (c0 - mholders m hs r).
Proof.
  intros offs ops hs m Hnd Hh Hrun.
  destruct (mrun_inv (spec_cap offs) hs ops _ _ (new_manager_inv offs hs Hnd) Hh Hrun) as [_ [Hin Hr]].
  split; [exact Hin|]. intros r c0 Hc Hpos. specialize (Hr r). unfold RInv in Hr. rewrite Hc in Hr.
  destruct Hr as [c [Hcap [Hsum Hp]]]. specialize (Hp Hpos). split; [lia|]. rewrite Hcap. f_equal. lia.
Qed.

(* ------------------------------------------------------------------ the NodeClaim step *)
Section Claims.
  Variable cap0 : rid -> option Z.
  Hypothesis cap0_nonneg : forall r c0, cap0 r = Some c0 -> 0 <= c0.

  Definition known (r : rid) : Prop := cap0 r <> None.

  Definition SInv (s : sys) : Prop :=
    MInv cap0 (s_hosts s) (s_mgr s) /\
    (forall h r, holds (s_mgr s) h r = mem r (s_res s h)) /\
    (forall h, ~ In h (s_hosts s) -> s_res s h = []).

  Lemma can_reserve_known : forall hs m h r, MInv cap0 hs m -> known r -> exists b, can_reserve m h r = Some b.
  Proof.
    intros hs m h r [_ [_ Hr]] Hk. unfold can_reserve. destruct (holds m h r); [eexists; reflexivity|].
    specialize (Hr r). unfold RInv in Hr. unfold known in Hk. destruct (cap0 r); [|congruence].
    destruct Hr as [c [Hc _]]. rewrite Hc. eexists; reflexivity.
  Qed.

  Lemma reservable_total : forall hs m h cands, MInv cap0 hs m -> Forall known cands ->
    exists rs, reservable m h cands = Some rs /\
      (forall r, In r rs <-> In r cands /\ can_reserve m h r = Some true).
  Proof.
    intros hs m h cands Hinv. induction cands as [|r t IH]; intros Hk; simpl.
    - exists []. split; [reflexivity|]. intros r. simpl. tauto.
    - inversion Hk as [|? ? Hr Ht]; subst. destruct (IH Ht) as [rs [E Hrs]]. rewrite E.
      destruct (can_reserve_known hs m h r Hinv Hr) as [b Hb]. rewrite Hb. eexists. split; [reflexivity|].
      intros r'. destruct b; simpl; rewrite ?Hrs; split.
      + intros [He|[Hi Hc]]; [subst; split; [left; reflexivity | exact Hb] | split; [right; exact Hi | exact Hc]].
      + intros [[He|Hi] Hc]; [left; exact He | right; split; assumption].
      + intros [Hi Hc]. split; [right; exact Hi | exact Hc].
      + intros [[He|Hi] Hc]; [subst; congruence | split; assumption].
  Qed.

  (* Reserve after CanReserve never reaches the over-reserve panic *)
  Lemma reserve_ok : forall hs rs m h, MInv cap0 hs m -> In h hs ->
    (forall r, In r rs -> can_reserve m h r = Some true) ->
    exists m', reserve m h rs = Some m' /\ MInv cap0 hs m' /\
      forall h' r', holds m' h' r' = holds m h' r' || (String.eqb h' h && mem r' rs).
  Proof.
    intros hs rs. induction rs as [|r t IH]; intros m h Hinv Hh Hcan; simpl.
    - exists m. split; [reflexivity|]. split; [exact Hinv|]. intros. rewrite andb_false_r, orb_false_r. reflexivity.
    - assert (Hr := Hcan r (or_introl eq_refl)).
      assert (E1 : exists m1, reserve1 m h r = Some m1 /\
                (forall h' r', holds m1 h' r' = holds m h' r' || (String.eqb h' h && String.eqb r' r)) /\
                (forall r', r' <> r -> cap m1 r' = cap m r')).
      { unfold reserve1. unfold can_reserve in Hr. destruct (holds m h r) eqn:Hheld.
        - exists m. split; [reflexivity|]. split; [|reflexivity]. intros h' r'.
          destruct (String.eqb_spec h' h); destruct (String.eqb_spec r' r); subst; simpl; rewrite ?Hheld, ?orb_false_r; reflexivity.
        - destruct Hinv as [_ [_ Hri]]. specialize (Hri r). unfold RInv in Hri. destruct (cap m r) as [c|] eqn:Hc; [|discriminate].
          assert (Hnz : negb (c =? 0) = true) by congruence. apply negb_true_iff in Hnz. apply Z.eqb_neq in Hnz.
          destruct (cap0 r) as [c0|] eqn:Hc0; [|destruct Hri; congruence].
          destruct Hri as [c' [Hc' [_ Hp]]]. inversion Hc'; subst c'.
          specialize (Hp (cap0_nonneg r c0 Hc0)). unfold cap_or0. rewrite Hc.
          assert (Hge : (c - 1 <? 0) = false) by (apply Z.ltb_ge; lia). rewrite Hge.
          eexists. split; [reflexivity|]. split.
          + intros h' r'. simpl. unfold upd2. destruct (String.eqb h' h && String.eqb r' r) eqn:Eb.
            * destruct (holds m h' r'); reflexivity.
            * destruct (holds m h' r'); reflexivity.
          + intros r' Hne. simpl. apply upd_other. exact Hne. }
      destruct E1 as [m1 [E1 [Hh1 Hc1]]]. rewrite E1.
      assert (Hinv1 : MInv cap0 hs m1) by (eapply reserve1_inv; eauto).
      destruct (IH m1 h Hinv1 Hh) as [m' [E' [Hinv' Hh']]].
      { intros r' Hin. specialize (Hcan r' (or_intror Hin)). unfold can_reserve in *. rewrite Hh1.
        destruct (String.eqb_spec r' r) as [Er|Er].
        - subst r'. rewrite String.eqb_refl. simpl. rewrite orb_true_r. reflexivity.
        - rewrite andb_false_r, orb_false_r. rewrite (Hc1 r' Er). exact Hcan. }
      exists m'. split; [exact E'|]. split; [exact Hinv'|]. intros h' r'. rewrite Hh', Hh1.
      destruct (holds m h' r'); simpl; [reflexivity|]. destruct (String.eqb h' h); simpl; [|reflexivity].
      rewrite (String.eqb_sym r' r). reflexivity.
  Qed.

  Lemma release_dropped_ok : forall hs prev ofs m h, MInv cap0 hs m ->
    MInv cap0 hs (release_dropped m h prev ofs) /\
    forall h' r', holds (release_dropped m h prev ofs) h' r'
                  = holds m h' r' && negb (String.eqb h' h && mem r' prev && negb (mem r' ofs)).
  Proof.
    intros hs prev ofs. unfold release_dropped. induction prev as [|r t IH]; intros m h Hinv; simpl.
    - split; [exact Hinv|]. intros. rewrite andb_false_r. simpl. rewrite andb_true_r. reflexivity.
    - destruct (mem r ofs) eqn:Hm.
      + destruct (IH m h Hinv) as [Hi Hh]. split; [exact Hi|]. intros h' r'. rewrite Hh.
        destruct (String.eqb_spec r' r) as [E|E]; [|reflexivity]. subst r'. simpl. rewrite Hm. simpl.
        rewrite !andb_false_r. reflexivity.
      + destruct (IH (release1 m h r) h (release1_inv cap0 hs m h r Hinv)) as [Hi Hh]. split; [exact Hi|].
        intros h' r'. rewrite Hh. unfold release1. destruct (holds m h r) eqn:Hheld; simpl.
        * unfold upd2. destruct (String.eqb_spec h' h) as [Eh|Eh]; destruct (String.eqb_spec r' r) as [Er|Er]; subst; simpl.
          -- rewrite Hm. simpl. rewrite andb_false_r. reflexivity.
          -- reflexivity.
          -- rewrite andb_true_r. reflexivity.
          -- reflexivity.
        * destruct (String.eqb_spec h' h) as [Eh|Eh]; destruct (String.eqb_spec r' r) as [Er|Er]; subst; simpl; try reflexivity.
          rewrite Hheld. reflexivity.
  Qed.

  Lemma add_host_in : forall h hs, In h (add_host h hs).
  Proof.
    intros h hs. unfold add_host. destruct (mem h hs) eqn:E; [apply mem_In; exact E | apply in_or_app; right; left; reflexivity].
  Qed.

  Lemma add_host_other : forall h hs x, In x (add_host h hs) -> x = h \/ In x hs.
  Proof.
    intros h hs x. unfold add_host. destruct (mem h hs); [right; assumption|].
    intros H. apply in_app_or in H. destruct H as [H|[H|[]]]; [right; exact H | left; symmetry; exact H].
  Qed.

  Lemma MInv_add_host : forall s h, SInv s -> MInv cap0 (add_host h (s_hosts s)) (s_mgr s).
  Proof.
    intros s h [Hm _]. unfold add_host. destruct (mem h (s_hosts s)) eqn:E; [exact Hm|].
    apply MInv_extend; [exact Hm | apply mem_false; exact E].
  Qed.

  (* outcome of offeringsToReserve, in terms of what is reservable *)
  Definition otr_spec (gate : bool) (md : mode) (m : mgr) (h : host) (prev cands : list rid) (o : outcome) : Prop :=
    match o with
    | Placed ofs =>
        if gate then
          (forall r, In r ofs <-> In r cands /\ can_reserve m h r = Some true) /\
          (md = Strict -> (cands <> [] \/ prev <> []) -> ofs <> [])
        else ofs = []
    | Deferred => gate = true /\ md = Strict /\ (cands <> [] \/ prev <> []) /\
                  forall r, In r cands -> can_reserve m h r = Some false
    end.

  Lemma otr_total : forall hs gate md m h prev cands, MInv cap0 hs m -> Forall known cands ->
    exists o, offerings_to_reserve gate md m h prev cands = Some o /\ otr_spec gate md m h prev cands o.
  Proof.
    intros hs gate md m h prev cands Hinv Hk. unfold offerings_to_reserve. destruct gate; simpl.
    2:{ exists (Placed []). split; reflexivity. }
    destruct (reservable_total hs m h cands Hinv Hk) as [rs [E Hrs]]. rewrite E.
    assert (Hnone : rs = [] -> forall r, In r cands -> can_reserve m h r = Some false).
    { intros Hnil r Hin. rewrite Forall_forall in Hk. destruct (can_reserve_known hs m h r Hinv (Hk r Hin)) as [b Hb].
      destruct b; [|exact Hb]. exfalso. assert (Hx : In r rs) by (apply Hrs; split; assumption). subst rs. destruct Hx. }
    destruct md.
    - exists (Placed rs). split; [reflexivity|]. simpl. split; [exact Hrs | discriminate].
    - destruct (negb (is_nil cands) && is_nil rs) eqn:E1.
      + apply andb_prop in E1. destruct E1 as [Ec Er]. apply is_nil_spec in Er. apply negb_true_iff in Ec.
        exists Deferred. split; [reflexivity|]. simpl. repeat split; auto.
        left. intros Hx. apply is_nil_spec in Hx. congruence.
      + destruct (negb (is_nil prev) && is_nil rs) eqn:E2.
        * apply andb_prop in E2. destruct E2 as [Ep Er]. apply is_nil_spec in Er. apply negb_true_iff in Ep.
          exists Deferred. split; [reflexivity|]. simpl. repeat split; auto.
          right. intros Hx. apply is_nil_spec in Hx. congruence.
        * exists (Placed rs). split; [reflexivity|]. simpl. split; [exact Hrs|]. intros _ Hor Hnil.
          apply is_nil_spec in Hnil. rewrite Hnil in E1, E2. rewrite andb_true_r in E1, E2.
          apply negb_false_iff in E1. apply negb_false_iff in E2. apply is_nil_spec in E1. apply is_nil_spec in E2.
          destruct Hor; contradiction.
  Qed.

  (* one step never panics and preserves the invariant *)
  Lemma step_inv : forall gate md s h cands, SInv s -> Forall known cands ->
    exists s' o, step gate md s h cands = Some (s', o) /\ SInv s' /\
      otr_spec gate md (s_mgr s) h (s_res s h) cands o /\
      match o with
      | Deferred => s' = s
      | Placed ofs => s_res s' h = ofs /\ (forall h', h' <> h -> s_res s' h' = s_res s h') /\
                      s_hosts s' = add_host h (s_hosts s)
      end.
  Proof.
    intros gate md s h cands Hs Hk. assert (Hs' := Hs). destruct Hs' as [Hm [Hheld Hout]]. unfold step.
    destruct (otr_total (s_hosts s) gate md (s_mgr s) h (s_res s h) cands Hm Hk) as [o [Eo Hspec]]. rewrite Eo.
    destruct o as [ofs|].
    2:{ exists s, Deferred. split; [reflexivity|]. split; [exact Hs|]. split; [exact Hspec | reflexivity]. }
    assert (Hcan : forall r, In r ofs -> can_reserve (s_mgr s) h r = Some true).
    { intros r Hin. simpl in Hspec. destruct gate; [apply Hspec in Hin; tauto | subst ofs; destruct Hin]. }
    destruct (reserve_ok (add_host h (s_hosts s)) ofs (s_mgr s) h (MInv_add_host s h Hs) (add_host_in h _) Hcan)
      as [m1 [E1 [Hinv1 Hh1]]].
    unfold claim_add. rewrite E1.
    destruct (release_dropped_ok (add_host h (s_hosts s)) (s_res s h) ofs m1 h Hinv1) as [Hinv2 Hh2].
    eexists. exists (Placed ofs). split; [reflexivity|]. split.
    - split; [exact Hinv2|]. simpl. split.
      + intros h' r'. rewrite Hh2, Hh1, Hheld. unfold upd. destruct (String.eqb_spec h' h) as [E|E].
        * subst h'. simpl. destruct (mem r' (s_res s h)); destruct (mem r' ofs); reflexivity.
        * simpl. rewrite orb_false_r, andb_true_r. reflexivity.
      + intros h' Hn. unfold upd. destruct (String.eqb_spec h' h) as [E|E].
        * subst h'. exfalso. apply Hn. apply add_host_in.
        * apply Hout. intros Hx. apply Hn. unfold add_host. destruct (mem h (s_hosts s)); [exact Hx | apply in_or_app; left; exact Hx].
    - split; [exact Hspec|]. simpl. split; [apply upd_same|]. split; [|reflexivity].
      intros h' Hne. apply upd_other. exact Hne.
  Qed.

  Lemma run_inv : forall gate md ops s, SInv s ->
    (forall h cands, In (h, cands) ops -> Forall known cands) ->
    exists s', run gate md s ops = Some s' /\ SInv s'.
  Proof.
    intros gate md ops. induction ops as [|[h cands] t IH]; intros s Hs Hk; simpl.
    - exists s. split; [reflexivity | exact Hs].
    - destruct (step_inv gate md s h cands Hs (Hk h cands (or_introl eq_refl))) as [s1 [o [E [Hs1 _]]]]. rewrite E.
      apply IH; [exact Hs1|]. intros h' c' Hin. eapply Hk. right. exact Hin.
  Qed.

  (* consequences of the invariant *)
  Lemma SInv_holders : forall s r c0, SInv s -> cap0 r = Some c0 ->
    0 <= holders s r <= c0 /\ cap (s_mgr s) r = Some (c0 - holders s r).
  Proof.
    intros s r c0 [[Hnd [Hin Hr]] [Hheld _]] Hc. specialize (Hr r). unfold RInv in Hr. rewrite Hc in Hr.
    destruct Hr as [c [Hcap [Hsum Hp]]]. specialize (Hp (cap0_nonneg r c0 Hc)).
    assert (E : holders s r = mholders (s_mgr s) (s_hosts s) r).
    { unfold holders, mholders. apply cnt_ext. intros h _. symmetry. apply Hheld. }
    rewrite E. assert (Hn := cnt_nonneg (fun h => holds (s_mgr s) h r) (s_hosts s)). unfold mholders in *.
    split; [lia|]. rewrite Hcap. f_equal. lia.
  Qed.

  Lemma SInv_pinned : forall s h r, SInv s ->
    (match pin s h with Some ids => In r ids | None => False end) <-> holds (s_mgr s) h r = true.
  Proof.
    intros s h r [_ [Hheld _]]. rewrite Hheld. unfold pin. destruct (s_res s h) as [|a t] eqn:E.
    - simpl. split; [tauto | discriminate].
    - rewrite mem_In. tauto.
  Qed.

  Lemma SInv_pinned_known : forall s h r, SInv s -> In r (s_res s h) -> known r /\ In h (s_hosts s).
  Proof.
    intros s h r [[_ [Hin Hr]] [Hheld _]] Hi. apply mem_In in Hi. rewrite <- Hheld in Hi. split; [|eapply Hin; eauto].
    specialize (Hr r). unfold RInv, known in *. destruct (cap0 r); [congruence|]. destruct Hr as [_ Hno]. rewrite Hno in Hi. discriminate.
  Qed.
End Claims.

Lemma init_SInv : forall offs, SInv (spec_cap offs) (init_sys offs).
Proof.
  intros offs. split; [apply new_manager_inv; constructor|]. split; [intros; reflexivity | intros; reflexivity].
Qed.

Definition ops_known (offs : list (string * rid * Z)) (ops : list (host * list rid)) : Prop :=
  forall h cands, In (h, cands) ops -> Forall (fun r => spec_cap offs r <> None) cands.

Definition caps_nonneg (offs : list (string * rid * Z)) : Prop :=
  forall r c0, spec_cap offs r = Some c0 -> 0 <= c0.

(* (a) for every sequence of pod additions over any number of NodeClaims: the pass never reaches a panic branch,
   the number of NodeClaims holding r stays within r's capacity and the manager's capacity map is exact *)
Lemma holders_le_capacity_l : forall gate md offs ops, caps_nonneg offs -> ops_known offs ops ->
  exists s, run gate md (init_sys offs) ops = Some s /\
    forall r c0, spec_cap offs r = Some c0 ->
      0 <= holders s r <= c0 /\ cap (s_mgr s) r = Some (c0 - holders s r).
Proof.
  intros gate md offs ops Hnn Hk.
  destruct (run_inv (spec_cap offs) Hnn gate md ops (init_sys offs) (init_SInv offs) Hk) as [s [E Hs]].
  exists s. split; [exact E|]. intros r c0 Hc. apply (SInv_holders (spec_cap offs) Hnn s r c0 Hs Hc).
Qed.

(* (b) what FinalizeScheduling pins is exactly what the manager records for the NodeClaim *)
Lemma pinned_exactly_l : forall gate md offs ops s h r, caps_nonneg offs -> ops_known offs ops ->
  run gate md (init_sys offs) ops = Some s ->
  ((match pin s h with Some ids => In r ids | None => False end) <-> holds (s_mgr s) h r = true) /\
  (pin s h <> Some []) /\
  (forall ids, pin s h = Some ids -> In r ids -> spec_cap offs r <> None /\ In h (s_hosts s)).
Proof.
  intros gate md offs ops s h r Hnn Hk Hrun.
  destruct (run_inv (spec_cap offs) Hnn gate md ops (init_sys offs) (init_SInv offs) Hk) as [s' [E Hs]].
  rewrite Hrun in E. inversion E; subst s'. split; [apply (SInv_pinned (spec_cap offs)); exact Hs|]. split.
  - unfold pin. destruct (s_res s h); discriminate.
  - intros ids Hp Hin. unfold pin in Hp. destruct (s_res s h) eqn:Er; [discriminate|]. inversion Hp; subst ids.
    rewrite <- Er in Hin. apply (SInv_pinned_known (spec_cap offs) s h r Hs Hin).
Qed.

(* (c) strict mode, from any reachable state: if compatible reserved offerings exist and every one of them is
   exhausted (not held by this NodeClaim, no capacity left), the pod is deferred and nothing changes *)
Lemma strict_defers_l : forall offs ops s h cands, caps_nonneg offs -> ops_known offs ops ->
  run true Strict (init_sys offs) ops = Some s ->
  cands <> [] -> Forall (fun r => spec_cap offs r <> None) cands ->
  (forall r, In r cands -> holds (s_mgr s) h r = false /\ cap (s_mgr s) r = Some 0) ->
  step true Strict s h cands = Some (s, Deferred).
Proof.
  intros offs ops s h cands Hnn Hk Hrun Hne Hkn Hex.
  destruct (run_inv (spec_cap offs) Hnn true Strict ops (init_sys offs) (init_SInv offs) Hk) as [s' [E Hs]].
  rewrite Hrun in E. inversion E; subst s'.
  destruct (step_inv (spec_cap offs) Hnn true Strict s h cands Hs Hkn) as [s1 [o [Es [_ [Hspec Hres]]]]].
  destruct o as [ofs|]; [|subst s1; exact Es]. exfalso. simpl in Hspec. destruct Hspec as [Hiff Hne'].
  assert (Hofs : ofs <> []) by (apply Hne'; [reflexivity | left; exact Hne]).
  destruct ofs as [|r t]; [congruence|]. destruct (proj1 (Hiff r) (or_introl eq_refl)) as [Hin Hcan].
  destruct (Hex r Hin) as [Hh Hc]. unfold can_reserve in Hcan. rewrite Hh, Hc in Hcan. simpl in Hcan. discriminate.
Qed.

(* (c') strict mode never falls back silently: a pod that is placed while compatible reserved offerings exist (or
   while the NodeClaim already held reservations) leaves the NodeClaim holding at least one reservation, all of
   them among the compatible ones; and such a NodeClaim is pinned *)
Lemma strict_no_silent_fallback_l : forall offs ops s h cands s' ofs, caps_nonneg offs -> ops_known offs ops ->
  run true Strict (init_sys offs) ops = Some s ->
  Forall (fun r => spec_cap offs r <> None) cands ->
  step true Strict s h cands = Some (s', Placed ofs) ->
  (forall r, In r ofs -> In r cands) /\
  ((cands <> [] \/ pin s h <> None) -> ofs <> [] /\ pin s' h = Some ofs).
Proof.
  intros offs ops s h cands s' ofs Hnn Hk Hrun Hkn Hstep.
  destruct (run_inv (spec_cap offs) Hnn true Strict ops (init_sys offs) (init_SInv offs) Hk) as [s0 [E Hs]].
  rewrite Hrun in E. inversion E; subst s0.
  destruct (step_inv (spec_cap offs) Hnn true Strict s h cands Hs Hkn) as [s1 [o [Es [_ [Hspec Hres]]]]].
  rewrite Hstep in Es. inversion Es; subst s1 o. simpl in Hspec. destruct Hspec as [Hiff Hne]. split.
  - intros r Hin. apply Hiff in Hin. tauto.
  - intros Hor. assert (Hofs : ofs <> []).
    { apply Hne; [reflexivity|]. destruct Hor as [Hc|Hp]; [left; exact Hc|]. right. unfold pin in Hp.
      destruct (s_res s h); [congruence | discriminate]. }
    split; [exact Hofs|]. destruct Hres as [Hr _]. unfold pin. rewrite Hr. destruct ofs; [congruence | reflexivity].
Qed.

(* fallback mode: a placed pod reserves every compatible offering that still can be reserved, and releases the rest *)
Lemma placed_reserves_all_reservable_l : forall gate md offs ops s h cands s' ofs, caps_nonneg offs -> ops_known offs ops ->
  run gate md (init_sys offs) ops = Some s ->
  Forall (fun r => spec_cap offs r <> None) cands ->
  step gate md s h cands = Some (s', Placed ofs) ->
  forall r, holds (s_mgr s') h r = true <-> In r ofs.
Proof.
  intros gate md offs ops s h cands s' ofs Hnn Hk Hrun Hkn Hstep.
  destruct (run_inv (spec_cap offs) Hnn gate md ops (init_sys offs) (init_SInv offs) Hk) as [s0 [E Hs]].
  rewrite Hrun in E. inversion E; subst s0.
  destruct (step_inv (spec_cap offs) Hnn gate md s h cands Hs Hkn) as [s1 [o [Es [Hs1 [_ Hres]]]]].
  rewrite Hstep in Es. inversion Es; subst s1 o. destruct Hres as [Hr _]. destruct Hs1 as [_ [Hheld _]].
  intros r. rewrite Hheld, Hr. apply mem_In.
Qed.

(* ------------------------------------------------------------------ the fragment layer is an instance of [step] *)
Lemma fstep_is_step : forall gate md s h fresh pod s' out,
  fstep gate md s h fresh pod = Some (s', out) ->
  match out with
  | FPlaced ofs _ cands => step gate md (fs_core s) h cands = Some (fs_core s', Placed ofs)
  | FDeferred => s' = s /\ exists cands c, step gate md (fs_core s) h cands = Some (c, Deferred)
  | FIncompatible => s' = s
  end.
Proof.
  intros gate md s h fresh pod s' out H. unfold fstep in H.
  destruct (match fresh with Some x => x | None => (fs_req s h, fs_its s h) end) as [q0 its0].
  destruct (negb (fcompat q0 pod)); [inversion H; subst; reflexivity|].
  destruct (is_nil (filter (it_ok (finter q0 pod)) its0)); [inversion H; subst; reflexivity|].
  destruct (step gate md (fs_core s) h (cands_of (finter q0 pod) (filter (it_ok (finter q0 pod)) its0))) as [[c o]|] eqn:E; [|discriminate].
  destruct o as [ofs|]; inversion H; subst; simpl.
  - exact E.
  - split; [reflexivity|]. eexists. eexists. exact E.
Qed.

Lemma cands_of_in_catalog : forall q its r, In r (cands_of q its) ->
  exists c, In (reserved_ct, r, c) (catalog_offs its).
Proof.
  intros q its r H. unfold cands_of in H. apply in_flat_map in H. destruct H as [it [Hit H]].
  apply in_map_iff in H. destruct H as [o [Ho H]]. apply filter_In in H. destruct H as [Hin Hf].
  apply andb_prop in Hf. destruct Hf as [Hf _]. apply andb_prop in Hf. destruct Hf as [Hct _]. apply String.eqb_eq in Hct.
  exists (o_cap o). unfold catalog_offs. apply in_flat_map. exists it. split; [exact Hit|]. apply in_map_iff. exists o.
  split; [|exact Hin]. rewrite Hct, Ho. reflexivity.
Qed.

Lemma spec_cap_known : forall offs r c, In (reserved_ct, r, c) offs -> spec_cap offs r <> None.
Proof.
  induction offs as [|[[ct r'] n] t IH]; intros r c H; [destruct H|]. simpl. destruct H as [H|H].
  - inversion H; subst. rewrite !String.eqb_refl. simpl. destruct (spec_cap t r); discriminate.
  - destruct (String.eqb ct reserved_ct && String.eqb r' r); [destruct (spec_cap t r); discriminate | eapply IH; eauto].
Qed.

(* ------------------------------------------------------------------ template choice *)
Lemma choose_template_spec : forall rs i j, choose_template rs i = Some j ->
  (i <= j)%nat /\ nth_error rs (j - i) = Some TOk /\ forall k, (k < j - i)%nat -> nth_error rs k = Some TOther.
Proof.
  induction rs as [|x t IH]; intros i j H; simpl in H; [discriminate|]. destruct x.
  - inversion H; subst. rewrite Nat.sub_diag. repeat split; [lia | intros k Hk; lia].
  - discriminate.
  - destruct (IH (S i) j H) as [Hle [Hn Hall]]. split; [lia|].
    replace (j - i)%nat with (S (j - S i)) by lia. simpl. split; [exact Hn|].
    intros k Hk. destruct k; [reflexivity|]. simpl. apply Hall. lia.
Qed.

Lemma choose_template_none : forall rs i, choose_template rs i = None ->
  (forall x, In x rs -> x = TOther) \/
  exists k, nth_error rs k = Some TReserved /\ forall k', (k' < k)%nat -> nth_error rs k' = Some TOther.
Proof.
  induction rs as [|x t IH]; intros i H; simpl in H.
  - left. intros x [].
  - destruct x; [discriminate | |].
    + right. exists 0%nat. split; [reflexivity | intros; lia].
    + destruct (IH (S i) H) as [Hall|[k [Hk Hlt]]].
      * left. intros x [Hx|Hx]; [symmetry; exact Hx | apply Hall; exact Hx].
      * right. exists (S k). split; [exact Hk|]. intros k' Hk'. destruct k'; [reflexivity|]. simpl. apply Hlt. lia.
Qed.

Lemma no_lower_weight_fallback_l : forall rs, choice_ok rs (choose_template rs 0).
Proof.
  intros rs. unfold choice_ok. destruct (choose_template rs 0) as [j|] eqn:E; [|exact I].
  destruct (choose_template_spec rs 0 j E) as [_ [Hn Hall]]. rewrite Nat.sub_0_r in *. split; assumption.
Qed.

(* ------------------------------------------------------------------ the oracles decide the specification *)
Lemma subset_spec : forall a b, subset a b = true <-> forall x, In x a -> In x b.
Proof.
  intros a b. unfold subset. rewrite forallb_forall. split; intros H x Hx; [apply mem_In; apply H; exact Hx | apply mem_In; apply H; exact Hx].
Qed.

Lemma set_eqb_spec : forall a b, set_eqb a b = true <-> forall x, In x a <-> In x b.
Proof.
  intros a b. unfold set_eqb. rewrite andb_true_iff, !subset_spec. split.
  - intros [H1 H2] x. split; [apply H1 | apply H2].
  - intros H. split; intros x; apply H.
Qed.

Lemma snap_holds_b_spec : forall offs s, snap_holds_b offs s = true <-> snap_holds offs s.
Proof.
  intros offs s. unfold snap_holds_b, snap_holds. rewrite forallb_forall. split.
  - intros H r c0 Hc Hpos. specialize (H r (spec_cap_in offs r c0 Hc)). rewrite Hc in H.
    assert (Hp : (0 <=? c0) = true) by (apply Z.leb_le; exact Hpos). rewrite Hp in H.
    apply andb_prop in H. destruct H as [H1 H2]. apply Z.leb_le in H1. split; [exact H1|].
    destruct (assoc r (fst s)); [|discriminate]. apply Z.eqb_eq in H2. subst. reflexivity.
  - intros H r _. destruct (spec_cap offs r) as [c0|] eqn:Hc; [|reflexivity].
    destruct (0 <=? c0) eqn:Hp; [|reflexivity]. apply Z.leb_le in Hp. destruct (H r c0 Hc Hp) as [H1 H2].
    rewrite H2. apply andb_true_intro. split; [apply Z.leb_le; exact H1 | apply Z.eqb_refl].
Qed.

Lemma pinned_ok_b_spec : forall held c, pinned_ok_b held c = true <-> pinned_ok held c.
Proof.
  intros held [[[h pinned] ctonly] cands]. unfold pinned_ok_b, pinned_ok. rewrite orb_true_iff, is_nil_spec. split.
  - intros [H|H]; [left; exact H|]. destruct pinned as [ids|]; [|discriminate]. apply andb_prop in H. destruct H as [H1 H2].
    right. exists ids. split; [reflexivity|]. split; [apply set_eqb_spec; exact H1 | exact H2].
  - intros [H|[ids [Hp [Heq Hc]]]]; [left; exact H|]. right. subst pinned. apply andb_true_intro. split; [apply set_eqb_spec; exact Heq | exact Hc].
Qed.

Lemma strict_ok_b_spec : forall md held c, strict_ok_b md held c = true <-> strict_ok md held c.
Proof.
  intros md held [[[h pinned] ctonly] cands]. unfold strict_ok_b, strict_ok. destruct md.
  - split; [intros _ H; discriminate | reflexivity].
  - rewrite orb_true_iff, negb_true_iff, is_nil_spec. split.
    + intros [H|H] _ Hn; [apply is_nil_spec in Hn; congruence | exact H].
    + intros H. destruct (is_nil (held_of h held)) eqn:E; [right; apply H; [reflexivity | apply is_nil_spec; exact E] | left; reflexivity].
Qed.

Lemma solve_ok_b_spec : forall md offs claims s, solve_ok_b md offs claims s = true <-> solve_ok md offs claims s.
Proof.
  intros md offs claims s. unfold solve_ok_b, solve_ok. rewrite andb_true_iff, snap_holds_b_spec, forallb_forall. split.
  - intros [H1 H3]. split; [exact H1|]. intros c Hc. specialize (H3 c Hc). apply andb_prop in H3. destruct H3 as [Ha Hb].
    split; [apply pinned_ok_b_spec; exact Ha | apply strict_ok_b_spec; exact Hb].
  - intros [H1 H3]. split; [exact H1|]. intros c Hc. destruct (H3 c Hc) as [Ha Hb]. apply andb_true_intro.
    split; [apply pinned_ok_b_spec; exact Ha | apply strict_ok_b_spec; exact Hb].
Qed.

Lemma placed_ok_b_spec : forall md ofs cands, placed_ok_b md ofs cands = true <-> placed_ok md ofs cands.
Proof.
  intros md ofs cands. unfold placed_ok_b, placed_ok. rewrite andb_true_iff, subset_spec. destruct md.
  - split; [intros [H _]; split; [exact H | discriminate] | intros [H _]; split; [exact H | reflexivity]].
  - rewrite orb_true_iff, negb_true_iff. split.
    + intros [H [Hc|Ho]]; split; try exact H; intros _ Hne Hx.
      * apply is_nil_spec in Hc. contradiction.
      * subst ofs. discriminate.
    + intros [H Hs]. split; [exact H|]. destruct cands as [|c t]; [left; reflexivity|]. right.
      destruct ofs; [exfalso; apply Hs; [reflexivity | discriminate | reflexivity] | reflexivity].
Qed.

Lemma firstn_all_spec : forall (outs : list tres) j, (j <= length outs)%nat ->
  forallb (fun x => tres_eqb x TOther) (firstn j outs) = true <-> forall i, (i < j)%nat -> nth_error outs i = Some TOther.
Proof.
  induction outs as [|x t IH]; intros j Hj; simpl in Hj.
  - assert (j = 0)%nat by lia. subst. simpl. split; [intros _ i Hi; lia | reflexivity].
  - destruct j; simpl; [split; [intros _ i Hi; lia | reflexivity]|]. rewrite andb_true_iff, (IH j ltac:(lia)). split.
    + intros [Hx Hall] i Hi. destruct i; simpl; [destruct x; try discriminate; reflexivity | apply Hall; lia].
    + intros H. split; [specialize (H 0%nat ltac:(lia)); simpl in H; inversion H; reflexivity|].
      intros i Hi. apply (H (S i)). lia.
Qed.

Lemma choice_ok_b_spec : forall outs chosen, choice_ok_b outs chosen = true <-> choice_ok outs chosen.
Proof.
  intros outs [j|]; unfold choice_ok_b, choice_ok; [|tauto]. rewrite andb_true_iff. split.
  - intros [H1 H2]. destruct (nth_error outs j) as [x|] eqn:E; [|discriminate]. destruct x; try discriminate.
    split; [reflexivity|]. apply firstn_all_spec; [|exact H2]. apply Nat.lt_le_incl. apply nth_error_Some. congruence.
  - intros [H1 H2]. rewrite H1. split; [reflexivity|]. apply firstn_all_spec; [|exact H2].
    apply Nat.lt_le_incl. apply nth_error_Some. congruence.
Qed.

(* ------------------------------------------------------------------ the fragment layer, multi-step *)
Definition fop := (host * option (freq * list itype) * freq)%type.

Fixpoint frun (gate : bool) (md : mode) (s : fsys) (ops : list fop) : option fsys :=
  match ops with
  | [] => Some s
  | (h, fresh, pod) :: t =>
      match fstep gate md s h fresh pod with
      | None => None
      | Some (s', _) => frun gate md s' t
      end
  end.

Definition tpls_offs (tpls : list (freq * list itype)) : list (string * rid * Z) := flat_map (fun t => catalog_offs (snd t)) tpls.

Definition finit (tpls : list (freq * list itype)) : fsys :=
  mkFS (init_sys (tpls_offs tpls)) (fun _ => mkF None None None RAny) (fun _ => []).

Definition its_in_cat (tpls : list (freq * list itype)) (its : list itype) : Prop :=
  forall it, In it its -> exists tpl, In tpl tpls /\ In it (snd tpl).

Lemma catalog_in_tpls : forall tpls its x, its_in_cat tpls its -> In x (catalog_offs its) -> In x (tpls_offs tpls).
Proof.
  intros tpls its x Hc H. unfold catalog_offs in H. apply in_flat_map in H. destruct H as [it [Hit Hx]].
  destruct (Hc it Hit) as [tpl [Ht Hi]]. unfold tpls_offs. apply in_flat_map. exists tpl. split; [exact Ht|].
  unfold catalog_offs. apply in_flat_map. exists it. split; assumption.
Qed.

Lemma cands_known : forall tpls q its, its_in_cat tpls its ->
  Forall (fun r => spec_cap (tpls_offs tpls) r <> None) (cands_of q its).
Proof.
  intros tpls q its Hc. apply Forall_forall. intros r Hr. destruct (cands_of_in_catalog q its r Hr) as [c Hin].
  eapply spec_cap_known. eapply catalog_in_tpls; eauto.
Qed.

Definition FInv (tpls : list (freq * list itype)) (s : fsys) : Prop :=
  SInv (spec_cap (tpls_offs tpls)) (fs_core s) /\ forall h, its_in_cat tpls (fs_its s h).

Definition fops_ok (tpls : list (freq * list itype)) (ops : list fop) : Prop :=
  forall h tpl pod, In (h, Some tpl, pod) ops -> In tpl tpls.

Lemma fstep_inv : forall tpls gate md s h fresh pod, caps_nonneg (tpls_offs tpls) -> FInv tpls s ->
  (forall tpl, fresh = Some tpl -> In tpl tpls) ->
  exists s' out, fstep gate md s h fresh pod = Some (s', out) /\ FInv tpls s'.
Proof.
  intros tpls gate md s h fresh pod Hnn [Hs Hc] Hf. unfold fstep.
  destruct (match fresh with Some x => x | None => (fs_req s h, fs_its s h) end) as [q0 its0] eqn:Eq.
  assert (Hits0 : its_in_cat tpls its0).
  { destruct fresh as [[q its]|]; inversion Eq; subst.
    - intros it Hit. exists (q0, its0). split; [apply Hf; reflexivity | exact Hit].
    - apply Hc. }
  destruct (negb (fcompat q0 pod)); [exists s, FIncompatible; split; [reflexivity | split; assumption]|].
  destruct (is_nil (filter (it_ok (finter q0 pod)) its0)); [exists s, FIncompatible; split; [reflexivity | split; assumption]|].
  assert (Hrem : its_in_cat tpls (filter (it_ok (finter q0 pod)) its0)).
  { intros it Hit. apply filter_In in Hit. apply Hits0. tauto. }
  destruct (step_inv (spec_cap (tpls_offs tpls)) Hnn gate md (fs_core s) h _ Hs (cands_known tpls (finter q0 pod) _ Hrem)) as [c' [o [E [Hs' _]]]].
  rewrite E. destruct o as [ofs|].
  - eexists. eexists. split; [reflexivity|]. split; [exact Hs'|]. intros h'. simpl. unfold upd.
    destruct (String.eqb h' h); [exact Hrem | apply Hc].
  - exists s, FDeferred. split; [reflexivity | split; assumption].
Qed.

(* every sequence of pods with In-requirements on zone / capacity type / instance type over any catalogue of
   NodePool templates: the run is total and the three claims of the property hold in the final state *)
Lemma fragment_pass_l : forall tpls gate md ops, caps_nonneg (tpls_offs tpls) -> fops_ok tpls ops ->
  exists fs, frun gate md (finit tpls) ops = Some fs /\
    (forall r c0, spec_cap (tpls_offs tpls) r = Some c0 ->
       0 <= holders (fs_core fs) r <= c0 /\ cap (s_mgr (fs_core fs)) r = Some (c0 - holders (fs_core fs) r)) /\
    (forall h r, (match pin (fs_core fs) h with Some ids => In r ids | None => False end) <-> holds (s_mgr (fs_core fs)) h r = true).
Proof.
  intros tpls gate md ops Hnn Hok.
  assert (G : forall ops s, FInv tpls s -> fops_ok tpls ops -> exists fs, frun gate md s ops = Some fs /\ FInv tpls fs).
  { induction ops0 as [|[[h fresh] pod] t IH]; intros s Hs Ho; simpl; [exists s; split; [reflexivity | exact Hs]|].
    destruct (fstep_inv tpls gate md s h fresh pod Hnn Hs) as [s' [out [E Hs']]].
    { intros tpl Hf. subst fresh. eapply Ho. left. reflexivity. }
    rewrite E. apply IH; [exact Hs'|]. intros h' tpl pod' Hin. eapply Ho. right. exact Hin. }
  destruct (G ops (finit tpls)) as [fs [E [Hs _]]].
  - split; [apply init_SInv | intros h it Hit; destruct Hit].
  - exact Hok.
  - exists fs. split; [exact E|]. split.
    + intros r c0 Hc. apply (SInv_holders (spec_cap (tpls_offs tpls)) Hnn (fs_core fs) r c0 Hs Hc).
    + intros h r. apply (SInv_pinned (spec_cap (tpls_offs tpls))). exact Hs.
Qed.

(* explicit reservation-id requirements of pods / NodePools: the requirement FinalizeScheduling leaves on a NodeClaim
   that holds reservations admits exactly the held ids (the held ids were admitted by the pods' / pool's own
   requirement, because only compatible offerings are reserved) *)
Lemma final_rids_exact_l : forall q held r, held <> [] ->
  (forall x, In x held -> radmits (f_rids q) x = true) ->
  (radmits (final_rids q held) r = true <-> In r held).
Proof.
  intros q held r Hne Hadm. unfold final_rids. destruct held as [|a t] eqn:Eh; [congruence|]. rewrite <- Eh in *. clear Hne.
  destruct (f_rids q) as [|l|k] eqn:Eq; simpl.
  - apply mem_In.
  - rewrite mem_In, filter_In, mem_In. split; [tauto|]. intros H. split; [|exact H]. apply mem_In. apply (Hadm r H).
  - rewrite mem_In, filter_In. split; [tauto|]. intros H. split; [exact H|]. apply (Hadm r H).
Qed.

Lemma cands_admitted : forall q its r, In r (cands_of q its) -> radmits (f_rids q) r = true.
Proof.
  intros q its r H. unfold cands_of in H. apply in_flat_map in H. destruct H as [it [_ H]]. apply in_map_iff in H.
  destruct H as [o [Ho H]]. apply filter_In in H. destruct H as [_ Hf]. apply andb_prop in Hf. destruct Hf as [Hf Hc].
  apply andb_prop in Hf. destruct Hf as [Hct _]. unfold off_compat in Hc. apply andb_prop in Hc. destruct Hc as [_ Hr].
  rewrite Hct in Hr. simpl in Hr. subst r. exact Hr.
Qed.
