(* C17 — proofs about the exclusive-device bookkeeping of the DRA allocation tracker. *)
From KV Require Import C17.Model C17.Proofs C17.DraModel.
Open Scope string_scope.
Open Scope Z_scope.

(* every device recorded for (NodeClaim, instance type) is owned, in the device table, by that NodeClaim and for
   that instance type *)
Definition DInv (t : tracker) : Prop :=
  forall x n it, In x (t_bync t n it) -> exists its, t_meta t x = Some (n, its) /\ In it its.

(* hence an in-cluster device never has two owning NodeClaims *)
Lemma DInv_single_owner : forall t x n it n' it', DInv t ->
  In x (t_bync t n it) -> In x (t_bync t n' it') -> n = n'.
Proof.
  intros t x n it n' it' H H1 H2. destruct (H x n it H1) as [its [E _]]. destruct (H x n' it' H2) as [its' [E' _]].
  rewrite E in E'. inversion E'. reflexivity.
Qed.

Lemma set2_same : forall f n it v, set2 f n it v n it = v.
Proof. intros. unfold set2. rewrite !String.eqb_refl. reflexivity. Qed.

Lemma set2_other : forall f n it v n' it', (n' <> n \/ it' <> it) -> set2 f n it v n' it' = f n' it'.
Proof.
  intros f n it v n' it' H. unfold set2.
  destruct (String.eqb_spec n' n); destruct (String.eqb_spec it' it); simpl; try reflexivity. destruct H; contradiction.
Qed.

Lemma set2_cases : forall f n it v n' it', (n' = n /\ it' = it /\ set2 f n it v n' it' = v) \/
                                          ((n' <> n \/ it' <> it) /\ set2 f n it v n' it' = f n' it').
Proof.
  intros f n it v n' it'. destruct (String.eqb_spec n' n) as [E1|E1]; destruct (String.eqb_spec it' it) as [E2|E2].
  - left. subst. repeat split. apply set2_same.
  - right. split; [right; exact E2 | apply set2_other; right; exact E2].
  - right. split; [left; exact E1 | apply set2_other; left; exact E1].
  - right. split; [left; exact E1 | apply set2_other; left; exact E1].
Qed.

Lemma dinit_inv : forall pre, DInv (dinit pre).
Proof. intros pre x n it H. destruct H. Qed.

Lemma dcommit1_inv : forall t n it d t', DInv t -> dcommit1 t n it d = Some t' -> DInv t'.
Proof.
  intros t n it d t' Hinv H. unfold dcommit1 in H. destruct (d_template d).
  - destruct (mem (d_name d) (t_tmpl t n it)); [discriminate|]. inversion H; subst. exact Hinv.
  - destruct (mem (d_name d) (t_bync t n it)); [discriminate|].
    set (x := d_name d) in *.
    assert (Hgen : forall its0 meta',
              meta' = upd (t_meta t) x (Some (n, it :: its0)) ->
              (forall n1 its1, t_meta t x = Some (n1, its1) -> n1 = n /\ its1 = its0) ->
              DInv (mkT (t_pre t) meta' (set2 (t_bync t) n it (x :: t_bync t n it)) (t_tmpl t))).
    { intros its0 meta' Hm Hx x0 n0 it0 Hin. simpl in *. subst meta'.
      destruct (set2_cases (t_bync t) n it (x :: t_bync t n it) n0 it0) as [[E1 [E2 E]]|[Hne E]]; rewrite E in Hin.
      - subst n0 it0. destruct Hin as [Hin|Hin].
        + subst x0. rewrite upd_same. eexists. split; [reflexivity | left; reflexivity].
        + destruct (Hinv x0 n it Hin) as [its1 [Em Hi]]. destruct (String.eqb_spec x0 x) as [Ex|Ex].
          * subst x0. rewrite upd_same. destruct (Hx n its1 Em) as [_ E']. subst its1. eexists. split; [reflexivity | right; exact Hi].
          * rewrite (upd_other _ _ _ _ _ Ex). exists its1. split; assumption.
      - destruct (Hinv x0 n0 it0 Hin) as [its1 [Em Hi]]. destruct (String.eqb_spec x0 x) as [Ex|Ex].
        + subst x0. rewrite upd_same. destruct (Hx n0 its1 Em) as [E1 E2]. subst n0 its1. eexists. split; [reflexivity | right; exact Hi].
        + rewrite (upd_other _ _ _ _ _ Ex). exists its1. split; assumption. }
    destruct (t_meta t x) as [[n' its]|] eqn:Em.
    + destruct (String.eqb_spec n' n) as [En|En]; simpl in H; [|discriminate]. subst n'.
      destruct (mem it its); [discriminate|]. inversion H; subst t'. apply (Hgen its); [reflexivity|].
      intros n1 its1 E1. inversion E1. split; reflexivity.
    + inversion H; subst t'. apply (Hgen []); [reflexivity|]. intros n1 its1 E1. discriminate.
Qed.

Lemma dcommit_l_inv : forall l t n t', DInv t -> dcommit_l t n l = Some t' -> DInv t'.
Proof.
  induction l as [|[it d] r IH]; intros t n t' Hinv H; simpl in H.
  - inversion H; subst; exact Hinv.
  - destruct (dcommit1 t n it d) as [t1|] eqn:E; [|discriminate]. eapply IH; [eapply dcommit1_inv; eauto | exact H].
Qed.

Lemma mem_remove_s : forall x y l, In x (remove_s y l) <-> In x l /\ x <> y.
Proof.
  intros x y l. unfold remove_s. rewrite filter_In, negb_true_iff. split; intros [H1 H2]; split; try exact H1.
  - apply String.eqb_neq. exact H2.
  - apply String.eqb_neq. exact H2.
Qed.

(* a successful release of instance type it: every listed device referenced it *)
Lemma drelease_devs_pre : forall it ds meta meta', drelease_devs meta it ds = Some meta' ->
  forall y, In y ds -> exists n' its, meta y = Some (n', its) /\ In it its.
Proof.
  intros it ds. induction ds as [|x r IH]; intros meta meta' H y Hy; [destruct Hy|]. simpl in H.
  destruct (meta x) as [[n' its]|] eqn:Em; [|discriminate]. destruct (mem it its) eqn:Hm; simpl in H; [|discriminate].
  destruct (String.eqb_spec y x) as [E|E].
  - subst y. exists n', its. split; [exact Em | apply mem_In; exact Hm].
  - destruct Hy as [Hy|Hy]; [congruence|]. destruct (IH _ _ H y Hy) as [n1 [its1 [E1 Hi]]].
    rewrite (upd_other _ _ _ _ _ E) in E1. exists n1, its1. split; assumption.
Qed.

Lemma drelease_devs_post : forall it ds meta meta', drelease_devs meta it ds = Some meta' ->
  forall y, meta' y = if mem y ds then
                        match meta y with
                        | Some (n', its) => if is_nil (remove_s it its) then None else Some (n', remove_s it its)
                        | None => None
                        end
                      else meta y.
Proof.
  intros it ds. induction ds as [|x r IH]; intros meta meta' H y; simpl in H.
  - inversion H; subst. reflexivity.
  - destruct (meta x) as [[n' its]|] eqn:Em; [|discriminate]. destruct (mem it its) eqn:Hm; simpl in H; [|discriminate].
    assert (Hxr : mem x r = false).
    { destruct (mem x r) eqn:Ex; [|reflexivity]. exfalso. apply mem_In in Ex.
      destruct (drelease_devs_pre _ _ _ _ H x Ex) as [n1 [its1 [E1 Hi]]]. rewrite upd_same in E1.
      destruct (is_nil (remove_s it its)); [discriminate|]. inversion E1; subst. apply mem_remove_s in Hi. destruct Hi as [_ Hi]. congruence. }
    rewrite (IH _ _ H y). simpl. destruct (String.eqb_spec y x) as [E|E].
    + subst y. rewrite Hxr, upd_same, Em. simpl. reflexivity.
    + simpl. rewrite (upd_other _ _ _ _ _ E). reflexivity.
Qed.

Lemma drelease1_inv : forall t n it t', DInv t -> drelease1 t n it = Some t' -> DInv t'.
Proof.
  intros t n it t' Hinv H. unfold drelease1 in H. destruct (drelease_devs (t_meta t) it (t_bync t n it)) as [meta'|] eqn:E; [|discriminate].
  inversion H; subst t'; clear H. intros x0 n0 it0 Hin. simpl in *.
  destruct (set2_cases (t_bync t) n it [] n0 it0) as [[E1 [E2 Es]]|[Hne Es]]; rewrite Es in Hin; [destruct Hin|].
  destruct (Hinv x0 n0 it0 Hin) as [its0 [Em Hi]]. rewrite (drelease_devs_post _ _ _ _ E x0).
  destruct (mem x0 (t_bync t n it)) eqn:Hx.
  - apply mem_In in Hx. destruct (Hinv x0 n it Hx) as [its1 [Em1 _]]. rewrite Em in Em1. inversion Em1; subst n0 its1.
    assert (Hit : it0 <> it) by (destruct Hne; congruence). rewrite Em.
    assert (Hin' : In it0 (remove_s it its0)) by (apply mem_remove_s; split; assumption).
    destruct (remove_s it its0) eqn:Er; [destruct Hin'|]. simpl. eexists. split; [reflexivity | exact Hin'].
  - exists its0. split; assumption.
Qed.

(* ReleaseInstanceTypes never reaches its panics from a consistent state *)
Lemma drelease1_total : forall t n it, DInv t -> NoDup (t_bync t n it) -> exists t', drelease1 t n it = Some t'.
Proof.
  intros t n it Hinv Hnd. unfold drelease1.
  assert (H : forall ds meta, NoDup ds ->
            (forall y, In y ds -> exists n' its, meta y = Some (n', its) /\ In it its) ->
            exists meta', drelease_devs meta it ds = Some meta').
  { induction ds as [|x r IH]; intros meta Hn Hall; simpl; [eexists; reflexivity|].
    destruct (Hall x (or_introl eq_refl)) as [n' [its [Em Hi]]]. rewrite Em. apply mem_In in Hi. rewrite Hi. simpl.
    inversion Hn; subst. apply IH; [assumption|]. intros y Hy. destruct (Hall y (or_intror Hy)) as [n1 [its1 [E1 Hi1]]].
    assert (Hyx : y <> x) by (intros ->; contradiction). rewrite (upd_other _ _ _ _ _ Hyx). exists n1, its1. split; assumption. }
  destruct (H (t_bync t n it) (t_meta t) Hnd) as [meta' E].
  - intros y Hy. destruct (Hinv y n it Hy) as [its [Em Hi]]. exists n, its. split; assumption.
  - rewrite E. eexists. reflexivity.
Qed.

Lemma drelease_inv : forall its t n t', DInv t -> drelease t n its = Some t' -> DInv t'.
Proof.
  induction its as [|it r IH]; intros t n t' Hinv H; simpl in H.
  - inversion H; subst; exact Hinv.
  - destruct (drelease1 t n it) as [t1|] eqn:E; [|discriminate]. eapply IH; [eapply drelease1_inv; eauto | exact H].
Qed.

Lemma dstep_inv : forall t o t', DInv t -> fst (dstep t o) = Some t' -> DInv t'.
Proof.
  intros t o t' Hinv H. destruct o as [n its|n its|d n it]; simpl in H.
  - destruct (dcommit t n its) eqn:E; simpl in H; [|discriminate]. inversion H; subst. eapply dcommit_l_inv; eauto.
  - destruct (drelease t n its) eqn:E; simpl in H; [|discriminate]. inversion H; subst. eapply drelease_inv; eauto.
  - inversion H; subst. exact Hinv.
Qed.

(* for every sequence of commits (guarded or not), releases and queries that did not panic *)
Lemma drun_inv : forall pre ops t, drun (dinit pre) ops = Some t ->
  DInv t /\ forall x n it n' it', In x (t_bync t n it) -> In x (t_bync t n' it') -> n = n'.
Proof.
  intros pre ops t H.
  assert (G : forall ops t0 t1, DInv t0 -> drun t0 ops = Some t1 -> DInv t1).
  { induction ops0 as [|o r IH]; intros t0 t1 Hinv Hr; simpl in Hr; [inversion Hr; subst; exact Hinv|].
    destruct (fst (dstep t0 o)) as [t2|] eqn:E; [|discriminate]. eapply IH; [eapply dstep_inv; eauto | exact Hr]. }
  assert (Hinv := G ops _ _ (dinit_inv pre) H). split; [exact Hinv|]. intros. eapply DInv_single_owner; eauto.
Qed.

(* once committed for (n, it), a device stays owned by n for it through the rest of the same Commit *)
Lemma dcommit1_mono : forall t n it d t' x it0 its0, dcommit1 t n it d = Some t' ->
  t_meta t x = Some (n, its0) -> In it0 its0 -> exists its1, t_meta t' x = Some (n, its1) /\ In it0 its1.
Proof.
  intros t n it d t' x it0 its0 H Em Hi. unfold dcommit1 in H. destruct (d_template d).
  - destruct (mem (d_name d) (t_tmpl t n it)); [discriminate|]. inversion H; subst. simpl. exists its0. split; assumption.
  - destruct (mem (d_name d) (t_bync t n it)); [discriminate|]. destruct (String.eqb_spec x (d_name d)) as [E|E].
    + subst x. rewrite Em in H. rewrite String.eqb_refl in H. simpl in H. destruct (mem it its0); [discriminate|].
      inversion H; subst. simpl. rewrite upd_same. eexists. split; [reflexivity | right; exact Hi].
    + destruct (t_meta t (d_name d)) as [[n' its]|].
      * destruct (negb (String.eqb n' n)); [discriminate|]. destruct (mem it its); [discriminate|]. inversion H; subst. simpl.
        rewrite (upd_other _ _ _ _ _ E). exists its0. split; assumption.
      * inversion H; subst. simpl. rewrite (upd_other _ _ _ _ _ E). exists its0. split; assumption.
Qed.

Lemma dcommit1_owns : forall t n it d t', dcommit1 t n it d = Some t' -> d_template d = false ->
  exists its1, t_meta t' (d_name d) = Some (n, its1) /\ In it its1.
Proof.
  intros t n it d t' H Ht. unfold dcommit1 in H. rewrite Ht in H. destruct (mem (d_name d) (t_bync t n it)); [discriminate|].
  destruct (t_meta t (d_name d)) as [[n' its]|].
  - destruct (negb (String.eqb n' n)); [discriminate|]. destruct (mem it its); [discriminate|]. inversion H; subst. simpl.
    rewrite upd_same. eexists. split; [reflexivity | left; reflexivity].
  - inversion H; subst. simpl. rewrite upd_same. eexists. split; [reflexivity | left; reflexivity].
Qed.

Lemma dcommit_l_owns : forall l t n t' it d, dcommit_l t n l = Some t' -> In (it, d) l -> d_template d = false ->
  exists its1, t_meta t' (d_name d) = Some (n, its1) /\ In it its1.
Proof.
  induction l as [|[it0 d0] r IH]; intros t n t' it d H Hin Ht; [destruct Hin|]. simpl in H.
  destruct (dcommit1 t n it0 d0) as [t1|] eqn:E; [|discriminate]. destruct Hin as [Hin|Hin].
  - inversion Hin; subst it0 d0. destruct (dcommit1_owns _ _ _ _ _ E Ht) as [its1 [Em Hi]].
    clear IH E Hin. revert t1 its1 Em Hi H. induction r as [|[it2 d2] r2 IH2]; intros t1 its1 Em Hi H; simpl in H.
    + inversion H; subst. exists its1. split; assumption.
    + destruct (dcommit1 t1 n it2 d2) as [t2|] eqn:E2; [|discriminate].
      destruct (dcommit1_mono _ _ _ _ _ _ _ _ E2 Em Hi) as [its2 [Em2 Hi2]]. eapply IH2; eauto.
  - eapply IH; eauto.
Qed.

(* after a Commit, IsAllocated reports each committed in-cluster device as taken for every other NodeClaim (any
   instance type) and for the committing NodeClaim on that instance type *)
Lemma committed_blocks : forall t n its t' d it,
  DInv t -> dcommit t n its = Some t' -> In (it, d) (flatten its) -> d_template d = false ->
  (forall n' it', n' <> n -> dis_allocated t' d n' it' = true) /\ dis_allocated t' d n it = true.
Proof.
  intros t n its t' d it _ H Hin Ht. unfold dcommit in H.
  destruct (dcommit_l_owns _ _ _ _ _ _ H Hin Ht) as [its1 [Em Hi]]. unfold dis_allocated. rewrite Ht, Em. split.
  - intros n' it' Hne. destruct (mem (d_name d) (t_pre t')); [reflexivity|].
    assert (E : String.eqb n n' = false) by (apply String.eqb_neq; congruence). rewrite E. reflexivity.
  - destruct (mem (d_name d) (t_pre t')); [reflexivity|]. rewrite String.eqb_refl. simpl. apply mem_In. exact Hi.
Qed.
