(* C17 — proofs about the exclusive-device bookkeeping of the DRA allocation tracker. *)
From KV Require Import C17.Model C17.Proofs C17.DraModel.
Open Scope string_scope.
Open Scope Z_scope.

(* every device recorded for (NodeClaim, instance type) is owned, in the device table, by that NodeClaim and for
   that instance type *)
Definition DInv (t : tracker) : Prop :=
  forall x n it, In x (t_bync t n it) -> exists its, t_meta t x = Some (n, its) /\ In it its.

(* hence an in-cluster device never has two owning NodeClaims *)
Lemma DInv_single_owner : forall t x n it n' it', DInv t ->
  In x (t_bync t n it) -> In x (t_bync t n' it') -> n = n'.
Proof.
  intros t x n it n' it' H H1 H2. destruct (H x n it H1) as [its [E _]]. destruct (H x n' it' H2) as [its' [E' _]].
  rewrite E in E'. inversion E'. reflexivity.
Qed.

Lemma set2_same : forall f n it v, set2 f n it v n it = v.
Proof. intros. unfold set2. rewrite !String.eqb_refl. reflexivity. Qed.

Lemma set2_other : forall f n it v n' it', (n' <> n \/ it' <> it) -> set2 f n it v n' it' = f n' it'.
Proof.
  intros f n it v n' it' H. unfold set2.
  destruct (String.eqb_spec n' n); destruct (String.eqb_spec it' it); simpl; try reflexivity. destruct H; contradiction.
Qed.

Lemma set2_cases : forall f n it v n' it', (n' = n /\ it' = it /\ set2 f n it v n' it' = v) \/
                                          ((n' <> n \/ it' <> it) /\ set2 f n it v n' it' = f n' it').
Proof.
  intros f n it v n' it'. destruct (String.eqb_spec n' n) as [E1|E1]; destruct (String.eqb_spec it' it) as [E2|E2].
  - left. subst. repeat split. apply set2_same.
  - right. split; [right; exact E2 | apply set2_other; right; exact E2].
  - right. split; [left; exact E1 | apply set2_other; left; exact E1].
  - right. split; [left; exact E1 | apply set2_other; left; exact E1].
Qed.

Lemma dinit_inv : forall pre, DInv (dinit pre).
Proof. intros pre x n it H. destruct H. Qed.

Lemma dcommit1_inv : forall t n it d t', DInv t -> dcommit1 t n it d = Some t' -> DInv t'.
Proof.
  intros t n it d t' Hinv H. unfold dcommit1 in H. destruct (d_template d).
  - destruct (mem (d_name d) (t_tmpl t n it)); [discriminate|]. inversion H; subst. exact Hinv.
  - destruct (mem (d_name d) (t_bync t n it)); [discriminate|].
    set (x := d_name d) in *.
    assert (Hgen : forall its0 meta',
              meta' = upd (t_meta t) x (Some (n, it :: its0)) ->
              (forall n1 its1, t_meta t x = Some (n1, its1) -> n1 = n /\ its1 = its0) ->
              DInv (mkT (t_pre t) meta' (set2 (t_bync t) n it (x :: t_bync t n it)) (t_tmpl t))).
    { intros its0 meta' Hm Hx x0 n0 it0 Hin. simpl in *. subst meta'.
      destruct (set2_cases (t_bync t) n it (x :: t_bync t n it) n0 it0) as [[E1 [E2 E]]|[Hne E]]; rewrite E in Hin.
      - subst n0 it0. destruct Hin as [Hin|Hin].
        + subst x0. rewrite upd_same. eexists. split; [reflexivity | left; reflexivity].
        + destruct (Hinv x0 n it Hin) as [its1 [Em Hi]]. destruct (String.eqb_spec x0 x) as [Ex|Ex].
          * subst x0. rewrite upd_same. destruct (Hx n its1 Em) as [_ E']. subst its1. eexists. split; [reflexivity | right; exact Hi].
          * rewrite (upd_other _ _ _ _ _ Ex). exists its1. split; assumption.
      - destruct (Hinv x0 n0 it0 Hin) as [its1 [Em Hi]]. destruct (String.eqb_spec x0 x) as [Ex|Ex].
        + subst x0. rewrite upd_same. destruct (Hx n0 its1 Em) as [E1 E2]. subst n0 its1. eexists. split; [reflexivity | right; exact Hi].
        + rewrite (upd_other _ _ _ _ _ Ex). exists its1. split; assumption. }
    destruct (t_meta t x) as [[n' its]|] eqn:Em.
    + destruct (String.eqb_spec n' n) as [En|En]; simpl in H; [|discriminate]. subst n'.
      destruct (mem it its); [discriminate|]. inversion H; subst t'. apply (Hgen its); [reflexivity|].
      intros n1 its1 E1. inversion E1. split; reflexivity.
    + inversion H; subst t'. apply (Hgen []); [reflexivity|]. intros n1 its1 E1. discriminate.
Qed.

Lemma dcommit_l_inv : forall l t n t', DInv t -> dcommit_l t n l = Some t' -> DInv t'.
Proof.
  induction l as [|[it d] r IH]; intros t n t' Hinv H; simpl in H.
  - inversion H; subst; exact Hinv.
  - destruct (dcommit1 t n it d) as [t1|] eqn:E; [|discriminate]. eapply IH; [eapply dcommit1_inv; eauto | exact H].
Qed.

Lemma mem_remove_s : forall x y l, In x (remove_s y l) <-> In x l /\ x <> y.
Proof.
  intros x y l. unfold remove_s. rewrite filter_In, negb_true_iff. split; intros [H1 H2]; split; try exact H1.
  - apply String.eqb_neq. exact H2.
  - apply String.eqb_neq. exact H2.
Qed.

(* a successful release of instance type it: every listed device referenced it *)
Lemma drelease_devs_pre : forall it ds meta meta', drelease_devs meta it ds = Some meta' ->
  forall y, In y ds -> exists n' its, meta y = Some (n', its) /\ In it its.
Proof.
  intros it ds. induction ds as [|x r IH]; intros meta meta' H y Hy; [destruct Hy|]. simpl in H.
  destruct (meta x) as [[n' its]|] eqn:Em; [|discriminate]. destruct (mem it its) eqn:Hm; simpl in H; [|discriminate].
  destruct (String.eqb_spec y x) as [E|E].
  - subst y. exists n', its. split; [exact Em | apply mem_In; exact Hm].
  - destruct Hy as [Hy|Hy]; [congruence|]. destruct (IH _ _ H y Hy) as [n1 [its1 [E1 Hi]]].
    rewrite (upd_other _ _ _ _ _ E) in E1. exists n1, its1. split; assumption.
Qed.

Lemma drelease_devs_post : forall it ds meta meta', drelease_devs meta it ds = Some meta' ->
  forall y, meta' y = if mem y ds then
                        match meta y with
                        | Some (n', its) => if is_nil (remove_s it its) then None else Some (n', remove_s it its)
                        | None => None
                        end
                      else meta y.
Proof.
  intros it ds. induction ds as [|x r IH]; intros meta meta' H y; simpl in H.
  - inversion H; subst. reflexivity.
  - destruct (meta x) as [[n' its]|] eqn:Em; [|discriminate]. destruct (mem it its) eqn:Hm; simpl in H; [|discriminate].
    assert (Hxr : mem x r = false).
    { destruct (mem x r) eqn:Ex; [|reflexivity]. exfalso. apply mem_In in Ex.
      destruct (drelease_devs_pre _ _ _ _ H x Ex) as [n1 [its1 [E1 Hi]]]. rewrite upd_same in E1.
      destruct (is_nil (remove_s it its)); [discriminate|]. inversion E1; subst. apply mem_remove_s in Hi. destruct Hi as [_ Hi]. congruence. }
    rewrite (IH _ _ H y). simpl. destruct (String.eqb_spec y x) as [E|E].
    + subst y. rewrite Hxr, upd_same, Em. simpl. reflexivity.
    + simpl. rewrite (upd_other _ _ _ _ _ E). reflexivity.
Qed.

Lemma drelease1_inv : forall t n it t', DInv t -> drelease1 t n it = Some t' -> DInv t'.
Proof.
  intros t n it t' Hinv H. unfold drelease1 in H. destruct (drelease_devs (t_meta t) it (t_bync t n it)) as [meta'|] eqn:E; [|discriminate].
  inversion H; subst t'; clear H. intros x0 n0 it0 Hin. simpl in *.
  destruct (set2_cases (t_bync t) n it [] n0 it0) as [[E1 [E2 Es]]|[Hne Es]]; rewrite Es in Hin; [destruct Hin|].
  destruct (Hinv x0 n0 it0 Hin) as [its0 [Em Hi]]. rewrite (drelease_devs_post _ _ _ _ E x0).
  destruct (mem x0 (t_bync t n it)) eqn:Hx.
  - apply mem_In in Hx. destruct (Hinv x0 n it Hx) as [its1 [Em1 _]]. rewrite Em in Em1. inversion Em1; subst n0 its1.
    assert (Hit : it0 <> it) by (destruct Hne; congruence). rewrite Em.
    assert (Hin' : In it0 (remove_s it its0)) by (apply mem_remove_s; split; assumption).
    destruct (remove_s it its0) eqn:Er; [destruct Hin'|]. simpl. eexists. split; [reflexivity | exact Hin'].
  - exists its0. split; assumption.
Qed.

(* ReleaseInstanceTypes never reaches its panics from a consistent state *)
Lemma drelease1_total : forall t n it, DInv t -> NoDup (t_bync t n it) -> exists t', drelease1 t n it = Some t'.
Proof.
  intros t n it Hinv Hnd. unfold drelease1.
  assert (H : forall ds meta, NoDup ds ->
            (forall y, In y ds -> exists n' its, meta y = Some (n', its) /\ In it its) ->
            exists meta', drelease_devs meta it ds = Some meta').
  { induction ds as [|x r IH]; intros meta Hn Hall; simpl; [eexists; reflexivity|].
    destruct (Hall x (or_introl eq_refl)) as [n' [its [Em Hi]]]. rewrite Em. apply mem_In in Hi. rewrite Hi. simpl.
    inversion Hn; subst. apply IH; [assumption|]. intros y Hy. destruct (Hall y (or_intror Hy)) as [n1 [its1 [E1 Hi1]]].
    assert (Hyx : y <> x) by (intros ->; contradiction). rewrite (upd_other _ _ _ _ _ Hyx). exists n1, its1. split; assumption. }
  destruct (H (t_bync t n it) (t_meta t) Hnd) as [meta' E].
  - intros y Hy. destruct (Hinv y n it Hy) as [its [Em Hi]]. exists n, its. split; assumption.
  - rewrite E. eexists. reflexivity.
Qed.

Lemma drelease_inv : forall its t n t', DInv t -> drelease t n its = Some t' -> DInv t'.
Proof.
  induction its as [|it r IH]; intros t n t' Hinv H; simpl in H.
  - inversion H; subst; exact Hinv.
  - destruct (drelease1 t n it) as [t1|] eqn:E; [|discriminate]. eapply IH; [eapply drelease1_inv; eauto | exact H].
Qed.

Lemma dstep_inv : forall t o t', DInv t -> fst (dstep t o) = Some t' -> DInv t'.
Proof.
  intros t o t' Hinv H. destruct o as [n its|n its|d n it]; simpl in H.
  - destruct (dcommit t n its) eqn:E; simpl in H; [|discriminate]. inversion H; subst. eapply dcommit_l_inv; eauto.
  - destruct (drelease t n its) eqn:E; simpl in H; [|discriminate]. inversion H; subst. eapply drelease_inv; eauto.
  - inversion H; subst. exact Hinv.
Qed.

(* for every sequence of commits (guarded or not), releases and queries that did not panic *)
Lemma drun_inv : forall pre ops t, drun (dinit pre) ops = Some t ->
  DInv t /\ forall x n it n' it', In x (t_bync t n it) -> In x (t_bync t n' it') -> n = n'.
Proof.
  intros pre ops t H.
  assert (G : forall ops t0 t1, DInv t0 -> drun t0 ops = Some t1 -> DInv t1).
  { induction ops0 as [|o r IH]; intros t0 t1 Hinv Hr; simpl in Hr; [inversion Hr; subst; exact Hinv|].
    destruct (fst (dstep t0 o)) as [t2|] eqn:E; [|discriminate]. eapply IH; [eapply dstep_inv; eauto | exact Hr]. }
  assert (Hinv := G ops _ _ (dinit_inv pre) H). split; [exact Hinv|]. intros. eapply DInv_single_owner; eauto.
Qed.

(* once committed for (n, it), a device stays owned by n for it through the rest of the same Commit *)
Lemma dcommit1_mono : forall t n it d t' x it0 its0, dcommit1 t n it d = Some t' ->
  t_meta t x = Some (n, its0) -> In it0 its0 -> exists its1, t_meta t' x = Some (n, its1) /\ In it0 its1.
Proof.
  intros t n it d t' x it0 its0 H Em Hi. unfold dcommit1 in H. destruct (d_template d).
  - destruct (mem (d_name d) (t_tmpl t n it)); [discriminate|]. inversion H; subst. simpl. exists its0. split; assumption.
  - destruct (mem (d_name d) (t_bync t n it)); [discriminate|]. destruct (String.eqb_spec x (d_name d)) as [E|E].
    + subst x. rewrite Em in H. rewrite String.eqb_refl in H. simpl in H. destruct (mem it its0); [discriminate|].
      inversion H; subst. simpl. rewrite upd_same. eexists. split; [reflexivity | right; exact Hi].
    + destruct (t_meta t (d_name d)) as [[n' its]|].
      * destruct (negb (String.eqb n' n)); [discriminate|]. destruct (mem it its); [discriminate|]. inversion H; subst. simpl.
        rewrite (upd_other _ _ _ _ _ E). exists its0. split; assumption.
      * inversion H; subst. simpl. rewrite (upd_other _ _ _ _ _ E). exists its0. split; assumption.
Qed.

Lemma dcommit1_owns : forall t n it d t', dcommit1 t n it d = Some t' -> d_template d = false ->
  exists its1, t_meta t' (d_name d) = Some (n, its1) /\ In it its1.
Proof.
  intros t n it d t' H Ht. unfold dcommit1 in H. rewrite Ht in H. destruct (mem (d_name d) (t_bync t n it)); [discriminate|].
  destruct (t_meta t (d_name d)) as [[n' its]|].
  - destruct (negb (String.eqb n' n)); [discriminate|]. destruct (mem it its); [discriminate|]. inversion H; subst. simpl.
    rewrite upd_same. eexists. split; [reflexivity | left; reflexivity].
  - inversion H; subst. simpl. rewrite upd_same. eexists. split; [reflexivity | left; reflexivity].
Qed.

Lemma dcommit_l_owns : forall l t n t' it d, dcommit_l t n l = Some t' -> In (it, d) l -> d_template d = false ->
  exists its1, t_meta t' (d_name d) = Some (n, its1) /\ In it its1.
Proof.
  induction l as [|[it0 d0] r IH]; intros t n t' it d H Hin Ht; [destruct Hin|]. simpl in H.
  destruct (dcommit1 t n it0 d0) as [t1|] eqn:E; [|discriminate]. destruct Hin as [Hin|Hin].
  - inversion Hin; subst it0 d0. destruct (dcommit1_owns _ _ _ _ _ E Ht) as [its1 [Em Hi]].
    clear IH E Hin. revert t1 its1 Em Hi H. induction r as [|[it2 d2] r2 IH2]; intros t1 its1 Em Hi H; simpl in H.
    + inversion H; subst. exists its1. split; assumption.
    + destruct (dcommit1 t1 n it2 d2) as [t2|] eqn:E2; [|discriminate].
      destruct (dcommit1_mono _ _ _ _ _ _ _ _ E2 Em Hi) as [its2 [Em2 Hi2]]. eapply IH2; eauto.
  - eapply IH; eauto.
Qed.

(* after a Commit, IsAllocated reports each committed in-cluster device as taken for every other NodeClaim (any
   instance type) and for the committing NodeClaim on that instance type *)
Lemma committed_blocks : forall t n its t' d it,
  DInv t -> dcommit t n its = Some t' -> In (it, d) (flatten its) -> d_template d = false ->
  (forall n' it', n' <> n -> dis_allocated t' d n' it' = true) /\ dis_allocated t' d n it = true.
Proof.
  intros t n its t' d it _ H Hin Ht. unfold dcommit in H.
  destruct (dcommit_l_owns _ _ _ _ _ _ H Hin Ht) as [its1 [Em Hi]]. unfold dis_allocated. rewrite Ht, Em. split.
  - intros n' it' Hne. destruct (mem (d_name d) (t_pre t')); [reflexivity|].
    assert (E : String.eqb n n' = false) by (apply String.eqb_neq; congruence). rewrite E. reflexivity.
  - destruct (mem (d_name d) (t_pre t')); [reflexivity|]. rewrite String.eqb_refl. simpl. apply mem_In. exact Hi.
Qed.

(* ==================================================================================================== *)
(* shared counters and consumable capacity: the pessimistic-maximum ledger                              *)
(* ==================================================================================================== *)
Lemma pmaxl_nonneg : forall f its, 0 <= pmaxl f its.
Proof. intros f its. induction its as [|a t IH]; simpl; lia. Qed.

Lemma pmaxl_ge : forall f its it, In it its -> f it <= pmaxl f its.
Proof.
  intros f its it. induction its as [|a t IH]; intros H; [destruct H|]. simpl. destruct H as [H|H]; [subst; lia|].
  specialize (IH H). lia.
Qed.

Lemma pmaxl_le : forall f its B, 0 <= B -> (forall it, In it its -> f it <= B) -> pmaxl f its <= B.
Proof.
  intros f its B HB. induction its as [|a t IH]; intros H; simpl; [exact HB|].
  assert (f a <= B) by (apply H; left; reflexivity). assert (pmaxl f t <= B) by (apply IH; intros; apply H; right; assumption). lia.
Qed.

Fixpoint lsum (f : ncid -> Z) (ns : list ncid) : Z := match ns with [] => 0 | n :: t => f n + lsum f t end.

Lemma lsum_ext : forall f g ns, (forall n, In n ns -> f n = g n) -> lsum f ns = lsum g ns.
Proof.
  intros f g ns. induction ns as [|a t IH]; intros H; simpl; [reflexivity|].
  rewrite (H a (or_introl eq_refl)), IH; [reflexivity|]. intros n Hn. apply H. right. exact Hn.
Qed.

Lemma lsum_upd : forall f g ns n, NoDup ns -> In n ns -> (forall n', n' <> n -> g n' = f n') ->
  lsum g ns = lsum f ns - f n + g n.
Proof.
  intros f g ns n. induction ns as [|a t IH]; intros Hnd Hin Hg; [destruct Hin|]. inversion Hnd; subst. simpl.
  destruct (String.eqb_spec a n) as [E|E].
  - subst a. assert (lsum g t = lsum f t). { apply lsum_ext. intros n' Hn'. apply Hg. intros ->. contradiction. } lia.
  - destruct Hin as [Hin|Hin]; [congruence|]. rewrite (IH H2 Hin Hg). rewrite (Hg a E). lia.
Qed.

Lemma lsum_nonneg : forall f ns, (forall n, 0 <= f n) -> 0 <= lsum f ns.
Proof. intros f ns H. induction ns as [|a t IH]; simpl; [lia|]. specialize (H a). lia. Qed.

Lemma posd_nonneg_id : forall d, 0 <= d -> posd d = d.
Proof. intros d H. unfold posd. destruct (0 <? d) eqn:E; [reflexivity|]. apply Z.ltb_ge in E. lia. Qed.

Lemma find_cons_some : forall it new c, find_cons it new = Some c -> In (it, c) new.
Proof.
  intros it new c H. unfold find_cons in H. destruct (find (fun p => String.eqb (fst p) it) new) as [[it' c']|] eqn:E; [|discriminate].
  apply find_some in E. destruct E as [Hin He]. simpl in He. apply String.eqb_eq in He. inversion H; subst. exact Hin.
Qed.

Lemma find_cons_none : forall it new, find_cons it new = None -> ~ In it (map fst new).
Proof.
  intros it new H Hin. unfold find_cons in H. destruct (find (fun p => String.eqb (fst p) it) new) eqn:E; [discriminate|].
  apply in_map_iff in Hin. destruct Hin as [[it' c] [He Hin]]. simpl in He. subst it'.
  apply (find_none _ _ E) in Hin. simpl in Hin. rewrite String.eqb_refl in Hin. discriminate.
Qed.

Lemma add_its_in : forall new its it, In it (add_its new its) <-> In it its \/ In it (map fst new).
Proof.
  unfold add_its. induction new as [|[a c] t IH]; intros its it; simpl; [tauto|]. rewrite IH. simpl.
  destruct (mem a its) eqn:E.
  - apply mem_In in E. split; [intros [H|H]; [left; exact H | right; right; exact H] | intros [H|[H|H]]; [left; exact H | subst; left; exact E | right; exact H]].
  - rewrite in_app_iff. simpl. tauto.
Qed.

Section Ledger.
  Variable ns : list ncid.
  Hypothesis ns_nodup : NoDup ns.

  (* what is charged equals a fresh recomputation: the sum over NodeClaims of the maximum over their instance types *)
  Definition LInv (l : ledger) : Prop :=
    (forall k, l_used l k = lsum (fun n => pmax l n k) ns) /\
    (forall n it k, ~ In it (l_its l n) -> l_stored l n it k = 0) /\
    (forall n it k, 0 <= l_stored l n it k).

  Definition cons_nonneg (new : list (ity * cons)) : Prop := forall it c, In (it, c) new -> forall k, 0 <= look k c.

  Lemma linit_inv : LInv linit.
  Proof.
    split; [|split]; simpl; intros; try lia; try reflexivity.
    unfold pmax. simpl. induction ns as [|a t IH]; simpl; [reflexivity|]. inversion ns_nodup; subst. rewrite <- IH; [reflexivity | assumption].
  Qed.

  Lemma lcommit_stored_ge : forall l n new n' it k, cons_nonneg new ->
    l_stored l n' it k <= l_stored (lcommit l n new) n' it k.
  Proof.
    intros l n new n' it k Hnn. unfold lcommit. destruct (is_nil new); [lia|]. simpl.
    destruct (String.eqb n' n); [|lia]. destruct (find_cons it new) as [c|] eqn:E; [|lia].
    specialize (Hnn it c (find_cons_some _ _ _ E) k). lia.
  Qed.

  Lemma lcommit_its : forall l n new n', l_its (lcommit l n new) n' = if String.eqb n' n then add_its new (l_its l n) else l_its l n'.
  Proof.
    intros l n new n'. unfold lcommit. destruct new as [|p t]; simpl; [|reflexivity].
    destruct (String.eqb_spec n' n); [subst; reflexivity | reflexivity].
  Qed.

  Lemma lcommit_other : forall l n new n' k, n' <> n -> pmax (lcommit l n new) n' k = pmax l n' k.
  Proof.
    intros l n new n' k Hne. unfold pmax. rewrite lcommit_its. apply String.eqb_neq in Hne. rewrite Hne.
    unfold lcommit. destruct (is_nil new); [reflexivity|]. simpl. rewrite Hne. reflexivity.
  Qed.

  Lemma lcommit_used : forall l n new k,
    l_used (lcommit l n new) k = l_used l k + posd (pmax (lcommit l n new) n k - pmax l n k).
  Proof.
    intros l n new k. unfold lcommit. destruct (is_nil new) eqn:E; simpl.
    - rewrite Z.sub_diag. unfold posd. simpl. lia.
    - reflexivity.
  Qed.

  Lemma lcommit_pmax_ge : forall l n new k, LInv l -> cons_nonneg new -> pmax l n k <= pmax (lcommit l n new) n k.
  Proof.
    intros l n new k Hinv Hnn. unfold pmax at 1. apply pmaxl_le; [apply pmaxl_nonneg|]. intros it Hit.
    eapply Z.le_trans; [apply (lcommit_stored_ge l n new n it k Hnn)|].
    apply (pmaxl_ge (fun it0 => l_stored (lcommit l n new) n it0 k)). rewrite lcommit_its, String.eqb_refl. apply add_its_in. left. exact Hit.
  Qed.

  Lemma lcommit_inv : forall l n new, LInv l -> In n ns -> cons_nonneg new -> LInv (lcommit l n new).
  Proof.
    intros l n new Hinv Hn Hnn. assert (Hinv' := Hinv). destruct Hinv' as [Hu [Hz Hp]]. split; [|split].
    - intros k. rewrite lcommit_used, Hu. rewrite posd_nonneg_id by (assert (H := lcommit_pmax_ge l n new k Hinv Hnn); lia).
      rewrite (lsum_upd (fun n0 => pmax l n0 k) (fun n0 => pmax (lcommit l n new) n0 k) ns n ns_nodup Hn); [lia|].
      intros n' Hne. apply lcommit_other. exact Hne.
    - intros n' it k Hni. rewrite lcommit_its in Hni. unfold lcommit. destruct (is_nil new) eqn:En.
      + apply Hz. destruct new; [|discriminate]. simpl in Hni. destruct (String.eqb_spec n' n); [subst|]; exact Hni.
      + simpl. destruct (String.eqb_spec n' n) as [E|E]; [|apply Hz; exact Hni]. subst n'.
        assert (Hx : ~ In it (l_its l n) /\ ~ In it (map fst new)).
        { split; intros Hx; apply Hni; apply add_its_in; [left|right]; exact Hx. }
        destruct Hx as [H1 H2]. destruct (find_cons it new) as [c|] eqn:Ef.
        * exfalso. apply H2. apply in_map_iff. exists (it, c). split; [reflexivity | apply find_cons_some; exact Ef].
        * apply Hz. exact H1.
    - intros n' it k. eapply Z.le_trans; [apply Hp | apply lcommit_stored_ge; exact Hnn].
  Qed.

  Lemma lrelease_pmax_le : forall l n its k, LInv l -> pmax (lrelease l n its) n k <= pmax l n k.
  Proof.
    intros l n its k [_ [_ Hp]]. unfold pmax at 1. apply pmaxl_le; [apply pmaxl_nonneg|]. intros it Hit. simpl in *.
    rewrite String.eqb_refl in *. apply filter_In in Hit. destruct Hit as [Hit Hm]. apply negb_true_iff in Hm. rewrite Hm. simpl.
    apply (pmaxl_ge (fun it0 => l_stored l n it0 k)). exact Hit.
  Qed.

  Lemma lrelease_other : forall l n its n' k, n' <> n -> pmax (lrelease l n its) n' k = pmax l n' k.
  Proof. intros l n its n' k Hne. unfold pmax. simpl. apply String.eqb_neq in Hne. rewrite Hne. reflexivity. Qed.

  Lemma lrelease_inv : forall l n its, LInv l -> In n ns -> LInv (lrelease l n its).
  Proof.
    intros l n its Hinv Hn. assert (Hinv' := Hinv). destruct Hinv' as [Hu [Hz Hp]]. split; [|split].
    - intros k. change (l_used (lrelease l n its) k) with (l_used l k - posd (pmax l n k - pmax (lrelease l n its) n k)).
      rewrite posd_nonneg_id by (assert (H := lrelease_pmax_le l n its k Hinv); lia). rewrite Hu.
      rewrite (lsum_upd (fun n0 => pmax l n0 k) (fun n0 => pmax (lrelease l n its) n0 k) ns n ns_nodup Hn); [lia|].
      intros n' Hne. apply lrelease_other. exact Hne.
    - intros n' it k Hni. simpl in *. destruct (String.eqb_spec n' n) as [E|E]; simpl; [|apply Hz; exact Hni]. subst n'.
      destruct (mem it its) eqn:Em; [reflexivity|]. apply Hz. intros Hx. apply Hni. apply filter_In. split; [exact Hx | rewrite Em; reflexivity].
    - intros n' it k. simpl. destruct (String.eqb n' n && mem it its); [lia | apply Hp].
  Qed.

  (* a guarded commit keeps every budget respected *)
  Lemma lcommit_within : forall budget l n new, LInv l -> In n ns -> lguard budget l new ->
    (forall k, l_used l k <= budget k) -> forall k, l_used (lcommit l n new) k <= budget k.
  Proof.
    intros budget l n new Hinv Hn [Hnd Hg] Hw k. assert (Hnn : cons_nonneg new) by (intros it c Hin k0; apply (Hg it c Hin k0)).
    assert (Hinv' := Hinv). destruct Hinv' as [Hu [Hz Hp]].
    rewrite lcommit_used. rewrite posd_nonneg_id by (assert (H := lcommit_pmax_ge l n new k Hinv Hnn); lia).
    assert (Hb : pmax (lcommit l n new) n k <= budget k - l_used l k + pmax l n k).
    { unfold pmax at 1. assert (H0 := pmaxl_nonneg (fun it => l_stored l n it k) (l_its l n)). fold (pmax l n k) in H0.
      apply pmaxl_le; [specialize (Hw k); lia|]. intros it Hit.
      assert (Hs : l_stored l n it k <= pmax l n k).
      { destruct (in_dec string_dec it (l_its l n)) as [Hi|Hi]; [apply (pmaxl_ge (fun it0 => l_stored l n it0 k)); exact Hi | rewrite (Hz n it k Hi); exact H0]. }
      unfold lcommit. destruct (is_nil new); [specialize (Hw k); lia|]. simpl. rewrite String.eqb_refl.
      destruct (find_cons it new) as [c|] eqn:Ef.
      - destruct (Hg it c (find_cons_some _ _ _ Ef) k) as [_ Hle]. lia.
      - specialize (Hw k). lia. }
    lia.
  Qed.

  Lemma lrelease_within : forall budget l n its, LInv l -> (forall k, l_used l k <= budget k) ->
    forall k, l_used (lrelease l n its) k <= budget k.
  Proof.
    intros budget l n its Hinv Hw k. change (l_used (lrelease l n its) k) with (l_used l k - posd (pmax l n k - pmax (lrelease l n its) n k)).
    rewrite posd_nonneg_id by (assert (H := lrelease_pmax_le l n its k Hinv); lia).
    assert (H := lrelease_pmax_le l n its k Hinv). specialize (Hw k). lia.
  Qed.

  Lemma LInv_used_nonneg : forall l k, LInv l -> 0 <= l_used l k.
  Proof. intros l k [Hu _]. rewrite Hu. apply lsum_nonneg. intros n. apply pmaxl_nonneg. Qed.
End Ledger.

Inductive lop := LCommit (n : ncid) (new : list (ity * cons)) | LRelease (n : ncid) (its : list ity).

Definition lstep (l : ledger) (o : lop) : ledger :=
  match o with LCommit n new => lcommit l n new | LRelease n its => lrelease l n its end.

Definition lop_nc (o : lop) : ncid := match o with LCommit n _ | LRelease n _ => n end.

(* every commit of the sequence passes the allocator's check in the state it is applied to *)
Fixpoint lguarded (budget : key -> Z) (l : ledger) (ops : list lop) : Prop :=
  match ops with
  | [] => True
  | o :: r => (match o with LCommit _ new => lguard budget l new | LRelease _ _ => True end) /\ lguarded budget (lstep l o) r
  end.

Lemma lrun_budget : forall budget ns ops l, NoDup ns -> (forall o, In o ops -> In (lop_nc o) ns) ->
  LInv ns l -> (forall k, l_used l k <= budget k) -> lguarded budget l ops ->
  let l' := fold_left lstep ops l in
  LInv ns l' /\ forall k, 0 <= l_used l' k <= budget k.
Proof.
  intros budget ns ops. induction ops as [|o r IH]; intros l Hnd Hn Hinv Hw Hg; simpl.
  - split; [exact Hinv|]. intros k. split; [eapply LInv_used_nonneg; eauto | apply Hw].
  - simpl in Hg. destruct Hg as [Ho Hr]. assert (Hin : In (lop_nc o) ns) by (apply Hn; left; reflexivity).
    apply IH; [exact Hnd | intros o' Ho'; apply Hn; right; exact Ho' | | | exact Hr].
    + destruct o as [n new|n its]; simpl in *.
      * apply lcommit_inv; [exact Hnd | exact Hinv | exact Hin|]. destruct Ho as [_ Hg]. intros it c Hc k. apply (Hg it c Hc k).
      * apply lrelease_inv; assumption.
    + destruct o as [n new|n its]; simpl in *.
      * eapply lcommit_within; eauto.
      * eapply lrelease_within; eauto.
Qed.

(* counters: remaining = initial - charged never goes below zero; capacity: preallocated + inflight never exceeds the
   device capacity (budget = capacity - preallocated); and what is charged is exactly the worst case over each
   NodeClaim's remaining instance types *)
Lemma budgets_respected_l : forall budget ns ops, NoDup ns -> (forall o, In o ops -> In (lop_nc o) ns) ->
  (forall k, 0 <= budget k) -> lguarded budget linit ops ->
  let l := fold_left lstep ops linit in
  (forall k, l_used l k = lsum (fun n => pmax l n k) ns) /\ (forall k, 0 <= budget k - l_used l k) /\ (forall k, 0 <= l_used l k <= budget k).
Proof.
  intros budget ns ops Hnd Hn Hb Hg. destruct (lrun_budget budget ns ops linit Hnd Hn (linit_inv ns Hnd) (fun k => Hb k) Hg) as [[Hu _] Hw].
  split; [exact Hu|]. split; [intros k; specialize (Hw k); lia | exact Hw].
Qed.

(* the tracker applies the two ledgers component-wise *)
Definition xop_cnt (o : xop) : list lop :=
  match o with XCommit n _ cnt _ _ => [LCommit n cnt] | XRelease n its => [LRelease n its] | XIsAlloc _ _ _ => [] end.
Definition xop_cap (o : xop) : list lop :=
  match o with XCommit n _ _ cap _ => [LCommit n cap] | XRelease n its => [LRelease n its] | XIsAlloc _ _ _ => [] end.

Lemma xrun_ledgers : forall ops x x', xrun x ops = Some x' ->
  x_cnt x' = fold_left lstep (flat_map xop_cnt ops) (x_cnt x) /\ x_cap x' = fold_left lstep (flat_map xop_cap ops) (x_cap x).
Proof.
  induction ops as [|o r IH]; intros x x' H; simpl in H.
  - inversion H; subst. split; reflexivity.
  - destruct (fst (xstep x o)) as [x1|] eqn:E; [|discriminate]. destruct (IH x1 x' H) as [H1 H2]. rewrite H1, H2. clear IH H H1 H2.
    destruct o as [n devs cnt cap tmpl|n its|d n it]; simpl in *.
    + destruct (dcommit (x_excl x) n devs); simpl in E; [|discriminate]. inversion E; subst. split; reflexivity.
    + destruct (drelease (x_excl x) n its); simpl in E; [|discriminate]. inversion E; subst. split; reflexivity.
    + inversion E; subst. split; reflexivity.
Qed.

(* ==================================================================================================== *)
(* a proposal that passed the allocator's guard never reaches a panic of Commit                          *)
(* ==================================================================================================== *)
Lemma dcommit1_guarded : forall t n it d, DInv t -> dis_allocated t d n it = false -> exists t', dcommit1 t n it d = Some t'.
Proof.
  intros t n it d Hinv Hg. unfold dcommit1, dis_allocated in *. destruct (d_template d).
  - rewrite Hg. eexists; reflexivity.
  - destruct (mem (d_name d) (t_pre t)); [discriminate|].
    destruct (mem (d_name d) (t_bync t n it)) eqn:Hb.
    + exfalso. apply mem_In in Hb. destruct (Hinv _ _ _ Hb) as [its [Em Hi]]. rewrite Em, String.eqb_refl in Hg. simpl in Hg.
      apply mem_In in Hi. congruence.
    + destruct (t_meta t (d_name d)) as [[n' its]|]; [|eexists; reflexivity].
      destruct (negb (String.eqb n' n)); [discriminate|]. rewrite Hg. eexists; reflexivity.
Qed.

Lemma dcommit1_keeps_free : forall t n it d t1 d2 it2, dcommit1 t n it d = Some t1 ->
  (String.eqb it2 it && String.eqb (d_name d2) (d_name d) && Bool.eqb (d_template d2) (d_template d)) = false ->
  dis_allocated t d2 n it2 = false -> dis_allocated t1 d2 n it2 = false.
Proof.
  intros t n it d t1 d2 it2 H Hne Hfree. unfold dcommit1 in H. unfold dis_allocated in *.
  destruct (d_template d) eqn:Td.
  - destruct (mem (d_name d) (t_tmpl t n it)); [discriminate|]. inversion H; subst t1; clear H. simpl.
    destruct (d_template d2) eqn:Td2; [|exact Hfree]. unfold set2. rewrite String.eqb_refl. simpl.
    destruct (String.eqb it2 it) eqn:Ei; [|exact Hfree]. apply String.eqb_eq in Ei. subst it2. simpl in Hne.
    rewrite ?andb_true_r in Hne.
    change (mem (d_name d2) (d_name d :: t_tmpl t n it)) with (String.eqb (d_name d2) (d_name d) || mem (d_name d2) (t_tmpl t n it)).
    rewrite Hne. exact Hfree.
  - destruct (mem (d_name d) (t_bync t n it)); [discriminate|].
    assert (Hcase : forall its0, t_meta t (d_name d) = None \/ t_meta t (d_name d) = Some (n, its0) ->
              (t_meta t (d_name d) = None -> its0 = []) ->
              t1 = mkT (t_pre t) (upd (t_meta t) (d_name d) (Some (n, it :: its0))) (set2 (t_bync t) n it (d_name d :: t_bync t n it)) (t_tmpl t) ->
              (if d_template d2 then mem (d_name d2) (t_tmpl t1 n it2)
               else if mem (d_name d2) (t_pre t1) then true
               else match t_meta t1 (d_name d2) with Some (n', its) => if negb (String.eqb n' n) then true else mem it2 its | None => false end) = false).
    { intros its0 Hm Hnil Ht1. subst t1. simpl. destruct (d_template d2) eqn:Td2; [exact Hfree|].
      destruct (mem (d_name d2) (t_pre t)); [discriminate|]. unfold upd. destruct (String.eqb (d_name d2) (d_name d)) eqn:En; [|exact Hfree].
      rewrite String.eqb_refl. simpl. simpl in Hne. rewrite !andb_true_r in Hne. apply String.eqb_eq in En.
      unfold mem. simpl. fold (mem it2 its0). rewrite Hne. simpl.
      destruct Hm as [Hm|Hm].
      - rewrite (Hnil Hm). reflexivity.
      - rewrite En, Hm, String.eqb_refl in Hfree. simpl in Hfree. exact Hfree. }
    destruct (t_meta t (d_name d)) as [[n' its]|] eqn:Em.
    + destruct (String.eqb n' n) eqn:En; simpl in H; [|discriminate]. apply String.eqb_eq in En. subst n'. destruct (mem it its); [discriminate|].
      inversion H; subst t1. apply (Hcase its); [right; reflexivity | discriminate | reflexivity].
    + inversion H; subst t1. apply (Hcase []); [left; reflexivity | reflexivity | reflexivity].
Qed.

Lemma guarded_commit_l_total : forall l t n, DInv t -> guarded_l t n l = true -> exists t', dcommit_l t n l = Some t'.
Proof.
  induction l as [|[it d] r IH]; intros t n Hinv Hg; simpl in *; [eexists; reflexivity|].
  apply andb_prop in Hg. destruct Hg as [Hg Hr]. apply andb_prop in Hg. destruct Hg as [Hfree Hnd].
  apply negb_true_iff in Hfree. apply negb_true_iff in Hnd.
  destruct (dcommit1_guarded t n it d Hinv Hfree) as [t1 E1]. rewrite E1. apply IH; [eapply dcommit1_inv; eauto|].
  clear IH.
  revert Hr Hnd. induction r as [|[it2 d2] r2 IHr]; intros Hr Hnd; simpl in *; [reflexivity|].
  apply andb_prop in Hr. destruct Hr as [Hr1 Hr2]. apply andb_prop in Hr1. destruct Hr1 as [Hf2 Hnd2].
  apply orb_false_elim in Hnd. destruct Hnd as [Hne Hnd].
  apply andb_true_intro. split; [apply andb_true_intro; split|].
  - apply negb_true_iff. apply negb_true_iff in Hf2. eapply dcommit1_keeps_free; eauto.
  - exact Hnd2.
  - apply IHr; assumption.
Qed.

(* ==================================================================================================== *)
(* the DRA oracles decide the specification                                                            *)
(* ==================================================================================================== *)
From KV Require Import C17.Spec C17.DraSpec.

Lemma final_ok_b_spec : forall pre budgets tbudgets recs,
  final_ok_b pre budgets tbudgets recs = true <-> final_ok pre budgets tbudgets recs.
Proof.
  intros pre budgets tbudgets recs. unfold final_ok_b, final_ok. rewrite !andb_true_iff, !forallb_forall. split.
  - intros [[[[H1 H2] H3] H4] H5]. repeat split.
    + intros a b Ha Hb Hex Hta Htb Hd. specialize (H1 a Ha). rewrite forallb_forall in H1. specialize (H1 b Hb).
      rewrite Hex, Hta, Htb, Hd, String.eqb_refl in H1. simpl in H1. apply String.eqb_eq. exact H1.
    + intros a Ha Hex. specialize (H2 a Ha). rewrite Hex in H2. simpl in H2. apply Nat.eqb_eq. exact H2.
    + intros a Ha Hex Hta Hin. specialize (H3 a Ha). rewrite Hex, Hta in H3. simpl in H3. apply negb_true_iff in H3.
      apply mem_In in Hin. congruence.
    + intros k b Hin. specialize (H4 (k, b) Hin). simpl in H4. apply Z.leb_le. exact H4.
    + intros k b n it Hin Hn Hit. specialize (H5 (k, b) Hin). simpl in H5. rewrite forallb_forall in H5. specialize (H5 n Hn).
      rewrite forallb_forall in H5. apply Z.leb_le. apply H5. exact Hit.
  - intros [H1 [H2 [H3 [H4 H5]]]]. repeat split.
    + intros a Ha. apply forallb_forall. intros b Hb.
      destruct (r_excl a) eqn:Hex; [|reflexivity]. destruct (r_tmpl a) eqn:Hta; [reflexivity|]. destruct (r_tmpl b) eqn:Htb; [reflexivity|].
      simpl. destruct (String.eqb (r_dev a) (r_dev b)) eqn:Hd; [|reflexivity]. simpl. apply String.eqb_eq in Hd. apply String.eqb_eq.
      apply (H1 a b Ha Hb Hex Hta Htb Hd).
    + intros a Ha. destruct (r_excl a) eqn:Hex; [|reflexivity]. simpl. apply Nat.eqb_eq. apply H2; assumption.
    + intros a Ha. destruct (r_excl a) eqn:Hex; [|reflexivity]. destruct (r_tmpl a) eqn:Hta; [reflexivity|]. simpl.
      apply negb_true_iff. apply mem_false. apply H3; assumption.
    + intros [k b] Hin. simpl. apply Z.leb_le. apply H4. exact Hin.
    + intros [k b] Hin. simpl. apply forallb_forall. intros n Hn. apply forallb_forall. intros it Hit. apply Z.leb_le. eapply H5; eauto.
Qed.

Lemma budgets_ok_b_spec : forall rem infl capb tused tb,
  budgets_ok_b rem infl capb tused tb = true <-> budgets_ok rem infl capb tused tb.
Proof.
  intros rem infl capb tused tb. unfold budgets_ok_b, budgets_ok. rewrite !andb_true_iff, !forallb_forall. split.
  - intros [[H1 H2] H3]. repeat split.
    + intros k v Hin. specialize (H1 (k, v) Hin). simpl in H1. apply Z.leb_le. exact H1.
    + intros k v Hin. specialize (H2 (k, v) Hin). simpl in H2. destruct (assoc k capb); [apply Z.leb_le; exact H2 | discriminate].
    + intros n it k v Hin. specialize (H3 (n, it, k, v) Hin). simpl in H3. destruct (assoc k tb); [apply Z.leb_le; exact H3 | discriminate].
  - intros [H1 [H2 H3]]. repeat split.
    + intros [k v] Hin. simpl. apply Z.leb_le. eapply H1; eauto.
    + intros [k v] Hin. simpl. specialize (H2 k v Hin). destruct (assoc k capb); [apply Z.leb_le; exact H2 | contradiction].
    + intros [[[n it] k] v] Hin. simpl. specialize (H3 n it k v Hin). destruct (assoc k tb); [apply Z.leb_le; exact H3 | contradiction].
Qed.

Definition lrun (ops : list lop) : ledger := fold_left lstep ops linit.

Lemma counters_nonnegative_l : forall rem0 ns ops, NoDup ns -> (forall o, In o ops -> In (lop_nc o) ns) ->
  (forall k, 0 <= rem0 k) -> lguarded rem0 linit ops ->
  forall k, 0 <= rem0 k - l_used (lrun ops) k /\ l_used (lrun ops) k = lsum (fun n => pmax (lrun ops) n k) ns.
Proof.
  intros rem0 ns ops Hnd Hn Hb Hg k. destruct (budgets_respected_l rem0 ns ops Hnd Hn Hb Hg) as [Hu [Hr _]]. split; [apply Hr | apply Hu].
Qed.

Lemma capacity_within_l : forall capacity pre ns ops, NoDup ns -> (forall o, In o ops -> In (lop_nc o) ns) ->
  (forall k, 0 <= pre k <= capacity k) -> lguarded (fun k => capacity k - pre k) linit ops ->
  forall k, pre k + l_used (lrun ops) k <= capacity k /\ 0 <= l_used (lrun ops) k /\
            l_used (lrun ops) k = lsum (fun n => pmax (lrun ops) n k) ns.
Proof.
  intros capacity pre ns ops Hnd Hn Hb Hg k.
  destruct (budgets_respected_l (fun k => capacity k - pre k) ns ops Hnd Hn (fun k => ltac:(specialize (Hb k); lia)) Hg) as [Hu [_ Hw]].
  specialize (Hw k). fold (lrun ops) in *. split; [lia|]. split; [lia | apply Hu].
Qed.

Lemma guarded_commit_total : forall t n its, DInv t -> guarded t n its = true -> exists t', dcommit t n its = Some t'.
Proof. intros t n its Hinv Hg. unfold dcommit, guarded in *. apply guarded_commit_l_total; assumption. Qed.

(* a claim that an earlier pod of the pass allocated is never sent through the search again *)
Lemma allocated_once_l : forall alloc only_deleting, classify alloc only_deleting true <> CUnalloc.
Proof. intros [|] [|]; simpl; discriminate. Qed.

Lemma allocated_once_before_fix_refuted_l : exists alloc only_deleting, classify_before_fix alloc only_deleting true = CUnalloc.
Proof. exists true, true. reflexivity. Qed.

(* a claim whose consumers are all being deleted is allocated afresh exactly once, the first time it is seen *)
Lemma migrating_claim_reallocated_first_l : classify true true false = CUnalloc /\ classify true true true = CInMemory.
Proof. split; reflexivity. Qed.
