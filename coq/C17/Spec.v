(* C17 — the property as a specification over what can be observed of a scheduling pass: the capacity map and
   the holders of the reservation manager, and per new NodeClaim the reservation-id / capacity-type requirements
   it was finalised with. Written against the property text, not against the code. [*_b] are the boolean
   oracles evaluated on the implementation's observations; C17/Proofs.v proves them equivalent to the Props. *)
From KV Require Import C17.Model.
Open Scope string_scope.
Open Scope Z_scope.

(* observation of the manager: remaining capacity per id, (NodeClaim, id) holder pairs *)
Definition snapshot := (list (rid * Z) * list (host * rid))%type.

Fixpoint assoc (k : string) (l : list (string * Z)) : option Z :=
  match l with [] => None | (k', v) :: t => if String.eqb k k' then Some v else assoc k t end.

Definition pair_mem (h : host) (r : rid) (l : list (host * rid)) : bool :=
  existsb (fun p => String.eqb (fst p) h && String.eqb (snd p) r) l.

Fixpoint dedup (l : list string) : list string :=
  match l with [] => [] | x :: t => if mem x t then dedup t else x :: dedup t end.

(* a reservation's capacity: the least capacity any reserved offering reports for the id *)
Fixpoint spec_cap (offs : list (string * rid * Z)) (r : rid) : option Z :=
  match offs with
  | [] => None
  | (ct, r', n) :: t =>
      if String.eqb ct reserved_ct && String.eqb r' r then
        match spec_cap t r with Some m => Some (Z.min n m) | None => Some n end
      else spec_cap t r
  end.

Definition offs_ids (offs : list (string * rid * Z)) : list rid := map (fun o => snd (fst o)) offs.

(* number of NodeClaims holding r according to the manager's holder pairs *)
Definition held_count (held : list (host * rid)) (r : rid) : Z :=
  cnt (fun h => pair_mem h r held) (dedup (map fst held)).

Definition held_of (h : host) (held : list (host * rid)) : list rid :=
  map snd (filter (fun p => String.eqb (fst p) h) held).

(* (1) never more holders than capacity, and the manager's remaining capacity is capacity - holders *)
Definition snap_holds (offs : list (string * rid * Z)) (s : snapshot) : Prop :=
  forall r c0, spec_cap offs r = Some c0 -> 0 <= c0 ->
    held_count (snd s) r <= c0 /\ assoc r (fst s) = Some (c0 - held_count (snd s) r).

Definition snap_holds_b (offs : list (string * rid * Z)) (s : snapshot) : bool :=
  forallb (fun r => match spec_cap offs r with
                    | Some c0 => if 0 <=? c0 then
                                   (held_count (snd s) r <=? c0) &&
                                   match assoc r (fst s) with Some c => c =? c0 - held_count (snd s) r | None => false end
                                 else true
                    | None => true
                    end) (offs_ids offs).

(* a finalised NodeClaim: name; the reservation ids of the catalogue that its FINAL reservation-id requirement admits
   (None = the NodeClaim carries no reservation-id requirement); "capacity-type In [reserved]"; and the reserved
   offerings that were still compatible with it when its last pod was added *)
Definition fclaim := (host * option (list rid) * bool * list rid)%type.

Definition subset (a b : list string) : bool := forallb (fun x => mem x b) a.
Definition set_eqb (a b : list string) : bool := subset a b && subset b a.

(* (2) a NodeClaim that holds reservations is pinned to reserved capacity with exactly the ids it holds: the launch
   request admits those reservations and no other *)
Definition pinned_ok (held : list (host * rid)) (c : fclaim) : Prop :=
  let '(h, pinned, ctonly, _) := c in
  held_of h held = [] \/
  exists ids, pinned = Some ids /\ (forall r, In r ids <-> In r (held_of h held)) /\ ctonly = true.

Definition pinned_ok_b (held : list (host * rid)) (c : fclaim) : bool :=
  let '(h, pinned, ctonly, _) := c in
  is_nil (held_of h held) ||
  match pinned with Some ids => set_eqb ids (held_of h held) && ctonly | None => false end.

(* (3) strict mode: a NodeClaim that holds no reservation has no compatible reserved offering left to fall back from *)
Definition strict_ok (md : mode) (held : list (host * rid)) (c : fclaim) : Prop :=
  let '(h, _, _, cands) := c in md = Strict -> held_of h held = [] -> cands = [].

Definition strict_ok_b (md : mode) (held : list (host * rid)) (c : fclaim) : bool :=
  let '(h, _, _, cands) := c in
  match md with Strict => negb (is_nil (held_of h held)) || is_nil cands | Fallback => true end.

Definition solve_ok (md : mode) (offs : list (string * rid * Z)) (claims : list fclaim) (s : snapshot) : Prop :=
  snap_holds offs s /\
  (forall c, In c claims -> pinned_ok (snd s) c /\ strict_ok md (snd s) c).

Definition solve_ok_b (md : mode) (offs : list (string * rid * Z)) (claims : list fclaim) (s : snapshot) : bool :=
  snap_holds_b offs s &&
  forallb (fun c => pinned_ok_b (snd s) c && strict_ok_b md (snd s) c) claims.

(* per CanAdd/Add step: what was reserved is compatible reserved capacity, and strict mode never places a pod
   without a reservation while a compatible reserved offering exists *)
Definition placed_ok (md : mode) (ofs cands : list rid) : Prop :=
  (forall r, In r ofs -> In r cands) /\ (md = Strict -> cands <> [] -> ofs <> []).

Definition placed_ok_b (md : mode) (ofs cands : list rid) : bool :=
  subset ofs cands && match md with Strict => is_nil cands || negb (is_nil ofs) | Fallback => true end.

(* template choice: a chosen template is preceded only by templates that cannot take the pod at all *)
Definition choice_ok (outs : list tres) (chosen : option nat) : Prop :=
  match chosen with
  | Some j => nth_error outs j = Some TOk /\ forall i, (i < j)%nat -> nth_error outs i = Some TOther
  | None => True
  end.

Definition tres_eqb (a b : tres) : bool :=
  match a, b with TOk, TOk | TReserved, TReserved | TOther, TOther => true | _, _ => false end.

Definition choice_ok_b (outs : list tres) (chosen : option nat) : bool :=
  match chosen with
  | Some j => match nth_error outs j with Some TOk => true | _ => false end &&
              forallb (fun x => tres_eqb x TOther) (firstn j outs)
  | None => true
  end.
