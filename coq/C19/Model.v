(* C19 — model of
     pkg/utils/nodepool/nodepool.go            OrderByWeight
     pkg/controllers/provisioning/scheduling/scheduler.go
                                               addToNewNodeClaim (+ parallelizeUntil), trySchedule's relaxation loop
     pkg/cloudprovider/types.go                InstanceTypes.OrderByPrice / SatisfiesMinValues / Truncate
     pkg/controllers/provisioning/scheduling/nodeclaimtemplate.go
                                               the lo.Slice(OrderByPrice, 0, MaxInstanceTypes) of ToNodeClaim
   Executable definitions only; proofs are in C19/Proofs.v.
   The requirement algebra (Requirements.IsCompatible, Get, Add) is the shared model Base/Req.v. *)
From Coq Require Export List ZArith Bool String Lia.
From KV Require Export Base.Req.
Export ListNotations.
Open Scope Z_scope.

(* ------------------------------------------------------------------ sort.Slice *)

(* sort.Slice(xs, less) is not stable; what the code relies on is only that the result is a
   permutation of the input in which no element is [less] than an earlier one.  The executable
   model is an insertion sort (one admissible result); the relational reading is [Proofs.allowed]. *)
Section Sort.
  Context {A : Type} (less : A -> A -> bool).
  Fixpoint insert (x : A) (l : list A) : list A :=
    match l with
    | [] => [x]
    | y :: t => if less y x then y :: insert x t else x :: y :: t
    end.
  Definition isort (l : list A) : list A := fold_right insert [] l.
End Sort.

(* ------------------------------------------------------------------ OrderByWeight *)

(* a NodePool as OrderByWeight sees it: Name and lo.FromPtr(Spec.Weight) (nil = 0) *)
Record pool := mkPool { pname : string; pweight : Z }.

(* Go's `a > b` on strings: bytewise lexicographic *)
Definition str_gt (a b : string) : bool :=
  match String.compare a b with Datatypes.Gt => true | _ => false end.

(* the less function handed to sort.Slice by OrderByWeight *)
Definition pool_less (a b : pool) : bool :=
  if pweight a =? pweight b then str_gt (pname a) (pname b) else pweight b <? pweight a.

Definition order_by_weight (nps : list pool) : list pool := isort pool_less nps.

(* ------------------------------------------------------------------ Provisioner.NewScheduler: which pools get a template *)

(* the root Ready condition of the NodePool as stored in the API *)
Inductive readiness :=
| RTrue | RFalse
| RUnknown      (* Ready=Unknown: NodeClassReady / ValidationSucceeded not decided yet *)
| RAbsent.      (* no Ready condition at all (status not written yet) *)

(* np_managed: the pool's nodeClassRef names a NodeClass kind of this provider (nodepoolutils.ListManaged) *)
Record npool := mkNP { np_pool : pool; np_ready : readiness; np_static : bool; np_deleting : bool; np_managed : bool }.

Definition is_rtrue (r : readiness) : bool := match r with RTrue => true | _ => false end.

(* ListManaged, then lo.Filter in NewScheduler: !IsStatic, StatusConditions().IsTrue(Ready), DeletionTimestamp.IsZero() *)
Definition eligible (n : npool) : bool :=
  np_managed n && negb (np_static n) && is_rtrue (np_ready n) && negb (np_deleting n).

(* the pools the scheduler builds templates for, in template order *)
Definition scheduler_pools (nps : list npool) : list pool :=
  order_by_weight (map np_pool (filter eligible nps)).

(* ------------------------------------------------------------------ addToNewNodeClaim *)

(* what evaluating template i for the pod yields (NewNodeClaim + CanAdd, after the limit filters) *)
Inductive outcome :=
| OOk          (* err == nil *)
| OErr         (* any error that is not a ReservedOfferingError: the worker goes on *)
| OReserved.   (* IsReservedOfferingError(err): no fall-through to later templates *)

Inductive decision :=
| Chosen (i : nat)      (* newNodeClaim = the claim built from template i *)
| Blocked (i : nat)     (* idx = i, newNodeClaim = nil: multierr.Combine(errs) is returned *)
| Exhausted.            (* no template produced a claim or a reserved-offering error *)

(* one worker: the first template, in slice order, whose evaluation is not a plain error decides *)
Fixpoint decide (i : nat) (os : list outcome) : decision :=
  match os with
  | [] => Exhausted
  | OOk :: _ => Chosen i
  | OReserved :: _ => Blocked i
  | OErr :: t => decide (S i) t
  end.
Definition add_to_new (os : list outcome) : decision := decide 0 os.

(* ---- parallelizeUntil(workers, pieces, doWorkPiece) at the granularity of
        "a worker takes the next piece off the channel" / "a worker finishes its piece"
        (the part of doWorkPiece that touches shared variables runs under the mutex, so the
        completion of a piece is one atomic step). ---- *)
Inductive wst := Idle | Busy (i : nat) | Dead.

Record pst := mkP {
  nxt : nat;               (* pieces 0..nxt-1 have been received from the channel *)
  ws : list wst;
  idx : option nat;        (* None = math.MaxInt *)
  sel : option nat         (* newNodeClaim: Some i = claim of template i, None = nil *)
}.

Fixpoint upd {A} (n : nat) (x : A) (l : list A) : list A :=
  match l, n with
  | [], _ => []
  | _ :: t, O => x :: t
  | h :: t, S n' => h :: upd n' x t
  end.

Definition idx_gt (i : nat) (o : option nat) : bool :=      (* !(i >= idx) *)
  match o with None => true | Some k => (i <? k)%nat end.

(* worker w makes its next move *)
Definition pstep (os : list outcome) (s : pst) (w : nat) : pst :=
  match nth_error (ws s) w with
  | Some Idle =>
      if (nxt s <? length os)%nat
      then mkP (S (nxt s)) (upd w (Busy (nxt s)) (ws s)) (idx s) (sel s)
      else mkP (nxt s) (upd w Dead (ws s)) (idx s) (sel s)          (* channel closed and drained *)
  | Some (Busy i) =>
      match nth i os OErr with
      | OErr => mkP (nxt s) (upd w Idle (ws s)) (idx s) (sel s)     (* return true *)
      | OOk =>
          if idx_gt i (idx s) then mkP (nxt s) (upd w Dead (ws s)) (Some i) (Some i)
          else mkP (nxt s) (upd w Dead (ws s)) (idx s) (sel s)      (* i >= idx: return false *)
      | OReserved =>
          if idx_gt i (idx s) then mkP (nxt s) (upd w Dead (ws s)) (Some i) None
          else mkP (nxt s) (upd w Dead (ws s)) (idx s) (sel s)
      end
  | _ => s
  end.

Definition pinit (workers pieces : nat) : pst :=
  mkP 0 (repeat Idle (Nat.min workers pieces)) None None.     (* if pieces < workers { workers = pieces } *)

Definition prun (os : list outcome) (workers : nat) (sched : list nat) : pst :=
  fold_left (pstep os) sched (pinit workers (length os)).

Definition is_dead (w : wst) : bool := match w with Dead => true | _ => false end.
Definition quiescent (s : pst) : bool := forallb is_dead (ws s).       (* wg.Wait() returned *)

Definition pdecision (s : pst) : decision :=
  match sel s, idx s with
  | Some i, _ => Chosen i
  | None, Some i => Blocked i
  | None, None => Exhausted
  end.

(* ---- trySchedule: the pod is tried as it is, then relaxed one preference at a time; every
        level is a full addToNewNodeClaim over all templates.  A level is the outcome vector of the
        templates for the pod at that level.  (Existing/in-flight capacity is not part of C19.) ---- *)
Inductive sched_result :=
| Placed (level i : nat)       (* template i at relaxation level [level] *)
| Deferred (level i : nat)     (* reserved-offering error: returned without relaxing *)
| Failed.

Fixpoint try_schedule (lvl : nat) (levels : list (list outcome)) : sched_result :=
  match levels with
  | [] => Failed
  | os :: rest =>
      match add_to_new os with
      | Chosen i => Placed lvl i
      | Blocked i => Deferred lvl i
      | Exhausted => try_schedule (S lvl) rest
      end
  end.

(* ------------------------------------------------------------------ prices *)

(* float64 prices in units of 2^-10 (the generators only emit such dyadic values); Inf = math.MaxFloat64 *)
Inductive price := Fin (p : Z) | Inf.

Definition price_lt (a b : price) : bool :=
  match a, b with
  | Fin x, Fin y => x <? y
  | Fin _, Inf => true
  | Inf, _ => false
  end.

Record offering := mkOff { oreqs : reqs; oprice : Z; oavail : bool }.
Record itype := mkIT { iname : string; ireqs : reqs; ioffs : list offering }.

(* the loop of OrderByPrice's less function for one instance type *)
Definition price_key (allow : list string) (rq : reqs) (it : itype) : price :=
  fold_left (fun acc o =>
    if oavail o && compatible allow rq (oreqs o) && price_lt (Fin (oprice o)) acc then Fin (oprice o) else acc)
    (ioffs it) Inf.

Definition order_by_price (allow : list string) (rq : reqs) (its : list itype) : list itype :=
  isort (fun a b => price_lt (price_key allow rq a) (price_key allow rq b)) its.

(* lo.Slice(l, 0, n) *)
Definition lo_slice {A} (l : list A) (n : Z) : list A :=
  if n <=? 0 then [] else firstn (Z.to_nat n) l.
Definition lo_rest {A} (l : list A) (n : Z) : list A :=
  if n <=? 0 then l else skipn (Z.to_nat n) l.

(* ------------------------------------------------------------------ SatisfiesMinValues *)

Definition min_keys (rq : reqs) : list (string * Z) :=
  flat_map (fun kr : string * req => match minv (snd kr) with Some m => [(fst kr, m)] | None => [] end) rq.

Definition has_min_values (rq : reqs) : bool := match min_keys rq with [] => false | _ => true end.

(* valuesForKey[k] after the instance types [pre]: it.Requirements.Get(k).Values() inserted one by one *)
Definition values_for (k : string) (pre : list itype) : list string :=
  fold_left (fun acc it => sunion acc (dedup (vals (get (ireqs it) k)))) pre [].

(* incompatibleKeys after the instance types [pre] (key |-> number of distinct values seen) *)
Definition violated (rq : reqs) (pre : list itype) : list (string * Z) :=
  flat_map (fun km : string * Z =>
    let c := Z.of_nat (length (values_for (fst km) pre)) in
    if c <? snd km then [(fst km, c)] else []) (min_keys rq).

Fixpoint smv_loop (rq : reqs) (pre rest : list itype) : nat * list (string * Z) * bool :=
  match rest with
  | [] =>
      match violated rq pre with
      | [] => (length pre, [], false)                        (* return len(its), nil, nil *)
      | v => (length pre, v, true)                           (* incompatible keys left: error *)
      end
  | it :: t =>
      let pre' := pre ++ [it] in
      match violated rq pre' with
      | [] => (length pre', [], false)                       (* return i + 1, nil, nil *)
      | _ => smv_loop rq pre' t
      end
  end.

(* (minNeededInstanceTypes, unsatisfiableMinValues, err != nil) *)
Definition satisfies_min_values (rq : reqs) (its : list itype) : nat * list (string * Z) * bool :=
  if has_min_values rq then
    match its with
    | [] => (O, [], false)          (* the loop body never runs, incompatibleKeys stays empty *)
    | _ => smv_loop rq [] its
    end
  else (O, [], false).

Definition smv_err (rq : reqs) (its : list itype) : bool := snd (satisfies_min_values rq its).

(* ------------------------------------------------------------------ Truncate / ToNodeClaim *)

(* Truncate, continued from the order [sorted] that OrderByPrice left the slice in
   (the order among equal price keys is the sort's choice): (result, err == nil) *)
Definition truncate_from (best_effort : bool) (rq : reqs) (sorted : list itype) (n : Z) : list itype * bool :=
  let tr := lo_slice sorted n in
  if has_min_values rq && negb best_effort && smv_err rq tr then (sorted, false) else (tr, true).

Definition truncate (allow : list string) (best_effort : bool) (rq : reqs) (its : list itype) (n : Z)
  : list itype * bool :=
  truncate_from best_effort rq (order_by_price allow rq its) n.

(* ToNodeClaim: the instance-type requirement after
   Requirements.Add(NewRequirementWithFlexibility(instance-type, In, <existing minValues>, names...)) *)
Definition it_label : string := "node.kubernetes.io/instance-type".

Definition to_nodeclaim_req (rq : reqs) (kept : list itype) : req :=
  get (add rq [(it_label, new_req In (minv (get rq it_label)) (map iname kept))]) it_label.
