(* C19 — correspondence check and oracles, evaluated by vm_compute on what the Go harness observed on
   the real OrderByWeight / OrderByPrice / SatisfiesMinValues / Truncate / ToNodeClaim and on
   Provisioner.NewScheduler + Scheduler.Solve. *)
From KV Require Import C19.Model C19.Spec.
Open Scope Z_scope.
Open Scope string_scope.

(* ---- what the harness observed for one pod ---- *)
Inductive sobs :=
| SPlaced (pool : string)    (* a new NodeClaim of this NodePool was created for the pod *)
| SDeferred                  (* the pod's error is a ReservedOfferingError *)
| SFailed.                   (* any other pod error *)

Inductive case :=
| CaseWeight (pools : list pool) (out : list string)
| CasePrice (allow : list string) (rq : reqs) (its : list itype) (n : Z) (best_effort : bool)
            (full : list string)                       (* the slice after the call: the order OrderByPrice left *)
            (res : list string) (ok : bool)            (* Truncate's result, err == nil *)
            (smv : nat * list (string * Z) * bool)     (* SatisfiesMinValues on [full] *)
| CaseToNC (allow : list string) (rq : reqs) (its : list itype) (n : Z)
           (full : list string)                       (* InstanceTypeOptions after the call(s): the order the sort left *)
           (sent : list string) (mv : option Z)        (* instance-type requirement of the emitted NodeClaim *)
| CaseSolve (pools : list npool)                       (* every NodePool in the API: Ready condition, static, deleting *)
            (levels : list (list (string * outcome)))  (* per relaxation level: outcome of each pool's template alone *)
            (obs : list (Z * sobs))                     (* per worker count: what Solve did with the pod *)
(* the same observation judged by the strict reading of the property text (a separate case so that the known
   finding attached to it can never hide a failure of the checks above) *)
| CaseStrict (pools : list npool) (levels : list (list (string * outcome))) (obs : list (Z * sobs)).

Definition tag (b : bool) (t : string) : list string := if b then [] else [t].

Fixpoint list_eqb {A} (eq : A -> A -> bool) (a b : list A) : bool :=
  match a, b with
  | [], [] => true
  | x :: a', y :: b' => eq x y && list_eqb eq a' b'
  | _, _ => false
  end.

Definition set_eqb (a b : list string) : bool :=
  forallb (fun x => mem x b) a && forallb (fun x => mem x a) b && Nat.eqb (length a) (length b).

Fixpoint nodupb (l : list string) : bool :=
  match l with [] => true | x :: t => negb (mem x t) && nodupb t end.

Definition optZ_eqb (a b : option Z) : bool :=
  match a, b with Some x, Some y => Z.eqb x y | None, None => true | _, _ => false end.

Definition lookup_it (its : list itype) (n : string) : option itype :=
  List.find (fun it => String.eqb (iname it) n) its.

Fixpoint by_names (its : list itype) (ns : list string) : option (list itype) :=
  match ns with
  | [] => Some []
  | n :: t =>
      match lookup_it its n, by_names its t with
      | Some it, Some r => Some (it :: r)
      | _, _ => None
      end
  end.

Definition kv_eqb (a b : string * Z) : bool := String.eqb (fst a) (fst b) && Z.eqb (snd a) (snd b).

(* the harness sorts the unsatisfiable-keys map by key; the model lists keys in requirement order *)
Definition kvs_eqb (a b : list (string * Z)) : bool :=
  forallb (fun x => existsb (kv_eqb x) b) a && forallb (fun x => existsb (kv_eqb x) a) b
  && Nat.eqb (length a) (length b).

Definition smv_eqb (a b : nat * list (string * Z) * bool) : bool :=
  let '(n1, u1, e1) := a in let '(n2, u2, e2) := b in
  Nat.eqb n1 n2 && kvs_eqb u1 u2 && Bool.eqb e1 e2.

Definition names_minus (all kept : list string) : list string := filter (fun x => negb (mem x kept)) all.

(* ---- Solve ---- *)
Definition outcome_of (lv : list (string * outcome)) (p : pool) : outcome :=
  match List.find (fun x => String.eqb (fst x) (pname p)) lv with Some x => snd x | None => OErr end.

Definition sobs_eqb (a b : sobs) : bool :=
  match a, b with
  | SPlaced x, SPlaced y => String.eqb x y
  | SDeferred, SDeferred | SFailed, SFailed => true
  | _, _ => false
  end.

Definition expected_sobs (ordered : list pool) (levels : list (list outcome)) : sobs :=
  match try_schedule 0 levels with
  | Placed _ i => match nth_error ordered i with Some p => SPlaced (pname p) | None => SFailed end
  | Deferred _ _ => SDeferred
  | Failed => SFailed
  end.

Definition check_case (c : case) : list string :=
  match c with
  | CaseWeight pools out =>
      tag (list_eqb String.eqb (map pname (order_by_weight pools)) out) "corr:order-by-weight"
      ++ tag (match by_pool_names pools out with
              | Some o => weight_sorted_b o && set_eqb (map pname pools) out
              | None => false
              end) "oracle:weight-order"
  | CasePrice allow rq its n be full res ok smv =>
      let key := price_key allow rq in
      match by_names its full, by_names its res with
      | Some fl, Some rs =>
          tag (nodupb (map iname its) && set_eqb (map iname its) full
               && list_eqb price_eqb (map key fl) (map key (order_by_price allow rq its))) "corr:order-by-price"
          ++ tag (let '(r, k) := truncate_from be rq fl n in
                  list_eqb String.eqb (map iname r) res && Bool.eqb k ok) "corr:truncate"
          ++ tag (smv_eqb (satisfies_min_values rq fl) smv) "corr:satisfies-min-values"
          ++ tag (negb ok ||
                  match by_names its (names_minus full res) with
                  | Some dropped => cheapest_b key rs dropped
                                    && Nat.eqb (length rs) (length (lo_slice fl n))
                  | None => false
                  end) "oracle:cheapest-kept"
          ++ tag (negb (ok && has_min_values rq && negb be) || match rs with [] => true | _ => min_values_met_b rq rs end)
                 "oracle:min-values-kept"
      | _, _ => ["corr:names"]
      end
  | CaseToNC allow rq its n full sent mv =>
      let key := price_key allow rq in
      let admitted := filter (fun it : itype => has (get rq it_label) (iname it)) in
      match by_names its full, by_names its sent with
      | Some fl, Some st =>
          let kept := lo_slice fl n in
          let r := to_nodeclaim_req rq kept in
          tag (nodupb (map iname its) && set_eqb (map iname its) full
               && list_eqb price_eqb (map key fl) (map key (order_by_price allow rq its))) "corr:order-by-price"
          ++ tag (set_eqb (if compl r then [] else vals r) sent && optZ_eqb mv (minv r)) "corr:to-nodeclaim"
          ++ tag (match by_names its (names_minus (map iname (admitted its)) sent) with
                  | Some dropped =>
                      (* nothing that the claim's own instance-type requirement admits and that was left out is cheaper,
                         and the cut is not shorter than asked for *)
                      cheapest_b key st dropped
                      && Nat.eqb (length (admitted kept)) (length st)
                  | None => false
                  end) "oracle:cheapest-sent"
      | _, _ => ["corr:names"]
      end
  | CaseSolve pools levels obs =>
      let eligible := map np_pool (filter (fun n => usable_b n) pools) in   (* by the specification, not by the template list *)
      let ordered := scheduler_pools pools in
      let vectors := map (fun lv => map (outcome_of lv) ordered) levels in
      let want := expected_sobs ordered vectors in
      let table := map (fun lv => map (fun p => (p, outcome_of lv p)) eligible) levels in
      tag (forallb (fun o : Z * sobs => sobs_eqb (snd o) want) obs) "corr:solve-pool"
      ++ tag (forallb (fun o : Z * sobs =>
                match snd o with
                | SPlaced p => placed_ok_b table p
                | SDeferred => deferred_ok_b table
                | SFailed => failed_ok_b table
                end) obs) "oracle:weight-priority"
      ++ tag (forallb (fun o : Z * sobs =>
                match snd o with
                | SPlaced p => placed_ready_b pools p
                | _ => true
                end) obs) "oracle:pool-ready"
  | CaseStrict pools levels obs =>
      let eligible := map np_pool (filter (fun n => usable_b n) pools) in
      let table := map (fun lv => map (fun p => (p, outcome_of lv p)) eligible) levels in
      tag (forallb (fun o : Z * sobs =>
                match snd o with
                | SPlaced p => placed_strict_b table p
                | _ => true
                end) obs) "oracle:weight-priority-any-relaxation"
  end.

Definition check_all (cs : list (Z * case)) : list (Z * string) :=
  flat_map (fun ic => map (fun t => (fst ic, t)) (check_case (snd ic))) cs.
