(* C19 — the property side: what "weight and price ordering are honoured" means, written against the
   property text and the documented ordering (not against the code), as Props with boolean
   reflections.  The reflections are the oracles evaluated on the implementation's observations;
   their equivalence with the Props is proved in C19/Proofs.v. *)
From KV Require Import C19.Model.
Open Scope Z_scope.

(* ------------------------------------------------------------------ NodePool priority *)

(* "NodePools that have a larger weight are ordered first; if two NodePools have the same weight, the
   NodePool with the name later in the alphabet comes first" *)
Definition outranks (a b : pool) : Prop :=
  pweight b < pweight a \/ (pweight a = pweight b /\ str_gt (pname a) (pname b) = true).

Definition outranks_b (a b : pool) : bool :=
  (pweight b <? pweight a) || ((pweight a =? pweight b) && str_gt (pname a) (pname b)).

(* no pool is preceded by one it outranks *)
Fixpoint weight_sorted (l : list pool) : Prop :=
  match l with
  | [] => True
  | x :: t => (forall y, List.In y t -> ~ outranks y x) /\ weight_sorted t
  end.

Fixpoint weight_sorted_b (l : list pool) : bool :=
  match l with
  | [] => true
  | x :: t => forallb (fun y => negb (outranks_b y x)) t && weight_sorted_b t
  end.

Fixpoint by_pool_names (pools : list pool) (ns : list string) : option (list pool) :=
  match ns with
  | [] => Some []
  | n :: t =>
      match List.find (fun p => String.eqb (pname p) n) pools, by_pool_names pools t with
      | Some p, Some r => Some (p :: r)
      | _, _ => None
      end
  end.

(* ------------------------------------------------------------------ which pools may be used at all *)

(* "the highest-weight READY NodePool": Ready must be True - not False, not Unknown, not missing - and the pool
   must be a dynamic one of this provider that is not being deleted *)
Definition usable (n : npool) : Prop :=
  np_ready n = RTrue /\ np_static n = false /\ np_deleting n = false /\ np_managed n = true.

(* the pod's new node comes from the pool named [name]: that name denotes a usable pool, and only usable pools *)
Definition placed_ready (nps : list npool) (name : string) : Prop :=
  (exists n, List.In n nps /\ pname (np_pool n) = name) /\
  (forall n, List.In n nps -> pname (np_pool n) = name -> usable n).
Definition usable_b (n : npool) : bool :=
  match np_ready n with RTrue => true | _ => false end && negb (np_static n) && negb (np_deleting n) && np_managed n.
Definition placed_ready_b (nps : list npool) (name : string) : bool :=
  existsb (fun n => String.eqb (pname (np_pool n)) name) nps &&
  forallb (fun n => negb (String.eqb (pname (np_pool n)) name) || usable_b n) nps.

(* ------------------------------------------------------------------ one pod against the pools *)

Definition is_ok (o : outcome) : bool := match o with OOk => true | _ => false end.
Definition is_err (o : outcome) : bool := match o with OErr => true | _ => false end.
Definition is_reserved (o : outcome) : bool := match o with OReserved => true | _ => false end.

(* for every relaxation level of the pod: what each eligible pool, alone, answers *)
Definition table := list (list (pool * outcome)).

(* every pool that outranks [p] answered with a plain error at this level *)
Definition higher_infeasible (lv : list (pool * outcome)) (p : pool) : Prop :=
  forall q o, List.In (q, o) lv -> outranks q p -> o = OErr.
Definition higher_infeasible_b (lv : list (pool * outcome)) (p : pool) : bool :=
  forallb (fun y : pool * outcome => negb (outranks_b (fst y) p) || is_err (snd y)) lv.

(* The pod got a new node from the pool named [n]: at some relaxation level that pool can host it and
   every pool that outranks it cannot. *)
Definition placed_ok (t : table) (n : string) : Prop :=
  exists lv p, List.In lv t /\ List.In (p, OOk) lv /\ pname p = n /\ higher_infeasible lv p.
Definition placed_ok_b (t : table) (n : string) : bool :=
  existsb (fun lv => existsb (fun x : pool * outcome =>
    String.eqb (pname (fst x)) n && is_ok (snd x) && higher_infeasible_b lv (fst x)) lv) t.

(* The strict reading of the property text: no pool that outranks the chosen one can host the pod at any
   relaxation level (i.e. not even once its preferences are dropped). *)
Definition placed_strict (t : table) (n : string) : Prop :=
  forall lv lv' p q, List.In lv t -> List.In lv' t -> List.In (p, OOk) lv -> pname p = n ->
    List.In (q, OOk) lv' -> ~ outranks q p.
Definition placed_strict_b (t : table) (n : string) : bool :=
  forallb (fun lv => forallb (fun x : pool * outcome =>
    negb (String.eqb (pname (fst x)) n && is_ok (snd x)) ||
    forallb (fun lv' => forallb (fun y : pool * outcome => negb (is_ok (snd y) && outranks_b (fst y) (fst x))) lv') t) lv) t.

(* The pod was deferred with a reserved-offering error: some pool answered so while every pool that
   outranks it was infeasible. *)
Definition deferred_ok (t : table) : Prop :=
  exists lv p, List.In lv t /\ List.In (p, OReserved) lv /\ higher_infeasible lv p.
Definition deferred_ok_b (t : table) : bool :=
  existsb (fun lv => existsb (fun x : pool * outcome => is_reserved (snd x) && higher_infeasible_b lv (fst x)) lv) t.

(* The pod stayed unschedulable: no pool can host it at any level. *)
Definition failed_ok (t : table) : Prop :=
  forall lv p o, List.In lv t -> List.In (p, o) lv -> o = OErr.
Definition failed_ok_b (t : table) : bool :=
  forallb (fun lv => forallb (fun x : pool * outcome => is_err (snd x)) lv) t.

(* ------------------------------------------------------------------ prices *)

Definition price_eqb (a b : price) : bool :=
  match a, b with Fin x, Fin y => x =? y | Inf, Inf => true | _, _ => false end.

(* truncation never drops a cheaper type in favour of a dearer one *)
Definition cheapest {A} (key : A -> price) (kept dropped : list A) : Prop :=
  forall k d, List.In k kept -> List.In d dropped -> price_lt (key d) (key k) = false.
Definition cheapest_b {A} (key : A -> price) (kept dropped : list A) : bool :=
  forallb (fun k => forallb (fun d => negb (price_lt (key d) (key k))) dropped) kept.

(* what sort.Slice may return for the price ranking: any permutation in which no type is cheaper than
   an earlier one *)
Fixpoint price_sorted {A} (key : A -> price) (l : list A) : Prop :=
  match l with
  | [] => True
  | x :: t => (forall y, List.In y t -> price_lt (key y) (key x) = false) /\ price_sorted key t
  end.

(* ------------------------------------------------------------------ minValues *)

Definition distinct_values (k : string) (its : list itype) : list string :=
  dedup (flat_map (fun it => vals (get (ireqs it) k)) its).

(* every requirement with minValues sees at least that many distinct values among the kept types *)
Definition min_values_met (rq : reqs) (its : list itype) : Prop :=
  forall k m, List.In (k, m) (min_keys rq) -> m <= Z.of_nat (length (distinct_values k its)).
Definition min_values_met_b (rq : reqs) (its : list itype) : bool :=
  forallb (fun km : string * Z => snd km <=? Z.of_nat (length (distinct_values (fst km) its))) (min_keys rq).
